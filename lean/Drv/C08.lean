import Bluge.Basic
import Bluge.Layout
/-! Model driver for C08 (line protocol, see go/harness/hlib and go/harness/c08).

* `case L… D=… Q=… S=…` : remembers the logical documents, the queries and the sort orders.
* `recipe …`            : computes, FROM THE LOGICAL DOCUMENTS ALONE, the digest every build of that
  corpus must print (count, per query: ids by both collectors, stored-field hash, aggregations,
  field-sorted tie groups, exact order where the layout is known — through `Layout.multiSearch`, the
  offline writer's directory and document order — through `Layout.offlineRun`), and applies the
  PAIRWISE oracle for everything (scores included): a section that differs from the first recipe of the
  case is `bad:layout-dependent…`. The digest comes from a view of the index that does not recycle term
  field readers; `hist=` is the harness's probe of the recycling reader (three rounds of the same
  requests must return the same ids).
* `recipe … backup=1 bkfail=…|bkcancel=1 @ … bkin=…` : additionally the `bk=` section — what a backup that is cut short
  leaves in the target, that no reader opens it, and that the backup run again opens (`Layout.backup`, `BDir.openReader`).
* `opt …`               : the model of the rewrites of index/optimize.go (`Layout.conjFinish`,
  `disjFinish`, `pushdown`, `rewrittenMin`) on the observed per-segment iterator shapes. -/
open Bluge Bluge.Layout

namespace C08

/-! ## small string helpers -/

def dropPrefix? (s pre : String) : Option String :=
  let a := s.toList; let b := pre.toList
  if b.isPrefixOf a then some (String.ofList (a.drop b.length)) else none

def trimS (s : String) : String :=
  String.ofList ((s.toList.dropWhile (· == ' ')).reverse.dropWhile (· == ' ')).reverse

def joinOrDash (xs : List String) (sep : String) : String :=
  if xs.isEmpty then "-" else sep.intercalate xs

def splitNonEmpty (s : String) (sep : String) : List String := (s.splitOn sep).filter (· ≠ "")

/-- `k=v` fields of a space separated line -/
def kvs (ws : List String) : List (String × String) :=
  ws.filterMap fun w => match w.splitOn "=" with
    | k :: v :: rest => some (k, "=".intercalate (v :: rest))
    | _ => none

def look (m : List (String × String)) (k : String) : String :=
  match m.find? (·.1 == k) with | some p => p.2 | none => ""

def hexNat (n : Nat) : String :=
  if n == 0 then "0" else
  let rec go (fuel n : Nat) (acc : List Char) : List Char :=
    match fuel with
    | 0 => acc
    | f + 1 => if n == 0 then acc else go f (n / 16) (hexDigit (n % 16) :: acc)
  String.ofList (go 64 n [])

def fnv64 (s : String) : UInt64 :=
  s.toUTF8.foldl (fun h b => (h ^^^ b.toUInt64) * 1099511628211) 14695981039346656037

/-! ## documents -/

structure Doc where
  id : String
  idx : Nat
  t : Option (List String)
  k : Option String
  n : Option Int
  deriving Inhabited

def parseDoc (idx : Nat) (s : String) : Doc :=
  match s.splitOn ";" with
  | [] => { id := "?", idx := idx, t := none, k := none, n := none }
  | id :: fs =>
    fs.foldl (fun d f =>
      match dropPrefix? f "t=", dropPrefix? f "k=", dropPrefix? f "n=" with
      | some v, _, _ => { d with t := some (splitNonEmpty v "+") }
      | _, some v, _ => { d with k := some v }
      | _, _, some v => { d with n := v.toInt? }
      | _, _, _ => d) { id := id, idx := idx, t := none, k := none, n := none }

def parseDocs (s : String) : List Doc :=
  if s == "-" || s == "" then [] else
  let parts := s.splitOn "/"
  (List.range parts.length).zip parts |>.map fun p => parseDoc p.1 p.2

/-- the canonical rendering of the stored fields of a document (field names sorted) -/
def Doc.canon (d : Doc) : String :=
  let fs : List String := ["_id=" ++ d.id] ++
    (match d.k with | some v => ["k=" ++ v] | none => []) ++
    (match d.n with | some v => ["n=" ++ toString v] | none => []) ++
    (match d.t with | some ws => ["t=" ++ " ".intercalate ws] | none => [])
  d.id ++ "{" ++ ",".intercalate fs ++ "}"

/-! ## queries -/

inductive Q where
  | all | none_
  | term (field w : String)
  | prefix_ (field p : String)
  | range (lo hi : Option Int) (incLo incHi : Bool)
  | phrase (ws : List String)
  | matchAnd (ws : List String)
  | matchOr (ws : List String)
  | bool (must should mustNot : List Q) (min : Nat)
  | bad
  deriving Inhabited

def takeWords (toks : List String) : List String × List String :=
  match toks with
  | k :: rest => let n := k.toNat?.getD 0; (rest.take n, rest.drop n)
  | [] => ([], [])

mutual
  def parseQ (fuel : Nat) (toks : List String) : Q × List String :=
    match fuel with
    | 0 => (.bad, [])
    | fuel + 1 =>
      match toks with
      | "A" :: r => (.all, r)
      | "N" :: r => (.none_, r)
      | "T" :: f :: w :: r => (.term f w, r)
      | "P" :: f :: p :: r => (.prefix_ f p, r)
      | "R" :: lo :: hi :: fl :: r =>
          let fl := fl.toList
          (.range (if lo == "*" then none else lo.toInt?) (if hi == "*" then none else hi.toInt?)
            (fl.head? == some 'i') (fl.getLast? == some 'i'), r)
      | "H" :: r => let (ws, r') := takeWords r; (.phrase ws, r')
      | "MA" :: r => let (ws, r') := takeWords r; (.matchAnd ws, r')
      | "MO" :: r => let (ws, r') := takeWords r; (.matchOr ws, r')
      | "B" :: nm :: ns :: nn :: mn :: r =>
          let (ms, r1) := parseQs fuel (nm.toNat?.getD 0) r
          let (ss, r2) := parseQs fuel (ns.toNat?.getD 0) r1
          let (ns', r3) := parseQs fuel (nn.toNat?.getD 0) r2
          (.bool ms ss ns' (mn.toNat?.getD 0), r3)
      | _ => (.bad, [])
  def parseQs (fuel : Nat) (n : Nat) (toks : List String) : List Q × List String :=
    match fuel with
    | 0 => ([], toks)
    | fuel + 1 =>
      match n with
      | 0 => ([], toks)
      | n + 1 =>
        let (q, r) := parseQ fuel toks
        let (qs, r') := parseQs fuel n r
        (q :: qs, r')
end

def parseQuery (s : String) : Q := (parseQ 64 (splitNonEmpty s " ")).1

def isInfix (ws l : List String) : Bool :=
  (List.range (l.length + 1)).any fun i => ws.isPrefixOf (l.drop i)

/-- the meaning of a query: a predicate on ONE logical document -/
partial def Q.eval (d : Doc) : Q → Bool
  | .all => true
  | .none_ => false
  | .bad => false
  | .term f w =>
      if f == "t" then (match d.t with | some ws => ws.contains w | none => false)
      else if f == "k" then d.k == some w
      else if f == "_id" then d.id == w else false
  | .prefix_ f p =>
      if f == "t" then (match d.t with | some ws => ws.any (·.startsWith p) | none => false)
      else if f == "k" then (match d.k with | some v => v.startsWith p | none => false) else false
  | .range lo hi il ih =>
      match d.n with
      | none => false
      | some v =>
        (match lo with | none => true | some l => if il then l ≤ v else l < v) &&
        (match hi with | none => true | some h => if ih then v ≤ h else v < h)
  | .phrase ws => !ws.isEmpty && (match d.t with | some l => isInfix ws l | none => false)
  | .matchAnd ws => !ws.isEmpty && (match d.t with | some l => ws.all l.contains | none => false)
  | .matchOr ws => match d.t with | some l => ws.any l.contains | none => false
  | .bool must should mustNot min =>
      let cnt := (should.filter (·.eval d)).length
      -- the code that exists: `minShould > 0` without should clauses is MatchNone (BooleanQuery.Searcher);
      -- without must clauses at least one should clause has to match
      let need := if should.isEmpty then 0 else if must.isEmpty then max 1 min else min
      !(should.isEmpty && min > 0) && must.all (·.eval d) && !mustNot.any (·.eval d) && decide (need ≤ cnt)

/-! ## sorting -/

structure SortKey where
  desc : Bool
  field : Char      -- 'k' or 'n'
  missingFirst : Bool

def parseSort (s : String) : List SortKey :=
  (splitNonEmpty s ":").filterMap fun k =>
    match k.toList with
    | sign :: f :: rest => some { desc := sign == '-', field := f, missingFirst := rest.contains '^' }
    | _ => none

/-- position of `a` relative to `b` in the final order, on one key (the model of the bytewise compare
of the sort values with the replacement terms for a missing value, then `desc` flips) -/
def cmpOpt {α} (cmp : α → α → Ordering) (desc mf : Bool) : Option α → Option α → Ordering
  | none, none => .eq
  | none, some _ => if mf then .lt else .gt
  | some _, none => if mf then .gt else .lt
  | some x, some y => if desc then cmp y x else cmp x y

def cmpKey (sk : SortKey) (a b : Doc) : Ordering :=
  if sk.field == 'k' then cmpOpt (fun (x y : String) => compare x y) sk.desc sk.missingFirst a.k b.k
  else cmpOpt (fun (x y : Int) => compare x y) sk.desc sk.missingFirst a.n b.n

def cmpKeys (sks : List SortKey) (a b : Doc) : Ordering :=
  match sks with
  | [] => .eq
  | sk :: r => match cmpKey sk a b with | .eq => cmpKeys r a b | o => o

/-- `SortOrder.Compare` as a total preorder on (document, hit number) -/
def leHit (sks : List SortKey) (a b : Doc × Nat) : Bool :=
  match cmpKeys sks a.1 b.1 with
  | .lt => true
  | .gt => false
  | .eq => a.2 ≤ b.2

def sortIds (ds : List Doc) : List Doc := ds.mergeSort fun a b => a.idx ≤ b.idx

def idList (ds : List Doc) : String := joinOrDash ((sortIds ds).map (·.id)) ","

/-- tie groups of the matches under a field sort: groups in order, ids inside a group by index -/
def tieGroups (sks : List SortKey) (ms : List Doc) : String :=
  let sorted := ms.mergeSort fun a b => cmpKeys sks a b != .gt
  let groups : List (List Doc) := sorted.foldl (fun acc d =>
    match acc with
    | [] => [[d]]
    | g :: rest => match g with
      | x :: _ => if cmpKeys sks x d == .eq then (d :: g) :: rest else [d] :: acc
      | [] => [d] :: rest) []
  joinOrDash (groups.reverse.map fun g => ",".intercalate ((sortIds g).map (·.id))) "|"

/-! ## aggregations -/

def fmtIntOr (o : Option Int) (dflt : String) : String := match o with | some v => toString v | none => dflt

def aggString (ms : List Doc) : String :=
  let ks := ms.filterMap (·.k)
  let distinct := ks.eraseDups
  let counts := distinct.map fun k => (k, (ks.filter (· == k)).length)
  let tk := (counts.map fun p => p.1 ++ ":" ++ toString p.2).mergeSort (fun a b => a ≤ b)
  let top := ((counts.map (·.2)).mergeSort (fun a b => a ≥ b)).take 2
  let other : Int := (ms.length : Int) - ((top.foldl (· + ·) 0 : Nat) : Int)
  let ns := ms.filterMap (·.n)
  let sum : Int := ns.foldl (· + ·) 0
  let mn := ns.foldl (fun (acc : Option Int) v => match acc with | none => some v | some a => some (min a v)) none
  let mx := ns.foldl (fun (acc : Option Int) v => match acc with | none => some v | some a => some (max a v)) none
  s!"{ms.length}/{joinOrDash tk ","}/{joinOrDash (top.map toString) ","}+{other}/{sum}/{fmtIntOr mn "+Inf"}/{fmtIntOr mx "-Inf"}"

/-! ## the recipe digest -/

structure CaseSt where
  docs : List Doc := []
  queries : List String := []
  sorts : List String := []
  /-- (section key, value, recipe) of the first recipe that printed a digest -/
  ref : List (String × String × String) := []
  /-- per query: the first merge-free scored single-index recipe's scores -/
  refSc : List (String × String × String) := []
  deriving Inhabited

def sectionsOf (s : String) : List (String × List (String × String)) :=
  -- "cnt=3 phys=… ;; q0 ids=… am=… ;; q1 …"  ↦  [("", [(cnt,3),…]), ("q0", […]), …]
  (s.splitOn " ;; ").map fun sec =>
    let ws := splitNonEmpty sec " "
    match ws with
    | w :: rest => if w.contains '=' then ("", kvs ws) else (w, kvs rest)
    | [] => ("", [])

/-- who reads which documents in which order when the corpus is split over k indexes / kept in one -/
def perReader (docs : List Doc) (k : Nat) : List (List Doc) :=
  if k ≤ 1 then [docs] else (List.range k).map fun j => docs.filter fun d => d.idx % k == j

def offlineSection (docs : List Doc) (bs : Nat) : Option String :=
  match offlineRun bs 10 docs with
  | .panic => none
  | .ok r =>
    some ("phys=snp:" ++ hexNat r.snapshotEpoch ++ ";seg:" ++ joinOrDash ((r.segFiles.map hexNat).mergeSort (fun a b => a ≤ b)) ","
      ++ ";ord:" ++ joinOrDash (r.abs.map (·.id)) ",")

/-- the `bk=` section of a backup that was cut short (`bkin=<mode>:<failing Persist or ->:<epoch>:<segment ids>`, read off
the reader's snapshot by the harness): what `Layout.backup` leaves in a FRESH target directory when that `Persist` fails
(segment files, snapshot files), whether `BDir.openReader` opens it, and — when the backup failed and nothing opens —
the backup run again into that directory (`backup none`), which has to open as the snapshot. Segment contents do not
matter for the listing: segments are modelled with no documents. -/
def backupSection (bkin : String) : String :=
  match bkin.splitOn ":" with
  | [_, k, ep, ids] =>
    let idl := (splitNonEmpty ids "+").filterMap String.toNat?
    let s : RSnap Unit := { epoch := ep.toNat?.getD 0, segs := idl.map fun i => { id := i, docs := [], deleted := [] } }
    let r1 := backup k.toNat? s {}
    let lst (l : List Nat) : String := joinOrDash ((l.mergeSort (fun a b => a ≤ b)).map toString) "+"
    let open1 := r1.1.openReader.isSome
    let redo :=
      if !r1.2 && !open1 then
        let r2 := backup none s r1.1
        if r2.2 && r2.1.openReader == some (s.epoch, s.content) then "ok" else "FAILED"
      else "-"
    "ret:" ++ (if r1.2 then "nil" else "err") ++ ";seg:" ++ lst r1.1.segIds ++ ";snp:" ++ lst r1.1.snapEpochs ++
      ";oth:0;open:" ++ (if open1 then "ok" else "err") ++ ";redo:" ++ redo
  | _ => "?"

structure Recipe where
  name : String
  p : List (String × String)
  phys : List (String × String)
  noQuiescence : Bool

def Recipe.get (r : Recipe) (k : String) : String := look r.p k
def Recipe.isOffline (r : Recipe) : Bool := r.get "offline" != "" && r.get "offline" != "-"
def Recipe.multi (r : Recipe) : Nat := (r.get "multi").toNat?.getD 0
def Recipe.merged (r : Recipe) : Bool := look r.phys "merged" == "true"
def Recipe.del (r : Recipe) : Nat := (look r.phys "del").toNat?.getD 0
def Recipe.junk (r : Recipe) : Nat := (r.get "junk").toNat?.getD 0
def Recipe.upd (r : Recipe) : Nat := (r.get "upd").toNat?.getD 0
def Recipe.simple (r : Recipe) : Bool :=
  r.multi > 0 || (!r.isOffline && !r.merged && r.del == 0 && r.junk == 0 && r.upd == 0 && r.get "merge" != "1")
def Recipe.scoreKey (r : Recipe) : String :=
  if r.get "score" == "none" then "-"
  else if r.multi > 0 then "-"
  else if r.isOffline then (if r.merged then "scm" else "sc")
  else if !r.merged && r.del == 0 && r.get "merge" != "1" then "sc"
  else if r.merged && r.del == 0 then "scm" else "-"

def parseRecipe (op : String) : Recipe :=
  let (a, b) := match op.splitOn " @ " with
    | [x] => (x, "")
    | x :: y => (x, " @ ".intercalate y)
    | [] => ("", "")
  let ws := splitNonEmpty a " "
  { name := ws.getD 1 "?", p := kvs (ws.drop 2), phys := kvs (splitNonEmpty b " "),
    noQuiescence := (splitNonEmpty b " ").contains "no-quiescence" }

/-- the model's sections of query `qi`: everything computed from the logical documents; the score
section is filled in by the caller (pairwise) -/
def querySections (st : CaseSt) (r : Recipe) (qs : String) : List (String × String) :=
  let q := parseQuery qs
  let ms := st.docs.filter (q.eval ·)
  let base := [("ids", idList ms), ("am", idList ms),
    ("st", toHex 16 (fnv64 (";".intercalate ((sortIds ms).map Doc.canon))).toNat),
    ("ag", aggString ms)]
  let sorts := ((List.range st.sorts.length).zip st.sorts).flatMap fun p =>
    let sks := parseSort p.2
    let g := [(s!"s{p.1}", tieGroups sks ms)]
    if r.simple then
      -- the layout is known: one collector over the concatenation of the readers' hit sequences
      let per := (perReader st.docs r.multi).map fun ds => ds.filter (q.eval ·)
      let res := multiSearch (leHit sks) per
      g ++ [(s!"x{p.1}", joinOrDash (res.map (·.1.id)) ",")]
    else g
  base ++ sorts

def renderSections (secs : List (String × List (String × String))) : String :=
  " ;; ".intercalate (secs.map fun s =>
    let body := " ".intercalate (s.2.map fun p => p.1 ++ "=" ++ p.2)
    if s.1 == "" then body else s.1 ++ " " ++ body)

def us (s : String) : String := s.replace " " "_"

def recipeStep (st : CaseSt) (op impl : String) : CaseSt × String :=
  let r := parseRecipe op
  let kind :=
    if r.isOffline then "offline" else if r.multi > 0 then "multisearch"
    else if r.get "tailmerge" == "1" then "tail-merge"
    else if r.get "backup" == "1" && r.get "bkfail" != "" then "backup-partial"
    else if r.get "backup" == "1" && r.get "bkcancel" == "1" then "backup-cancel"
    else if r.get "backup" == "1" then "backup" else if r.get "reopen" == "1" then "reopen"
    else if r.get "score" == "none" then "score-none" else if r.get "noopt" != "" then "noopt"
    else if r.get "merge" == "1" then "merge" else if r.get "ver" == "2" then "v2" else "plain"
  let brs := [kind] ++ (if r.merged then ["merged-segment"] else []) ++ (if r.del > 0 then ["pending-deletions"] else [])
    ++ (if look r.phys "tail" == "true" then ["merge-behind-deletions"] else [])
    ++ (if st.docs.isEmpty then ["empty-corpus"] else []) ++ (if r.simple then ["exact-order"] else [])
    ++ (let bkin := look r.phys "bkin"
        if bkin == "" then [] else
        let bk := backupSection bkin
        (if (bk.splitOn "open:err").length > 1 then ["backup-unopenable"] else []) ++
        (if (bk.splitOn "redo:ok").length > 1 then ["backup-resumed"] else []) ++
        (if bkin.startsWith "cancel:-:" then ["backup-cancel-ignored"] else if bkin.startsWith "cancel:" then ["backup-cancel-honoured"] else []))
  let br := " br=" ++ ",".intercalate brs
  -- the model's first section
  let off : Option (Option String) :=
    if r.isOffline then some (offlineSection st.docs ((r.get "offline").toNat?.getD 0)) else none
  if off == some none then
    -- the model of the offline writer panics on this corpus
    -- (when the implementation did NOT panic the two streams differ: a broken correspondence that
    -- asks for the model to be brought up to date, not a counterexample)
    (st, "panic" ++ sep ++ (if impl == "panic" then s!"bad:panic:{r.name}" else "na") ++ br ++ ",model-panic")
  else
  let head : List (String × String) := [("cnt", toString st.docs.length)] ++
    (match off with | some (some s) => (kvs [s]) | _ => []) ++
    (if look r.phys "bkin" == "" then [] else [("bk", backupSection (look r.phys "bkin"))])
  let implSecs := sectionsOf impl
  let implLook (q k : String) : Option String :=
    match implSecs.find? (·.1 == q) with
    | some s => (s.2.find? (·.1 == k)).map (·.2)
    | none => none
  let scKey := r.scoreKey
  let qsecs : List (String × List (String × String)) :=
    ((List.range st.queries.length).zip st.queries).map fun p =>
      let qn := s!"q{p.1}"
      let scSec : (String × String) :=
        if scKey == "-" then ("sc", "-") else
        match st.refSc.find? (·.1 == qn) with
        | some (_, v, _) => (scKey, v)
        | none => (scKey, (implLook qn scKey).getD "?")
      -- the history probe: applicable when the harness holds a reader on the writer's current root
      let histSec : (String × String) := ("hist", if !r.isOffline && r.get "reopen" != "1" && r.get "tailmerge" != "1" then "ok" else "-")
      (qn, querySections st r p.2 ++ [scSec, histSec])
  let modelSecs := ("", head) :: qsecs
  let model := renderSections modelSecs
  -- remember the first digest / the first score section
  let isDigest := impl.startsWith "cnt="
  let st' : CaseSt :=
    if !isDigest then st else
    let st1 := if st.ref.isEmpty then
        { st with ref := implSecs.flatMap fun s => s.2.filterMap fun p =>
            if p.1.startsWith "x" || p.1 == "phys" || p.1 == "bk" || p.1 == "sc" || p.1 == "scm" || p.1 == "hist" then none
            else some (s.1 ++ "." ++ p.1, p.2, r.name) }
      else st
    if scKey == "sc" && st1.refSc.isEmpty then
      { st1 with refSc := implSecs.filterMap fun s => (s.2.find? (·.1 == "sc")).map fun p => (s.1, p.2, r.name) }
    else st1
  -- verdict
  let verdict : String :=
    if impl == "panic" || impl == "timeout" then s!"bad:{impl}:{r.name}"
    else if !isDigest then
      (if st.docs.isEmpty && r.get "reopen" == "1" && r.junk == 0 && impl == "err:open-reader"
        then s!"bad:empty-index-unopenable:{r.name}" else s!"bad:error:{r.name}:{impl}")
    else
      -- first differing section
      let diffs := modelSecs.flatMap fun s => s.2.filterMap fun p =>
        let iv := implLook s.1 p.1
        if iv == some p.2 then none else some (s.1, p.1, iv.getD "<missing>")
      match diffs.head? with
      | none => if renderSections implSecs == model then "ok" else "bad:digest-shape"
      | some (qn, key, iv) =>
        let qtext := match qn.toList with
          | 'q' :: ds => us (st.queries.getD ((String.ofList ds).toNat?.getD 0) "?")
          | _ => "-"
        if key == "bk" then
          -- what a backup that was cut short left in the target, whether it opens, the re-run: not what `Layout.backup` says
          s!"bad:partial-backup-differs:{r.name}:{us iv}"
        else if key == "hist" then s!"bad:reader-history-dependent:{qtext}:{r.name}"
        else if key == "sc" || key == "scm" then
          let refName := match st.refSc.find? (·.1 == qn) with | some (_, _, n) => n | none => "?"
          if key == "scm" then s!"bad:scores-differ-merged:{qn}:{qtext}:{refName}:{r.name}"
          else s!"bad:scores-layout-dependent:{qn}:{qtext}:{refName}:{r.name}"
        else
          match st.ref.find? (·.1 == qn ++ "." ++ key) with
          | some (_, rv, rn) =>
              if rv != iv && rn != r.name then s!"bad:layout-dependent:{key}:{qtext}:{rn}:{r.name}"
              else s!"bad:wrong-answer:{key}:{qtext}:{r.name}"
          | none => s!"bad:wrong-answer:{key}:{qtext}:{r.name}"
  (st', model ++ sep ++ verdict ++ br)

/-! ## the opt stream -/

def parseShape (s : String) : SegPost :=
  match s.toList with
  | 'E' :: _ => .empty
  | 'N' :: _ => .bitmap none
  | 'H' :: r => .oneHit ((String.ofList r).toNat?.getD 0)
  | 'B' :: r => .bitmap (some ((splitNonEmpty (String.ofList r) ",").filterMap String.toNat?))
  | _ => .raw1 0

def numsStr (l : List Nat) : String := joinOrDash (l.map toString) ","

def mkSnap (sizes : List Nat) (posts : List (List SegPost)) : Snap :=
  { nS := sizes.length, nT := posts.length, off := prefixOff (fun i => sizes.getD i 0),
    size := fun i => sizes.getD i 0, post := fun t i => (posts.getD t []).getD i (.bitmap none) }

def optConj (L : Snap) : String :=
  match L.conjFinish with
  | some outs => "T:" ++ numsStr (L.enumOuts outs)
  | none => "F:" ++ numsStr (conjSearch L.pushdown.globals)

def optDisj (L : Snap) (min : Nat) (scoreNone : Bool) : String :=
  let s := newDisjunctionSearcher L min scoreNone true
  let rewritten := scoreNone && L.nT > 1 && min ≤ 1 && L.disjFinish.isSome
  (if rewritten then "T:" else "F:") ++ toString s.min ++ ":" ++ numsStr s.docs

def specInter (ls : List (List Nat)) : List Nat :=
  match ls with | [] => [] | l :: r => l.filter fun x => r.all (·.contains x)
def specUnion (ls : List (List Nat)) (bound : Nat) : List Nat :=
  (List.range bound).filter fun x => ls.any (·.contains x)

/-- the decidable part of `Snap.wf` on the observed iterators: one shape per segment for every term,
local numbers strictly increasing and below the segment's document count (the offsets are running
sums by construction, `prefixOff_mono`) -/
def shapesOk (sizes : List Nat) (posts : List (List SegPost)) : Bool :=
  posts.all fun ps => ps.length == sizes.length && ((List.range ps.length).all fun i =>
    let ds := (ps.getD i .empty).docs
    ds.all (· < sizes.getD i 0) && (ds.zip (ds.drop 1)).all fun p => p.1 < p.2)

def optStep (op impl : String) : String :=
  let m := kvs (splitNonEmpty op " ")
  let sizes := (splitNonEmpty (look m "sizes") ",").filterMap String.toNat?
  let posts : List (List SegPost) := ((look m "T").splitOn ";").map fun t => ((t.splitOn "/").filter (· ≠ "-")).map parseShape
  let L := mkSnap sizes posts
  let total := sizes.foldl (· + ·) 0
  let parts : List (String × String) :=
    [("cU", optConj L), ("dU0", optDisj L 0 true), ("dU1", optDisj L 1 true),
     ("cS", "F:" ++ numsStr (conjSearch L.pushdown.globals)), ("dS1", optDisj L 1 false)] ++
    (if posts.length ≥ 3 then
      let L01 := mkSnap sizes (posts.take 2)
      let t3 := posts.getD 2 []
      -- the inner conjunction of the first two terms is rewritten (two ice iterators per segment)
      let innerPosts : List SegPost := match L01.conjFinish with
        | some outs => (List.range sizes.length).map fun i => (outs.getD i .empty).toPost
        | none => (List.range sizes.length).map fun i => .bitmap (some (specInter (L01.segPosts i |>.map SegPost.docs)))
      let Lo := mkSnap sizes [innerPosts, t3]
      [("nC", optConj Lo), ("nD", optDisj Lo 1 true)]
    else [])
  let model := " ".intercalate (parts.map fun p => p.1 ++ "=" ++ p.2)
  -- specification on the implementation's own numbers
  let implKv := kvs (splitNonEmpty impl " ")
  let numsOf (v : String) : String := ((v.splitOn ":").getLast?).getD ""
  let gl := L.globals
  let want : List (String × String) :=
    [("cU", numsStr (specInter gl)), ("cS", numsStr (specInter gl)), ("dU0", numsStr (specUnion gl total)),
     ("dU1", numsStr (specUnion gl total)), ("dS1", numsStr (specUnion gl total))] ++
    (if posts.length ≥ 3 then
      [("nC", numsStr (specInter (gl.take 3))),
       ("nD", numsStr (specUnion [specInter (gl.take 2), gl.getD 2 []] total))]
     else [])
  let wrong := want.filter fun p => match implKv.find? (·.1 == p.1) with
    | some (_, v) => numsOf v != p.2
    | none => true
  let minLost := (implKv.find? (·.1 == "dU1")).map (fun p => (p.2.splitOn ":").getD 1 "" == "0") == some true
  let shapes := (posts.flatten.map fun p => match p with
    | .oneHit _ => "1hit" | .bitmap none => "nilbm" | .bitmap (some _) => "bitmap" | _ => "other").eraseDups
  let br := " br=opt," ++ ",".intercalate (shapes.map ("shape-" ++ ·)) ++ (if minLost then ",min-lost" else "")
    ++ (if posts.length ≥ 3 then ",nested" else "") ++ (if sizes.length > 1 then ",multi-segment" else "")
  let verdict :=
    if !shapesOk sizes posts then "bad:assumption-snap-wf"
    else match wrong.head? with
    | some (tag, w) => s!"bad:opt-wrong-set:{tag}:expected:{w}"
    | none => "ok"
  model ++ sep ++ verdict ++ br

/-! ## dispatch -/

def cutBetween (s a b : String) : String :=
  match s.splitOn a with
  | _ :: rest => let r := a.intercalate rest; if b == "" then r else (r.splitOn b).headD ""
  | [] => ""

def step (st : CaseSt) (op impl : String) : CaseSt × String :=
  if op.startsWith "case opt" then ({}, "case" ++ sep ++ "na")
  else if op.startsWith "case " then
    let docs := parseDocs (trimS (cutBetween op " D=" " Q="))
    let queries := ((cutBetween op " Q=" " S=").splitOn "|").map trimS |>.filter (· ≠ "")
    let sorts := (splitNonEmpty (trimS (cutBetween op " S=" "")) ",").filter (· ≠ "-")
    ({ docs := docs, queries := queries, sorts := sorts }, "case" ++ sep ++ "na")
  else if op.startsWith "recipe " then recipeStep st op impl
  else if op.startsWith "opt " then (st, optStep op impl)
  else (st, "bad-op" ++ sep ++ "na")

end C08

def main : IO Unit := driverLoop ({} : C08.CaseSt) C08.step

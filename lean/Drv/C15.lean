import Bluge.Basic
import Bluge.Conc
/-! Model driver for C15 (line protocol, see go/harness/hlib).

A data race is not a behaviour a model can replay, so for this property Gen is the tie and the harness
VALIDATES the extracted tables under the race detector. The driver answers each scenario line with the one
canonical outcome the property allows — the writer closed within the time limit, the index re-opened, every
acknowledged batch is there — and classifies the implementation's own observation: a race report, a Close
timeout, a lost acknowledged batch or a crash is a `bad:` verdict. -/
open Bluge

def kvOf (ws : List String) (k : String) : String :=
  match ws.find? (fun w => w.startsWith (k ++ "=")) with
  | some w => (w.drop (k.length + 1)).toString
  | none => ""

def c15step (_ : Unit) (op : String) (impl : String) : Unit × String :=
  let ws := op.splitOn " "
  let kind := ws.headD ""
  if kind != "run" && kind != "probe-recycle" && kind != "probe-persist-close" && kind != "probe-pause-close" && kind != "probe-shared-requests" && kind != "probe-cold-start" then ((), "bad-op" ++ sep ++ "na") else
  let dir := kvOf ws "dir"
  let mode := kvOf ws "mode"
  let expected := if dir == "mem" then "ok closed mem-noreopen" else "ok closed reopened acked_present"
  let verdict :=
    if impl == expected then "ok"
    else if impl.startsWith "race " then "bad:data-race"
    else if impl.startsWith "close-timeout" then "bad:close-timeout"
    else if impl.startsWith "concurrent-differs-from-solo" then "bad:concurrent-result-differs-from-solo"
    else if impl.startsWith "close-spin" then "bad:close-case-does-not-leave-loop"
    else if impl.startsWith "lost " then "bad:acknowledged-batch-lost"
    else if impl.startsWith "crash" || impl.startsWith "panic" || impl.startsWith "child-timeout" then "bad:crash"
    else if impl.startsWith "no-race-binary" || impl.startsWith "probe-inadequate" then "na"
    else "bad:unexpected-outcome"
  let br := [kind, "mode-" ++ mode, "dir-" ++ dir,
             (if kvOf ws "unsafe" == "1" then "unsafe-batch" else "safe-batch"),
             "ice-v" ++ kvOf ws "ver",
             (if kvOf ws "across" == "1" then "across-close" else "stop-before-close"),
             (if kvOf ws "stats" == "2" then "stats-copy" else "stats-atomic"),
             "gomaxprocs-" ++ kvOf ws "p"] ++
            (if kind == "probe-shared-requests" then
               (if (kvOf ws "share").toNat!.testBit 0 then ["parallel-standard-aggregations"] else []) ++
               (if (kvOf ws "share").toNat!.testBit 1 then ["parallel-shared-sort-order"] else []) ++
               (if (kvOf ws "share").toNat!.testBit 2 then ["parallel-shared-aggregation-definitions"] else []) ++
               (if (kvOf ws "share").toNat!.testBit 3 then ["parallel-shared-term-queries"] else []) ++
               (if (kvOf ws "share").toNat!.testBit 4 then ["parallel-shared-boolean-query"] else [])
             else []) ++
            (if kind == "probe-cold-start" then ["cold-start-parallel-first-use"] else [])
  ((), expected ++ sep ++ verdict ++ " br=" ++ ",".intercalate br)

def main : IO Unit := driverLoop () c15step

import Bluge.Basic
import Bluge.Index
/-! Model driver for C01 (line protocol, see go/harness/c01/main.go).

Every root the real introducer installed arrives as one line, in the order it happened:
* `intro <epoch> <sid|0> seen=<epoch> <ops>`: the model runs `introduceSegment` on its own root with the obsoletes
  map prepared against the (possibly stale) root the batch call started from, and prints the physical root;
* `persist <epoch> <sid>[docs]…`: the model runs `introducePersist`;
* `merge <epoch> <root>`: an environment step. The driver tries to explain it as `introduceMerge` of a task
  planned (`MergeTask.plan`) against some earlier root (branch `merge-explained`), otherwise adopts the
  observed root (branch `merge-adopted`); either way the observed root must keep the abstract index;
* `read k=<K>`: the model prints Count / match-all / `_id` lookups of its root.
The verdict is the specification oracle on the IMPLEMENTATION's output: its root / reader view must be the
abstract index `foldl applyBatch [] batches`, and an id written only through Update has at most one live document. -/
open Bluge Bluge.Index

structure DState where
  root : Root := Root.empty
  hist : List Root := []          -- earlier roots, most recent first
  spec : List Doc := []           -- the abstract index (specification)
  sidsSeen : List Nat := []
  usedIds : List Id := []         -- ids named by any earlier batch
  inserted : List Id := []        -- ids that were written by Insert (so not "only through Update")
  taint : List Id := []           -- ids named twice inside one batch (known-finding probe)
  window : Bool := false          -- a file merge of the real merger is parked (between `mwhold held` and `mwrelease`)
  closing : Bool := false         -- `mwrelease done` seen, the parked merge's root is the next merge line

/-! ### printing -/

def docLe (a b : Doc) : Bool := a.id < b.id || (a.id == b.id && a.body ≤ b.body)
def sortDocs (ds : List Doc) : List Doc := ds.mergeSort docLe
def showDoc (d : Doc) : String := toString d.id ++ "." ++ toString d.body
def showDocs (ds : List Doc) : String := ",".intercalate (ds.map showDoc)

def showSeg (s : SegSnap) : String :=
  toString s.sid ++ (if s.persisted then "p" else "m") ++ "[" ++ showDocs s.docs ++ "]{" ++
    ",".intercalate ((s.deleted.mergeSort (· ≤ ·)).map toString) ++ "}"

def showRoot (r : Root) : String :=
  "e" ++ toString r.epoch ++ (if r.segs.isEmpty then " -" else String.join (r.segs.map fun s => " " ++ showSeg s))

/-- Count, match-all (sorted), `_id` lookups for ids 1..k — computed from a list of live documents -/
def showView (count : Nat) (live : List Doc) (k : Nat) : String :=
  let look := (List.range k).map fun i =>
    toString (i + 1) ++ "=" ++ ";".intercalate (((sortDocs live).filter (fun d => d.id == i + 1)).map (toString ·.body))
  "n=" ++ toString count ++ " all=" ++ showDocs (sortDocs live) ++ " look=" ++ ",".intercalate look

/-! ### parsing -/

def parseDoc (s : String) : Option Doc :=
  match s.splitOn "." with
  | [a, b] => do let i ← a.toNat?; let n ← b.toNat?; pure ⟨i, n⟩
  | _ => none

def parseDocs (s : String) : Option (List Doc) :=
  if s.isEmpty then some [] else (s.splitOn ",").mapM parseDoc

def parseNats (s : String) : Option (List Nat) :=
  if s.isEmpty then some [] else (s.splitOn ",").mapM String.toNat?

/-- `<sid><m|p>[docs]{deleted}` -/
def parseSeg (s : String) : Option SegSnap :=
  match s.splitOn "[" with
  | [hd, rest] =>
    match rest.splitOn "]{" with
    | [ds, del] => do
      let del := (del.dropEnd 1).toString
      let flag := hd.back
      let sid ← ((hd.dropEnd 1).toString).toNat?
      let docs ← parseDocs ds
      let deleted ← parseNats del
      if flag == 'p' || flag == 'm' then pure ⟨sid, docs, deleted, flag == 'p'⟩ else none
    | _ => none
  | _ => none

/-- `e<epoch> -` or `e<epoch> seg seg …` given as words -/
def parseRootWords (ws : List String) : Option Root :=
  match ws with
  | e :: segs => do
    let ep ← ((e.drop 1).toString).toNat?
    if !e.startsWith "e" then none
    else if segs == ["-"] then pure ⟨ep, []⟩
    else do let ss ← segs.mapM parseSeg; pure ⟨ep, ss⟩
  | [] => none

def parseOp (s : String) : Option Op :=
  match s.splitOn ":" with
  | ["ins", i, b] => do let i ← i.toNat?; let b ← b.toNat?; pure (.insert ⟨i, b⟩)
  | ["upd", i, b] => do let i ← i.toNat?; let b ← b.toNat?; pure (.update i ⟨i, b⟩)
  | ["del", i] => do let i ← i.toNat?; pure (.delete i)
  | _ => none

def parseOps (ws : List String) : Option (List Op) :=
  if ws == ["-"] then some [] else ws.mapM parseOp

/-- `<sid>[docs]` of a persist line -/
def parsePersisted (s : String) : Option (Nat × List Doc) :=
  match s.splitOn "[" with
  | [sid, ds] => do let sid ← sid.toNat?; let docs ← parseDocs (ds.dropEnd 1).toString; pure (sid, docs)
  | _ => none

/-! ### the specification oracle -/

def permDocs (a b : List Doc) : Bool := sortDocs a == sortDocs b

/-- number of hits per id in the `look=` part of a reader view -/
def parseLookCounts (view : String) : List (Nat × Nat) :=
  match view.splitOn " look=" with
  | [_, l] => (l.splitOn ",").filterMap fun e =>
      match e.splitOn "=" with
      | [i, bs] => (i.toNat?).map fun i => (i, if bs.isEmpty then 0 else (bs.splitOn ";").length)
      | _ => none
  | _ => []

/-! ### explaining a merge -/

def firstIdx (ds : List Doc) (s : SegSnap) : Nat :=
  match ds.findIdx? (fun d => s.docs.contains d) with
  | some i => i
  | none => ds.length

/-- a merge explained: the root the model's `introduceMerge` produces, the segment snapshots the task was planned
over (as they stood in the earlier root, in task order) -/
structure Explained where
  root : Root
  picked : List SegSnap

def explainMerge (P : Root) (hist : List Root) (Q : Root) : Option Explained :=
  let newSegs := Q.segs.filter (fun s => !P.sids.contains s.sid)
  let (N, newDocs) := match newSegs with
    | [s] => (s.sid, s.docs)
    | _ => (0, [])
  let gone := P.sids.filter (fun s => !Q.sids.contains s)
  let want := showRoot Q
  let cands : List Explained := (P :: hist).flatMap fun r0 =>
    let picked := r0.segs.filter (fun s0 => gone.contains s0.sid ||
      (!P.sids.contains s0.sid && s0.live.any (fun d => newDocs.contains d)))
    let byDocs := picked.mergeSort (fun a b => firstIdx newDocs a ≤ firstIdx newDocs b)
    [false, true].flatMap fun fm =>
      [⟨introduceMerge P Q.epoch (MergeTask.plan byDocs N fm), byDocs⟩,
       ⟨introduceMerge P Q.epoch (MergeTask.plan picked N fm), picked⟩]
  cands.find? (fun c => showRoot c.root == want)

/-- the planner orders a task by live size descending, ties by id (`byLiveSizeDescending`) -/
def sizeOrder (picked : List SegSnap) : List Nat :=
  (picked.mergeSort (fun a b => a.liveSize > b.liveSize || (a.liveSize == b.liveSize && a.sid ≤ b.sid))).map (·.sid)

def idOrder (picked : List SegSnap) : List Nat := (picked.map (·.sid)).mergeSort (· ≤ ·)

/-- some document of a merging segment was deleted, or the segment left the root, after the task was planned -/
def deletedDuring (P : Root) (picked : List SegSnap) : Bool :=
  picked.any fun s0 => match P.segs.find? (fun s => s.sid == s0.sid) with
    | some s => s.deleted.any (fun x => !s0.deleted.contains x)
    | none => true

/-! ### one step -/

def brs (l : List (Bool × String)) : String :=
  let on := l.filterMap fun (b, s) => if b then some s else none
  if on.isEmpty then "" else " br=" ++ ",".intercalate on

def install (st : DState) (r : Root) : DState :=
  { st with root := r, hist := st.root :: st.hist,
            sidsSeen := (r.sids.filter (fun s => !st.sidsSeen.contains s)) ++ st.sidsSeen }

def insertedIds (ops : List Op) : List Id :=
  ops.filterMap fun o => match o with
    | .insert d => some d.id
    | _ => none

def c01step (st : DState) (op : String) (impl : String) : DState × String :=
  let ws := (op.splitOn " ").filter (fun w => w ≠ "" && !w.startsWith "cfg=")
  let implRoot := parseRootWords ((impl.splitOn " ").filter (· ≠ ""))
  match ws with
  | "case" :: _ => (st, "case" ++ sep ++ "na")
  | "intro" :: e :: sid :: seen :: opws =>
    match e.toNat?, sid.toNat?, ((seen.drop 5).toString).toNat?, parseOps opws with
    | some e, some sid, some seenE, some ops =>
      let b := Batch.ofOps ops
      let seenRoot := ((st.root :: st.hist).find? (fun r => r.epoch == seenE)).getD st.root
      let obs := prepareObs seenRoot b.ids
      let r' := introduceSegment st.root e b sid obs
      let specNext := applyBatch st.spec b
      let (nrec, ndrop, hasNew) := introduceSegmentBranches st.root b obs
      let names := ops.map Op.names
      let twice := namesTwice ops
      let verdict :=
        if !decide (ObsOK st.root b.ids obs) then "bad:assumption-obsoletes-map-wrong-for-a-segment-id"
        else if sid != 0 && st.sidsSeen.contains sid then "bad:assumption-segment-id-not-fresh"
        else if !(st.root.epoch < e) then "bad:assumption-epoch-not-increasing"
        else match implRoot with
          | none => "bad:unparsable-root"
          | some ir =>
            if !decide ir.WF then "bad:assumption-deleted-bitmap-out-of-range"
            else if permDocs ir.abs specNext then "ok"
            else "bad:root-differs-from-abstract-index expected " ++ showDocs (sortDocs specNext)
      let st1 : DState := { st with spec := specNext, usedIds := names ++ st.usedIds,
                                    inserted := insertedIds ops ++ st.inserted,
                                    taint := if twice then names ++ st.taint else st.taint }
      let st' := install st1 r'
      (st', showRoot r' ++ sep ++ verdict ++ brs [
        (nrec > 0, "recompute"), (ndrop > 0, "segment-dropped"), (hasNew, "new-segment"), (!hasNew, "no-new-segment"),
        (seenE != st.root.epoch, "stale-root-seen"), (names.any st.usedIds.contains, "id-reused"),
        (ops.isEmpty, "empty-batch"), (!ops.isEmpty && b.docs.isEmpty, "delete-only-batch"),
        (twice, "batch-names-id-twice"), (st.root.segs.length ≥ 2, "multi-segment-root")])
    | _, _, _, _ => (st, "bad-op" ++ sep ++ "bad:unparsable-intro")
  | "persist" :: e :: ps =>
    match e.toNat?, ps.mapM parsePersisted with
    | some e, some p =>
      let r' := introducePersist st.root e p
      let verdict :=
        if !decide (PersistWF st.root p) then "bad:assumption-reloaded-segment-differs"
        else match implRoot with
          | none => "bad:unparsable-root"
          | some ir => if permDocs ir.abs st.spec then "ok"
                       else "bad:persist-changed-content expected " ++ showDocs (sortDocs st.spec)
      (install st r', showRoot r' ++ sep ++ verdict ++ brs [(true, "persist"), (p.isEmpty, "persist-nothing")])
    | _, _ => (st, "bad-op" ++ sep ++ "bad:unparsable-persist")
  | "merge" :: _ :: rootws =>
    match parseRootWords rootws with
    | some q =>
      let explained := explainMerge st.root st.hist q
      let r' := (explained.map (·.root)).getD q
      let inWindow := st.window || st.closing
      let picked := (explained.map (·.picked)).getD []
      let fileMerge := !picked.isEmpty && picked.all (·.persisted)
      let newSids := q.sids.filter (fun s => !st.root.sids.contains s)
      let survivorsOk := q.segs.all fun s =>
        match st.root.segs.find? (fun s0 => s0.sid == s.sid) with
        | some s0 => s0.docs == s.docs && s0.deleted.all (fun x => s.deleted.contains x)
        | none => true
      let verdict :=
        if newSids.any st.sidsSeen.contains then "bad:assumption-segment-id-not-fresh"
        else if !survivorsOk then "bad:merge-changed-a-surviving-segment"
        else if !decide q.WF then "bad:assumption-deleted-bitmap-out-of-range"
        else if permDocs q.abs st.spec then "ok"
        else "bad:merge-changed-content expected " ++ showDocs (sortDocs st.spec)
      (install { st with closing := false } r', showRoot r' ++ sep ++ verdict ++ brs [
        (explained.isSome, "merge-explained"), (explained.isNone, "merge-adopted"),
        (newSids.isEmpty, "merge-without-new-segment"),
        (inWindow, "mergewindow:merge-introduced"),
        (inWindow && fileMerge && deletedDuring st.root picked, "mergewindow:delete-during-file-merge"),
        (inWindow && fileMerge && sizeOrder picked != idOrder picked, "mergewindow:size-order-differs-from-id-order"),
        (inWindow && fileMerge && sizeOrder picked != idOrder picked && deletedDuring st.root picked,
          "mergewindow:delete-during-file-merge-with-size-order-differing"),
        (inWindow && picked.any (fun s0 => !s0.deleted.isEmpty), "mergewindow:input-with-prior-deletions"),
        (inWindow && picked.length ≥ 3, "mergewindow:three-or-more-inputs")])
    | none => (st, "bad-op" ++ sep ++ "bad:unparsable-merge")
  | "read" :: k :: _ =>
    match ((k.drop 2).toString).toNat? with
    | some k =>
      let model := showView st.root.count st.root.abs k
      let spec := showView st.spec.length st.spec k
      -- ids written only through Update must have at most one live document (in the implementation's answer)
      let offenders := (parseLookCounts impl).filter fun (i, n) => n > 1 && !st.inserted.contains i
      let verdict :=
        match offenders with
        | (i, n) :: _ =>
          "bad:id-written-only-through-update-has-" ++ toString n ++ "-live-documents id=" ++ toString i ++
            (if st.taint.contains i then " (batch-names-id-twice)" else "")
        | [] => if impl == spec then "ok" else "bad:reader-differs-from-abstract-index expected " ++ spec
      (st, model ++ sep ++ verdict ++ brs [
        (st.spec.isEmpty, "empty-index"),
        ((List.range k).any fun i => ((st.spec.filter (fun d => d.id == i + 1)).length ≥ 2), "id-with-several-live-docs")])
    | none => (st, "bad-op" ++ sep ++ "bad:unparsable-read")
  | ["mwhold", r] =>
    if r == "held" then ({ st with window := true }, "-" ++ sep ++ "ok" ++ brs [(true, "mergewindow:held")])
    else (st, "-" ++ sep ++ "na" ++ brs [(true, "mergewindow:skipped")])
  | ["mwrelease", r] =>
    if r == "done" then ({ st with window := false, closing := true }, "-" ++ sep ++ "ok")
    else ({ st with window := false }, "-" ++ sep ++ "na" ++ brs [(true, "mergewindow:skipped")])
  | ["end"] => (st, "closed" ++ sep ++ "ok")
  | "crash" :: _ => (st, "-" ++ sep ++ "bad:writer-process-crashed " ++ impl)
  | kind :: _ => (st, "-" ++ sep ++ "bad:unexpected-" ++ kind)
  | [] => (st, "-" ++ sep ++ "na")

def main : IO Unit := driverLoop ({} : DState) c01step

import Bluge.PersistDrv
/-! Model driver for C02 (stream `dirtrace` with crash images; see go/harness/persistlib). -/
open Bluge Bluge.Persist.Drv

def main : IO Unit := driverLoop ({} : DState) (driverStep true)

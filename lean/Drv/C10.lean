import Bluge.Numeric
import BlugeGen.C10
/-! Model driver for C10 (line protocol, see go/harness/hlib).
Every answer is computed TWICE: by the definitions translated from /repo's source (`BlugeGen.C10`,
this is what is compared with the implementation — it validates the translator) and by the readable
reference model `Bluge.Numeric` (the theorems of BlugeProofs.C10 bridge the two for all inputs; a
disagreement on a concrete input shows up here as `GEN≠REF`). -/
open Bluge Bluge.Numeric
open Bluge.Go (Res)

namespace G
open BlugeGen.C10
def resBytes : Res (List (BitVec 8)) → String
  | .ok bs => bytesToHex bs
  | .err => "err"
  | .crash => "panic"
def enc (v : BitVec 64) (s : Nat) : String := resBytes (NewPrefixCodedInt64 v (BitVec.ofNat 64 s))
def dec (bs : List (BitVec 8)) : String :=
  match PrefixCoded_Int64 bs, PrefixCoded_Shift bs with
  | .ok v, .ok s => hex64 v ++ " " ++ toString s.toNat
  | .crash, _ => "panic"
  | _, .crash => "panic"
  | _, _ => "err"
def valid (bs : List (BitVec 8)) : String :=
  match ValidPrefixCodedTermBytes bs with
  | .ok (b, s) => toString b ++ " " ++ toString s.toInt
  | .err => "err"
  | .crash => "panic"
def split (lo hi : BitVec 64) : String :=
  match splitInt64Range lo hi 4#64 with
  | .ok rs => if rs.isEmpty then "-" else ",".intercalate (rs.map fun r => bytesToHex r.startTerm ++ ":" ++ bytesToHex r.endTerm)
  | .err => "err"
  | .crash => "panic"
end G

/-- both computations must agree; the translated one is what is compared with the implementation -/
def both (gen ref : String) : String := if gen == ref then gen else s!"GEN≠REF gen={gen} ref={ref}"

def showRanges (rs : List TermRange) : String :=
  if rs.isEmpty then "-" else ",".intercalate (rs.map fun r => bytesToHex r.startTerm ++ ":" ++ bytesToHex r.endTerm)

/-- signed interpretation -/
def sInt (b : I64) : Int := b.toInt

def c10step (_ : Unit) (op : String) (impl : String) : Unit × String :=
  let ws := op.splitOn " "
  let out : String × String := match ws with
    | ["f2i", x] => match parse64 x with
        | some f => (both (hex64 (BlugeGen.C10.Float64ToInt64 f)) (hex64 (f2i f)), "ok")
        | none => ("bad-op", "na")
    | ["i2f", x] => match parse64 x with
        | some f => (both (hex64 (BlugeGen.C10.Int64ToFloat64 f)) (hex64 (i2f f)), "ok")
        | none => ("bad-op", "na")
    | ["enc", x, s] => match parse64 x, s.toNat? with
        | some v, some sh => (both (G.enc v sh) (match encode? v sh with | some bs => bytesToHex bs | none => "err"), "ok")
        | _, _ => ("bad-op", "na")
    | ["dec", x] => match hexToBytes x with
        | some bs => (both (G.dec bs) (match decode bs, shiftOf bs with
              | some v, some s => hex64 v ++ " " ++ toString s
              | _, _ => "err"), "ok")
        | none => ("bad-op", "na")
    | ["valid", x] => match hexToBytes x with
        | some bs => let r := validTerm bs; (both (G.valid bs) (toString r.1 ++ " " ++ toString r.2), "ok")
        | none => ("bad-op", "na")
    | ["split", lo, hi] => match parse64 lo, parse64 hi with
        | some l, some h => (both (G.split l h) (showRanges (split l h 4)), "ok")
        | _, _ => ("bad-op", "na")
    | ["cmp", a, b, s] => match parse64 a, parse64 b, s.toNat? with
        | some x, some y, some sh =>
            let m := bytesCmp (encode x sh) (encode y sh)
            -- specification: the encodings compare like the arithmetically shifted values
            let want : Int := let p := (x.sshiftRight sh).toInt; let q := (y.sshiftRight sh).toInt
                              if p < q then -1 else if p > q then 1 else 0
            (toString m, if impl == toString want then "ok" else s!"bad:order-embedding expected {want}")
        | _, _, _ => ("bad-op", "na")
    | ["fcmp", a, b] => match parse64 a, parse64 b with
        -- floats given as bit patterns; impl prints sign of bytes.Compare of the shift-0 encodings
        | some x, some y =>
            let m := bytesCmp (encode (f2i x) 0) (encode (f2i y) 0)
            -- specification: IEEE total order on bit patterns (sign-magnitude; -0 just below +0)
            let key (b : I64) : Int := if b.msb then -((b &&& lowMask).toNat : Int) - 1 else (b.toNat : Int)
            let want : Int := if key x < key y then -1 else if key x > key y then 1 else 0
            (toString m, if impl == toString want then "ok" else s!"bad:float-order-embedding expected {want}")
        | _, _ => ("bad-op", "na")
    | ["member", lo, hi, v] => match parse64 lo, parse64 hi, parse64 v with
        | some l, some h, some x =>
            let m := match rangeMatches 2000000 l h x with | some b => toString b | none => "diverges"
            let want := decide (sInt l ≤ sInt x ∧ sInt x ≤ sInt h)
            (m, if impl == "diverges" then "bad:range-enumeration-exceeds-2000000-steps"
                else if impl == toString want then "ok" else s!"bad:range-exactness expected {want}")
        | _, _, _ => ("bad-op", "na")
    | ["inc", x] => match hexToBytes x with
        | some bs => (both (G.resBytes (BlugeGen.C10.incrementBytes bs)) (bytesToHex (incBytes bs)), "ok")
        | none => ("bad-op", "na")
    | ["incpc", x] => match hexToBytes x with
        | some bs => (both (G.resBytes (BlugeGen.C10.incrementPrefixCoded bs)) (bytesToHex (incPC bs)), "ok")
        | none => ("bad-op", "na")
    | ["rangeq", mn, mx, im, iM, vs] => match parse64 mn, parse64 mx with
        | some a, some b =>
            let incMin := im == "true"; let incMax := iM == "true"
            let vals := (vs.splitOn ",").filterMap parse64
            match BlugeGen.C10.numericRangeBounds a b incMin incMax 0#64 with
            | .ok (lo, hi) =>
                -- model: the translated end-point handling, then the reference decomposition per value
                let ms := vals.map fun v => rangeMatches 2000000 lo hi (f2i v)
                let m := if ms.any (·.isNone) then "diverges" else String.ofList (ms.map fun o => if o == some true then '1' else '0')
                -- specification: total order on floats via f2i; an infinite end is an open end
                let negInf : I64 := 0xfff0000000000000#64
                let posInf : I64 := 0x7ff0000000000000#64
                let want := String.ofList (vals.map fun v =>
                  let x := (f2i v).toInt
                  let okLo := a == negInf || (if incMin then (f2i a).toInt ≤ x else (f2i a).toInt < x)
                  let okHi := b == posInf || (if incMax then x ≤ (f2i b).toInt else x < (f2i b).toInt)
                  if okLo && okHi then '1' else '0')
                (m, if impl == "diverges" then "bad:range-enumeration-exceeds-2000000-steps"
                    else if impl == want then "ok" else s!"bad:range-query-exactness expected {want}")
            | _ => ("panic", "na")
        | _, _ => ("bad-op", "na")
    | ["dateq", mn, mx, im, iM, vs] =>
        -- instants are int64 nanoseconds; "-" = the zero time = an unbounded end (DateRangeQuery.parseEndpoints)
        let pa : Option (Option I64) := if mn == "-" then some none else (parse64 mn).map some
        let pb : Option (Option I64) := if mx == "-" then some none else (parse64 mx).map some
        match pa, pb with
        | some a?, some b? =>
            let incMin := im == "true"; let incMax := iM == "true"
            let vals := (vs.splitOn ",").filterMap parse64
            let negInf : I64 := 0xfff0000000000000#64
            let posInf : I64 := 0x7ff0000000000000#64
            -- parseEndpoints: Int64ToFloat64 of the nanoseconds (translated code), ±Inf for an absent end
            let fa := match a? with | some a => BlugeGen.C10.Int64ToFloat64 a | none => negInf
            let fb := match b? with | some b => BlugeGen.C10.Int64ToFloat64 b | none => posInf
            match BlugeGen.C10.numericRangeBounds fa fb incMin incMax 0#64 with
            | .ok (lo, hi) =>
                let ms := vals.map fun v => rangeMatches 2000000 lo hi v
                let m := if ms.any (·.isNone) then "diverges" else String.ofList (ms.map fun o => if o == some true then '1' else '0')
                -- specification: the instant lies in the interval, compared as integers
                let want := String.ofList (vals.map fun v =>
                  let x := v.toInt
                  let okLo := match a? with | none => true | some a => if incMin then a.toInt ≤ x else a.toInt < x
                  let okHi := match b? with | none => true | some b => if incMax then x ≤ b.toInt else x < b.toInt
                  if okLo && okHi then '1' else '0')
                let infEnd := (a?.isSome && fa == negInf) || (b?.isSome && fb == posInf)
                let brs := " br=dateq" ++ (if incMin != incMax then ",dateq-asymmetric-ends" else "")
                            ++ (if a?.isNone || b?.isNone then ",dateq-unbounded-end" else "")
                (m, if impl == "diverges" then "bad:range-enumeration-exceeds-2000000-steps"
                    else if impl == want then "ok" ++ brs
                    else if infEnd then s!"bad:date-end-point-with-infinity-image-treated-as-unbounded expected {want}"
                    else s!"bad:date-range-query-exactness expected {want}")
            | _ => ("panic", "na")
        | _, _ => ("bad-op", "na")
    | ["il", a, b] => match parse64 a, parse64 b with
        | some x, some y => (both (hex64 (BlugeGen.C10.Interleave x y)) (hex64 (interleave x y)), "ok")
        | _, _ => ("bad-op", "na")
    | ["dil", a] => match parse64 a with
        | some x => (both (hex64 (BlugeGen.C10.Deinterleave x)) (hex64 (deinterleave x)), "ok")
        | _ => ("bad-op", "na")
    | "case" :: _ => ("case", "na")
    | _ => ("bad-op", "na")
  ((), out.1 ++ sep ++ out.2)

def main : IO Unit := driverLoop () c10step

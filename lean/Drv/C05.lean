import Bluge.Basic
import Bluge.Index
import Bluge.Lin
/-! Model driver for C05 (line protocol, see go/harness/c05/main.go).

A case arrives as the history the harness RECORDED on the real writer, in stamp order (logical clock):
  `inv c t w=<g> ops…`, `prep c t`, `slot epoch t who|? sid content`, `swap epoch t creator`, `ackp epoch t`, `ret c t`,
  `obs r tReq tGot epoch content`, `fin tReq tGot epoch content`
then `explain`: the driver builds the `Lin.History`, runs the checker (`Lin.judge` = `Lin.explains` + the reason), and —
with the order the checker found — replays the whole recorded history as an execution of the model `Lin.step`
(every event must be `enabled`: the hypothesis `WF` of the C05 theorems evaluated on the real events), then
  `root epoch creator ## n=<Count> content`, `reader r epoch ## n=<Count> content`, `final epoch ## n=<Count> content`
are answered with what the MODEL holds for that published root / reader. -/
open Bluge Bluge.Index Bluge.Lin

structure Rec where
  cfg : String := ""
  safe : Bool := false
  calls : List (Nat × Nat × List Op) := []        -- c, tInv, ops
  rets : List (Nat × Nat × Bool) := []            -- c, tRet, ok
  preps : List (Nat × Nat) := []                  -- c, t
  slots : List (Nat × Nat × Option Nat × Nat × List Doc) := []   -- epoch, t, who, new segment id (0: none), content
  swaps : List (Nat × Nat) := []                  -- epoch, t   (persist / merge root swaps)
  acks : List (Nat × Nat) := []                   -- epoch, t
  obs : List (Nat × Lin.Obs) := []                    -- reader id, observation
  fin : Option Lin.Obs := none
  -- after `explain`
  witness : Option (List Nat) := none
  model : Option Lin.State := none
  allSwaps : List Nat := []                       -- epochs of all recorded root swaps, oldest first

/-! ### printing / parsing -/

def docLe (a b : Doc) : Bool := a.id < b.id || (a.id == b.id && a.body ≤ b.body)
def sortDocs (ds : List Doc) : List Doc := ds.mergeSort docLe
def showDoc (d : Doc) : String := toString d.id ++ "." ++ toString d.body
def showDocs (ds : List Doc) : String := if ds.isEmpty then "-" else ",".intercalate ((sortDocs ds).map showDoc)

def parseDoc (s : String) : Option Doc :=
  match s.splitOn "." with
  | [a, b] => do let i ← a.toNat?; let n ← b.toNat?; pure ⟨i, n⟩
  | _ => none

def parseDocs (s : String) : Option (List Doc) :=
  if s == "-" || s.isEmpty then some [] else (s.splitOn ",").mapM parseDoc

def parseOp (s : String) : Option Op :=
  match s.splitOn ":" with
  | ["ins", i, b] => do let i ← i.toNat?; let b ← b.toNat?; pure (.insert ⟨i, b⟩)
  | ["upd", i, b] => do let i ← i.toNat?; let b ← b.toNat?; pure (.update i ⟨i, b⟩)
  | ["del", i] => do let i ← i.toNat?; pure (.delete i)
  | _ => none

def parseOps (ws : List String) : Option (List Op) :=
  if ws == ["-"] then some [] else ws.mapM parseOp

def brs (l : List (Bool × String)) : String :=
  let on := l.filterMap fun (b, s) => if b then some s else none
  if on.isEmpty then "" else " br=" ++ ",".intercalate on

/-! ### the recorded history -/

def Rec.history (r : Rec) : History :=
  let calls := r.calls.reverse.map fun (c, t, ops) =>
    ({ c := c, tInv := t, tRet := (r.rets.find? (fun x => x.1 == c)).map (·.2.1), b := Batch.ofOps ops,
       tPrep := (r.preps.find? (fun x => x.1 == c)).map (·.2) } : Call)
  let slots := r.slots.reverse.map fun (e, t, who, _, ds) => ({ epoch := e, t := t, who := who, content := ds } : Slot)
  let reads := r.obs.reverse.map (·.2) ++ (match r.fin with | some o => [o] | none => [])
  { calls := calls, slots := slots, reads := reads, final := (r.fin.map (·.content)).getD [] }

/-! ### replaying the recorded history as an execution of the model -/

/-- (stamp, tie-break) -/
abbrev Key := Nat × Nat
def keyLe (a b : Key × Ev) : Bool := a.1.1 < b.1.1 || (a.1.1 == b.1.1 && a.1.2 ≤ b.1.2)

def Rec.events (r : Rec) (order : List Nat) : List (Key × Ev) :=
  let slots := r.slots.reverse
  let placed := order.zip slots          -- (client, slot)
  let sidOf (c : Nat) : Nat :=
    match placed.find? (fun p => p.1 == c) with
    | some (_, (_, _, _, sid, _)) => if sid == 0 then 900000 + c else sid
    | none => 900000 + c
  let invs := r.calls.reverse.flatMap fun (c, t, ops) =>
    let prep : Key := match r.preps.find? (fun p => p.1 == c) with
      | some (_, tp) => (tp, 0)
      | none => (t, 1)            -- not observed: directly after the invocation (any root gives the same result)
    [((t, 0), Ev.invoke c (Batch.ofOps ops)), (prep, Ev.prepare c (sidOf c) 0)]
  let intros := placed.map fun (c, (_, t, _, _, _)) => ((t, 0), Ev.intro c)
  let others := r.swaps.reverse.map fun (_, t) => ((t, 0), Ev.persist [])
  let acks := r.acks.reverse.map fun (e, t) =>
    ((t, 0), Ev.ack ((placed.filter (fun p => p.2.1 ≤ e)).map (·.1)))
  let rets := r.rets.reverse.map fun (c, t, _) => ((t, 0), Ev.ret c)
  -- a reader got the root of its epoch: it stands right after the swap that installed that root
  let swapT (e : Nat) : Nat :=
    match slots.find? (fun s => s.1 == e), r.swaps.find? (fun s => s.1 == e) with
    | some (_, t, _, _, _), _ => t
    | none, some (_, t) => t
    | none, none => 0
  let allObs := r.obs.reverse ++ (match r.fin with | some o => [(1000000, o)] | none => [])
  let readers := allObs.zipIdx.map fun ((rid, o), i) => ((swapT o.epoch, 1 + i), Ev.reader rid)
  (invs ++ intros ++ others ++ acks ++ rets ++ readers).mergeSort keyLe

def showEv : Ev → String
  | .invoke c _ => "invoke-" ++ toString c
  | .prepare c _ _ => "prepare-" ++ toString c
  | .intro c => "intro-" ++ toString c
  | .ack _ => "ack"
  | .ret c => "ret-" ++ toString c
  | .reader r => "reader-" ++ toString r
  | .persist _ => "persist"
  | .merge _ _ _ _ => "merge"

structure Replay where
  s : Lin.State
  rejected : Option Ev := none
  /-- `introduceSegment` recomputed obsoletes for a segment the prepared root did not have AND found documents
  there: a conflicting batch occupied the window between the optimistic obsoletes and the introduction -/
  recomputeHit : Nat := 0
  staleSeen : Nat := 0

def replayStep (observedPrep : Nat → Bool) (rp : Replay) (e : Ev) : Replay :=
  let s := rp.s
  let rp := if rp.rejected.isNone && !enabled s e then { rp with rejected := some e } else rp
  let rp := match e with
    | .intro c =>
      match s.phase c with
      | some (.prepared b _ _ seenNo _) =>
        let seen := s.core.seen (s.seenIdx seenNo)
        let fresh := s.core.root.segs.filter (fun (ss : SegSnap) => !(seen.sids.contains ss.sid))
        let hit := fresh.any (fun (ss : SegSnap) => !(docsMatching ss.docs b.ids).isEmpty)
        -- only a prepare whose moment was observed counts (then the real root was at most as new as the model's)
        if observedPrep c then
          { rp with recomputeHit := rp.recomputeHit + (if hit then 1 else 0),
                    staleSeen := rp.staleSeen + (if seen.epoch != s.core.root.epoch then 1 else 0) }
        else rp
      | _ => rp
    | _ => rp
  { rp with s := Lin.step s e }

/-- content of the model's published root number `n` (0 = empty index) -/
def pubContent (s : Lin.State) (n : Nat) : Option (List Doc) :=
  (s.core.history.reverse[n]?).map Root.abs

/-! ### one line -/

def parseObs (ws : List String) : Option Lin.Obs :=
  match ws with
  | [a, b, e, c] => do
    let a ← a.toNat?; let b ← b.toNat?; let e ← e.toNat?; let c ← parseDocs c
    pure ⟨a, b, e, c⟩
  | _ => none

def overlap (a b : Call) : Bool :=
  match a.tRet, b.tRet with
  | some ra, some rb => a.tInv < rb && b.tInv < ra
  | _, _ => true

def explainLine (r : Rec) : Rec × String :=
  let h := r.history
  let counts := "calls=" ++ toString h.calls.length ++ " slots=" ++ toString h.slots.length ++
    " reads=" ++ toString h.reads.length
  let failed := r.rets.filter (fun x => !x.2.2)
  let pending := h.calls.filter (fun a => a.tRet.isNone)
  let allSwaps := ((r.slots.map (fun s => (s.1, s.2.1))) ++ r.swaps).mergeSort (fun a b => a.1 ≤ b.1) |>.map (·.1)
  let unknown := (h.slots.filter (·.who.isNone)).length
  let hbr : List (Bool × String) := [
    (r.safe, "safe"), (!r.safe, "unsafe"), (unknown > 0, "unobserved-introduction"),
    (h.candidates.length > 1, "several-placements"),
    (h.calls.any (fun a => a.b.docs.isEmpty && !a.b.ids.isEmpty), "delete-only-batch"),
    (h.calls.any (fun a => a.b.docs.isEmpty && a.b.ids.isEmpty), "empty-batch"),
    (h.calls.any (fun a => h.calls.any (fun b => a.c < b.c && overlap a b)), "overlapping-calls"),
    (h.calls.any (fun a => h.calls.any (fun b => a.c != b.c && overlap a b &&
        !b.b.docs.isEmpty && b.b.docs.any (fun d => a.b.ids.contains d.id))), "conflicting-overlapping-calls"),
    (h.reads.any (fun o => 0 < h.kAt o.epoch && h.kAt o.epoch < h.slots.length), "reader-mid-history"),
    (h.reads.any (fun o => h.calls.any (fun a => a.tInv < o.tGot && (a.tRet.getD 0) > o.tReq)), "reader-concurrent-with-batch"),
    (!r.swaps.isEmpty, "persist-or-merge-swap"), (h.calls.length ≥ 8, "calls>=8")]
  if !failed.isEmpty then
    ({ r with allSwaps := allSwaps }, counts ++ sep ++ "bad:batch-returned-an-error c=" ++ toString (failed.map (·.1)))
  else if !pending.isEmpty then
    ({ r with allSwaps := allSwaps }, counts ++ sep ++ "bad:batch-did-not-return c=" ++ toString (pending.map (·.c)))
  else if unknown > 7 then
    ({ r with allSwaps := allSwaps }, counts ++ sep ++ "na" ++ brs [(true, "too-many-unobserved-introductions")])
  else
  match judge h with
  | .assumption w => ({ r with allSwaps := allSwaps }, counts ++ sep ++ "bad:assumption-" ++ w)
  | .realtime w => ({ r with allSwaps := allSwaps }, counts ++ sep ++ "bad:realtime-violated " ++ w)
  | .notLinearizable w => ({ r with allSwaps := allSwaps }, counts ++ sep ++ "bad:not-linearizable " ++ w)
  | .readerNotPrefix w => ({ r with allSwaps := allSwaps }, counts ++ sep ++ "bad:reader-not-prefix " ++ w)
  | .ok order0 =>
    -- the model accepts the recorded execution? Several placements of the unobserved batches may explain the history
    -- equally well; the replay needs one under which every recorded event (prepares, acknowledgements) is enabled
    let observed (c : Nat) : Bool := r.preps.any (fun p => p.1 == c)
    let replay (order : List Nat) : Replay :=
      ((r.events order).map (·.2)).foldl (replayStep observed) { s := Lin.State.init r.safe }
    let goods := (h.candidates.filter (fun o => decide (Accepts h o))).take 24
    let order := (goods.find? (fun o => (replay o).rejected.isNone)).getD order0
    let rp := replay order
    let s := rp.s
    let verdict :=
      match rp.rejected with
      | some (.ret c) =>
        if r.safe && ((s.phase c).map Phase.isIntroduced).getD false then
          "bad:safe-batch-returned-before-its-root-was-persisted c=" ++ toString c
        else "bad:realtime-violated model-rejects-ret-" ++ toString c
      | some e => "bad:assumption-model-rejects-" ++ showEv e
      | none =>
        if s.lin != order then "bad:assumption-replay-order-differs"
        else if !explains h then "bad:not-linearizable checker-and-verdict-disagree"
        else "ok"
    ({ r with witness := some order, model := some s, allSwaps := allSwaps },
      counts ++ sep ++ verdict ++ brs (hbr ++ [
        (decide (rp.recomputeHit > 0), "recompute-hit"), (decide (rp.staleSeen > 0), "stale-root-seen"),
        (!r.preps.isEmpty, "prepare-observed")]))

def c05step (r : Rec) (op : String) (impl : String) : Rec × String :=
  let ws := (op.splitOn " ").filter (fun w => w ≠ "")
  let na := "-" ++ sep ++ "na"
  match ws with
  | "case" :: cfg :: _ =>
    ({ cfg := cfg, safe := (cfg.splitOn "-").contains "safe" }, "case" ++ sep ++ "na")
  | "inv" :: c :: t :: _ :: opws =>
    match c.toNat?, t.toNat?, parseOps opws with
    | some c, some t, some ops => ({ r with calls := (c, t, ops) :: r.calls }, na)
    | _, _, _ => (r, "-" ++ sep ++ "bad:unparsable-inv")
  | ["prep", c, t] =>
    match c.toNat?, t.toNat? with
    | some c, some t => ({ r with preps := (c, t) :: r.preps }, na)
    | _, _ => (r, "-" ++ sep ++ "bad:unparsable-prep")
  | ["slot", e, t, who, sid, content] =>
    match e.toNat?, t.toNat?, sid.toNat?, parseDocs content with
    | some e, some t, some sid, some ds =>
      ({ r with slots := (e, t, who.toNat?, sid, ds) :: r.slots }, "introduceSegment" ++ sep ++ "na")
    | _, _, _, _ => (r, "-" ++ sep ++ "bad:unparsable-slot")
  | ["swap", e, t, creator] =>
    match e.toNat?, t.toNat? with
    | some e, some t => ({ r with swaps := (e, t) :: r.swaps }, creator ++ sep ++ "na")
    | _, _ => (r, "-" ++ sep ++ "bad:unparsable-swap")
  | ["ackp", e, t] =>
    match e.toNat?, t.toNat? with
    | some e, some t =>
      if impl == "ok" then ({ r with acks := (e, t) :: r.acks }, "ok" ++ sep ++ "na")
      else (r, "ok" ++ sep ++ "na" ++ brs [(true, "persist-error")])
    | _, _ => (r, "-" ++ sep ++ "bad:unparsable-ackp")
  | ["ret", c, t] =>
    match c.toNat?, t.toNat? with
    | some c, some t =>
      ({ r with rets := (c, t, impl == "ok") :: r.rets },
        "ok" ++ sep ++ (if impl == "ok" then "na" else "bad:batch-returned-an-error c=" ++ toString c))
    | _, _ => (r, "-" ++ sep ++ "bad:unparsable-ret")
  | "obs" :: rid :: rest =>
    match rid.toNat?, parseObs rest with
    | some rid, some o => ({ r with obs := (rid, o) :: r.obs }, na)
    | _, _ => (r, "-" ++ sep ++ "bad:unparsable-obs")
  | "fin" :: rest =>
    match parseObs rest with
    | some o => ({ r with fin := some o }, na)
    | none => (r, "-" ++ sep ++ "bad:unparsable-fin")
  | "explain" :: _ => explainLine r
  | ["root", e, _] =>
    match r.model, e.toNat? with
    | some s, some e =>
      -- publication number of the root with this epoch = 1 + its index among the recorded swaps
      let n := match r.allSwaps.findIdx? (· == e) with
        | some i => i + 1
        | none => 0
      match pubContent s n with
      | some ds =>
        let m := "n=" ++ toString ds.length ++ " " ++ showDocs ds
        (r, m ++ sep ++ (if m == impl then "ok" else "bad:published-root-is-not-a-prefix-state expected " ++ m))
      | none => (r, "?" ++ sep ++ "bad:assumption-root-swap-not-replayed")
    | _, _ => (r, impl ++ sep ++ "na")
  | ["reader", rid, _] =>
    match r.model, rid.toNat? with
    | some s, some rid =>
      match s.reads.find? (fun rd => rd.r == rid) with
      | some rd =>
        let m := "n=" ++ toString rd.content.length ++ " " ++ showDocs rd.content
        (r, m ++ sep ++ (if m == impl then "ok" else "bad:reader-not-prefix expected " ++ m))
      | none => (r, "?" ++ sep ++ "bad:assumption-reader-not-replayed")
    | _, _ => (r, impl ++ sep ++ "na")
  | ["final", _] =>
    match r.model with
    | some s =>
      let m := "n=" ++ toString s.core.root.abs.length ++ " " ++ showDocs s.core.root.abs
      (r, m ++ sep ++ (if m == impl then "ok" else "bad:not-linearizable final-content expected " ++ m))
    | none => (r, impl ++ sep ++ "na")
  | ["end"] => (r, "closed" ++ sep ++ "ok")
  | "crash" :: _ => (r, "-" ++ sep ++ "bad:writer-process-crashed " ++ impl)
  | "hang" :: _ => (r, "-" ++ sep ++ "bad:case-did-not-finish " ++ impl)
  | kind :: _ => (r, "-" ++ sep ++ "bad:unexpected-" ++ kind)
  | [] => (r, na)

def main : IO Unit := driverLoop ({} : Rec) c05step

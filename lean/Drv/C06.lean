import Bluge.Basic
import Bluge.Index
import Bluge.C06.Model
/-! Model driver for C06 (line protocol, see go/harness/c06/main.go).

Every root the real introducer installed, every snapshot file the real persister wrote and every reader view arrives as
one line, in the order it happened:
* `intro <epoch> <sid|0> seen=<epoch> <ops>`: the model runs `introduceSegment` (obsoletes prepared against the root the
  batch call started from);
* `persist <epoch> grab=<epoch> <sid>[docs]…`: the model runs `introducePersist` (`PersistWF` checked);
* `merge <epoch> id=<sid> <mem|file> in=<sid>{drops}/… tab=<…>/… new=[docs]`: the inputs and the output of the REAL
  plugin `Merge` call. The driver looks up the segment snapshots `picked` (these ids with exactly these deleted sets) in
  an earlier root of ITS OWN history, evaluates `MergeWF` on the reported tables and documents
  (`bad:assumption-merge-wf`), and runs `introduceMerge` on `MergeTask.plan picked`;
* `snap <epoch> <creator> newid=<sid>`: the snapshot file written for `epoch`; for creator `persistSnapshotMaybeMerge`
  the model computes `equivSnapshot`;
* `read e=<epoch> k=<K>`: the model prints Count / match-all / `_id` lookups of its root of that epoch;
* `pastroot <epoch>`: the root of that epoch as the implementation holds it NOW (a published root never changes).
Every model result is the physical state (segments, deleted sets, documents) and must equal the implementation's.
The verdict is the abstract-index oracle on the IMPLEMENTATION's output. -/
open Bluge Bluge.Index

structure Snap where
  root : Root
  spec : List Doc
  by_ : String

structure DState where
  root : Root := Root.empty
  spec : List Doc := []
  hist : List Snap := [⟨Root.empty, [], "init"⟩]   -- every installed root with its abstract index, most recent first
  sidsSeen : List Nat := []
  mergeRoots : List (Nat × Root) := []            -- id of a merged segment ↦ the root its introduction installed
  mergeKinds : List (Nat × Bool) := []            -- id of a merged segment ↦ it was a file merge
  everLive : List Doc := []
  prevImpl : List Doc := []                       -- what the implementation showed on the previous line

/-! ### printing (as Drv/C01) -/

def docLe (a b : Doc) : Bool := a.id < b.id || (a.id == b.id && a.body ≤ b.body)
def sortDocs (ds : List Doc) : List Doc := ds.mergeSort docLe
def showDoc (d : Doc) : String := toString d.id ++ "." ++ toString d.body
def showDocs (ds : List Doc) : String := ",".intercalate (ds.map showDoc)

def showSeg (s : SegSnap) : String :=
  toString s.sid ++ (if s.persisted then "p" else "m") ++ "[" ++ showDocs s.docs ++ "]{" ++
    ",".intercalate ((s.deleted.mergeSort (· ≤ ·)).map toString) ++ "}"

def showRoot (r : Root) : String :=
  "e" ++ toString r.epoch ++ (if r.segs.isEmpty then " -" else String.join (r.segs.map fun s => " " ++ showSeg s))

def showView (count : Nat) (live : List Doc) (k : Nat) : String :=
  let look := (List.range k).map fun i =>
    toString (i + 1) ++ "=" ++ ";".intercalate (((sortDocs live).filter (fun d => d.id == i + 1)).map (toString ·.body))
  "n=" ++ toString count ++ " all=" ++ showDocs (sortDocs live) ++ " look=" ++ ",".intercalate look

/-! ### parsing -/

def parseDoc (s : String) : Option Doc :=
  match s.splitOn "." with
  | [a, b] => do let i ← a.toNat?; let n ← b.toNat?; pure ⟨i, n⟩
  | _ => none

def parseDocs (s : String) : Option (List Doc) :=
  if s.isEmpty then some [] else (s.splitOn ",").mapM parseDoc

def parseNats (s : String) : Option (List Nat) :=
  if s.isEmpty then some [] else (s.splitOn ",").mapM String.toNat?

def parseSeg (s : String) : Option SegSnap :=
  match s.splitOn "[" with
  | [hd, rest] =>
    match rest.splitOn "]{" with
    | [ds, del] => do
      let del := (del.dropEnd 1).toString
      let flag := hd.back
      let sid ← ((hd.dropEnd 1).toString).toNat?
      let docs ← parseDocs ds
      let deleted ← parseNats del
      if flag == 'p' || flag == 'm' then pure ⟨sid, docs, deleted, flag == 'p'⟩ else none
    | _ => none
  | _ => none

def parseRootWords (ws : List String) : Option Root :=
  match ws with
  | e :: segs => do
    let ep ← ((e.drop 1).toString).toNat?
    if !e.startsWith "e" then none
    else if segs == ["-"] then pure ⟨ep, []⟩
    else do let ss ← segs.mapM parseSeg; pure ⟨ep, ss⟩
  | [] => none

def parseOp (s : String) : Option Op :=
  match s.splitOn ":" with
  | ["ins", i, b] => do let i ← i.toNat?; let b ← b.toNat?; pure (.insert ⟨i, b⟩)
  | ["upd", i, b] => do let i ← i.toNat?; let b ← b.toNat?; pure (.update i ⟨i, b⟩)
  | ["del", i] => do let i ← i.toNat?; pure (.delete i)
  | _ => none

def parseOps (ws : List String) : Option (List Op) :=
  if ws == ["-"] then some [] else ws.mapM parseOp

def parsePersisted (s : String) : Option (Nat × List Doc) :=
  match s.splitOn "[" with
  | [sid, ds] => do let sid ← sid.toNat?; let docs ← parseDocs (ds.dropEnd 1).toString; pure (sid, docs)
  | _ => none

/-- `key=value` → value -/
def kv (key : String) (w : String) : Option String :=
  if w.startsWith (key ++ "=") then some (w.drop (key.length + 1)).toString else none

/-- `<sid>{a,b}` -/
def parseIn (s : String) : Option (Nat × List Nat) :=
  match s.splitOn "{" with
  | [sid, del] => do let sid ← sid.toNat?; let d ← parseNats (del.dropEnd 1).toString; pure (sid, d)
  | _ => none

/-- `<n,n,x>`: one table of old ↦ new doc numbers, `x` = dropped -/
def parseTab (s : String) : Option (List Nat) :=
  let body := ((s.drop 1).toString.dropEnd 1).toString
  if body.isEmpty then some [] else
  (body.splitOn ",").mapM fun w => if w == "x" then some docDropped else w.toNat?

/-! ### the specification oracle -/

def eraseDoc (l : List Doc) (d : Doc) : List Doc := l.erase d
/-- multiset difference -/
def minus (a b : List Doc) : List Doc := b.foldl eraseDoc a

/-- abstract-index oracle on what the implementation shows (`impl`) against the abstract index (`spec`) -/
def classify (st : DState) (impl spec : List Doc) : String :=
  let extra := minus impl spec
  let missing := minus spec impl
  match extra, missing with
  | [], [] => "ok"
  | d :: _, _ =>
    if !(st.everLive.contains d) && !(spec.contains d) then "bad:foreign-document " ++ showDoc d
    else if spec.any (fun x => x.id == d.id) || spec.contains d then
      "bad:duplicate " ++ showDoc d ++ " (an old version coexists with the current one, or a document shows twice)"
    else if st.prevImpl.contains d then "bad:lost-delete " ++ showDoc d ++ " (deleted in the abstract index, never left the implementation)"
    else "bad:resurrected " ++ showDoc d ++ " (deleted, gone, and back)"
  | [], d :: _ => "bad:dropped " ++ showDoc d ++ " (live in the abstract index, missing in the implementation)"

def permDocs (a b : List Doc) : Bool := sortDocs a == sortDocs b

/-- the `all=` documents, `n=`, and per id the bodies of the `look=` part of a reader view -/
def parseView (view : String) : Option (Nat × List Doc × List (Nat × List String)) :=
  match view.splitOn " all=" with
  | [n, rest] =>
    match rest.splitOn " look=" with
    | [all, look] => do
      let n ← ((n.drop 2).toString).toNat?
      let ds ← parseDocs all
      let lk := (look.splitOn ",").filterMap fun e =>
        match e.splitOn "=" with
        | [i, bs] => (i.toNat?).map fun i => (i, if bs.isEmpty then [] else bs.splitOn ";")
        | _ => none
      pure (n, ds, lk)
    | _ => none
  | _ => none

def sameSet (a b : List Nat) : Bool := a.length == b.length && a.all b.contains

/-! ### one step -/

def brs (l : List (Bool × String)) : String :=
  let on := l.filterMap fun (b, s) => if b then some s else none
  if on.isEmpty then "" else " br=" ++ ",".intercalate on

def install (st : DState) (r : Root) (spec : List Doc) (by_ : String) (implAbs : List Doc) : DState :=
  { st with root := r, spec := spec, hist := ⟨r, spec, by_⟩ :: st.hist,
            sidsSeen := (r.sids.filter (fun s => !st.sidsSeen.contains s)) ++ st.sidsSeen,
            everLive := (spec.filter (fun d => !st.everLive.contains d)) ++ st.everLive,
            prevImpl := implAbs }

def findEpoch (st : DState) (e : Nat) : Option Snap := st.hist.find? (fun s => s.root.epoch == e)

/-- verdict for an observed physical root -/
def rootVerdict (st : DState) (implRoot : Option Root) (spec : List Doc) (what : String) : String × List Doc :=
  match implRoot with
  | none => ("bad:unparsable-root", [])
  | some ir =>
    if !decide ir.WF then ("bad:assumption-deleted-bitmap-out-of-range", ir.abs)
    else
      let c := classify st ir.abs spec
      (if c == "ok" then "ok" else c ++ " after " ++ what ++ "; expected " ++ showDocs (sortDocs spec), ir.abs)

def c06step (st : DState) (op : String) (impl : String) : DState × String :=
  let ws := (op.splitOn " ").filter (fun w => w ≠ "" && !w.startsWith "cfg=")
  let implRoot := parseRootWords ((impl.splitOn " ").filter (· ≠ ""))
  match ws with
  | "case" :: _ => (st, "case" ++ sep ++ "na")
  | "intro" :: e :: sid :: seen :: opws =>
    match e.toNat?, sid.toNat?, kv "seen" seen >>= String.toNat?, parseOps opws with
    | some e, some sid, some seenE, some ops =>
      let b := Batch.ofOps ops
      let seenRoot := ((findEpoch st seenE).map (·.root)).getD st.root
      let obs := prepareObs seenRoot b.ids
      let r' := introduceSegment st.root e b sid obs
      let specNext := applyBatch st.spec b
      let (_, ndrop, hasNew) := introduceSegmentBranches st.root b obs
      let (v, ia) := rootVerdict st implRoot specNext "introduceSegment"
      let verdict :=
        if !decide (ObsOK st.root b.ids obs) then "bad:assumption-obsoletes-map-wrong-for-a-segment-id"
        else if sid != 0 && st.sidsSeen.contains sid then "bad:assumption-segment-id-not-fresh"
        else if !(st.root.epoch < e) then "bad:assumption-epoch-not-increasing"
        else v
      let hitsSegWithDels := st.root.segs.any fun s =>
        !s.deleted.isEmpty && (docsMatching s.docs b.ids).any (fun x => !s.deleted.contains x)
      -- merged segments that were introduced AFTER this batch was prepared (not in its obsoletes map) and BEFORE it is
      -- introduced (in the root now), holding a live document the batch names: only the `!ok` fallback deletes it
      let viaMerge := st.root.segs.filter fun s =>
        (obs.lookup s.sid).isNone && s.persisted && st.mergeKinds.any (fun p => p.1 == s.sid) &&
          (docsMatching s.docs b.ids).any (fun x => !s.deleted.contains x)
      let viaFile := viaMerge.any fun s => st.mergeKinds.any (fun p => p.1 == s.sid && p.2)
      let viaMem := viaMerge.any fun s => st.mergeKinds.any (fun p => p.1 == s.sid && !p.2)
      (install st r' specNext "intro" ia, showRoot r' ++ sep ++ verdict ++ brs [
        (ndrop > 0, "segment-dropped"), (hasNew, "new-segment"), (!hasNew, "no-new-segment"),
        (hitsSegWithDels, "delete on a segment that already carries deletions"),
        (!viaMerge.isEmpty, "window:prepared-before-merge-introduced-after"),
        (viaFile, "window:prepared-before-file-merge-introduced-after"),
        (viaMem, "window:prepared-before-mem-merge-introduced-after"),
        (seenE != st.root.epoch, "stale-root-seen")])
    | _, _, _, _ => (st, "bad-op" ++ sep ++ "bad:unparsable-intro")
  | "persist" :: e :: g :: ps =>
    match e.toNat?, kv "grab" g >>= String.toNat?, ps.mapM parsePersisted with
    | some e, some grabE, some p =>
      let r' := introducePersist st.root e p
      let (v, ia) := rootVerdict st implRoot st.spec "introducePersist"
      let verdict := if !decide (PersistWF st.root p) then "bad:assumption-reloaded-segment-differs" else v
      let grabbed := ((findEpoch st grabE).map (·.root)).getD st.root
      let pending := p.any fun (sid, _) =>
        match grabbed.segs.find? (fun s => s.sid == sid), st.root.segs.find? (fun s => s.sid == sid) with
        | some s0, some s1 => s0.deleted.length < s1.deleted.length
        | _, _ => false
      (install st r' st.spec "persist" ia, showRoot r' ++ sep ++ verdict ++ brs [
        (true, "persist"), (p.isEmpty, "persist-nothing"), (pending, "persist swap with pending deletes")])
    | _, _, _ => (st, "bad-op" ++ sep ++ "bad:unparsable-persist")
  | ["merge", e, "unattributed"] =>
    match e.toNat?, implRoot with
    | some _, some q =>
      (install st q st.spec "merge" q.abs, showRoot q ++ sep ++ "bad:assumption-merge-wf introduceMerge without a recorded plugin Merge call")
    | _, _ => (st, "bad-op" ++ sep ++ "bad:unparsable-merge")
  | ["merge", e, idw, kind, inw, tabw, neww] =>
    match e.toNat?, kv "id" idw >>= String.toNat?, kv "in" inw, kv "tab" tabw, kv "new" neww with
    | some e, some id, some ins, some tabs, some news =>
      match (ins.splitOn "/").mapM parseIn, (if tabs.isEmpty then some [] else (tabs.splitOn "/").mapM parseTab),
            parseDocs ((news.drop 1).toString.dropEnd 1).toString with
      | some ins, some tabs, some newDocs =>
        let fm := kind == "file"
        -- the segment snapshots the merge took: these ids with exactly these deleted sets, in ONE earlier root of our history
        let findIn (r : Root) : Option (List SegSnap) :=
          ins.mapM fun (sid, del) => r.segs.find? (fun s => s.sid == sid && sameSet s.deleted del)
        match st.hist.findSome? (fun s => (findIn s.root).map (fun p => (s.root, p))) with
        | none =>
          let q := implRoot.getD st.root
          (install st q st.spec "merge" q.abs, showRoot q ++ sep ++
            "bad:assumption-merge-wf the inputs of Merge are not segment snapshots of one earlier root")
        | some (r0, picked) =>
          let m := MergeTask.plan picked id fm
          let reported : MergeTask := { id := id, old := m.old, oldNew := (picked.map (·.sid)).zip tabs, new := some newDocs }
          let wf := decide (MergeWF r0 picked fm reported)
          let r' := introduceMerge st.root e m
          let left := (mergeLoop m.oldNew st.root.segs m.old []).2.1
          let since := picked.any fun s0 => st.root.segs.any fun s => s.sid == s0.sid && s0.deleted.length < s.deleted.length
          let staying := st.root.segs.filter (fun s => !(picked.map (·.sid)).contains s.sid)
          let (v, ia) := rootVerdict st implRoot st.spec "introduceMerge"
          let verdict :=
            if !wf then "bad:assumption-merge-wf plugin Merge output is not (live documents in input order, old->new table); model expects tables " ++
              toString (m.oldNew.map (·.2)) ++ " new " ++ showDocs (m.new.getD [])
            else if st.sidsSeen.contains id then "bad:assumption-segment-id-not-fresh"
            else if mergeFaults st.root m then "bad:assumption-nil-entry-left-in-old"
            else if !(st.root.epoch < e) then "bad:assumption-epoch-not-increasing"
            else v
          let st' := install st r' st.spec "merge" ia
          ({ st' with mergeRoots := (id, r') :: st'.mergeRoots, mergeKinds := (id, fm) :: st'.mergeKinds }, showRoot r' ++ sep ++ verdict ++ brs [
            (!left.isEmpty, "merge: segment dropped meanwhile"), (since, "merge: deletes since start mapped"),
            (mergeSkipped st.root m, "merge skipped: all deleted"),
            (picked.any (fun s => !s.deleted.isEmpty), "merge: inputs already carried deletions"),
            (picked.any (fun s0 => !s0.deleted.isEmpty && st.root.segs.any fun s => s.sid == s0.sid && s0.deleted.length < s.deleted.length),
              "merge: delete since start on an input that already carried deletions"),
            (staying.any (fun s => !s.deleted.isEmpty) && !mergeSkipped st.root m, "merge: staying segment with deletions before the merged one"),
            (fm, "file-merge"), (!fm, "mem-merge"), (r0.epoch != st.root.epoch, "merge: root changed since planning"),
            (picked.length == 1, "merge of a single segment"), (picked.length ≥ 3, "merge of three or more segments")])
      | _, _, _ => (st, "bad-op" ++ sep ++ "bad:unparsable-merge")
    | _, _, _, _, _ => (st, "bad-op" ++ sep ++ "bad:unparsable-merge")
  | ["snap", e, creator, nidw] =>
    match e.toNat?, kv "newid" nidw >>= String.toNat? with
    | some e, some newid =>
      match findEpoch st e with
      | none => (st, "-" ++ sep ++ "bad:snapshot-written-for-an-epoch-that-was-never-a-root")
      | some sn =>
        let isEquiv := creator == "persistSnapshotMaybeMerge"
        let model :=
          if isEquiv then equivSnapshot sn.root ((st.mergeRoots.lookup newid).getD st.root) newid else sn.root
        let verdict := match implRoot with
          | none => "bad:unparsable-snapshot"
          | some ir =>
            let c := classify st ir.abs sn.spec
            if c == "ok" then "ok" else c ++ " in the snapshot file of epoch " ++ toString e ++ "; expected " ++ showDocs (sortDocs sn.spec)
        (st, showRoot model ++ sep ++ verdict ++ brs [(isEquiv, "equiv-snapshot"), (!isEquiv, "direct-snapshot"),
          (isEquiv && e != st.root.epoch && st.spec != sn.spec, "equiv-snapshot of an older content")])
    | _, _ => (st, "bad-op" ++ sep ++ "bad:unparsable-snap")
  | "read" :: ew :: kw :: rest =>
    match kv "e" ew >>= String.toNat?, kv "k" kw >>= String.toNat? with
    | some e, some k =>
      match findEpoch st e with
      | none => (st, "-" ++ sep ++ "bad:reader-shows-an-epoch-that-was-never-a-root")
      | some sn =>
        let model := showView sn.root.count sn.root.abs k
        let (verdict, ia) := match parseView impl with
          | none => ("bad:reader-view-unreadable " ++ impl, st.prevImpl)
          | some (n, ds, lk) =>
            let c := classify st ds sn.spec
            let lookOk := lk.all fun (i, bs) => bs == ((sortDocs ds).filter (fun d => d.id == i)).map (toString ·.body)
            (if (impl.splitOn "wrong-id").length > 1 then
               "bad:lookup-by-id-resolves-to-another-document (a hit's stored fields are those of another document); expected " ++
                 showView sn.spec.length sn.spec k
             else if c != "ok" then c ++ " in the reader of epoch " ++ toString e ++ "; expected " ++ showView sn.spec.length sn.spec k
             else if n != ds.length then "bad:count-differs-from-match-all"
             else if !lookOk then "bad:lookup-by-id-differs-from-match-all"
             else "ok", ds)
        ({ st with prevImpl := ia }, model ++ sep ++ verdict ++ brs [
          (rest.any (·.startsWith "at="), "read at a gate"), (rest.contains "held", "held reader re-read"),
          (sn.by_ == "merge", "read: root built by introduceMerge"), (sn.by_ == "persist", "read: root built by introducePersist"),
          (sn.by_ == "merge" && sn.root.segs.dropLast.any (fun s => !s.deleted.isEmpty),
            "read: root built by introduceMerge with a segment with deletions before another"),
          (sn.spec.isEmpty, "empty-index")])
    | _, _ => (st, "bad-op" ++ sep ++ "bad:unparsable-read")
  | ["pastroot", e] =>
    match e.toNat? with
    | some e =>
      match findEpoch st e with
      | none => (st, "-" ++ sep ++ "bad:unknown-epoch")
      | some sn =>
        let model := showRoot sn.root
        let verdict :=
          if model == impl then "ok"
          else match implRoot with
            | none => "bad:unparsable-root"
            | some ir =>
              let c := classify st ir.abs sn.spec
              "bad:published-root-changed-after-installation" ++ (if c == "ok" then "" else " (" ++ c ++ ")")
        (st, model ++ sep ++ verdict ++ brs [(true, "past root re-read")])
    | none => (st, "bad-op" ++ sep ++ "bad:unparsable-pastroot")
  | ["end"] => (st, "closed" ++ sep ++ "ok")
  | "crash" :: _ => (st, "-" ++ sep ++ "bad:writer-process-crashed " ++ impl)
  | "batcherr" :: _ => (st, "-" ++ sep ++ "bad:batch-failed " ++ impl)
  | kind :: _ => (st, "-" ++ sep ++ "bad:unexpected-" ++ kind)
  | [] => (st, "-" ++ sep ++ "na")

def main : IO Unit := driverLoop ({} : DState) c06step

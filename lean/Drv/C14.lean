import Bluge.RecoverDrv
/-! Model driver for C14 (stream `faults`: protocol records under injected directory faults; see go/harness/persistlib/faults.go). -/
open Bluge Bluge.Persist.RDrv

def main : IO Unit := driverLoop ({} : RState) stepLine

import Bluge.Highlight
import BlugeGen.C20
/-! Model driver for C20 (line protocol, see go/harness/c20 for the op lines). -/
open Bluge Bluge.Highlight

def parseLoc (s : String) : Option (Option TermLocation) :=
  if s == "nil" then some none else
  match s.splitOn "," with
  | [t, p, a, b] => match p.toInt?, a.toInt?, b.toInt? with
    | some p, some a, some b => some (some { term := t, pos := p, start := a, stop := b })
    | _, _, _ => none
  | _ => none

def parseLocsNil (s : String) : Option (List (Option TermLocation)) :=
  if s == "-" then some [] else (s.splitOn ";").mapM parseLoc

def parseLocs (s : String) : Option (List TermLocation) :=
  (parseLocsNil s).map fun l => l.filterMap id

def showLoc : Option TermLocation → String
  | none => "nil"
  | some l => s!"{l.term},{l.pos},{l.start},{l.stop}"

def showLocs (l : List (Option TermLocation)) : String :=
  if l.isEmpty then "-" else ";".intercalate (l.map showLoc)

def showFrags (fs : List Fragment) : String :=
  if fs.isEmpty then "[]" else ",".intercalate (fs.map fun f => s!"{f.start}:{f.stop}")

def showStrings (ss : List Bytes) : String :=
  if ss.isEmpty then "[]" else ",".intercalate (ss.map bytesToHex)

def parseStrings (s : String) : Option (List Bytes) :=
  if s == "[]" then some [] else (s.splitOn ",").mapM hexToBytes

def parseFrags (s : String) : Option (List (Int × Int)) :=
  if s == "[]" then some [] else (s.splitOn ",").mapM fun it =>
    match it.splitOn ":" with
    | [a, b] => match a.toInt?, b.toInt? with
      | some a, some b => some (a, b)
      | _, _ => none
    | _ => none

def fmtOf (k : String) : Fmt := if k == "html" then htmlFmt else ansiFmt

def hasEsc (b : Bytes) : Bool := b.contains 0x1B

def isInfix (piece whole : Bytes) : Bool :=
  let rec go : Nat → Bytes → Bool
    | 0, w => piece.isPrefixOf w
    | f + 1, w => piece.isPrefixOf w || (match w with | [] => false | _ :: t => go f t)
  go whole.length whole

def dropSuffix (s suf : Bytes) : Option Bytes :=
  if suf.isSuffixOf s then some (s.take (s.length - suf.length)) else none
def dropPrefix (s pre : Bytes) : Option Bytes :=
  if pre.isPrefixOf s then some (s.drop pre.length) else none

/-- the marked spans of a formatted string, as offsets into the stripped text -/
def markSpans (html : Bool) : Nat → Bytes → Nat → Option Nat → List (Nat × Nat)
  | 0, _, _, _ => []
  | _, [], _, _ => []
  | f + 1, b :: t, off, open? =>
    let s := b :: t
    let (o, c) := if html then (markOpen, markClose) else (ansiColor, ansiReset)
    if o.isPrefixOf s then markSpans html f (s.drop o.length) off (some off)
    else if c.isPrefixOf s then
      (match open? with | some a => [(a, off)] | none => []) ++ markSpans html f (s.drop c.length) off none
    else if html && amp.isPrefixOf s then markSpans html f (s.drop 5) (off + 1) open?
    else if html && apos.isPrefixOf s then markSpans html f (s.drop 5) (off + 1) open?
    else if html && quot.isPrefixOf s then markSpans html f (s.drop 5) (off + 1) open?
    else if html && ltE.isPrefixOf s then markSpans html f (s.drop 4) (off + 1) open?
    else if html && gtE.isPrefixOf s then markSpans html f (s.drop 4) (off + 1) open?
    else markSpans html f t (off + 1) open?

def strip (html : Bool) (s : Bytes) : Bytes := if html then stripHtml s else stripAnsi s

/-- faithfulness oracle for one string returned by BestFragments: with or without the separators,
stripped of marks and un-escaped it must be a contiguous piece of the original -/
def faithful (html : Bool) (orig s : Bytes) : Bool :=
  let cands := [some s, dropPrefix s separator, dropSuffix s separator, (dropPrefix s separator).bind (dropSuffix · separator)]
  cands.any fun c => match c with
    | some c => isInfix (strip html c) orig
    | none => false

def runesIn (orig : Bytes) (a b : Int) : Nat := match slice orig a b with | some s => runeCount s | none => 0

/-- some location fits the fragment size (the premise of "the best fragment contains a match") -/
def someFits (orig : Bytes) (fsize : Int) (locs : List TermLocation) : Bool :=
  locs.any fun l => locOK orig l && (runesIn orig l.start l.stop : Int) ≤ fsize

def hasMark (html : Bool) (s : Bytes) : Bool := !(markSpans html s.length s 0 none).isEmpty

def distinctStarts : List TermLocation → Bool
  | [] => true
  | l :: rest => !(rest.any fun m => m.start == l.start) && distinctStarts rest

def br (tags : List String) : String := if tags.isEmpty then "" else " br=" ++ ",".intercalate tags

def c20step (v : Variant) (op : String) (impl : String) : Variant × String :=
  let ws := op.splitOn " "
  let out : String × String := match ws with
    | ["dr", x] => match hexToBytes x with
        | some b => let r := decodeRune b; (s!"{r.1} {r.2}", "ok")
        | none => ("bad-op", "na")
    | ["dlr", x] => match hexToBytes x with
        | some b => let r := decodeLastRune b; (s!"{r.1} {r.2}", "ok")
        | none => ("bad-op", "na")
    | ["rc", x] => match hexToBytes x with
        | some b => (toString (runeCount b), "ok")
        | none => ("bad-op", "na")
    | ["valid", x] => match hexToBytes x with
        | some b => (toString (validUtf8 b), "ok" ++ br [if validUtf8 b then (if cleanUtf8 b then "text-clean" else "text-valid-with-U+FFFD") else "text-invalid"])
        | none => ("bad-op", "na")
    | ["esc", x] => match hexToBytes x with
        | some b =>
          let verdict := match hexToBytes impl with
            | some i => if stripHtml i == b then "ok" else "bad:unescape-differs"
            | none => "bad:unparsable"
          (bytesToHex (htmlEscape b), verdict)
        | none => ("bad-op", "na")
    | ["merge", l] => match parseLocs l with
        | some locs =>
          let m := mergeOverlapping locs
          (showLocs m, "ok" ++ br [if m.any Option.isNone then "merge-merged" else "merge-nothing",
                                    if sortedByStart locs then "merge-sorted-input" else "merge-unsorted-input"])
        | none => ("bad-op", "na")
    | ["frag", fs, t, l] => match fs.toInt?, hexToBytes t, parseLocs l with
        | some fsize, some orig, some locs =>
          let m := fragment v orig fsize locs
          let ok := locsOK orig locs
          let tags := [if ok then "frag-locs-ok" else "frag-locs-adversarial"] ++
            (if locs.isEmpty then ["frag-empty-locs"] else []) ++
            (match m with
             | none => ["frag-model-panic"]
             | some fr => (if fr.length < locs.length then ["frag-bailed"] else []) ++
                          (if fr.any (fun f => !(locs.any fun l => l.start == f.start)) then ["frag-start-moved"] else []))
          let verdict :=
            if impl == "panic" then "bad:panic" else
            match parseFrags impl with
            | none => "bad:unparsable"
            | some ifr =>
              if !ok then "ok" else
              if ifr.any (fun (a, b) => !(0 ≤ a && a ≤ b && b ≤ orig.length)) then "bad:fragment-bounds"
              else if ifr.any (fun (a, b) => !(isBoundary orig a && isBoundary orig b)) then "bad:fragment-splits-rune"
              else if ifr.any (fun (a, b) => (runesIn orig a b : Int) > fsize) then "bad:fragment-too-long"
              else "ok"
          ((match m with | some fr => showFrags fr | none => "panic"), verdict ++ br tags)
        | _, _, _ => ("bad-op", "na")
    | ["fmt", k, t, a, b, l] => match hexToBytes t, a.toInt?, b.toInt?, parseLocsNil l with
        | some orig, some fa, some fb, some tls =>
          let html := k == "html"
          let f : Fragment := { start := fa, stop := fb }
          let m := format v (fmtOf k) orig f tls
          let mk := marks v f tls
          let tags := [if mk.isEmpty then "fmt-no-mark" else "fmt-marks", "fmt-" ++ k] ++
            (if tls.any Option.isNone then ["fmt-nil-entry"] else []) ++
            (if m.isNone then ["fmt-model-panic"] else [])
          let verdict :=
            if impl == "panic" then "bad:panic" else
            match hexToBytes impl, slice orig fa fb with
            | none, _ => "bad:unparsable"
            | some _, none => "ok"
            | some i, some want =>
              if !html && hasEsc orig then "na"
              else if strip html i != want then "bad:strip-not-slice"
              else if (markSpans html i.length i 0 none).any (fun (x, y) =>
                  !(tls.any fun o => match o with
                    | some tl => tl.start == fa + x && tl.stop == fa + y
                    | none => false)) then "bad:mark-not-a-location"
              else "ok"
          ((match m with | some s => bytesToHex s | none => "panic"), verdict ++ br tags)
        | _, _, _, _ => ("bad-op", "na")
    | [bop, k, fs, n, t, l] =>
      if bop != "best" && bop != "beste" then ("bad-op", "na") else
      match fs.toInt?, n.toInt?, hexToBytes t, parseLocs l with
        | some fsize, some num, some orig, some locs =>
          let html := k == "html"
          let m := bestFragments v (fmtOf k) orig fsize num locs
          let ord := orderTermLocations locs
          let ok := locsOK orig ord
          let fits := someFits orig fsize locs
          let tags := [if ok then "best-locs-ok" else "best-locs-adversarial", "best-" ++ k] ++
            (if ok && fits then ["best-match-fits"] else []) ++
            (if ok && !disjointLocs ord then ["best-overlapping-locs"] else []) ++
            (if ok && !cleanUtf8 orig then ["best-text-with-U+FFFD"] else []) ++
            (if !distinctStarts locs then ["best-start-ties"] else []) ++
            (match m with
             | none => ["best-model-panic"]
             | some ss => (if ss.length ≥ 2 then ["best-several"] else []) ++
                          (if ss.any (fun s => separator.isPrefixOf s) then ["best-sep-before"] else []) ++
                          (if ss.any (fun s => separator.isSuffixOf s) then ["best-sep-after"] else []))
          let verdict :=
            if impl == "panic" then "bad:panic" else
            match parseStrings impl with
            | none => "bad:unparsable"
            | some ss =>
              if bop == "beste" && !ok then "bad:assumption-search-locations-not-sorted-inrange-on-rune-boundaries"
              else if (ss.length : Int) > max num 0 then "bad:more-fragments-than-asked"
              else if (html || !hasEsc orig) && ss.any (fun s => !faithful html orig s) then "bad:strip-not-slice"
              else if ok && ss.any (fun s => !validUtf8 s) then "bad:fragment-splits-rune"
              else if ok && disjointLocs ord && fits && num ≥ 1 && (html || !hasEsc orig) &&
                      !(match ss with | s :: _ => hasMark html s | [] => false) then "bad:best-without-match"
              else "ok"
          ((match m with | some ss => showStrings ss | none => "panic"), verdict ++ br tags)
        | _, _, _, _ => ("bad-op", "na")
    | "case" :: _ => ("case", "na")
    | _ => ("bad-op", "na")
  (v, out.1 ++ sep ++ out.2)

/-- The variant of the code the driver transcribes is the one go/extract recognised in /repo's source
(`BlugeGen.C20.variant`, regenerated on every run). For development `VERIF_C20_FIXES` overrides it:
`pinned`, or a comma-separated subset of `size-guard`, `loc-guard`, `rune-cut`. -/
def main : IO Unit := do
  let v : Variant := match (← IO.getEnv "VERIF_C20_FIXES") with
    | none => BlugeGen.C20.variant
    | some "" => BlugeGen.C20.variant
    | some s =>
      let fixes := s.splitOn ","
      ⟨fixes.contains "size-guard", fixes.contains "loc-guard", fixes.contains "rune-cut"⟩
  driverLoop v c20step

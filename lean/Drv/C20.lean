import Bluge.Highlight
import BlugeGen.C20
/-! Model driver for C20 (line protocol, see go/harness/c20 for the op lines). -/
open Bluge Bluge.Highlight

def parseLoc (s : String) : Option (Option TermLocation) :=
  if s == "nil" then some none else
  match s.splitOn "," with
  | [t, p, a, b] => match p.toInt?, a.toInt?, b.toInt? with
    | some p, some a, some b => some (some { term := t, pos := p, start := a, stop := b })
    | _, _, _ => none
  | _ => none

def parseLocsNil (s : String) : Option (List (Option TermLocation)) :=
  if s == "-" then some [] else (s.splitOn ";").mapM parseLoc

def parseLocs (s : String) : Option (List TermLocation) :=
  (parseLocsNil s).map fun l => l.filterMap id

def showLoc : Option TermLocation → String
  | none => "nil"
  | some l => s!"{l.term},{l.pos},{l.start},{l.stop}"

def showLocs (l : List (Option TermLocation)) : String :=
  if l.isEmpty then "-" else ";".intercalate (l.map showLoc)

def showFrags (fs : List Fragment) : String :=
  if fs.isEmpty then "[]" else ",".intercalate (fs.map fun f => s!"{f.start}:{f.stop}")

def showStrings (ss : List Bytes) : String :=
  if ss.isEmpty then "[]" else ",".intercalate (ss.map bytesToHex)

def parseStrings (s : String) : Option (List Bytes) :=
  if s == "[]" then some [] else (s.splitOn ",").mapM hexToBytes

def parseFrags (s : String) : Option (List (Int × Int)) :=
  if s == "[]" then some [] else (s.splitOn ",").mapM fun it =>
    match it.splitOn ":" with
    | [a, b] => match a.toInt?, b.toInt? with
      | some a, some b => some (a, b)
      | _, _ => none
    | _ => none

def fmtOf (k : String) : Fmt := if k == "html" then htmlFmt else ansiFmt

def hasEsc (b : Bytes) : Bool := b.contains 0x1B

def isInfix (piece whole : Bytes) : Bool :=
  let rec go : Nat → Bytes → Bool
    | 0, w => piece.isPrefixOf w
    | f + 1, w => piece.isPrefixOf w || (match w with | [] => false | _ :: t => go f t)
  go whole.length whole

def dropSuffix (s suf : Bytes) : Option Bytes :=
  if suf.isSuffixOf s then some (s.take (s.length - suf.length)) else none
def dropPrefix (s pre : Bytes) : Option Bytes :=
  if pre.isPrefixOf s then some (s.drop pre.length) else none

/-- the marked spans of a formatted string, as offsets into the stripped text -/
def markSpans (html : Bool) : Nat → Bytes → Nat → Option Nat → List (Nat × Nat)
  | 0, _, _, _ => []
  | _, [], _, _ => []
  | f + 1, b :: t, off, open? =>
    let s := b :: t
    let (o, c) := if html then (markOpen, markClose) else (ansiColor, ansiReset)
    if o.isPrefixOf s then markSpans html f (s.drop o.length) off (some off)
    else if c.isPrefixOf s then
      (match open? with | some a => [(a, off)] | none => []) ++ markSpans html f (s.drop c.length) off none
    else if html && amp.isPrefixOf s then markSpans html f (s.drop 5) (off + 1) open?
    else if html && apos.isPrefixOf s then markSpans html f (s.drop 5) (off + 1) open?
    else if html && quot.isPrefixOf s then markSpans html f (s.drop 5) (off + 1) open?
    else if html && ltE.isPrefixOf s then markSpans html f (s.drop 4) (off + 1) open?
    else if html && gtE.isPrefixOf s then markSpans html f (s.drop 4) (off + 1) open?
    else markSpans html f t (off + 1) open?

def strip (html : Bool) (s : Bytes) : Bytes := if html then stripHtml s else stripAnsi s

/-- faithfulness oracle for one string returned by BestFragments: with or without the separators,
stripped of marks and un-escaped it must be a contiguous piece of the original -/
def faithful (html : Bool) (orig s : Bytes) : Bool :=
  let cands := [some s, dropPrefix s separator, dropSuffix s separator, (dropPrefix s separator).bind (dropSuffix · separator)]
  cands.any fun c => match c with
    | some c => isInfix (strip html c) orig
    | none => false

def runesIn (orig : Bytes) (a b : Int) : Nat := match slice orig a b with | some s => runeCount s | none => 0

/-- some location fits the fragment size (the premise of "the best fragment contains a match") -/
def someFits (orig : Bytes) (fsize : Int) (locs : List TermLocation) : Bool :=
  locs.any fun l => locOK orig l && (runesIn orig l.start l.stop : Int) ≤ fsize

def hasMark (html : Bool) (s : Bytes) : Bool := !(markSpans html s.length s 0 none).isEmpty

def distinctStarts : List TermLocation → Bool
  | [] => true
  | l :: rest => !(rest.any fun m => m.start == l.start) && distinctStarts rest

def br (tags : List String) : String := if tags.isEmpty then "" else " br=" ++ ",".intercalate tags

/-! ### the admissible orders of OrderTermLocations -/

/-- all ways of inserting `x` into `l` -/
def insertions {α : Type} (x : α) : List α → List (List α)
  | [] => [[x]]
  | y :: ys => (x :: y :: ys) :: (insertions x ys).map (y :: ·)

def perms {α : Type} : List α → List (List α)
  | [] => [[]]
  | x :: xs => (perms xs).flatMap (insertions x)

/-- split a `Less`-sorted list into its classes of mutually un-separated locations -/
def tieClasses (tb : Bool) : List TermLocation → List (List TermLocation)
  | [] => []
  | a :: rest =>
    match tieClasses tb rest with
    | (b :: cls) :: more => if !lessTL tb a b && !lessTL tb b a then (a :: b :: cls) :: more else [a] :: (b :: cls) :: more
    | other => [a] :: other

def spansOf (l : List TermLocation) : List (Int × Int) := l.map fun x => (x.start, x.stop)

def dedupBy {α β : Type} [BEq β] (key : α → β) : List α → List β → List α
  | [], _ => []
  | x :: xs, seen => if seen.contains (key x) then dedupBy key xs seen else x :: dedupBy key xs (key x :: seen)

/-- the distinct arrangements of a tie class as far as anything downstream can see (`bestOrd_congr`: only the
sequence of spans matters): next comes any location whose span differs from those already tried at this position -/
def spanPerms : Nat → List TermLocation → List (List TermLocation)
  | 0, l => [l]
  | _, [] => [[]]
  | f + 1, l =>
    let firsts := dedupBy (fun (x : TermLocation) => (x.start, x.stop)) l []
    firsts.flatMap fun x => (spanPerms f (l.erase x)).map (x :: ·)

/-- every `Less`-sorted permutation of `locs` up to the order among locations with the same span, capped at `cap`
orders; the stable order comes first -/
def admissibleOrders (tb : Bool) (cap : Nat) (locs : List TermLocation) : List (List TermLocation) × Bool :=
  let ord := orderTermLocations tb locs
  let classes := tieClasses tb ord
  let choices : List (List (List TermLocation)) := classes.map fun c =>
    if c.length ≤ 1 then [c] else dedupBy spansOf (c :: (spanPerms c.length c).take (4 * cap)) []
  let total := choices.foldl (fun n c => n * c.length) 1
  let all : List (List TermLocation) := choices.foldr (fun c acc =>
    (c.flatMap fun x => acc.map fun rest => x ++ rest).take cap) [[]]
  (all, total > cap)

def showResult (m : Option (List Bytes)) : String := match m with | some ss => showStrings ss | none => "panic"

/-- the absolute marked spans of one returned string for the fragment `f` -/
def absMarks (html : Bool) (f : Fragment) (s : Bytes) : List (Int × Int) :=
  let body := match dropPrefix s separator with
    | some r => if f.start ≠ 0 then r else s
    | none => s
  (markSpans html body.length body 0 none).map fun (x, y) => (f.start + (x : Int), f.start + (y : Int))

def c20step (v : Variant) (op : String) (impl : String) : Variant × String :=
  let ws := op.splitOn " "
  let out : String × String := match ws with
    | ["dr", x] => match hexToBytes x with
        | some b => let r := decodeRune b; (s!"{r.1} {r.2}", "ok")
        | none => ("bad-op", "na")
    | ["dlr", x] => match hexToBytes x with
        | some b => let r := decodeLastRune b; (s!"{r.1} {r.2}", "ok")
        | none => ("bad-op", "na")
    | ["rc", x] => match hexToBytes x with
        | some b => (toString (runeCount b), "ok")
        | none => ("bad-op", "na")
    | ["valid", x] => match hexToBytes x with
        | some b => (toString (validUtf8 b), "ok" ++ br [if validUtf8 b then (if cleanUtf8 b then "text-clean" else "text-valid-with-U+FFFD") else "text-invalid"])
        | none => ("bad-op", "na")
    | ["esc", x] => match hexToBytes x with
        | some b =>
          let verdict := match hexToBytes impl with
            | some i => if stripHtml i == b then "ok" else "bad:unescape-differs"
            | none => "bad:unparsable"
          (bytesToHex (htmlEscape b), verdict)
        | none => ("bad-op", "na")
    | ["merge", l] => match parseLocs l with
        | some locs =>
          let m := mergeOverlapping v.mergeMax locs
          let srt := sortedByStart locs && locs.all (fun x => x.start < x.stop)
          let exact := match locs with
            | a :: rest =>
              let r := absorbRun v.mergeMax a.stop rest
              m == some { a with stop := r.2 } :: (List.replicate r.1 none ++ (rest.drop r.1).map some)
            | [] => true
          (showLocs m, (if srt && !exact then "bad:merge-closed-form-differs" else "ok") ++
                       br ([if m.any Option.isNone then "merge-merged" else "merge-nothing",
                            if sortedByStart locs then "merge-sorted-input" else "merge-unsorted-input"] ++
                           (if srt && !monotoneStops locs then ["merge-nested-input"] else []) ++
                           (if srt && mergeOverlapping false locs != mergeOverlapping true locs then ["merge-shrinks-a-location"] else [])))
        | none => ("bad-op", "na")
    | ["frag", fs, t, l] => match fs.toInt?, hexToBytes t, parseLocs l with
        | some fsize, some orig, some locs =>
          let m := fragment v orig fsize locs
          let ok := locsOK orig locs
          let tags := [if ok then "frag-locs-ok" else "frag-locs-adversarial"] ++
            (if locs.isEmpty then ["frag-empty-locs"] else []) ++
            (match m with
             | none => ["frag-model-panic"]
             | some fr => (if fr.length < locs.length then ["frag-bailed"] else []) ++
                          (if fr.any (fun f => !(locs.any fun l => l.start == f.start)) then ["frag-start-moved"] else []))
          let verdict :=
            if impl == "panic" then "bad:panic" else
            match parseFrags impl with
            | none => "bad:unparsable"
            | some ifr =>
              if !ok then "ok" else
              if ifr.any (fun (a, b) => !(0 ≤ a && a ≤ b && b ≤ orig.length)) then "bad:fragment-bounds"
              else if ifr.any (fun (a, b) => !(isBoundary orig a && isBoundary orig b)) then "bad:fragment-splits-rune"
              else if ifr.any (fun (a, b) => (runesIn orig a b : Int) > fsize) then "bad:fragment-too-long"
              else "ok"
          ((match m with | some fr => showFrags fr | none => "panic"), verdict ++ br tags)
        | _, _, _ => ("bad-op", "na")
    | ["fmt", k, t, a, b, l] => match hexToBytes t, a.toInt?, b.toInt?, parseLocsNil l with
        | some orig, some fa, some fb, some tls =>
          let html := k == "html"
          let f : Fragment := { start := fa, stop := fb }
          let m := format v (fmtOf k) orig f tls
          let mk := marks v f tls
          let tags := [if mk.isEmpty then "fmt-no-mark" else "fmt-marks", "fmt-" ++ k] ++
            (if tls.any Option.isNone then ["fmt-nil-entry"] else []) ++
            (if m.isNone then ["fmt-model-panic"] else [])
          let verdict :=
            if impl == "panic" then "bad:panic" else
            match hexToBytes impl, slice orig fa fb with
            | none, _ => "bad:unparsable"
            | some _, none => "ok"
            | some i, some want =>
              if !html && hasEsc orig then "na"
              else if strip html i != want then "bad:strip-not-slice"
              else if (markSpans html i.length i 0 none).any (fun (x, y) =>
                  !(tls.any fun o => match o with
                    | some tl => tl.start == fa + x && tl.stop == fa + y
                    | none => false)) then "bad:mark-not-a-location"
              else "ok"
          ((match m with | some s => bytesToHex s | none => "panic"), verdict ++ br tags)
        | _, _, _, _ => ("bad-op", "na")
    | bop :: k :: fs :: n :: t :: l :: extra =>
      -- best: direct call (search-like or adversarial locations); beste: locations of a real search with a bundled
      -- analyzer on a single-valued field; bestx: real search, analyzer assembled from bundled filters that emit
      -- nested / equal-Start tokens; bestm: real search, multi-valued field. `quiet=r1,r2`: oracles whose finding is
      -- not (yet) listed in known_findings.json report `ok` plus an `open-finding:` counter.
      if !["best", "beste", "bestx", "bestm"].contains bop || extra.length > 1 then ("bad-op", "na") else
      match fs.toInt?, n.toInt?, hexToBytes t, parseLocs l with
        | some fsize, some num, some orig, some locs =>
          let quiet : List String := match extra with
            | [q] => (match q.splitOn "=" with | ["quiet", r] => r.splitOn "," | _ => [])
            | _ => []
          let real := bop != "best"
          let html := k == "html"
          let (orders, capped) := admissibleOrders v.tieBreak 48 locs
          let results := orders.map fun o => (o, bestFragmentsOrd v (fmtOf k) orig fsize num locs o)
          let modelSet := dedupBy showResult (results.map (·.2)) []
          let implSet := impl.splitOn "|"
          let ord := orderTermLocations v.tieBreak locs
          let ok := locsOK orig ord
          let fits := someFits orig fsize locs
          let m := match results with | r :: _ => r.2 | [] => bestFragments v (fmtOf k) orig fsize num locs   -- the stable order comes first
          let tags := [if ok then "best-locs-ok" else "best-locs-adversarial", "best-" ++ k] ++
            (if ok && fits then ["best-match-fits"] else []) ++
            (if ok && !disjointLocs ord then ["best-overlapping-locs"] else []) ++
            (if ok && !monotoneStops ord then ["best-nested-locs"] else []) ++
            (if ok && !cleanUtf8 orig then ["best-text-with-U+FFFD"] else []) ++
            (if !distinctStarts locs then ["best-start-ties", if tiesAgree locs then "best-ties-agree" else "best-ties-differ"] else []) ++
            (if modelSet.length > 1 then ["best-order-dependent"] else []) ++
            (if implSet.length > 1 then ["best-impl-several-outputs"] else []) ++
            (if capped then ["best-orders-capped"] else []) ++
            (match m with
             | none => ["best-model-panic"]
             | some ss => (if ss.length ≥ 2 then ["best-several"] else []) ++
                          (if ss.any (fun s => separator.isPrefixOf s) then ["best-sep-before"] else []) ++
                          (if ss.any (fun s => separator.isSuffixOf s) then ["best-sep-after"] else []))
          -- the property's checks on ONE returned list of strings
          let judge1 (one : String) : String :=
            if one == "panic" then "bad:panic" else
            match parseStrings one with
            | none => "bad:unparsable"
            | some ss =>
              if (ss.length : Int) > max num 0 then "bad:more-fragments-than-asked"
              else if (html || !hasEsc orig) && ss.any (fun s => !faithful html orig s) then "bad:strip-not-slice"
              else if ok && ss.any (fun s => !validUtf8 s) then "bad:fragment-splits-rune"
              else if ok && disjointLocs ord && distinctStarts locs && fits && num ≥ 1 && (html || !hasEsc orig) &&
                      !(match ss with | s :: _ => hasMark html s | [] => false) then "bad:best-without-match"
              else
                -- marks: for the admissible order that explains this output, every marked span must be one
                -- location or the union of a run of overlapping ones
                if !(real && ok && ord.all (fun x => x.start < x.stop) && (html || !hasEsc orig)) then "ok" else
                match results.find? (fun r => showResult r.2 == one) with
                | none => "ok"      -- no order explains it: reported as a broken correspondence
                | some (o, _) =>
                  match bestSelectionOrd v orig fsize num locs o with
                  | none => "ok"
                  | some frs =>
                    if (frs.zip ss).any (fun (f, s) => (absMarks html f s).any fun mk => !markOK o mk)
                    then "bad:mark-not-occurrence-or-run" else "ok"
          let firstBad := (implSet.map judge1).find? (· != "ok")
          let verdict0 :=
            match firstBad with
            | some b => b
            | none =>
              if real && !ok then "bad:assumption-search-locations-not-sorted-inrange-on-rune-boundaries"
              else if bop == "beste" && !advancing ord then
                "bad:assumption-bundled-analyzer-locations-not-advancing"
              else if real && implSet.length > 1 then "bad:order-dependent-output"
              else "ok"
          let reason := if bop == "bestm" then "multi"
            else if verdict0 == "bad:order-dependent-output" then "order"
            else if verdict0 == "bad:mark-not-occurrence-or-run" then "marks" else "-"
          let quietable := verdict0 == "bad:order-dependent-output" || verdict0 == "bad:mark-not-occurrence-or-run" ||
            (bop == "bestm" && verdict0.startsWith "bad:assumption-")
          let (verdict, tags) :=
            if quietable && quiet.contains reason then ("ok", tags ++ ["open-finding:" ++ reason ++ ":" ++ verdict0.replace "bad:" ""])
            else (verdict0, tags)
          let modelStr :=
            if implSet.all (fun i => modelSet.any fun r => showResult r == i) then impl
            else "|".intercalate (modelSet.map showResult)
          (modelStr, verdict ++ br tags)
        | _, _, _, _ => ("bad-op", "na")
    | "case" :: _ => ("case", "na")
    | _ => ("bad-op", "na")
  (v, out.1 ++ sep ++ out.2)

/-- The variant of the code the driver transcribes is the one go/extract recognised in /repo's source
(`BlugeGen.C20.variant`, regenerated on every run). For development `VERIF_C20_FIXES` overrides it:
`pinned`, or a comma-separated subset of `size-guard`, `loc-guard`, `rune-cut`, `tie-break`, `merge-max`. -/
def main : IO Unit := do
  let v : Variant := match (← IO.getEnv "VERIF_C20_FIXES") with
    | none => BlugeGen.C20.variant
    | some "" => BlugeGen.C20.variant
    | some s =>
      let fixes := s.splitOn ","
      ⟨fixes.contains "size-guard", fixes.contains "loc-guard", fixes.contains "rune-cut",
       fixes.contains "tie-break", fixes.contains "merge-max"⟩
  driverLoop v c20step

import Bluge.RecoverDrv
/-! Model driver for C03 (stream `recover`: protocol records, crash images, crash → recover → continue; see go/harness/persistlib/recover.go). -/
open Bluge Bluge.Persist.RDrv

def main : IO Unit := driverLoop ({} : RState) stepLine

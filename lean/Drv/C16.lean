import Bluge.Agg
import Bluge.C16.Code
import Bluge.Numeric
import Std.Data.HashMap
/-! Model driver for C16 (stream `agg`, see go/harness/c16).

Per `req` line: the matched ids with their real sort keys come in with the op line; the driver
* runs the collector model (`collectTopN` / `AllIt`) over the matched documents, loading doc values the way
  `LoadDocumentValues` does (`Agg.load (neededFields sort aggs)`), with the model calculators at `Float`
  → the model result (must equal the implementation's line), and
* evaluates the specification (direct counting over the documents' own values) → verdict `bad:<which>` when the
  implementation's aggregate differs from it, and
* remembers the first aggregates per (case, query, aggregations): a later answer under other
  (n, from, sort, after) settings must be identical. -/
open Bluge Bluge.Agg

instance : NatCast Float := ⟨Float.ofNat⟩

/-! ### values -/

def fbits (f : Float) : String := if f.isNaN then "nan" else toHex 16 f.toBits.toNat
def ofHex (s : String) : Float := Float.ofBits (UInt64.ofNat ((parseHex s).getD 0))
def posInf : Float := 1.0 / 0.0
def negInf : Float := -1.0 / 0.0

/-- the order of the prefix-coded shift-0 terms = order of `Float64ToInt64` -/
def sortKeyOf (f : Float) : Int := (Numeric.f2i (BitVec.ofNat 64 f.toBits.toNat)).toInt

def dedupAdj {β : Type} [BEq β] : List β → List β
  | a :: b :: r => if a == b then dedupAdj (b :: r) else a :: dedupAdj (b :: r)
  | l => l

/-- doc values of one field of one document: its distinct terms in ascending term order -/
def canonNum (vs : List Float) : List Float :=
  let ks := (vs.map fun v => (sortKeyOf v, v)).mergeSort (fun a b => a.1 ≤ b.1)
  (dedupAdj (ks.map (·.1))).filterMap fun k => (ks.find? (·.1 == k)).map (·.2)
def canonInt (vs : List Int) : List Int := dedupAdj (vs.mergeSort (· ≤ ·))
def canonStr (vs : List String) : List String := dedupAdj (vs.mergeSort (· ≤ ·))

structure Doc where
  num : List (String × List Float) := []
  date : List (String × List Int) := []
  txt : List (String × List String) := []

def Doc.vals (d : Doc) : DocVals Float where
  num f := (d.num.lookup f).getD []
  date f := (d.date.lookup f).getD []
  txt f := (d.txt.lookup f).getD []

def parseDoc (ws : List String) : Doc :=
  ws.foldl (fun d kv =>
    match kv.splitOn "=" with
    | [f, vs] =>
      let parts := vs.splitOn ","
      match f.front with
      | 'n' | 'w' => { d with num := d.num ++ [(f, canonNum (parts.map ofHex))] }
      | 'd' => { d with date := d.date ++ [(f, canonInt (parts.filterMap String.toInt?))] }
      | 'k' => { d with txt := d.txt ++ [(f, canonStr parts)] }
      | _ => d
    | _ => d) {}

def dvFields : List String := ["n1", "nm", "n2", "w", "d1", "dm", "k1", "km"]

def showDV (d : Doc) : String :=
  let parts := dvFields.filterMap fun f =>
    let vs : List String := match f.front with
      | 'n' | 'w' => ((d.num.lookup f).getD []).map fbits
      | 'd' => ((d.date.lookup f).getD []).map toString
      | _ => (d.txt.lookup f).getD []
    if vs.isEmpty then none else some (f ++ "=" ++ ",".intercalate vs)
  if parts.isEmpty then "-" else " ".intercalate parts

/-! ### the request -/

/-- a hit as the searcher delivers it (+ the sort key the real SortOrder computed for it) -/
structure Hit where
  id : String
  vals : DocVals Float
  keys : List String

abbrev M := Hit   -- after LoadDocumentValues: same shape, `vals` loaded

/-! value sources: `<field>` or `<field>!<op>.<arg>…` (a filtering source, see the harness) -/

def splitSrc (s : String) : String × Option (String × List String) :=
  match s.splitOn "!" with
  | [f, p] => match p.splitOn "." with
      | op :: args => (f, some (op, args))
      | [] => (f, none)
  | _ => (s, none)

def parseNSrc (s : String) : NSrc Float :=
  match splitSrc s with
  | (f, some ("ge", [t])) => { field := f, pred := some (.ge (ofHex t)) }
  | (f, some ("lt", [t])) => { field := f, pred := some (.lt (ofHex t)) }
  | (f, _) => { field := f }

def parseTSrc (s : String) : TSrc :=
  match splitSrc s with
  | (f, some ("in", vs)) => { field := f, pred := some (.isIn vs) }
  | (f, some ("ni", vs)) => { field := f, pred := some (.notIn vs) }
  | (f, _) => { field := f }

def parseDSrc (s : String) : DSrc :=
  match splitSrc s with
  | (f, some ("ge", [t])) => { field := f, pred := (t.toInt?).map .ge }
  | (f, some ("lt", [t])) => { field := f, pred := (t.toInt?).map .lt }
  | (f, _) => { field := f }

def parseMetric (s : String) : Option (Metric Float) :=
  match s.splitOn ":" with
  | ["count"] => some .count
  | [k, args] =>
    match k, args.splitOn "," with
    | "sum", [f] => some (.sum (parseNSrc f))
    | "min", [f] => some (.min (parseNSrc f))
    | "max", [f] => some (.max (parseNSrc f))
    | "avg", [f] => some (.avg (parseNSrc f))
    | "maxs", [f, i] => some (.maxFrom (parseNSrc f) (ofHex i))
    | "wavg", [f, w] => some (.wavg (parseNSrc f) (parseNSrc w))
    | _, _ => none
  | _ => none

/-- a date bound as an exact instant in nanoseconds since the epoch (an unbounded `Int`: no wrap-around);
`z` and the zero time given in seconds (0001-01-01T00:00:00Z) are open bounds; `s<seconds>` may lie far outside the
window int64 nanoseconds can hold -/
def parseBound (s : String) : Option Int :=
  if s == "z" || s == "s-62135596800" then none
  else if s.startsWith "s" then ((s.drop 1).toString.toInt?).map (· * 1000000000)
  else s.toInt?

def outsideInt64 (x : Int) : Bool := x < -(2 ^ 63 : Int) || x ≥ (2 ^ 63 : Int)

def parseSub (s : String) : Option (SubAgg Float) :=
  match s.splitOn ":" with
  | ["card", f] => some (.card (parseTSrc f))
  | ["quant", f] => some (.quant (parseNSrc f))
  | _ => (parseMetric s).map .metric

def parseAgg (s : String) : Option (Agg Float) :=
  let (head, subs) := match s.splitOn ">" with
    | [h, t] => (h, (t.splitOn "+").filterMap parseSub)
    | _ => (s, [])
  match head.splitOn ":" with
  | ["card", f] => some (.card (parseTSrc f))
  | ["quant", f] => some (.quant (parseNSrc f))
  | ["terms", args] => match args.splitOn "," with
      | [f, n] => n.toNat?.map fun n => .terms (parseTSrc f) n subs
      | _ => none
  | ["ranges", args] => match args.splitOn "," with
      | f :: rs => some (.ranges (parseNSrc f) (rs.filterMap fun r => match r.splitOn "~" with
          | [a, b] => some (ofHex a, ofHex b) | _ => none) subs)
      | _ => none
  | ["dranges", args] => match args.splitOn "," with
      | f :: rs => some (.dranges (parseDSrc f) (rs.filterMap fun r => match r.splitOn "~" with
          | [a, b] => some (parseBound a, parseBound b) | _ => none) subs)
      | _ => none
  | _ => (parseMetric head).map .metric

structure Coll where
  all : Bool := true
  n : Nat := 0
  fromN : Nat := 0
  sorts : List String := []
  mode : String := "none"
  keys : List String := []

def unhexKey (s : String) : String := if s == "-" then "" else s

def parseColl (s : String) : Coll :=
  match s.splitOn "," with
  | ["top", n, f, so, mode, keys] =>
    { all := false, n := n.toNat?.getD 0, fromN := f.toNat?.getD 0, sorts := so.splitOn "/", mode := mode,
      keys := (keys.splitOn "/").map unhexKey }
  | _ => {}

def sortField (s : String) : String := if s.startsWith "-" then (s.drop 1).toString else s
/-- `SortOrder.Fields()`: `_score` has no field -/
def sortFields (c : Coll) : List Field :=
  if c.all then [] else (c.sorts.map sortField).filter (· != "_score")
/-- `desc` of each sort (`_score` is always descending); `Before` reverses the collector's copy -/
def descFlags (c : Coll) : List Bool :=
  c.sorts.map fun s => ((s.startsWith "-") || sortField s == "_score") != (c.mode == "before")

/-- `SortOrder.Compare` on the sort values: byte order of each component (hex preserves it), `desc` flips -/
def cmpKeys : List Bool → List String → List String → Ordering
  | d :: ds, a :: as, b :: bs =>
    match compare a b with
    | .eq => cmpKeys ds as bs
    | o => if d then o.swap else o
  | _, _, _ => .eq

/-! ### the calculators at `Float` (`Bluge.Agg.aggCalc`), the sketches modelled by what was inserted -/

abbrev SK := List String     -- a sketch is modelled by the values inserted, in order
abbrev AR := ARes Float SK SK
abbrev SR := SRes Float SK SK
abbrev SS := SSt Float SK SK

/-- the sort used by `Finish`: Go's insertion sort for ≤ 12 buckets; for more, a sort by descending count whose
tie-break follows `rank` (the order the implementation returned — `sort.Sort` is modelled, not verified) -/
def termSort (cnt : List SS → Nat) (rank : List Term) (l : List (Term × List SS)) : List (Term × List SS) :=
  if l.length ≤ 12 then isortDesc cnt l else
  let pos (t : Term) : Nat := (rank.findIdx? (· == t)).getD rank.length
  isortDesc cnt (l.mergeSort fun a b => pos a.1 ≤ pos b.1)

def cnt0 : List SS → Nat
  | .m (.one v) :: _ => v.toUInt64.toNat
  | _ => 0

def envOf (rank : List Term) : Env Float SK SK :=
  { posInf := posInf, negInf := negInf, toNat := fun v => v.toUInt64.toNat, ofNat := Float.ofNat,
    sort := termSort cnt0 rank,
    hll := [], hllInsert := fun l v => l ++ [v], td := [], tdAdd := fun l v => l ++ [fbits v] }

/-! ### the specification: direct counting over the matched documents' own values -/

def specAgg (rank : List Term) (a : Agg Float) (ms : List (DocVals Float)) : AR :=
  let env := envOf rank
  match a with
  | .metric m => .m (specMetric env m ms)
  | .card f => .card (allVals (txtSrc f) ms)
  | .quant f => .quant ((allVals (numSrc f) ms).map fbits)
  | .terms f size subs =>
    let names := (allVals (txtSrc f) ms).eraseDups          -- first-seen order
    let table := names.map fun t => (t, having (txtSrc f) t ms)
    -- the same sort as the model, on (name, count) pairs
    let sorted := env.sort (table.map fun b => (b.1, [SSt.m (MSt.one (Float.ofNat b.2.length))]))
    let kept := (sorted.take size).filterMap fun b => table.find? (·.1 == b.1)
    .t { buckets := kept.map fun b => (b.1, b.2.length, specSubs env subs b.2),
         other := (ms.length : Int) - ((kept.map fun b => b.2.length).sum : Nat) }
  | .ranges f rs subs => .r (rs.map fun r => specSubs env subs (occR (numSrc f) inNumRange r ms))
  | .dranges f rs subs => .r (rs.map fun r => specSubs env subs (occR (dateSrc f) inDateRange r ms))

/-- the nested results every bucket must have, by direct definition over the matches that belong to it:
terms bucket `name` = the matches having that value; range bucket `i` = the matches once per value inside range `i` -/
def bucketTruth (a : Agg Float) (ms : List (DocVals Float)) (name : String) (i : Nat) : List SR :=
  let env := envOf []
  match a with
  | .terms f _ subs => specSubs env subs (having (txtSrc f) name ms)
  | .ranges f rs subs => match rs[i]? with
      | some r => specSubs env subs (occR (numSrc f) inNumRange r ms)
      | none => []
  | .dranges f rs subs => match rs[i]? with
      | some r => specSubs env subs (occR (dateSrc f) inDateRange r ms)
      | none => []
  | _ => []

def subsOf : Agg Float → List (SubAgg Float)
  | .terms _ _ subs | .ranges _ _ subs | .dranges _ _ subs => subs
  | _ => []

/-! ### rendering (canonical form shared with the harness) -/

/-- a sketch as the harness prints it: `<tag><implementation>/<the same Go sketch type fed directly>/<number of values fed directly>` -/
structure SkE where
  tag : String := "?:"
  impl : String := "?"
  direct : String := "?"
  n : String := "?"

def parseSkE (s : String) : SkE :=
  match (s.drop 2).toString.splitOn "/" with
  | [i, d, n] => { tag := (s.take 2).toString, impl := i, direct := d, n := n }
  | _ => { tag := (s.take 2).toString }

/-- the model of a sketch is the list of values fed to it. Fed exactly the bucket's values it IS the directly fed
sketch (HyperLogLog only sees the set of values); fed anything else the model cannot compute the numbers and
echoes the implementation's (the comparison with the specification decides). -/
def sketchEntry (isCard : Bool) (fed trueFed : List String) (e : SkE) : String :=
  let same := if isCard then fed.eraseDups == trueFed.eraseDups else fed == trueFed
  s!"{e.tag}{if same then e.direct else e.impl}/{e.direct}/{trueFed.length}"

def showSR (r trueR : SR) (implE : String) : String :=
  match r with
  | .m v => fbits v
  | .card fed => sketchEntry true fed (match trueR with | .card t => t | _ => fed) (parseSkE implE)
  | .quant fed => sketchEntry false fed (match trueR with | .quant t => t | _ => fed) (parseSkE implE)

/-- the buckets of the implementation's rendering of a terms / range aggregation: (name, entries between the braces) -/
def implBuckets (part : String) : List (String × List String) :=
  let inner := ("[".intercalate ((part.splitOn "[").drop 1)).dropEnd 1 |>.toString
  if inner.isEmpty then [] else
  (inner.splitOn "|").map fun b =>
    let name := ((b.splitOn ":").head?).getD ""
    let body := match b.splitOn "{" with
      | [_, r] => (r.dropEnd 1).toString
      | _ => ""
    (name, body.splitOn ",")

def showBucket (name : String) (cnt : Nat) (vs trueVs : List SR) (implEntries : List String) : String :=
  let dflt : SR := .m 0
  let es := (vs.drop 1).zipIdx.map fun (v, j) => showSR v ((trueVs.drop 1).getD j dflt) (implEntries.getD j "")
  s!"{name}:{cnt}" ++ "{" ++ ",".intercalate es ++ "}"

def cntOfRes : List SR → Nat
  | .m c :: _ => c.toUInt64.toNat
  | _ => 0

/-- `implPart` is the implementation's rendering of the same aggregation (needed for the sketches). -/
def showARes (a : Agg Float) (r : AR) (ms : List (DocVals Float)) (implPart : String) : String :=
  let ib := implBuckets implPart
  match r with
  | .m v => "m:" ++ fbits v
  | .t res => s!"t:other={res.other},[" ++ "|".intercalate (res.buckets.zipIdx.map fun (b, i) =>
        showBucket b.1 b.2.1 b.2.2 (bucketTruth a ms b.1 i) ((ib.lookup b.1).getD [])) ++ "]"
  | .r bs => "r:[" ++ "|".intercalate (bs.zipIdx.map fun (vs, i) =>
        showBucket s!"r{i}" (cntOfRes vs) vs (bucketTruth a ms "" i) ((ib.lookup s!"r{i}").getD [])) ++ "]"
  | .card fed => sketchEntry true fed (match a with | .card f => allVals (txtSrc f) ms | _ => fed) (parseSkE implPart)
  | .quant fed => sketchEntry false fed (match a with | .quant f => (allVals (numSrc f) ms).map fbits | _ => fed) (parseSkE implPart)

/-- every sketch of one aggregation as the implementation printed it: (path, is a t-digest, the values it must have been fed, entry) -/
def sketchesOf (a : Agg Float) (i : Nat) (ms : List (DocVals Float)) (implPart : String) : List (String × Bool × List String × SkE) :=
  match a with
  | .card f => [(s!"a{i}", false, allVals (txtSrc f) ms, parseSkE implPart)]
  | .quant f => [(s!"a{i}", true, (allVals (numSrc f) ms).map fbits, parseSkE implPart)]
  | .terms .. | .ranges .. | .dranges .. =>
    let subs := subsOf a
    (implBuckets implPart).zipIdx.flatMap fun ((name, entries), bi) =>
      let truth := (bucketTruth a ms name bi).drop 1
      subs.zipIdx.filterMap fun (x, j) =>
        match x, truth.getD j (.m 0) with
        | .card _, .card t => some (s!"a{i}/{name}/s{j}", false, t, parseSkE (entries.getD j ""))
        | .quant _, .quant t => some (s!"a{i}/{name}/s{j}", true, t, parseSkE (entries.getD j ""))
        | _, _ => none
  | _ => []

/-! ### the step -/

structure St where
  /-- `Bluge.Agg.codeFacts` unless the environment variable `VERIF_C16_FACTS=fixed` (experiments against a
  scratch copy with candidate repairs) -/
  facts : CodeFacts := codeFacts
  docs : Std.HashMap String Doc := {}
  memo : Std.HashMap String String := {}

def splitKV (ws : List String) (k : String) : String :=
  match ws.find? (·.startsWith (k ++ "=")) with
  | some w => (w.drop (k.length + 1)).toString
  | none => ""

def implAggParts (impl : String) : List (String × String) :=
  match impl.splitOn " aggs=" with
  | [_, a] => (a.splitOn ";").filterMap fun p =>
      match p.splitOn "=" with
      | n :: rest => some (n, "=".intercalate rest)
      | _ => none
  | _ => []

def implHits (impl : String) : String :=
  match impl.splitOn " aggs=" with
  | [h, _] => (h.drop 5).toString
  | _ => "?"

/-- the order in which the implementation returned the terms buckets of aggregation `part` -/
def implRank (part : String) : List Term :=
  match part.splitOn ",[" with
  | [_, bs] => ((bs.dropEnd 1).toString.splitOn "|").filterMap fun b => (b.splitOn ":").head?
  | _ => []

def aggKind : Agg Float → String
  | .metric .count => "count" | .metric (.sum _) => "sum" | .metric (.min _) => "min"
  | .metric (.max _) | .metric (.maxFrom _ _) => "max" | .metric (.avg _) => "avg" | .metric (.wavg _ _) => "weighted-avg"
  | .card _ => "cardinality" | .quant _ => "quantiles" | .terms .. => "terms" | .ranges .. => "range" | .dranges .. => "date-range"

/-- distance in units in the last place (adjacent doubles are adjacent under `Float64ToInt64`) -/
def ulps (a b : Float) : Nat := (sortKeyOf a - sortKeyOf b).natAbs

/-- quantiles: every value within [min, max] of the matched values and non-decreasing in the rank.
0 = holds; 1 = violated, but by at most 4 units in the last place everywhere (rounding of the interpolation
inside the sketch); 2 = violated by more. -/
def quantClass (ranks : String) (vals : List Float) : Nat :=
  let qs := (ranks.splitOn "_").map fun s => if s == "nan" then (0.0 / 0.0 : Float) else ofHex s
  if vals.isEmpty then 0 else
  let lo := vals.foldl (fun a b => if b < a then b else a) posInf
  let hi := vals.foldl (fun a b => if b > a then b else a) negInf
  -- excess of each requirement, in ulps (0 when satisfied); NaN counts as a gross violation
  let ex (small big : Float) : Nat := if small ≤ big then 0 else if small.isNaN || big.isNaN then 1000 else ulps small big
  let worst := (qs.map fun q => Nat.max (ex lo q) (ex q hi)).foldl Nat.max 0
  let worstM := ((qs.zip (qs.drop 1)).map fun (a, b) => ex a b).foldl Nat.max 0
  let w := Nat.max worst worstM
  if w == 0 then 0 else if w ≤ 4 then 1 else 2

def reqStep (st : St) (ws : List String) (impl : String) : St × String × String :=
  let q := splitKV ws "q"
  let aStr := splitKV ws "a"
  let coll := parseColl (splitKV ws "c")
  let mStr := splitKV ws "m"
  let aggs? := (aStr.splitOn ";").map parseAgg
  if aggs?.any Option.isNone then (st, "bad-op", "na") else
  let aggs := aggs?.filterMap id
  let hits : List Hit := if mStr == "-" then [] else (mStr.splitOn ",").map fun p =>
    match p.splitOn ":" with
    | [id] => { id := id, vals := ((st.docs.get? id).getD {}).vals, keys := [] }
    | [id, ks] => { id := id, vals := ((st.docs.get? id).getD {}).vals, keys := (ks.splitOn "/").map unhexKey }
    | _ => { id := p, vals := ({} : Doc).vals, keys := [] }
  let unknown := hits.any fun h => !(st.docs.contains h.id)
  let needed := neededFields st.facts (sortFields coll) aggs
  let load : Hit → M := fun h => { h with vals := Agg.load needed h.vals }
  let parts := implAggParts impl
  let partOf (i : Nat) : String := (parts.lookup s!"a{i}").getD ""
  -- one calculator per top-level aggregation, in one bucket
  let calcs := aggs.zipIdx.map fun (a, i) => aggCalc (envOf (implRank (partOf i))) a
  let bucket : Calc M _ _ := (Calc.all calcs).comap (·.vals)
  -- (a) the collector model
  let (results, hitIds, brs) :=
    if coll.all then
      let r := AllIt.nexts load bucket (hits.length + 1) (AllIt.start bucket hits)
      (bucket.value r.1.bucket, r.2.map (·.id), ["all"])
    else
      let cfg : TopNCfg (List String) :=
        { size := coll.n, skip := if coll.mode == "none" then coll.fromN else 0,
          after := if coll.mode == "none" then none else some coll.keys,
          reverse := coll.mode == "before", cmpKey := cmpKeys (descFlags coll) }
      let r := collectTopN cfg load (fun m => m.keys) bucket hits
      (bucket.value r.bucket, r.hits.map (·.m.id),
        ["topn"] ++ (if coll.mode != "none" then [coll.mode] else []) ++ (if coll.n == 0 then ["n0"] else [])
        ++ (if r.exits.afterSkip > 0 then ["after-skip"] else []) ++ (if r.exits.shortcut > 0 then ["shortcut"] else [])
        ++ (if r.exits.evicted > 0 then ["evict"] else []) ++ (if cfg.size + cfg.skip > 10 then ["heap-store"] else []))
  -- (b) the specification on the documents' own values
  let trueMs : List (DocVals Float) := hits.map (·.vals)
  let modelParts := (aggs.zip results).zipIdx.map fun ((a, r), i) => s!"a{i}=" ++ showARes a r trueMs (partOf i)
  let specParts := aggs.zipIdx.map fun (a, i) =>
    s!"a{i}=" ++ showARes a (specAgg (implRank (partOf i)) a trueMs) trueMs (partOf i)
  let implParts := aggs.zipIdx.map fun (_, i) => s!"a{i}=" ++ partOf i
  let modelStr := "hits=" ++ (if hitIds.isEmpty then "-" else ",".intercalate hitIds) ++ " aggs=" ++ ";".intercalate modelParts
  -- diagnosis of the first aggregation on which the implementation differs from direct counting
  let cnt (f : Field) := needed.count f
  let diag : Option String := (((aggs.zip specParts).zip implParts).zipIdx).findSome? fun (((a, sp), ip), i) =>
    let sks := sketchesOf a i trueMs (partOf i)
    if sp == ip then
      -- every sketch equals the directly fed one; the t-digest's own promises, per sketch, on that sketch's values
      sks.findSome? fun (path, isQ, truth, e) =>
        if !isQ then none else
        match quantClass e.impl (truth.map ofHex) with
        | 0 => none
        | 1 => some "quantile-bounds-off-by-rounding"
        | _ => some s!"quantile-out-of-range-or-not-monotone:{path}"
    else if a.reads.any (fun f => cnt f ≥ 2) then some "field-loaded-twice"
    else if a.reads.any (fun f => cnt f == 0) then some "nested-field-not-loaded"
    else match sks.findSome? (fun (path, _, truth, e) =>
        if e.impl != e.direct then some s!"sketch-not-fed-exactly:{path}"
        else if e.n != toString truth.length then some s!"assumption-direct-sketch-fed-other-values:{path}"
        else none) with
      | some d => some d
      | none => some (aggKind a)
  let key := q ++ "|" ++ aStr
  let implAggs := ";".intercalate implParts
  -- paging independence: among the requests whose fields are each loaded exactly once (the others are judged
  -- by the comparison with direct counting above, which names the cause), the first answer is the reference
  let clean := aggs.all (fun a => a.reads.all fun f => cnt f == 1)
  let (memo, pagingBad, compared) := if !clean then (st.memo, false, false) else match st.memo.get? key with
    | none => (st.memo.insert key implAggs, false, false)
    | some first => (st.memo, first != implAggs, true)
  let verdict :=
    if unknown then "bad:assumption-match-is-a-known-live-document"
    else match diag with
      | some d => "bad:" ++ d
      | none => if pagingBad then "bad:aggregates-differ-across-paging" else "ok"
  -- coverage
  let loadBr := if aggs.all (fun a => a.reads.all fun f => cnt f == 1) then ["loaded-once"]
                else (if aggs.any (fun a => a.reads.any fun f => cnt f ≥ 2) then ["needed-dup"] else [])
                  ++ (if aggs.any (fun a => a.reads.any fun f => cnt f == 0) then ["needed-missing"] else [])
  let termBr := (aggs.zip results).foldl (fun acc (a, r) => match a, r with
      | .terms f size _, .t res =>
        let distinct := (allVals (txtSrc f) (hits.map fun h => (load h).vals)).eraseDups.length
        acc ++ [if distinct ≤ 12 then "terms-le12" else "terms-gt12"] ++ (if size < distinct then ["terms-trimmed"] else [])
          ++ (if res.other < 0 then ["terms-other-negative"] else []) ++ (if res.other > 0 then ["terms-other-positive"] else [])
      | _, _ => acc) []
  let nested := (aggs.zipIdx.flatMap fun (a, i) => sketchesOf a i trueMs (partOf i)).filter fun (path, _, _, _) => (path.splitOn "/").length > 1
  let sketchBr := (if nested.any (fun (_, isQ, _, _) => isQ) then ["nested-quantiles"] else [])
    ++ (if nested.any (fun (_, isQ, _, _) => !isQ) then ["nested-cardinality"] else [])
    ++ (if (nested.filter fun (_, _, truth, _) => !truth.isEmpty).length ≥ 2 then ["nested-sketch-several-buckets"] else [])
  let dateBr := (if aggs.any (fun a => match a with
        | .dranges _ rs _ => rs.any fun r => (r.1.any outsideInt64) || (r.2.any outsideInt64)
        | _ => false) then ["date-bound-outside-int64-nanos"] else [])
    ++ (if aggs.any (fun a => match a with
        | .dranges f rs _ => rs.any fun r => (r.1.any outsideInt64 || r.2.any outsideInt64) &&
            (occR (dateSrc f) inDateRange r trueMs).length > 0
        | _ => false) then ["date-range-far-bound-nonempty"] else [])
  -- filtering sources; a bucket aggregation over a filtered source with a nested reader of the plain field
  let bucketSrc : Agg Float → Option (Field × Bool) := fun a => match a with
    | .terms f _ _ => some (f.field, f.pred.isSome)
    | .ranges f _ _ => some (f.field, f.pred.isSome)
    | .dranges f _ _ => some (f.field, f.pred.isSome)
    | _ => none
  let plainReader (x : SubAgg Float) (fld : Field) : Bool := match x with
    | .card g => g.field == fld && g.pred.isNone
    | .quant g => g.field == fld && g.pred.isNone
    | .metric (.sum g) | .metric (.min g) | .metric (.max g) | .metric (.avg g) | .metric (.maxFrom g _) => g.field == fld && g.pred.isNone
    | .metric (.wavg g w) => (g.field == fld && g.pred.isNone) || (w.field == fld && w.pred.isNone)
    | _ => false
  let filtBr := (if (splitKV ws "a").contains '!' then ["filtered-source"] else [])
    ++ (if aggs.any (fun a => match bucketSrc a with
          | some (fld, true) => (subsOf a).any fun x => plainReader x fld
          | _ => false) then ["filtered-source-nested-reader-same-field"] else [])
    ++ (if aggs.any (fun a => match a with
          | .terms f _ _ => f.pred.isSome && (subsOf a).any (fun x => plainReader x f.field) &&
              trueMs.any (fun d => (txtSrc (α := Float) f d).length < (d.txt f.field).length &&
                (d.txt f.field).head? != (txtSrc (α := Float) f d).head?)
          | _ => false) then ["filter-drops-an-earlier-value-with-nested-reader"] else [])
  let brs := brs ++ loadBr ++ termBr ++ sketchBr ++ dateBr ++ filtBr ++ (if hits.isEmpty then ["no-match"] else [])
    ++ (if compared then ["paging-compared"] else [])
  ({ st with memo := memo }, modelStr, verdict ++ " br=" ++ ",".intercalate brs.eraseDups)

def c16step (st : St) (op : String) (impl : String) : St × String :=
  let ws := op.splitOn " "
  match ws with
  | "case" :: _ => ({ facts := st.facts }, "case" ++ sep ++ "na")
  | "doc" :: id :: rest => ({ st with docs := st.docs.insert id (parseDoc rest) }, "ok" ++ sep ++ "ok")
  | ["commit"] => (st, "ok" ++ sep ++ "ok")
  | ["del", id] => ({ st with docs := st.docs.erase id }, "ok" ++ sep ++ "ok")
  | ["dv", id] =>
    if impl == "skipped-after-hang" then (st, impl ++ sep ++ "na") else
    match st.docs.get? id with
    | some d =>
      let m := showDV d
      (st, m ++ sep ++ (if impl == m then "ok" else "bad:assumption-doc-values-are-the-distinct-terms-ascending"))
    | none => (st, "absent" ++ sep ++ "ok")
  | "req" :: rest =>
    -- a search that did not return within the harness's time limit (or the rest of such a case)
    if impl == "hang" then (st, "returns" ++ sep ++ "bad:search-does-not-return") else
    if impl == "skipped-after-hang" then (st, impl ++ sep ++ "na") else
    let (st', m, v) := reqStep st rest impl
    (st', m ++ sep ++ v)
  | _ => (st, "bad-op" ++ sep ++ "na")

def main : IO Unit := do
  let v ← IO.getEnv "VERIF_C16_FACTS"
  let facts := match v with
    | some "fixed" => fixedFacts
    | some "dedup" => { dedupNeeded := true, rangeFieldsNested := false }
    | some "rangefields" => { dedupNeeded := false, rangeFieldsNested := true }
    | _ => codeFacts
  driverLoop ({ facts := facts } : St) c16step

import BlugeGen.C17
/-! Model driver for C17 (stream `score`; line protocol of go/harness/hlib).

Every number the implementation printed is recomputed by evaluating the GENERATED definitions (`BlugeGen.C17`, the
translation of /repo/search/similarity) at IEEE binary64 and must agree bit for bit, with one exception: a value
that is the direct result of `math.Log` may differ from libm's `log` by ≤ 4 ulp; in that case the model continues
with the implementation's value ("snapped" logarithm), so that everything computed FROM an idf is again compared
exactly. The branch `log-ulp<k>` records the largest distance seen on a line.

Verdicts (`bad:` = the implementation's own output violates the specification):
* `bad:explain-node:<kinds>`   a node's value is not the formula stated in its message applied to its children
* `bad:explain-root-vs-score`  the explanation's root value is not the score returned without explanation
* `bad:assumption-<which>`     a real search produced statistics outside the theorems' hypotheses
* `bad:score-range`, `bad:idf-not-positive`, `bad:law-<which>`  the BM25 laws on the implementation's numbers
* `bad:parts:…`                the explanation of a hit is not the sum/boost structure of the query's matching clauses
The known idf-node verdict is only printed when model and implementation agree on the line (otherwise the disagreement
itself is the report and must not be hidden behind a known finding). -/
open Bluge Bluge.BM25 BlugeGen.C17

abbrev F := Float

@[instance_reducible] def plainField : ScoreField F := floatField Float.log

/-- libm's log, replaced by a hinted value (what the implementation printed for an idf) when within 4 ulp -/
def snapLog (hints : List F) (x : F) : F :=
  let own := Float.log x
  let close := hints.filter fun h => ulpDist h own ≤ 4
  match close with
  | [] => own
  | h :: t => t.foldl (fun best c => if ulpDist c own < ulpDist best own then c else best) h

@[instance_reducible] def snapField (hints : List F) : ScoreField F := floatField (snapLog hints)

def isFinite (x : F) : Bool := !x.isNaN && !x.isInf

/-- bit equality, all NaNs identified -/
def sameBits (a b : F) : Bool := (a.isNaN && b.isNaN) || a.toBits == b.toBits

def natOfFloat? (x : F) : Option Nat :=
  if x.isNaN || x < 0 || x ≥ 18446744073709551616.0 then none
  else let n := x.toUInt64; if n.toFloat == x then some n.toNat else none


def strDrop (s : String) (n : Nat) : String := String.ofList (s.toList.drop n)
def strDropRight (s : String) (n : Nat) : String := String.ofList (s.toList.take (s.length - n))
def hasSub (s pat : String) : Bool := (s.splitOn pat).length > 1

/-- the first `n` space-separated words and the rest as ONE string (messages inside a tree contain spaces) -/
def splitHead (s : String) (n : Nat) : List String :=
  let ws := s.splitOn " "
  if ws.length ≤ n then ws else ws.take n ++ [" ".intercalate (ws.drop n)]

/-! ## the generated definitions, instantiated at binary64 with the number field passed explicitly
(first argument of every wrapper; `@g… field args`) -/

def zeroSim [ScoreField F] : BM25Similarity F := newBM25SimilarityBK1 (ScoreField.lit 0 0) (ScoreField.lit 0 0)
def gLit [ScoreField F] (m e : Nat) : F := ScoreField.lit m e
def gDefaultK1 [ScoreField F] : F := defaultK1
def gDefaultB [ScoreField F] : F := defaultB
def gNorm [ScoreField F] (dl : Nat) : Nat := BM25Similarity.computeNorm (zeroSim : BM25Similarity F) dl
def gIdf [ScoreField F] (n bigN : Nat) : F := BM25Similarity.idf zeroSim n bigN
def gAvg [ScoreField F] (bigN ttf : Nat) : F := BM25Similarity.averageFieldLength zeroSim (some ⟨bigN, ttf⟩)
/-- `NewBM25SimilarityBK1(b, k1).Scorer(boost, stats{N, ttf}, term{n})` -/
def gScorer [ScoreField F] (k1 b boost : F) (n bigN ttf : Nat) : BM25Scorer F :=
  BM25Similarity.scorer (newBM25SimilarityBK1 b k1) boost (some ⟨bigN, ttf⟩) ⟨n⟩
/-- `NewBM25Scorer(boost, k1, b, avgdl, sim.IdfExplainTerm(stats{N}, term{n}))` -/
def gScorerAvg [ScoreField F] (k1 b avgdl boost : F) (n bigN : Nat) : BM25Scorer F :=
  newBM25Scorer boost k1 b avgdl (BM25Similarity.idfExplainTerm (newBM25SimilarityBK1 b k1) (some ⟨bigN, 0⟩) ⟨n⟩)
/-- `NewBM25Scorer(boost, k1, b, avgdl, &Explanation{Value: idf})` -/
def gScorerIdf [ScoreField F] (k1 b avgdl boost idfv : F) : BM25Scorer F :=
  newBM25Scorer boost k1 b avgdl (Expl.node idfv "idf" [])
def gScore [ScoreField F] (s : BM25Scorer F) (f dl : Nat) : F := BM25Scorer.score s f dl
def gExplain [ScoreField F] (s : BM25Scorer F) (f dl : Nat) : Expl F := BM25Scorer.explain s f dl
/-- `none`: `NewCompositeSumScorer()`, `some b`: `NewCompositeSumScorerWithBoost(b)` -/
def gComposite [ScoreField F] (boost : Option F) : CompositeSumScorer F := match boost with
  | none => newCompositeSumScorer
  | some b => newCompositeSumScorerWithBoost b
def gScoreComposite [ScoreField F] (c : CompositeSumScorer F) (ms : List (Match F)) : F := CompositeSumScorer.scoreComposite c ms
def gExplainComposite [ScoreField F] (c : CompositeSumScorer F) (ms : List (Match F)) : Expl F := CompositeSumScorer.explainComposite c ms
def gConstant [ScoreField F] (c : F) : F × F × Expl F × Expl F :=
  (ConstantScorer.score c, ConstantScorer.scoreComposite c, ConstantScorer.explain c, ConstantScorer.explainComposite c)
def gMsgSum [ScoreField F] (xs : List F) : F := msgFormula_sum xs
def gEvalMsg [ScoreField F] (kind : String) (args : List F) : Option F := evalMsgFormula kind args
def gMsgDefault [ScoreField F] (v : String) : Option F := msgDefault v

/-! ## the message table -/

structure NodeKind where
  kind : String
  vars : List String

def allDigits (s : String) : Bool := !s.isEmpty && s.toList.all Char.isDigit

/-- which entry of the generated `msgTable` a message instantiates -/
def kindOf (msg : String) : Option NodeKind :=
  (msgTable.find? fun (pre, post, hasD, _, _) =>
    if hasD then msg.startsWith pre && msg.endsWith post && msg.length ≥ pre.length + post.length &&
      allDigits (strDropRight (strDrop msg pre.length) post.length)
    else msg == pre).map fun (_, _, _, k, vs) => { kind := k, vars := vs }

def kindName (t : Expl F) : String := match kindOf t.msg with
  | some k => k.kind
  | none => "?"

/-- the name by which a formula refers to a child: the leading identifier of the child's message -/
def leadName (msg : String) : String :=
  String.ofList (msg.toList.takeWhile fun c => c.isAlphanum || c == '_')

/-! ## specification check of one explanation tree (on the IMPLEMENTATION's numbers) -/

/-- agreement of a node value with its stated formula: exact up to the rounding of a handful of float operations,
measured against the natural scale of the node (`unit`) -/
def agrees (v formula unit : F) : Bool :=
  if v.isNaN || formula.isNaN then v.isNaN && formula.isNaN
  else if v.isInf || formula.isInf then v == formula
  else
    let scale := max (max v.abs formula.abs) unit.abs
    (v - formula).abs ≤ 1e-9 * scale + 1e-300 || sameBits v formula   -- 1e-300: results in the subnormal range lose all relative accuracy

/-- `nEqN`: whether n = N is known exactly (direct calls; leaves above 2^53 are rounded), else read from the leaves -/
partial def checkNodes (inst : ScoreField F) (t : Expl F) (nEqN : Option Bool := none) : List String :=
  let below := (t.children.map (checkNodes inst · nEqN)).flatten
  let here : List String := match kindOf t.msg with
    | none => ["unknown-message"]
    | some k =>
      if k.kind == "" then (if t.children.isEmpty then [] else ["leaf-with-children"])
      else if k.kind == "sum" then
        if sameBits t.value (@gMsgSum inst (t.children.map (·.value))) then [] else ["sum"]
      else
        let arg (v : String) : Option F := match t.children.find? (fun c => leadName c.msg == v) with
          | some c => some c.value
          | none => @gMsgDefault inst v
        match k.vars.mapM arg with
        | none => [k.kind ++ "-missing-child"]
        | some args => match @gEvalMsg inst k.kind args with
          | none => [k.kind ++ "-no-formula"]
          | some fv =>
            let unit : F := if k.kind == "tf" then 1.0 else if k.kind == "score" then (args.take 2).foldl (· * ·) 1.0 else 0.0
            if agrees t.value fv unit then []
            -- the known idf finding is "value > message formula for n < N"; at n = N the pinned code agrees with its
            -- message (`idf_node_agrees_iff`), so a disagreement there is a different failure and gets its own name
            else if k.kind == "idf" && (nEqN.getD (match args with | [a, b] => a == b | _ => false)) then ["idf@n=N"]
            else [k.kind]
  here ++ below

/-- the message of a score node says `score(freq=<d>)`: `<d>` must be the freq child of its tf child -/
partial def checkFreqText (t : Expl F) : List String :=
  let below := (t.children.map checkFreqText).flatten
  if kindName t == "score" then
    let pre := "score(freq="
    let d := String.ofList ((strDrop t.msg pre.length).toList.takeWhile Char.isDigit)
    let fchild := (t.children.find? (fun c => kindName c == "tf")).bind fun tf => tf.children.find? (fun c => leadName c.msg == "freq")
    match fchild with
    | some fc => if d.toNat?.map (fun k => floatOfNat k == fc.value) == some true then below else "score-freq-text" :: below
    | none => "score-freq-text" :: below
  else below

/-! ## statistics of a term score node -/

structure Stat where
  k1 : F
  b : F
  avgdl : F
  boost : F
  idf : F
  n : Nat
  bigN : Nat
  f : Nat
  dl : Nat

def leafVal (t : Expl F) (name : String) : Option F := (t.children.find? (fun c => leadName c.msg == name)).map (·.value)

def statOf (inst : ScoreField F) (t : Expl F) : Option Stat := do
  let idfN ← t.children.find? (fun c => kindName c == "idf")
  let tfN ← t.children.find? (fun c => kindName c == "tf")
  let boost := match t.children.find? (fun c => c.msg == "boost") with
    | some c => c.value
    | none => (@gMsgDefault inst "boost").getD 1.0
  let n ← (← leafVal idfN "n") |> natOfFloat?
  let bigN ← (← leafVal idfN "N") |> natOfFloat?
  let f ← (← leafVal tfN "freq") |> natOfFloat?
  let dl ← (← leafVal tfN "dl") |> natOfFloat?
  pure { k1 := ← leafVal tfN "k1", b := ← leafVal tfN "b", avgdl := ← leafVal tfN "avgdl", boost := boost, idf := idfN.value,
         n := n, bigN := bigN, f := f, dl := dl }

/-- the hypotheses of the theorems, evaluated on one term node; `none` = all hold -/
def hypFail (s : Stat) : Option String :=
  if !(s.k1 > 0) then some "k1-pos" else
  if !(s.b ≥ 0 && s.b ≤ 1) then some "b-range" else
  if !(s.avgdl > 0) then some "avgdl-pos" else
  if !(s.boost > 0) then some "boost-pos" else
  if s.n < 1 then some "n-ge-1" else
  if s.n > s.bigN then some "n-le-N" else
  if s.f < 1 then some "f-ge-1" else
  if !(s.b < 1 || s.dl > 0) then some "den-zero" else none

partial def scoreNodes (t : Expl F) : List (Expl F) :=
  (if kindName t == "score" then [t] else []) ++ (t.children.map scoreNodes).flatten

partial def idfNodes (t : Expl F) : List (Expl F) :=
  (if kindName t == "idf" then [t] else []) ++ (t.children.map idfNodes).flatten

/-- largest distance between an idf node of the implementation and libm's evaluation of the generated `idf` -/
def logUlp (t : Expl F) : Nat :=
  (idfNodes t).foldl (fun acc nd =>
    match (leafVal nd "n").bind natOfFloat?, (leafVal nd "N").bind natOfFloat? with
    | some n, some bigN =>
      let own := @gIdf plainField n bigN
      max acc (ulpDist own nd.value)
    | _, _ => acc) 0

/-- the same with the exact statistics of a direct call (leaves ≥ 2^53 are rounded in the tree) -/
def logUlpExact (t : Expl F) (n bigN : Nat) : Nat :=
  (idfNodes t).foldl (fun acc nd => max acc (ulpDist (@gIdf plainField n bigN) nd.value)) 0

def ulpBranch (d : Nat) : String := if d ≤ 4 then s!"log-ulp{d}" else "log-ulp-over4"

/-! ## rebuilding a tree from its leaves with the generated code -/

partial def rebuild (inst : ScoreField F) (t : Expl F) : Option (Expl F) :=
  match kindName t with
  | "score" => do
      let s ← statOf inst t
      pure (@gExplain inst (@gScorerAvg inst s.k1 s.b s.avgdl s.boost s.n s.bigN) s.f s.dl)
  | "sum" => do
      let cs ← t.children.mapM (rebuild inst)
      pure (@gExplainComposite inst (@gComposite inst none) (cs.map fun c => ⟨c.value, c⟩))
  | "boost_sum" => match t.children with
      | [bst, sm] => do
          let cs ← sm.children.mapM (rebuild inst)
          pure (@gExplainComposite inst (@gComposite inst (some bst.value)) (cs.map fun c => ⟨c.value, c⟩))
      | _ => none
  | "" => if t.msg == "constant" && t.children.isEmpty then some (@gConstant inst t.value).2.2.1 else none
  | _ => none

/-! ## a small model of the corpus and of the query tree (which clauses score a hit, and with which statistics) -/

structure Doc where
  id : String
  body : Option (List String)
  title : Option (List String)

def parseField (s : String) : Option (List String) :=
  if s == "-" then none else if s == "" then some [] else some (s.splitOn ",")

def parseCorpus (s : String) : List (List Doc) :=
  (s.splitOn "/").map fun b => (b.splitOn ";").filterMap fun d =>
    match d.splitOn ":" with
    | [id, bo, ti] => some { id := id, body := parseField bo, title := parseField ti }
    | _ => none

def Doc.field (d : Doc) (f : String) : Option (List String) := if f == "body" then d.body else if f == "title" then d.title else none

/-- `*` = any string, `?` = any char -/
partial def globChars : List Char → List Char → Bool
  | [], cs => cs.isEmpty
  | '*' :: p, cs => globChars p cs || (match cs with
      | _ :: t => globChars ('*' :: p) t
      | [] => false)
  | '?' :: p, _ :: t => globChars p t
  | c :: p, x :: t => c == x && globChars p t
  | _, [] => false

/-- the predicate of a multi-term leaf: `P` prefix, `W` wildcard -/
def multiSat (kind : Char) (pat w : String) : Bool :=
  if kind == 'P' then w.startsWith pat else globChars pat.toList w.toList

inductive Q where
  | term (field word : String) (boost : F)
  /-- a prefix (`P`) or wildcard (`W`) query as a clause: a disjunction over the dictionary terms that satisfy it -/
  | multi (kind : Char) (field pat : String) (boost : F)
  | bool (boost : F) (min : Nat) (musts shoulds nots : List Q)

mutual
partial def parseQ (cs : List Char) : Option (Q × List Char) :=
  match cs with
  | 'T' :: ',' :: rest =>
    let (fld, r1) := rest.span (· != ',')
    let (wd, r2) := (r1.drop 1).span (· != ',')
    let r3 := r2.drop 1
    match parseF (String.ofList (r3.take 16)) with
    | some b => some (Q.term (String.ofList fld) (String.ofList wd) b, r3.drop 16)
    | none => none
  | k :: ',' :: rest =>
    if k == 'P' || k == 'W' then
      let (fld, r1) := rest.span (· != ',')
      let (pt, r2) := (r1.drop 1).span (· != ',')
      let r3 := r2.drop 1
      match parseF (String.ofList (r3.take 16)) with
      | some b => some (Q.multi k (String.ofList fld) (String.ofList pt) b, r3.drop 16)
      | none => none
    else if k != 'B' then none else
    match parseF (String.ofList (rest.take 16)) with
    | none => none
    | some b =>
      let r1 := rest.drop 17
      let (ms, r2) := r1.span (· != ',')
      match (String.ofList ms).toNat?, parseQList (r2.drop 1) with
      | some mn, some (musts, r3) =>
        match parseQList (r3.drop 1) with
        | some (shoulds, r4) =>
          match parseQList (r4.drop 1) with
          | some (nots, r5) => some (Q.bool b mn musts shoulds nots, r5)
          | none => none
        | none => none
      | _, _ => none
  | _ => none
partial def parseQList (cs : List Char) : Option (List Q × List Char) :=
  match cs with
  | '[' :: rest =>
    let rec go (acc : List Q) (r : List Char) : Option (List Q × List Char) :=
      match r with
      | ']' :: r' => some (acc.reverse, r')
      | '|' :: r' => go acc r'
      | _ => match parseQ r with
        | some (q, r') => go (q :: acc) r'
        | none => none
    go [] rest
  | _ => none
end

partial def qMatches (d : Doc) : Q → Bool
  | .term f w _ => match d.field f with
      | some ws => ws.contains w
      | none => false
  | .multi k f p _ => match d.field f with
      | some ws => ws.any (multiSat k p)
      | none => false
  | .bool _ mn musts shoulds nots =>
      let k := (shoulds.filter (qMatches d)).length
      -- `BooleanQuery.Searcher`: minShould > 0 with no should clause at all cannot be satisfied (MatchNone)
      !(shoulds.isEmpty && mn > 0) &&
      musts.all (qMatches d) && !(nots.any (qMatches d)) &&
        (if musts.isEmpty then
           (if shoulds.isEmpty then true else k ≥ max mn 1)
         else k ≥ mn)

/-- expected structure of a hit's explanation, children of sums in canonical order -/
inductive Sk where
  | score (n bigN f dl : Nat) (avgdl boost : F)
  | const (v : F)
  | sum (parts : List Sk)
  | boosted (boost : F) (inner : Sk)

instance : Inhabited Sk := ⟨Sk.const 0.0⟩

partial def Sk.render (lenient : Bool) : Sk → String
  | .score n bigN f dl avgdl boost =>
      if lenient then s!"S(n={n},f={f},dl={dl},boost={fbits boost})"
      else s!"S(n={n},N={bigN},f={f},dl={dl},avgdl={fbits avgdl},boost={fbits boost})"
  | .const v => s!"C({fbits v})"
  | .sum ps => "Σ[" ++ " ".intercalate ((ps.map (Sk.render lenient)).toArray.qsort (· < ·)).toList ++ "]"
  | .boosted b i => s!"B({fbits b},{Sk.render lenient i})"

def fieldStats (docs : List Doc) (f : String) : Nat × Nat :=
  docs.foldl (fun (cnt, ttf) d => match d.field f with
    | some ws => (cnt + 1, ttf + ws.length)
    | none => (cnt, ttf)) (0, 0)

partial def expectSk (inst : ScoreField F) (docs : List Doc) (d : Doc) : Q → Sk
  | .term f w boost =>
      let ws := (d.field f).getD []
      let (bigN, ttf) := fieldStats docs f
      let n := (docs.filter fun x => ((x.field f).getD []).contains w).length
      let avg := @gAvg inst bigN ttf
      Sk.score n bigN (ws.filter (· == w)).length ws.length avg boost
  | .multi k f p boost =>
      Sk.sum ((((d.field f).getD []).eraseDups.filter (multiSat k p)).map fun w => expectSk inst docs d (Q.term f w boost))
  | .bool boost _ musts shoulds _ =>
      let mustPart : List Sk :=
        if musts.isEmpty then (if shoulds.isEmpty then [Sk.const 1.0] else [])
        else [Sk.sum (musts.map (expectSk inst docs d))]
      let sm := shoulds.filter (qMatches d)
      let shouldPart : List Sk := if sm.isEmpty then [] else [Sk.sum (sm.map (expectSk inst docs d))]
      let inner := Sk.sum (mustPart ++ shouldPart)
      if boost == 1.0 then inner else Sk.boosted boost inner

partial def implSk (inst : ScoreField F) (t : Expl F) : Option Sk :=
  match kindName t with
  | "score" => (statOf inst t).map fun s => Sk.score s.n s.bigN s.f s.dl s.avgdl s.boost
  | "sum" => (t.children.mapM (implSk inst)).map Sk.sum
  | "boost_sum" => match t.children with
      | [bst, sm] => (implSk inst sm).map (Sk.boosted bst.value)
      | _ => none
  | "" => if t.msg == "constant" then some (Sk.const t.value) else none
  | _ => none

/-! ## the `dsearch` stream: logical corpus with deletions/updates, per-segment statistics -/

structure DDoc where
  id : String
  fields : List AField

/-- `w*k` stands for k copies of the word `w` -/
def expandWords (ws : List String) : List String :=
  ws.flatMap fun w => match w.splitOn "*" with
    | [x, k] => List.replicate (k.toNat?.getD 1) x
    | _ => [w]

def dFields (all : Bool) (id bo ti : String) : List AField :=
  let parts (name v : String) : List AField :=
    if v == "-" then [] else (v.splitOn "+").map fun p => { name := name, tokens := if p == "" then [] else expandWords (p.splitOn ",") }
  -- `bluge.NewDocument(id)` starts the document with the keyword field `_id` (one token), which a composite field consumes too
  let fs := [{ name := "_id", tokens := [id] }] ++ parts "body" bo ++ parts "title" ti
  if all then expandComposite "all" (fun _ => true) fs else fs

/-- the logical documents after all batches: `id:body:title` replaces the document of that id, `!id` deletes it, `@q` is a pause -/
def parseDCorpus (all : Bool) (s : String) : List DDoc :=
  (s.splitOn "/").foldl (fun docs b =>
    if b == "@q" then docs else
    (b.splitOn ";").foldl (fun docs e =>
      if e.startsWith "!" then docs.filter (·.id != strDrop e 1)
      else match e.splitOn ":" with
        | [id, bo, ti] => docs.filter (·.id != id) ++ [{ id := id, fields := dFields all id bo ti }]
        | _ => docs) docs) []

/-- every token the field ever received (deleted and replaced documents included: their terms stay in the dictionaries
of the unmerged segments) -/
def everTokens (field corpus : String) : List String :=
  ((s!"{corpus}".splitOn "/").flatMap fun b =>
    if b == "@q" then [] else
    (b.splitOn ";").flatMap fun e =>
      if e.startsWith "!" then [] else match e.splitOn ":" with
        | [id, bo, ti] => ((dFields false id bo ti).filter (·.name == field)).flatMap (·.tokens)
        | _ => []).eraseDups

def cfgOf (s : String) : List (String × String) :=
  (s.splitOn ",").filterMap fun p => match p.splitOn "=" with
    | [k, v] => some (k, v)
    | _ => none

/-- `field|word=n/N/ttf/del+n/N/ttf/del;…` -> (key, per-segment statistics, per-segment deleted-bitmap sizes) -/
def parseSeg1 (sg : String) : Option (SegStat × Nat) :=
  match (sg.splitOn "/").mapM String.toNat? with
  | some [n, bigN, ttf, del] => some (({ n := n, bigN := bigN, ttf := ttf } : SegStat), del)
  | _ => none

def parseSegs (s : String) : Option (List (String × List SegStat × List Nat)) :=
  if s == "-" then some [] else
  (s.splitOn ";").mapM fun (e : String) => match e.splitOn "=" with
    | [k, v] =>
      if v == "-" then some (k, [], []) else
      match (v.splitOn "+").mapM parseSeg1 with
      | some l => some (k, l.map (·.1), l.map (·.2))
      | none => none
    | _ => none

partial def qMatchesD (d : DDoc) : Q → Bool
  | .term f w _ => termFreq d.fields f w ≥ 1
  | .multi k f p _ => ((d.fields.filter (·.name == f)).flatMap (·.tokens)).any (multiSat k p)
  | .bool _ mn musts shoulds nots =>
      let k := (shoulds.filter (qMatchesD d)).length
      !(shoulds.isEmpty && mn > 0) &&
      musts.all (qMatchesD d) && !(nots.any (qMatchesD d)) &&
        (if musts.isEmpty then
           (if shoulds.isEmpty then true else k ≥ max mn 1)
         else k ≥ mn)

/-- n, f, dl from the LOGICAL corpus (live documents only); N from the recorded segments (it counts deleted documents
until a merge drops them, which the logical corpus cannot know) -/
partial def expectSkD (segTab : List (String × List SegStat × List Nat)) (docs : List DDoc) (d : DDoc) : Q → Sk
  | .term f w boost =>
      let n := (docs.filter fun x => termFreq x.fields f w ≥ 1).length
      let bigN := match segTab.find? (fun e => e.1 == f ++ "|" ++ w) with
        | some e => docCountOf e.2.1
        | none => 0
      Sk.score n bigN (termFreq d.fields f w) (fieldLength d.fields f) 0.0 boost
  | .multi k f p boost =>
      -- one constituent per DISTINCT token of the document that satisfies the predicate, each built with the leaf's boost
      Sk.sum ((((d.fields.filter (·.name == f)).flatMap (·.tokens)).eraseDups.filter (multiSat k p)).map fun w =>
        expectSkD segTab docs d (Q.term f w boost))
  | .bool boost _ musts shoulds _ =>
      let mustPart : List Sk :=
        if musts.isEmpty then (if shoulds.isEmpty then [Sk.const 1.0] else [])
        else [Sk.sum (musts.map (expectSkD segTab docs d))]
      let sm := shoulds.filter (qMatchesD d)
      let shouldPart : List Sk := if sm.isEmpty then [] else [Sk.sum (sm.map (expectSkD segTab docs d))]
      let inner := Sk.sum (mustPart ++ shouldPart)
      if boost == 1.0 then inner else Sk.boosted boost inner

partial def Sk.renderD : Sk → String
  | .score n bigN f dl _ boost => s!"S(n={n},N={bigN},f={f},dl={dl},boost={fbits boost})"
  | .const v => s!"C({fbits v})"
  | .sum ps => "Σ[" ++ " ".intercalate ((ps.map Sk.renderD).toArray.qsort (· < ·)).toList ++ "]"
  | .boosted b i => s!"B({fbits b},{Sk.renderD i})"

/-- `normrt lo hi`: the decode chain on every length of the range, as the model `dlSeen` sees it -/
def normrtRange (lo hi : Nat) : Nat × Nat × List String := Id.run do
  let mut sum := 0
  let mut odd := 0
  let mut firsts : Array String := #[]
  for l in [lo:hi+1] do
    let got := dlSeen l 0 false
    sum := (sum + got) % 2 ^ 64
    if got != l then
      odd := odd + 1
      if firsts.size < 6 then firsts := firsts.push s!"{l}>{got}"
  return (sum, odd, firsts.toList)

/-! ## the `msearch` stream: multi-term queries (prefix / wildcard / regexp / fuzzy / term range)

The code (search/searcher/search_term_prefix.go, search_regexp.go, search_fuzzy.go, search_term_range.go,
search_multi_term.go): enumerate the field dictionary, one `TermSearcher` per enumerated term with boost = the query's boost
(fuzzy: `boost * (1 - distance/min(len))`, 1 for the term itself), all under ONE disjunction scored by
`NewCompositeSumScorer()` (no coord, no query norm): the hit's explanation is "sum of:" over the matching constituents. The
specification: one constituent per DISTINCT term of the document that satisfies the predicate. -/

inductive MQ where
  | pre (field p : String) (boost : F)
  | wild (field pat : String) (boost : F)
  | re (field pat : String) (boost : F)
  | fuzzy (field term : String) (k : Nat) (boost : F)
  | range (field lo hi : String) (incLo incHi : Bool) (boost : F)

def MQ.field : MQ → String
  | .pre f _ _ | .wild f _ _ | .re f _ _ | .fuzzy f _ _ _ | .range f _ _ _ _ _ => f
def MQ.boost : MQ → F
  | .pre _ _ b | .wild _ _ b | .re _ _ b | .fuzzy _ _ _ b | .range _ _ _ _ _ b => b

def parseMQ (s : String) : Option MQ :=
  match s.splitOn "," with
  | ["P", f, p, b] => (parseF b).map (MQ.pre f p)
  | ["W", f, p, b] => (parseF b).map (MQ.wild f p)
  | ["R", f, p, b] => (parseF b).map (MQ.re f p)
  | ["F", f, t, k, b] => match k.toNat?, parseF b with
      | some k, some b => some (MQ.fuzzy f t k b)
      | _, _ => none
  | ["G", f, lo, hi, il, ih, b] => (parseF b).map (MQ.range f lo hi (il == "1") (ih == "1"))
  | _ => none

/-- one position of a (restricted) regular expression: any char, a literal, or a class of chars and ranges -/
inductive ReAtom where
  | any
  | lit (c : Char)
  | cls (singles : List Char) (ranges : List (Char × Char))
  deriving Inhabited

def ReAtom.ok : ReAtom → Char → Bool
  | .any, _ => true
  | .lit c, x => c == x
  | .cls ss rs, x => ss.contains x || rs.any fun (lo, hi) => lo ≤ x && x ≤ hi

/-- items of one alternative: atom, starred? (`none` = syntax outside the generated subset) -/
partial def parseReSeq (cs : List Char) (acc : List (ReAtom × Bool)) : Option (List (ReAtom × Bool)) :=
  let star (a : ReAtom) (rest : List Char) : Option (List (ReAtom × Bool)) := match rest with
    | '*' :: r => parseReSeq r ((a, true) :: acc)
    | r => parseReSeq r ((a, false) :: acc)
  match cs with
  | [] => some acc.reverse
  | '.' :: r => star .any r
  | '[' :: r =>
    let (body, r2) := r.span (· != ']')
    let rec cls (b : List Char) (ss : List Char) (rs : List (Char × Char)) : ReAtom := match b with
      | lo :: '-' :: hi :: t => cls t ss ((lo, hi) :: rs)
      | c :: t => cls t (c :: ss) rs
      | [] => .cls ss rs
    match r2 with
    | ']' :: r3 => star (cls body [] []) r3
    | _ => none
  | c :: r => if c.isAlphanum then star (.lit c) r else none

partial def reSeqMatch : List (ReAtom × Bool) → List Char → Bool
  | [], cs => cs.isEmpty
  | (a, false) :: rest, c :: cs => a.ok c && reSeqMatch rest cs
  | (_, false) :: _, [] => false
  | (a, true) :: rest, cs => reSeqMatch rest cs || (match cs with
      | c :: cs' => a.ok c && reSeqMatch ((a, true) :: rest) cs'
      | [] => false)

/-- anchored match of `alt1|alt2|…` (optionally wrapped in one pair of parentheses) -/
def reMatch (pat w : String) : Option Bool :=
  let p := if pat.startsWith "(" && pat.endsWith ")" then strDropRight (strDrop pat 1) 1 else pat
  ((p.splitOn "|").mapM fun alt => parseReSeq alt.toList []).map fun alts => alts.any fun a => reSeqMatch a w.toList

/-- `*` = any string, `?` = any char (query.go `wildcardRegexpReplacer`) -/
def globMatch (pat w : String) : Bool :=
  reSeqMatch (pat.toList.map fun c => if c == '*' then (ReAtom.any, true) else if c == '?' then (ReAtom.any, false) else (ReAtom.lit c, false)) w.toList

/-- edit distance with adjacent transpositions (optimal string alignment), as the Levenshtein automata built with
`transposition = true` accept -/
def osaDist (a b : String) : Nat := Id.run do
  let xs := a.toList.toArray
  let ys := b.toList.toArray
  let n := xs.size
  let m := ys.size
  let mut d : Array (Array Nat) := Array.replicate (n + 1) (Array.replicate (m + 1) 0)
  for i in [0:n+1] do
    d := d.set! i ((d[i]!).set! 0 i)
  for j in [0:m+1] do
    d := d.set! 0 ((d[0]!).set! j j)
  for i in [1:n+1] do
    for j in [1:m+1] do
      let cost := if xs[i-1]! == ys[j-1]! then 0 else 1
      let mut v := min (min ((d[i-1]!)[j]! + 1) ((d[i]!)[j-1]! + 1)) ((d[i-1]!)[j-1]! + cost)
      if i > 1 && j > 1 && xs[i-1]! == ys[j-2]! && xs[i-2]! == ys[j-1]! then
        v := min v ((d[i-2]!)[j-2]! + 1)
      d := d.set! i ((d[i]!).set! j v)
  return (d[n]!)[m]!

/-- does the dictionary term `w` satisfy the query's predicate (`none`: pattern outside the modelled subset) -/
def MQ.sat (q : MQ) (w : String) : Option Bool :=
  match q with
  | .pre _ p _ => some (w.startsWith p)
  | .wild _ p _ => some (globMatch p w)
  | .re _ p _ => reMatch p w
  | .fuzzy _ t k _ => some (osaDist t w ≤ k)
  | .range _ lo hi il ih _ => some ((if il then lo ≤ w else lo < w) && (if ih then w ≤ hi else w < hi))

/-- the boost the term searcher of `w` is built with (search_multi_term.go `makeBatchSearchers`; search_fuzzy.go
`boostFromDistance`) -/
def MQ.termBoost (inst : ScoreField F) (q : MQ) (w : String) : F :=
  match q with
  | .fuzzy _ t _ b => @fuzzyTermBoost F inst b (osaDist t w) t.length w.length
  | _ => q.boost

/-- `~word/k=tree~word/k=tree…` after the main tree -/
partial def parseTermTrees (cs : List Char) (acc : List (String × Nat × Expl Float)) : Option (List (String × Nat × Expl Float)) :=
  match cs with
  | [] => some acc.reverse
  | '~' :: r =>
    let (hd, r2) := r.span (· != '=')
    match (String.ofList hd).splitOn "/", r2 with
    | [w, k], '=' :: r3 => match k.toNat?, parseExplAux r3 with
      | some k, some (t, r4) => parseTermTrees r4 ((w, k, t) :: acc)
      | _, _ => none
    | _, _ => none
  | _ => none

/-! ## the ops -/

/-- `agree`: model result = implementation result. When they differ and the only failure is the (known) idf node, the
verdict stays `ok` so that the disagreement is reported and cannot hide behind the known finding; any other failure
is a concrete violation of the specification by the implementation's own output and is reported as such. -/
def verdictOf (agree : Bool) (fails : List String) (brs : List String) : String :=
  let br := if brs.isEmpty then "" else " br=" ++ ",".intercalate brs
  (if fails.isEmpty || (!agree && fails == ["explain-node:idf"]) then "ok" else "bad:" ++ "+".intercalate fails) ++ br

/-- group the failing node kinds: `explain-node:idf+tf` -/
def nodeFail (ks : List String) : List String :=
  let ks := ks.eraseDups
  if ks.isEmpty then [] else ["explain-node:" ++ "+".intercalate ks]

/-- checks shared by every line that carries a complete term-level tree -/
def termTreeChecks (inst : ScoreField F) (t : Expl F) (assumptionIsBad : Bool) (exact : Option (Nat × Nat × Nat × Nat) := none) :
    List String × List String :=
  let stats : List (Option Stat) := (scoreNodes t).map fun nd => (statOf inst nd).map fun (s : Stat) => match exact with
    | some (n, bigN, f, dl) => { s with n := n, bigN := bigN, f := f, dl := dl }
    | none => s
  -- a direct call knows its integer statistics exactly even when the float leaves cannot be read back
  let stats : List (Option Stat) := match exact, stats, scoreNodes t with
    | some (n, bigN, f, dl), [none], [nd] =>
        let tfN := nd.children.find? (fun c => kindName c == "tf")
        let idfN := nd.children.find? (fun c => kindName c == "idf")
        match tfN, idfN with
        | some tfN, some idfN => match leafVal tfN "k1", leafVal tfN "b", leafVal tfN "avgdl" with
          | some k1, some b, some avgdl =>
            let boost : F := match nd.children.find? (fun (c : Expl F) => c.msg == "boost") with
              | some c => c.value
              | none => (@gMsgDefault inst "boost").getD 1.0
            [some ({ k1 := k1, b := b, avgdl := avgdl, boost := boost, idf := idfN.value, n := n, bigN := bigN, f := f, dl := dl } : Stat)]
          | _, _, _ => stats
        | _, _ => stats
    | _, _, _ => stats
  let hyp : List String := stats.filterMap fun
    | some s => hypFail s
    | none => some "unreadable-leaves"
  let brs := (hyp.eraseDups.map fun hfail => "hyp-" ++ hfail)
  if !hyp.isEmpty then
    (if assumptionIsBad then ["assumption-" ++ "+".intercalate hyp.eraseDups] else [], brs)
  else
    let range : List String := stats.zip (scoreNodes t) |>.filterMap fun
      | (some s, nd) =>
          let w := s.boost * s.idf
          if !(isFinite nd.value) || !(nd.value ≥ 0) || !(nd.value ≤ w) then some "score-range"
          else if !(s.idf ≥ 0) || !(isFinite s.idf) then some "idf-not-positive" else none
      | _ => none
    let sat := stats.zip (scoreNodes t) |>.filterMap fun
      | (some s, nd) => if nd.value == s.boost * s.idf then some "sat-weight" else if nd.value == 0 then some "sat-zero" else some "strict"
      | _ => none
    (range.eraseDups ++ nodeFail (checkNodes inst t (exact.map fun (n, bigN, _, _) => n == bigN)) ++ (checkFreqText t).eraseDups, (sat.eraseDups ++ ["hyp-hold"]))

def c17step (_ : Unit) (op : String) (impl : String) : Unit × String :=
  let ws := op.splitOn " "
  let iw := impl.splitOn " "
  let out : String × String := match ws with
    | ["lit", m, e] => match m.toNat?, e.toNat? with
        | some m, some e => (fbits (@gLit plainField m e), "ok")
        | _, _ => ("bad-op", "na")
    | ["const", "defaultK1"] => (fbits (@gDefaultK1 plainField), "ok")
    | ["const", "defaultB"] => (fbits (@gDefaultB plainField), "ok")
    | ["norm", dl] => match dl.toNat? with
        | some dl => (toString (@gNorm plainField dl), "ok")
        | none => ("bad-op", "na")
    | ["idf", n, bigN] => match n.toNat?, bigN.toNat? with
        | some n, some bigN =>
          let own := @gIdf plainField n bigN
          let hints := (parseF impl).toList
          let v := @gIdf (snapField hints) n bigN
          let d := match parseF impl with | some x => ulpDist own x | none => 0
          let m := fbits v
          if n ≤ bigN then
            -- over ℝ idf > 0; in binary64 `1 + 0.5/(n+0.5)` rounds to 1 for n = N ≥ 2^52 and the idf is exactly 0: reported, not failed
            (m, verdictOf (m == impl) (if v ≥ 0 && isFinite v then [] else ["idf-not-positive"])
              ([ulpBranch d, if n == bigN then "idf-n-eq-N" else "idf-n-lt-N"] ++ (if v == 0 then ["idf-zero-by-rounding"] else [])))
          else (m, "na br=" ++ ulpBranch d ++ ",idf-wraps")
        | _, _ => ("bad-op", "na")
    | ["score", k1, b, avg, boost, idfv, f, dl] =>
        match parseF k1, parseF b, parseF avg, parseF boost, parseF idfv, f.toNat?, dl.toNat? with
        | some k1, some b, some avg, some boost, some idfv, some f, some dl =>
          let inst := plainField
          let v := @gScore inst (@gScorerIdf inst k1 b avg boost idfv) f dl
          let m := fbits v
          let st : Stat := { k1 := k1, b := b, avgdl := avg, boost := boost, idf := idfv, n := 1, bigN := 1, f := f, dl := dl }
          -- the corner b = 1 ∧ dl = 0 (`den_zero_iff`): 1/0 = +Inf; freq ≥ 1 saturates at the weight, freq = 0 gives 0·Inf = NaN
          let corner : List String :=
            if b == 1.0 && dl == 0 && k1 > 0 && avg > 0 && isFinite (boost * idfv) && boost * idfv > 0 then
              (if f ≥ 1 then (if v == boost * idfv then ["den-zero-saturates"] else ["den-zero-other"])
               else (if v.isNaN then ["den-zero-nan"] else ["den-zero-other"]))
            else []
          match hypFail st with
          | some hfail => (m, "na br=" ++ ",".intercalate (("hyp-" ++ hfail) :: corner))
          | none =>
            if !(idfv > 0) || !(isFinite idfv) || !(isFinite boost) then (m, "na br=hyp-idf")
            else
              let w := boost * idfv
              let fails := if !(isFinite w) then [] else if !(isFinite v) || !(v ≥ 0) || !(v ≤ w) then ["score-range"] else []
              (m, verdictOf (m == impl) fails [if !(isFinite w) then "weight-overflow" else if v == w then "sat-weight" else if v == 0 then "sat-zero" else "strict"])
        | _, _, _, _, _, _, _ => ("bad-op", "na")
    | ["explain", k1, b, boost, n, bigN, ttf, f, dl] =>
        match parseF k1, parseF b, parseF boost, n.toNat?, bigN.toNat?, ttf.toNat?, f.toNat?, dl.toNat? with
        | some k1, some b, some boost, some n, some bigN, some ttf, some f, some dl =>
          match splitHead impl 1 with
          | [_, treeS] => match parseExpl treeS with
            | some t =>
              let inst := snapField ((idfNodes t).map (·.value))
              let sc := @gScorer inst k1 b boost n bigN ttf
              let mt := @gExplain inst sc f dl
              let ms := @gScore inst sc f dl
              let m := fbits ms ++ " " ++ mt.render
              let (fails, brs) := termTreeChecks inst t false (some (n, bigN, f, dl))
              let rootFail := match iw.head? >>= parseF with
                | some s => if sameBits s t.value then [] else ["explain-root-vs-score"]
                | none => ["explain-root-vs-score"]
              -- leaves as large as 2^64 cannot be read back from a float: judge only what is readable
              let v := verdictOf (m == impl) (rootFail ++ fails) (ulpBranch (logUlpExact t n bigN) :: brs)
              (m, if (rootFail ++ fails).isEmpty && brs.any (·.startsWith "hyp-") && !brs.contains "hyp-hold" then "na" ++ strDrop v 2 else v)
            | none => ("unparsable-tree", "ok")
          | _ => ("unparsable-result", "ok")
        | _, _, _, _, _, _, _, _ => ("bad-op", "na")
    | "law" :: which :: k1 :: b :: boost :: n :: bigN :: ttf :: rest =>
        match parseF k1, parseF b, parseF boost, n.toNat?, bigN.toNat?, ttf.toNat?, iw.mapM parseF with
        | some k1, some b, some boost, some n, some bigN, some ttf, some [ii1, is1, ii2, is2] =>
          let inst := snapField [ii1, ii2]
          let one (boost : F) (n f dl : Nat) : F × F :=
            let sc := @gScorer inst k1 b boost n bigN ttf
            (sc.idf.value, @gScore inst sc f dl)
          let avg := @gAvg inst bigN ttf
          let render (a c : F × F) := fbits a.1 ++ " " ++ fbits a.2 ++ " " ++ fbits c.1 ++ " " ++ fbits c.2
          let hyp (f dl : Nat) (boost : F) (n : Nat) : Option String :=
            hypFail { k1 := k1, b := b, avgdl := avg, boost := boost, idf := 1.0, n := n, bigN := bigN, f := f, dl := dl }
          let finish (m : String) (hy : Option String) (fails brs : List String) : String × String :=
            match hy with
            | some hfail => (m, "na br=hyp-" ++ hfail)
            | none => if !(isFinite is1) || !(isFinite is2) then (m, "na br=law-nonfinite") else (m, verdictOf (m == impl) fails brs)
          match which, rest with
          | "freq", [f, f2, dl] => match f.toNat?, f2.toNat?, dl.toNat? with
              | some f, some f2, some dl =>
                finish (render (one boost n f dl) (one boost n f2 dl)) (hyp f dl boost n)
                  (if is1 ≤ is2 then [] else ["law-freq"]) [if is1 < is2 then "law-freq-strict" else "law-freq-tie"]
              | _, _, _ => ("bad-op", "na")
          | "len", [f, dl, dl2] => match f.toNat?, dl.toNat?, dl2.toNat? with
              | some f, some dl, some dl2 =>
                finish (render (one boost n f dl) (one boost n f dl2)) (hyp f dl boost n)
                  (if is2 ≤ is1 then [] else ["law-len"]) [if is2 < is1 then "law-len-strict" else if b == 0 then "law-len-tie-b0" else "law-len-tie"]
              | _, _, _ => ("bad-op", "na")
          | "df", [n2, f, dl] => match n2.toNat?, f.toNat?, dl.toNat? with
              | some n2, some f, some dl =>
                finish (render (one boost n f dl) (one boost n2 f dl)) (if n2 > bigN then some "n-le-N" else hyp f dl boost n)
                  (if ii2 ≤ ii1 then [] else ["law-df-idf"])
                  [if n2 == n then "law-df-same-n" else if ii2 < ii1 then "law-df-idf-strict" else "law-df-idf-tie",
                   if is2 < is1 then "law-df-score-strict" else if is2 == is1 then "law-df-score-tie" else "law-df-score-inverted-by-rounding"]
              | _, _, _ => ("bad-op", "na")
          | "boost", [c, f, dl] => match parseF c, f.toNat?, dl.toNat? with
              | some c, some f, some dl =>
                let want := c * is1
                -- w - w/(1+x) cancels for tiny x: the absolute error is a few ulp of the WEIGHT, so linearity is judged on that scale
                let okLin := !(isFinite want) || !(isFinite (c * boost * ii1)) || (is2 - want).abs ≤ 1e-12 * (max (max is2.abs want.abs) (c * boost * ii1).abs) + 1e-300 || sameBits is2 want
                finish (render (one boost n f dl) (one (c * boost) n f dl)) (if !(c * boost > 0) || !(isFinite (c * boost)) then some "boost-pos" else hyp f dl boost n)
                  (if okLin then [] else ["law-boost"]) [if sameBits is2 want then "law-boost-exact" else "law-boost-rounded"]
              | _, _, _ => ("bad-op", "na")
          | _, _ => ("bad-op", "na")
        | _, _, _, _, _, _, _ => ("unparsable", "ok")
    | "composite" :: boost :: parts =>
        match parseF boost, parts.mapM parseF with
        | some boost, some vs =>
          let inst := plainField
          let ms : List (Match F) := vs.map fun v => ⟨v, Expl.node v "constant" []⟩
          let c := @gComposite inst (if boost == 1.0 && ms.length % 2 == 0 then none else some boost)
          let sc := @gScoreComposite inst c ms
          let ex := @gExplainComposite inst c ms
          let m := fbits sc ++ " " ++ ex.render
          let fails := match splitHead impl 1 with
            | [s, treeS] => match parseF s, parseExpl treeS with
              | some s, some t => (if sameBits s t.value then [] else ["explain-root-vs-score"]) ++ nodeFail (checkNodes inst t)
              | _, _ => []
            | _ => []
          (m, verdictOf (m == impl) fails [if boost == 1.0 then "composite-noboost" else "composite-boost"])
        | _, _ => ("bad-op", "na")
    | ["constant", c] => match parseF c with
        | some c =>
          let inst := plainField
          let (a, b, e1, e2) := @gConstant inst c
          (fbits a ++ " " ++ fbits b ++ " " ++ e1.render ++ " " ++ e2.render, "ok")
        | none => ("bad-op", "na")
    | ["hit", corpus, query, _kind, docid] =>
        match splitHead impl 2 with
        | [plainS, explS, treeS] => match parseExpl treeS, parseF explS with
          | some t, some es =>
            let inst := snapField ((idfNodes t).map (·.value))
            let m := match rebuild inst t with
              | some mt => fbits mt.value ++ " " ++ fbits mt.value ++ " " ++ mt.render
              | none => "model-cannot-rebuild"
            let rootFail := (if parseF plainS |>.map (sameBits · t.value) |>.getD false then [] else ["explain-root-vs-score"]) ++
              (if sameBits es t.value then [] else ["score-field-vs-explanation-root"])
            let (fails, brs) := termTreeChecks inst t true
            -- which clauses of the query score this document, with which statistics
            let batches := parseCorpus corpus
            let docs := batches.flatten
            let lenient := batches.length > 1
            let (partFail, partBr) : List String × List String :=
              match docs.find? (·.id == docid), parseQ query.toList with
              | some d, some (q, []) =>
                if !(qMatches d q) then ([], ["model-says-no-match"])
                else match implSk inst t with
                  | none => (["parts:unreadable"], [])
                  | some sk =>
                    let want := expectSk inst docs d q
                    let strictEq := sk.render false == (want.render false)
                    if sk.render lenient == want.render lenient then ([], [if strictEq then "stats-as-corpus" else "stats-differ-multibatch"])
                    else ([s!"parts:want={want.render lenient}:got={sk.render lenient}"], [])
              | _, _ => ([], ["model-cannot-parse"])
            let kindBr := (if (scoreNodes t).isEmpty then ["hit-constant-only"] else ["hit-scored"]) ++
              (if (scoreNodes t).length > 1 then ["hit-multi-term"] else []) ++
              (if hasSub treeS "computed as boost * sum" then ["hit-boosted-compound"] else [])
            (m, verdictOf (m == impl) (rootFail ++ fails ++ partFail) (ulpBranch (logUlp t) :: brs ++ partBr ++ kindBr))
          | _, _ => ("unparsable-tree", "ok")
        | _ => ("unparsable-result", "ok")
    | ["matchset", corpus, query, _kind] =>
        match parseQ query.toList with
        | some (q, []) =>
          let ids := ((parseCorpus corpus).flatten.filter (qMatches · q)).map (·.id)
          let ids := (ids.toArray.qsort (· < ·)).toList
          ((if ids.isEmpty then "-" else ",".intercalate ids), "ok br=" ++ (if ids.isEmpty then "matchset-empty" else "matchset-nonempty"))
        | _ => ("model-cannot-parse", "ok")
    | ["normrt", lo, hi] => match lo.toNat?, hi.toNat? with
        | some lo, some hi =>
          let (sum, odd, firsts) := normrtRange lo hi
          (s!"{sum} {odd} {if firsts.isEmpty then "-" else ",".intercalate firsts}",
            "ok br=" ++ (if odd == 0 then "normrt-identity" else if hi ≥ 2 ^ 32 then "normrt-uint32-wrap" else "normrt-nan-quieted"))
        | _, _ => ("bad-op", "na")
    | ["dhit", cfg, corpus, query, _kind, docid] =>
        match splitHead impl 3 with
        | [plainS, explS, segsS, treeS] => match parseExpl treeS, parseF explS, parseSegs segsS with
          | some t, some es, some segTab =>
            let inst := snapField ((idfNodes t).map (·.value))
            let m := match rebuild inst t with
              | some mt => fbits mt.value ++ " " ++ fbits mt.value ++ " " ++ segsS ++ " " ++ mt.render
              | none => "model-cannot-rebuild"
            let rootFail := (if parseF plainS |>.map (sameBits · t.value) |>.getD false then [] else ["explain-root-vs-score"]) ++
              (if sameBits es t.value then [] else ["score-field-vs-explanation-root"])
            let (fails, brs) := termTreeChecks inst t true
            let kv := cfgOf cfg
            let docs := parseDCorpus (kv.lookup "all" == some "1") corpus
            -- the similarity of every term node is the configured one (default or the per-field one of `title`)
            let simOk (k1 b : F) : Bool :=
              let same (kk bk : String) : Bool := match (kv.lookup kk).bind parseF, (kv.lookup bk).bind parseF with
                | some ck, some cb => sameBits ck k1 && sameBits cb b
                | _, _ => false
              same "k1" "b" || same "tk1" "tb"
            let stats := (scoreNodes t).filterMap (statOf inst)
            let simFail := if stats.all (fun s => simOk s.k1 s.b) then [] else ["similarity-params"]
            -- per segment: the assumption on the plugin; per term node: its statistics are the sums over the segments and
            -- `RealHitOk` (the hypothesis of `real_hit_score_pos_bounded`) holds
            let segFail := if segTab.all (fun e => segsOk e.2.1) then [] else ["assumption-segment-n-le-N"]
            let nodeFail' : List String := (stats.filterMap fun s =>
              match segTab.find? (fun e => docFreqOf e.2.1 == s.n && docCountOf e.2.1 == s.bigN && sameBits (@gAvg inst (docCountOf e.2.1) (sumTtfOf e.2.1)) s.avgdl) with
              | none => some "stats-not-sum-of-segments"
              | some e => if RealHitOk e.2.1 s.f s.dl && dlSeen s.dl 0 false == s.dl then none else some "assumption-real-hit").eraseDups
            let (partFail, partBr) : List String × List String :=
              match docs.find? (·.id == docid), parseQ query.toList with
              | some d, some (q, []) =>
                if !(qMatchesD d q) then ([], ["model-says-no-match"])
                else match implSk inst t with
                  | none => (["parts:unreadable"], [])
                  | some sk =>
                    let want := expectSkD segTab docs d q
                    if sk.renderD == want.renderD then ([], ["d-stats-as-logical-corpus"])
                    else ([s!"parts:want={want.renderD}:got={sk.renderD}"], [])
              | _, _ => ([], ["model-cannot-parse"])
            let segBr := (if segTab.any (fun e => e.2.1.length > 1) then ["d-multi-segment"] else ["d-single-segment"]) ++
              (if segTab.any (fun e => e.2.2.any (· > 0)) then ["d-pending-deletions"] else ["d-no-pending-deletions"]) ++
              (if stats.any (fun s => s.n < s.bigN) then ["d-n-lt-N"] else []) ++
              (if stats.any (fun s => s.n == s.bigN) then ["d-n-eq-N"] else []) ++
              (if stats.any (fun s => s.b == 1.0) then ["d-b1"] else []) ++
              (if stats.any (fun s => s.b == 0.0) then ["d-b0"] else []) ++
              (if segTab.any (fun e => e.1.startsWith "all|") then ["d-composite-field"] else []) ++
              (if (kv.lookup "v") == some "2" then ["d-ice-v2"] else ["d-ice-v1"]) ++
              (if (kv.lookup "dir") == some "fs" then ["d-fs"] else ["d-mem"]) ++
              (if (kv.lookup "mg") == some "1" then ["d-merging"] else ["d-no-merging"]) ++
              (if (scoreNodes t).isEmpty then ["d-hit-constant-only"] else ["d-hit-scored"])
            -- a disjunction of more than DisjunctionHeapTakeover = 10 searchers (11+ should clauses, or a prefix / wildcard clause
            -- expanding to 11+ dictionary terms) that a must clause drives with Advance past a pending candidate: some earlier
            -- live document matches the disjunction but not the must clauses
            let heapBr : List String := match parseQ query.toList with
              | some (Q.bool _ _ musts shoulds _, []) =>
                if musts.isEmpty then [] else
                let before := docs.takeWhile (·.id != docid)
                let mustOk (x : DDoc) : Bool := musts.all (qMatchesD x)
                let gapFor (pred : DDoc → Bool) : Bool := before.any fun x => !(mustOk x) && pred x
                (if shoulds.length ≥ 11 && gapFor (fun x => shoulds.any (qMatchesD x)) then ["heap-disjunction-under-must"] else []) ++
                (if (musts ++ shoulds).any (fun c => match c with
                    | .multi k f p _ => decide (((everTokens f corpus).filter (multiSat k p)).length ≥ 11) && gapFor (fun x => qMatchesD x c)
                    | _ => false) then ["heap-multi-term-under-must"] else [])
              | _ => []
            let segBr := segBr ++ heapBr
            (m, verdictOf (m == impl) (rootFail ++ fails ++ simFail ++ segFail ++ nodeFail' ++ partFail) (ulpBranch (logUlp t) :: brs ++ partBr ++ segBr))
          | _, _, _ => ("unparsable-tree", "ok")
        | _ => ("unparsable-result", "ok")
    | ["mhit", cfg, corpus, mqS, _kind, docid] =>
        match splitHead impl 3, parseMQ mqS with
        | [plainS, explS, nsegS, restS], some q => match parseExplAux restS.toList, parseF explS with
          | some (t, restCs), some es => match parseTermTrees restCs [] with
            | some tts =>
              let inst := snapField (((idfNodes t) ++ (tts.map (·.2.2)).flatMap idfNodes).map (·.value))
              let rb (x : Expl F) : String := match rebuild inst x with
                | some mt => mt.render
                | none => "model-cannot-rebuild"
              let m := (match rebuild inst t with
                  | some mt => fbits mt.value ++ " " ++ fbits mt.value ++ " " ++ nsegS ++ " " ++ mt.render
                  | none => "model-cannot-rebuild") ++
                String.join (tts.map fun (w, k, tt) => s!"~{w}/{k}=" ++ rb tt)
              let rootFail := (if parseF plainS |>.map (sameBits · t.value) |>.getD false then [] else ["explain-root-vs-score"]) ++
                (if sameBits es t.value then [] else ["score-field-vs-explanation-root"])
              let docs := parseDCorpus false corpus
              -- matching terms the MODEL gives a boost <= 0 (`fuzzy_boost_nonpos_iff`: distance >= the smaller length)
              let nonposTerms : List String := match docs.find? (·.id == docid) with
                | none => []
                | some d => (((d.fields.filter (·.name == q.field)).flatMap (·.tokens)).eraseDups.filter fun w =>
                    (q.sat w == some true) && !(q.termBoost inst w > 0))
              -- hypotheses, ranges and node formulas per constituent: a constituent whose boost is <= 0 BY THE MODEL is judged
              -- with the sign removed from the hypothesis check only (its node formulas are still checked)
              let (fails, brs) : List String × List String :=
                if nonposTerms.isEmpty then termTreeChecks inst t true
                else
                  let per := t.children.map fun c => match statOf inst c with
                    | some st => if st.boost > 0 then termTreeChecks inst c true
                        else ((match hypFail { st with boost := 1.0 } with | some h => ["assumption-" ++ h] | none => []),
                              ["hyp-boost-nonpositive-by-model"])
                    | none => termTreeChecks inst c true
                  -- node formulas are judged once, on the whole tree
                  ((((per.map (·.1)).flatten.filter fun x => !x.startsWith "explain-node:") ++ nodeFail (checkNodes inst t) ++
                      (checkFreqText t)).eraseDups,
                   (per.map (·.2)).flatten.eraseDups)
              let (partFail, partBr) : List String × List String :=
                match docs.find? (·.id == docid) with
                | none => ([], ["model-has-no-such-document"])
                | some d =>
                  let held := ((d.fields.filter (·.name == q.field)).flatMap (·.tokens)).eraseDups
                  match held.mapM (fun w => (q.sat w).map fun ok => (w, ok)) with
                  | none => ([], ["model-cannot-parse"])
                  | some sats =>
                    let matching := (sats.filter (·.2)).map (·.1)
                    -- the single-term score node of every matching term, with the boost the multi-term searcher gives it
                    let expected : Option (List String) := matching.mapM fun w =>
                      match tts.find? (·.1 == w) with
                      | none => none
                      | some (_, _, tt) => (statOf inst tt).map fun st =>
                          (@gExplain inst (@gScorerAvg inst st.k1 st.b st.avgdl (q.termBoost inst w) st.n st.bigN) st.f st.dl).render
                    match expected with
                    | none => (["parts:missing-term-tree"], [])
                    | some exp =>
                      if kindName t != "sum" then (["parts:multi-term-root-not-sum"], [])
                      else
                        let got := t.children.map (·.render)
                        let srt (l : List String) := (l.toArray.qsort (· < ·)).toList
                        let segBr := (if matching.any (fun w => match tts.find? (·.1 == w) with
                              | some e => decide (e.2.1 ≥ 3)
                              | none => false)
                            then ["m-term-in-3plus-segments"] else ["m-terms-in-fewer-segments"]) ++
                          (if matching.length ≥ 2 then ["m-multi-part"] else ["m-single-part"]) ++
                          [match q with | .pre .. => "m-prefix" | .wild .. => "m-wildcard" | .re .. => "m-regexp" | .fuzzy .. => "m-fuzzy" | .range .. => "m-range"]
                        if srt got == srt exp then
                          -- score = sum of the distinct parts, in the order the implementation lists them (bit-exact)
                          let sumOk := sameBits t.value (@gMsgSum inst (t.children.map (·.value)))
                          ((if sumOk then [] else ["multi-term-score-not-sum-of-distinct-parts"]), "m-parts-ok" :: segBr)
                        else if srt got.eraseDups == srt exp.eraseDups && got.length > exp.length &&
                            exp.eraseDups.all (fun x => got.count x ≥ exp.count x) then
                          -- some constituent more often than the document has distinct matching terms with that score part
                          -- (two distinct terms may have equal statistics, hence multisets): the score counts a term's part several times
                          let kept := t.children.foldl (fun (acc : List (Expl F)) c =>
                            if (acc.map (·.render)).count c.render < exp.count c.render then acc ++ [c] else acc) []
                          let distinctSum := @gMsgSum inst (kept.map (·.value))
                          (["parts:duplicate-term-child"] ++ (if sameBits t.value distinctSum then [] else ["multi-term-score-not-sum-of-distinct-parts"]), segBr)
                        else ([s!"parts:multi-term:want={exp.length}-children:got={got.length}"], segBr)
              -- a score that is not positive (or not finite): explained ONLY when the parts are exactly the model's and some
              -- matching term has a model boost <= 0; anything else is its own failure
              let partsOk := partBr.contains "m-parts-ok"
              let posFail : List String :=
                if t.value > 0 && isFinite t.value then []
                else if partsOk && !nonposTerms.isEmpty && isFinite t.value then ["score-not-positive:fuzzy-term-boost"]
                else ["score-not-positive"]
              let posBr := (if !nonposTerms.isEmpty && partsOk then
                  [if t.value > 0 then "fuzzy-boost-nonpositive-part-positive-hit" else "fuzzy-boost-nonpositive-hit"] else [])
              (m, verdictOf (m == impl) (rootFail ++ fails ++ partFail ++ posFail) (ulpBranch (logUlp t) :: brs ++ partBr ++ posBr ++ ["m-hit"]))
            | none => ("unparsable-term-trees", "ok")
          | _, _ => ("unparsable-tree", "ok")
        | _, _ => ("unparsable-result", "ok")
    | ["mmatchset", _cfg, corpus, mqS, _kind] =>
        match parseMQ mqS with
        | some q =>
          let docs := parseDCorpus false corpus
          let hit (d : DDoc) : Option Bool :=
            (((d.fields.filter (·.name == q.field)).flatMap (·.tokens)).eraseDups.mapM q.sat).map (·.any id)
          match docs.mapM (fun d => (hit d).map fun h => (d.id, h)) with
          | some hs =>
            let ids := (((hs.filter (·.2)).map (·.1)).toArray.qsort (· < ·)).toList
            ((if ids.isEmpty then "-" else ",".intercalate ids), "ok br=" ++ (if ids.isEmpty then "mmatchset-empty" else "mmatchset-nonempty"))
          | none => ("model-cannot-parse", "ok")
        | none => ("model-cannot-parse", "ok")
    | ["nscore", cfg, corpus, field, word] =>
        -- score mode "none": the scorer is called with freq = 0 and norm = 0 whatever the document (fact
        -- `freq-norm-loaded-unless-score-none`); the generated `Score` then gives w - w/(1 + 0·normInverse): 0 for b < 1, NaN for b = 1
        let kv := cfgOf cfg
        match (kv.lookup "k1").bind parseF, (kv.lookup "b").bind parseF with
        | some k1, some b =>
          let inst := plainField
          let v := if scoreNoneConstantZero then (@gConstant inst 0.0).1 else @gScore inst (@gScorerIdf inst k1 b 1.0 1.0 1.0) 0 0
          let docs := parseDCorpus (kv.lookup "all" == some "1") corpus
          let ids := ((docs.filter fun d => termFreq d.fields field word ≥ 1).map (·.id)).toArray.qsort (· < ·) |>.toList
          ((if ids.isEmpty then "-" else ",".intercalate (ids.map fun i => i ++ "=" ++ fbits v)),
            "ok br=" ++ (if ids.isEmpty then "score-none-no-hit" else if v.isNaN then "score-none-nan" else if v == 0 then "score-none-zero" else "score-none-other"))
        | _, _ => ("bad-op", "na")
    | ["dmatchset", cfg, corpus, query, _kind] =>
        match parseQ query.toList with
        | some (q, []) =>
          let docs := parseDCorpus ((cfgOf cfg).lookup "all" == some "1") corpus
          let ids := (docs.filter (qMatchesD · q)).map (·.id)
          let ids := (ids.toArray.qsort (· < ·)).toList
          ((if ids.isEmpty then "-" else ",".intercalate ids), "ok br=" ++ (if ids.isEmpty then "dmatchset-empty" else "dmatchset-nonempty"))
        | _ => ("model-cannot-parse", "ok")
    | "case" :: _ => ("case", "na")
    | _ => ("bad-op", "na")
  ((), out.1 ++ sep ++ out.2)

def main : IO Unit := driverLoop () c17step

import Bluge.TopN
import Bluge.Numeric
import BlugeGen.C09
/-! Model driver for C09 (line protocol, see go/harness/c09/main.go).

For every search operation it prints what the MODEL of the code returns (hits with their sort values and
the fingerprint of the request's sort order afterwards — `./check` compares that with the implementation
as a string) and judges the IMPLEMENTATION's own result with the specification functions
`topSpec` / `afterSpec` / `beforeSpec` / `blocks` / `blocksBack` (verdict `bad:` = a failing input). -/
open Bluge Bluge.TopN

structure RefD where
  spec : List (String × SortKey)
  ms : List Match              -- hit-numbered, with the sort values the implementation computed
  docs : List Nat              -- doc number per hit
  distinct : Bool              -- the declared sort order distinguishes all matches
  ranking : List Match         -- `sort declared ms`, computed once per reference list
  pranking : List Nat          -- hit numbers in the PROPERTY-level order (`cmpPropKeys` on present/missing values, then hit number)
  beyond : Bool                -- some present value is not strictly between lowTerm and highTerm (`keyInRange` fails)

structure ReqD where
  ref : String
  req : Request

structure ChainD where
  ref : String
  dir : String
  n : Nat
  start : Nat
  pages : List (List Nat) := []     -- implementation pages (hit numbers), newest first
  mpages : Nat := 0
  mhits : Nat := 0
  mutated : Bool := false
  unparsed : Bool := false

structure St where
  refs : List (String × RefD) := []
  heap : SortHeap := []
  vars : List (String × (String × SortPtrs)) := []
  reqs : List (String × ReqD) := []
  chain : Option ChainD := none

def lookup {α : Type} (k : String) : List (String × α) → Option α
  | [] => none
  | (k', v) :: r => if k == k' then some v else lookup k r

def kvGet (ws : List String) (k : String) : Option String :=
  ws.findSome? fun w => if w.startsWith (k ++ "=") then some ((w.drop (k.length + 1)).toString) else none

def parseSpec (s : String) : List (String × SortKey) :=
  if s.isEmpty then [] else
  (s.splitOn ",").filterMap fun p => match p.splitOn ":" with
    | [src, d, f] => some (src, { desc := d == "d", missingFirst := f == "f" })
    | _ => none

def declaredOf (spec : List (String × SortKey)) : SortOrder := spec.map (·.2)

def keysToStr (ks : List Bytes) : String :=
  if ks.isEmpty then "." else ",".intercalate (ks.map bytesToHex)

def parseKeys (s : String) : Option (List Bytes) :=
  if s == "." then some [] else (s.splitOn ",").mapM hexToBytes

/-- the model of `Sort.Value` on a raw field value: text bytes as they are, numbers and dates
prefix-coded at shift 0 (`Bluge.Numeric`), a missing value replaced by `missingValue` -/
def rawKey (s : SortKey) (raw : String) : Option Bytes :=
  if raw == "~" then some (missingValue s) else
  let body := (raw.drop 1).toString
  match raw.front with
  | 't' => hexToBytes body
  | 'f' => (parse64 body).map fun b => Numeric.encode (Numeric.f2i b) 0
  | 'i' => (parse64 body).map fun b => Numeric.encode b 0
  | _ => none

def fingerprint (spec : List (String × SortKey)) (so : SortOrder) : String :=
  if so.isEmpty then "-" else
  ",".intercalate ((spec.zip so).map fun ((src, _), s) =>
    (if s.desc then "d" else "a") ++
    (if src == "score" then "v" else if missingValue s == lowTerm then "l" else "h"))

def hitsToStr (r : RefD) (hs : List Match) : String :=
  if hs.isEmpty then "none" else
  ";".intercalate (hs.map fun m =>
    s!"{m.hitNumber}/{r.docs.getD (m.hitNumber - 1) 0}:{keysToStr m.keys}")

def hitNums (hs : List Match) : List Nat := hs.map (·.hitNumber)

def numsToStr (l : List Nat) : String := if l.isEmpty then "none" else ",".intercalate (l.map toString)

/-- parse the implementation's `hits|so=fp` -/
def parseImpl (impl : String) : Option (List Nat × String) :=
  match impl.splitOn "|so=" with
  | [hs, fp] =>
    if hs == "none" then some ([], fp) else
    ((hs.splitOn ";").mapM fun (e : String) => ((e.splitOn "/").head?).bind String.toNat?).map (·, fp)
  | _ => none

/-- the sort value each returned hit carries, as printed by the implementation: (hit number, keys) -/
def parseImplKeys (impl : String) : List (Nat × String) :=
  match impl.splitOn "|so=" with
  | [hs, _] =>
    if hs == "none" then [] else
    (hs.splitOn ";").filterMap fun (e : String) =>
      match e.splitOn ":" with
      | [hd, ks] => (((hd.splitOn "/").head?).bind String.toNat?).map (·, ks)
      | _ => none
  | _ => []

/-- the PROPERTY-level ranking: missing values strictly first / last as requested, present values in byte
order (`cmpPropKeys`), ties by hit number; insertion sort on (hit number, present-or-missing values) -/
def propLt (so : SortOrder) (a b : Nat × List (Option Bytes)) : Bool :=
  match cmpPropKeys so a.2 b.2 with
  | .lt => true
  | .gt => false
  | .eq => a.1 < b.1

def propInsert (so : SortOrder) (d : Nat × List (Option Bytes)) : List (Nat × List (Option Bytes)) → List (Nat × List (Option Bytes))
  | [] => [d]
  | x :: xs => if propLt so d x then d :: x :: xs else x :: propInsert so d xs

def propSort (so : SortOrder) (l : List (Nat × List (Option Bytes))) : List (Nat × List (Option Bytes)) :=
  l.foldr (propInsert so) []

/-- the loop of `Collect`, recording which path each match took -/
def runTraced (c : Coll) (ms : List Match) : Coll × List Branch :=
  ms.foldl (fun (acc : Coll × List Branch) d =>
    let r := collectSingleB acc.1 d
    (r.1, if acc.2.contains r.2 then acc.2 else r.2 :: acc.2)) (c, [])

inductive Kind | topn | after | before
deriving DecidableEq

/-- one search on the model + the judgement of the implementation's result -/
def doSearch (st : St) (refName : String) (r : RefD) (req : Request) (kind : Kind) (impl : String) : St × String :=
  let declared := declaredOf r.spec
  let curBefore := deref st.heap req.sort
  let b := buildCollector BlugeGen.C09.copyIsDeep st.heap req
  let panics := match req.after with
    | some a => r.ms.any fun d => cmpPanics b.coll.so d.keys a
    | none => false
  let (cfin, brs) := runTraced b.coll r.ms
  let res := cfin.final
  let curAfter := deref b.heap req.sort
  let fpModel := fingerprint r.spec curAfter
  let modelRes := if panics then "panic" else hitsToStr r res ++ "|so=" ++ fpModel
  let cause := if curBefore != declared || curAfter != declared then " [sort-order-reversed-by-before]" else ""
  -- the specification
  -- (`topSpec` / `afterSpec` / `beforeSpec` unfolded on `r.ranking = sort declared r.ms`)
  let expected : Option (List Match) := match kind, req.after with
    | .topn, _ => some ((r.ranking.drop req.from_).take req.n)
    | .after, some a => some ((r.ranking.filter fun d => cmpKeys declared d.keys a = .gt).take req.n)
    | .before, some a =>
        if r.distinct then some (lastN req.n (r.ranking.filter fun d => cmpKeys declared d.keys a = .lt)) else none
    | _, none => none
  let implP := parseImpl impl
  -- every returned hit must carry the sort value of ITS document (the one in the reference list)
  let foreignKeys := (parseImplKeys impl).any fun (h, ks) =>
    match r.ms[h - 1]? with
    | some m => h == 0 || keysToStr m.keys != ks
    | none => true
  let verdict := if panics then (if impl == "panic" then "na" else "ok") else
    match implP with
    | none => "ok"     -- unparsable implementation output: the string comparison reports it
    | some (ih, ifp) =>
      match expected with
      | some e =>
        -- a plain top-N window is judged by the PROPERTY-level ranking (missing block strictly first / last)
        let pe := (r.pranking.drop req.from_).take req.n
        if kind == .topn && ih != pe then
          (if r.beyond && ih == hitNums e
           then s!"bad:present-value-beyond-missing-marker{cause} expected={numsToStr pe}"
           else s!"bad:not-the-slice{cause} expected={numsToStr pe}")
        else
        if ih != hitNums e then s!"bad:not-the-slice{cause} expected={numsToStr (hitNums e)}"
        else if foreignKeys then s!"bad:hit-carries-another-sort-value{cause}"
        else if ifp != fingerprint r.spec declared then s!"bad:request-sort-order-changed{cause}"
        else "ok"
      | none =>
        if foreignKeys then s!"bad:hit-carries-another-sort-value{cause}" else
        if ifp != fingerprint r.spec declared then s!"bad:request-sort-order-changed{cause}" else "ok"
  let tags : List String :=
    brs.map Branch.name ++
    [match b.coll.store.kind with | .slice => "store-slice" | .heap => "store-heap"] ++
    (match kind with | .topn => ["topn"] | .after => ["after"] | .before => ["before"]) ++
    (if req.from_ ≥ r.ms.length && kind == .topn then ["from-beyond-count"] else []) ++
    (if req.n == 0 then ["n-zero"] else []) ++
    (if req.n + req.from_ > r.ms.length then ["n-beyond-count"] else []) ++
    (if !r.distinct then ["ties"] else ["distinct"]) ++
    (if kind == .before && !r.distinct then ["before-ties-unjudged"] else []) ++
    (if cause != "" then ["sort-reversed"] else []) ++
    (if r.beyond then ["present-value-beyond-marker"] else ["present-values-in-range"]) ++
    (if panics then ["short-after-key"] else [])
  let chain' := st.chain.map fun c =>
    if c.ref != refName then c else
    { c with
      pages := (match implP with | some (ih, _) => ih | none => []) :: c.pages
      unparsed := c.unparsed || implP.isNone
      mpages := c.mpages + 1
      mhits := c.mhits + (if panics then 0 else res.length)
      mutated := c.mutated || cause != "" }
  ({ st with heap := b.heap, chain := chain' }, modelRes ++ sep ++ verdict ++ " br=" ++ ",".intercalate tags)

/-- the pointers a request line asks for: `new`/`newstr` allocate fresh Sort objects, a variable shares its own -/
def sortFor (st : St) (r : RefD) (so : String) : Option (St × SortPtrs) :=
  -- `default`: NewTopNSearch gives every request its own `SortBy(DocumentScore()).Desc()`
  if so == "default" && declaredOf r.spec != [⟨true, false⟩] then none else
  if so == "new" || so == "newstr" || so == "default" then
    let d := declaredOf r.spec
    some ({ st with heap := st.heap ++ d }, (List.range d.length).map (· + st.heap.length))
  else match lookup so st.vars with
    | some (_, ps) => some (st, ps)
    | none => none

def natOf (ws : List String) (k : String) : Nat := ((kvGet ws k).bind String.toNat?).getD 0

def chainEnd (st : St) (c : ChainD) : String :=
  let modelRes := s!"pages={c.mpages} hits={c.mhits}"
  match lookup c.ref st.refs with
  | none => modelRes ++ sep ++ "na"
  | some r =>
    let S := hitNums r.ranking
    let pages := c.pages.reverse
    let cause := if c.mutated then " [sort-order-reversed-by-before]" else ""
    let fuel := r.ms.length + 2
    if c.unparsed then modelRes ++ sep ++ "na br=chain-with-panic"
    else if !r.distinct then modelRes ++ sep ++ "na br=chain-ties-unjudged"
    else if c.n == 0 then modelRes ++ sep ++ "na"
    else if c.dir == "after" then
      let want := blocks c.n fuel (S.drop c.start)
      let got := pages.filter (!·.isEmpty)
      if got == want && got.flatten == S.drop c.start then modelRes ++ sep ++ "ok br=chain-after"
      else modelRes ++ sep ++ s!"bad:pages-do-not-partition{cause} expected={want.length}-pages got={got.length}"
    else
      if c.start ≥ S.length then modelRes ++ sep ++ "na br=chain-start-beyond-end"
      else
        let want := blocksBack c.n fuel (S.take c.start)
        let got := (pages.drop 1).filter (!·.isEmpty)
        if got == want && got.reverse.flatten == S.take c.start then modelRes ++ sep ++ "ok br=chain-before"
        else modelRes ++ sep ++ s!"bad:pages-do-not-partition{cause} expected={want.length}-pages got={got.length}"

def c09step (st : St) (op : String) (impl : String) : St × String :=
  let ws := op.splitOn " "
  match ws with
  | "case" :: _ => (st, "case" ++ sep ++ "na")
  | "ref" :: name :: _kind :: rest =>
    let spec := parseSpec ((kvGet rest "s").getD "")
    let raw := (kvGet rest "raw").getD "."
    let rows : List (Nat × List String) :=
      if raw == "." then [] else (raw.splitOn ";").map fun e =>
        match e.splitOn ":" with
        | [d, vs] => (d.toNat?.getD 0, if vs == "." then [] else vs.splitOn ",")
        | _ => (0, [])
    -- model of the sort value computation
    let modelKeys : List (Option (List Bytes)) := rows.map fun (_, vs) =>
      (spec.zip vs).mapM fun ((_, s), v) => rawKey s v
    let modelRes := if rows.isEmpty then "none" else
      ";".intercalate (modelKeys.map fun k => match k with | some ks => keysToStr ks | none => "?")
    -- the reference list carries the keys the IMPLEMENTATION computed
    let implKeys : List (List Bytes) :=
      if impl == "none" then [] else (impl.splitOn ";").map fun e => (parseKeys e).getD []
    let ms := (implKeys.zip (List.range implKeys.length)).map fun (k, i) => Match.mk (i + 1) k
    let declared := declaredOf spec
    -- present-or-missing values of every match (from the raw field values; a present value is the key itself)
    let pkeys : List (List (Option Bytes)) := rows.map fun (_, vs) =>
      (spec.zip vs).map fun ((_, s), v) => if v == "~" then none else rawKey s v
    let beyond := pkeys.any fun ks => ks.any fun k => match k with | some v => !keyInRange v | none => false
    let pranking := (propSort declared ((List.range pkeys.length).map (· + 1) |>.zip pkeys)).map (·.1)
    let rd : RefD := { spec, ms, docs := rows.map (·.1), distinct := decide (KeysDistinct declared ms),
                       ranking := sort declared ms, pranking, beyond }
    let wf := implKeys.all fun k => k.length == spec.length
    ({ st with refs := (name, rd) :: st.refs },
      modelRes ++ sep ++ (if !wf then "bad:sort-value-has-wrong-number-of-keys"
        else if modelRes != impl then "bad:sort-value-is-not-the-value-of-the-documents-field" else "ok") ++
        " br=ref" ++ (if rd.distinct then ",ref-distinct" else ",ref-ties") ++ (if ms.isEmpty then ",ref-empty" else ""))
  | ["sortvar", v, rname] =>
    match lookup rname st.refs with
    | none => (st, "noref" ++ sep ++ "na")
    | some r =>
      let d := declaredOf r.spec
      ({ st with heap := st.heap ++ d, vars := (v, (rname, (List.range d.length).map (· + st.heap.length))) :: st.vars },
        "ok" ++ sep ++ "na")
  | "chain" :: _ => (st, "novar" ++ sep ++ "na")
  | opn :: rname :: rest =>
    if opn == "topn" || opn == "after" || opn == "before" then
      match lookup rname st.refs with
      | none => (st, "noref" ++ sep ++ "na")
      | some r =>
        match sortFor st r ((kvGet rest "so").getD "new") with
        | none => (st, "novar" ++ sep ++ "na")
        | some (st1, ps) =>
        let key := (kvGet rest "key").bind parseKeys
        let req : Request :=
          if opn == "topn" then { n := natOf rest "n", from_ := natOf rest "from", sort := ps, after := none, reversed := false }
          else { n := natOf rest "n", from_ := 0, sort := ps, after := some (key.getD []), reversed := opn == "before" }
        doSearch st1 rname r req (if opn == "topn" then .topn else if opn == "after" then .after else .before) impl
    else if opn == "req" then
      -- req Q R n=.. so=..
      match rest with
      | r2 :: rest2 =>
        match lookup r2 st.refs with
        | none => (st, "noref" ++ sep ++ "na")
        | some r =>
          match sortFor st r ((kvGet rest2 "so").getD "new") with
          | none => (st, "novar" ++ sep ++ "na")
          | some (st1, ps) =>
          let rq : ReqD := { ref := r2, req := { n := natOf rest2 "n", from_ := 0, sort := ps, after := none, reversed := false } }
          ({ st1 with reqs := (rname, rq) :: st1.reqs }, "ok" ++ sep ++ "na")
      | [] => (st, "bad-op" ++ sep ++ "na")
    else if opn == "run" then
      -- run Q [from=..] [after=..] [before=..]   (TopNSearch.SetFrom / After / Before, then Search)
      match lookup rname st.reqs with
      | none => (st, "noreq" ++ sep ++ "na")
      | some rq =>
        match lookup rq.ref st.refs with
        | none => (st, "noref" ++ sep ++ "na")
        | some r =>
          let q0 := rq.req
          let q1 := match kvGet rest "from" with | some f => { q0 with from_ := f.toNat?.getD 0 } | none => q0
          let q2 := match (kvGet rest "after").bind parseKeys with | some k => { q1 with after := some k } | none => q1
          let q3 := match (kvGet rest "before").bind parseKeys with
            | some k => { q2 with after := some k, reversed := true } | none => q2
          let kind : Kind := if (kvGet rest "before").isSome then .before else if (kvGet rest "after").isSome then .after else .topn
          -- a request that was given After/Before keeps it: SetFrom alone no longer selects a slice
          let sticky := (kind == .topn && q0.after.isSome) || (kind == .after && q0.reversed)
          let st1 := { st with reqs := (rname, { rq with req := q3 }) :: st.reqs }
          if sticky then
            let (st2, out) := doSearch st1 rq.ref r q3 .before ""
            (st2, ((out.splitOn sep).headD "") ++ sep ++ "na br=request-keeps-earlier-after-before")
          else doSearch st1 rq.ref r q3 kind impl
    else if opn == "chainstart" then
      ({ st with chain := some { ref := rname, dir := (kvGet rest "dir").getD "after", n := natOf rest "n", start := natOf rest "start" } },
        "ok" ++ sep ++ "na")
    else if opn == "chainend" then
      match st.chain with
      | some c => ({ st with chain := none }, chainEnd st c)
      | none => (st, "nochain" ++ sep ++ "na")
    else (st, "bad-op" ++ sep ++ "na")
  | _ => (st, "bad-op" ++ sep ++ "na")

def main : IO Unit := driverLoop ({} : St) c09step

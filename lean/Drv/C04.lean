import Bluge.Basic
import Bluge.Refs
/-! Model driver for C04 (stream `isolation`, see go/harness/c04).

It keeps (a) the reference-count model `Bluge.Refs.State`, advanced by replaying the recorded trace
events through the composite steps `introSegment / introMerge / introPersist / persisterGrab / … /
closeWriter` (a real step whose expansion is not enabled in the model is answered `rejected:…`, a
broken correspondence); (b) the abstract index (id ↦ body) and, per reader, the *value* of the abstract
index at the moment it was opened. Every re-query of a held reader is answered from that value: the
implementation's answer must be that string and must carry `same` (its own digest did not change). -/
open Bluge Bluge.Refs

structure SnapInfo where
  name  : String
  id    : Nat
  segs  : List String        -- wrapper names in order (`w…` counted, `m…` in-memory noOp wrappers)

structure RdInfo where
  slot : Nat
  snap : Option Nat          -- model snapshot id (none: a reader opened from disk by OpenReader)
  view : List (Nat × Nat)    -- the abstract index when it was opened (sorted by id)

structure D where
  m       : State
  snaps   : List SnapInfo
  wraps   : List (String × Nat)
  abs     : List (Nat × Nat)
  readers : List RdInfo
  dead    : Bool

/-- Plumbing only: the model's tables are functions built by point updates, so look-ups get slower
with every event; after each line the tables are re-tabulated into arrays (same values on all ids handed
out so far, the defaults `0` / `[]` beyond, exactly as in `Refs.init`). -/
@[noinline] def tabulated (st : State) (ra : Array Int) (ca : Array Nat) (sa : Array Int) (ga : Array (List Nat)) : State :=
  { st with wt := ⟨fun w => ra.getD w 0, fun w => ca.getD w 0⟩, sRefs := fun i => sa.getD i 0, sSegs := fun i => ga.getD i [] }

def compact (st : State) : State :=
  tabulated st ((List.range st.nW).map st.wt.refs).toArray ((List.range st.nW).map st.wt.closes).toArray
    ((List.range st.nS).map st.sRefs).toArray ((List.range st.nS).map st.sSegs).toArray

def D.init : D := { m := Refs.init, snaps := [], wraps := [], abs := [], readers := [], dead := false }

/-! ### the abstract index and the expected answers -/

def absInsert (a : List (Nat × Nat)) (id body : Nat) : List (Nat × Nat) :=
  let rest := a.filter (·.1 != id)
  let (lo, hi) := rest.partition (·.1 < id)
  lo ++ [(id, body)] ++ hi

def absDelete (a : List (Nat × Nat)) (id : Nat) : List (Nat × Nat) := a.filter (·.1 != id)

/-- `u<id>:<body>` / `d<id>`; deletes of a batch act on the old content, then the new documents are added -/
def applyBatch (a : List (Nat × Nat)) (ops : List String) : List (Nat × Nat) :=
  let parsed : List (Nat × Option Nat) := ops.filterMap fun op =>
    if op.startsWith "d" then (op.drop 1).toString.toNat?.map (·, none)
    else if op.startsWith "u" then
      match (op.drop 1).toString.splitOn ":" with
      | [i, b] => match i.toNat?, b.toNat? with
          | some i, some b => some (i, some b)
          | _, _ => none
      | _ => none
    else none
  let a1 := parsed.foldl (fun acc p => absDelete acc p.1) a
  parsed.foldl (fun acc p => match p.2 with | some b => absInsert acc p.1 b | none => acc) a1

def joinNat (sep : String) (xs : List Nat) : String := sep.intercalate (xs.map toString)

def insertBy (le : (Nat × Nat) → (Nat × Nat) → Bool) (x : Nat × Nat) : List (Nat × Nat) → List (Nat × Nat)
  | [] => [x]
  | y :: ys => if le x y then x :: y :: ys else y :: insertBy le x ys

/-- the specification of every query the harness asks, evaluated on a reader's view -/
def answers (v : List (Nat × Nat)) : String :=
  let ids (p : Nat → Bool) : String := joinNat "," ((v.filter fun d => p d.2).map (·.1))
  let grp (k : Nat) (p : Nat → Nat → Bool) : String := ";".intercalate ((List.range k).map fun i => ids (p i))
  let t := grp 5 fun i b => b % 5 == i
  let g := grp 3 fun i b => b % 3 == i
  let dj := grp 5 fun i b => b % 5 == i || b % 5 == (i + 1) % 5
  let sorted := v.foldl (fun acc d => insertBy (fun x y => x.2 < y.2 || (x.2 == y.2 && x.1 ≤ y.1)) d acc) []
  s!"n={v.length} all={",".intercalate (v.map fun d => s!"{d.1}:{d.2}")} t={t} tn={t} cj={g} cs={g} dj={dj} px={ids fun _ => true} so={joinNat "," (sorted.map (·.1))}"

/-! ### replaying trace events in the reference-count model -/

def D.snapByName (d : D) (n : String) : Option SnapInfo := d.snaps.find? (·.name == n)
def D.wrapId (d : D) (n : String) : Option Nat := (d.wraps.find? (·.1 == n)).map (·.2)

def totalCloses (st : State) : Nat := (List.range st.nW).foldl (fun a w => a + st.wt.closes w) 0

/-- a root swap recorded by the trace hook: `names` are the wrappers of the new snapshot in order -/
def D.rootEvent (d : D) (sname creator : String) (names : List String) : Except String (D × List String) := do
  let counted := names.filter (·.startsWith "w")
  -- wrappers never seen before were loaded by the caller (`loadSegment`) and are still owned by it
  let (wraps, loads, _) := counted.foldl (fun (acc : List (String × Nat) × List Event × Nat) n =>
      let (ws, ls, next) := acc
      if (ws.find? (·.1 == n)).isSome then acc else (ws ++ [(n, next)], ls ++ [Event.loadSeg], next + 1))
    (d.wraps, [], d.m.nW)
  let m1 ← match run d.m loads with
    | some s => pure s
    | none => throw "rejected:load"
  let idOf (n : String) : Nat := ((wraps.find? (·.1 == n)).map (·.2)).getD 0
  let n := m1.nS
  let evs ← match m1.root, creator with
    | some r, "introduceSegment" =>
        pure (introSegment m1 (counted.map fun w => (idOf w, (m1.sSegs r).contains (idOf w))))
    | some r, "introducePersist" =>
        pure (introPersist m1 (counted.map fun w => (idOf w, (m1.sSegs r).contains (idOf w))))
    | some r, "introduceMerge" =>
        pure (introMerge m1 (counted.map fun w => (idOf w, (m1.sSegs r).contains (idOf w))) ++ mergeRelease n)
    | some r, "loadSnapshot" =>
        pure ([Event.newSnap] ++ counted.map (fun w => Event.own n (idOf w)) ++ [Event.publish n, Event.release r])
    | none, "loadSnapshot" =>
        pure ([Event.newSnap] ++ counted.map (fun w => Event.own n (idOf w)) ++ [Event.publish n])
    | _, c => throw s!"rejected:unknown-creator-or-no-root:{c}"
  match run m1 evs with
  | none => throw s!"rejected:{creator}"
  | some m2 =>
    let br := (match creator with
      | "introduceSegment" => ["intro-segment"] | "introducePersist" => ["intro-persist"]
      | "introduceMerge" => ["intro-merge"] | _ => ["load-snapshot"])
      ++ (if loads.isEmpty then [] else ["load-segment"])
      ++ (if totalCloses m2 > totalCloses d.m then ["closer-ran"] else [])
    pure ({ d with m := m2, wraps := wraps, snaps := d.snaps ++ [{ name := sname, id := n, segs := names }] }, br)

def snapIdx (n : String) : Nat := (n.drop 1).toString.toNat?.getD 0

/-- the physical observation at a quiescent point, as the model predicts it -/
def D.refsLine (d : D) : String :=
  let ids : List Nat := (match d.m.root with | some r => [r] | none => []) ++ d.readers.filterMap (·.snap)
  let infos := (d.snaps.filter fun s => ids.contains s.id)
  let infos := infos.foldl (fun acc s => if acc.any (·.id == s.id) then acc else acc ++ [s]) ([] : List SnapInfo)
  let infos := infos.foldl (fun acc s =>
      let (lo, hi) := acc.partition (fun x => snapIdx x.name < snapIdx s.name)
      lo ++ [s] ++ hi) ([] : List SnapInfo)
  let one (s : SnapInfo) : String :=
    let segs := s.segs.map fun w =>
      if w.startsWith "w" then s!"{w}={d.m.wt.refs ((d.wrapId w).getD 0)}" else s!"{w}=-1"
    s!"{s.name}:{d.m.sRefs s.id}[{",".intercalate segs}]"
  let cl := d.wraps.filterMap fun (n, w) =>
    let k := d.m.wt.closes w
    if k == 0 then none else if k == 1 then some n else some s!"{n}x{k}"
  let temp := if d.m.tempS.isEmpty && d.m.tempW.isEmpty then "" else " model-not-quiescent"
  " ".intercalate (infos.map one) ++ " cl=" ++ ",".intercalate cl ++ temp

/-- the boolean query that makes `postingsIterator.Advance` seek backwards (field `f`: body%4 = 0 ↦ "bq",
1 ↦ "aq cq", 2 ↦ "aq", 3 ↦ "zq"; must aq, should (must bq, should cq, minShould 0)): the documents with aq;
the harness runs it `baRuns` times in a row on the same reader -/
def baRuns : Nat := 5
def baAnswer (v : List (Nat × Nat)) : String :=
  let one := joinNat "," ((v.filter fun d => d.2 % 4 == 1 || d.2 % 4 == 2).map (·.1))
  "|".intercalate ((List.range baRuns).map fun _ => one)

/-- the full expected line of a (re-)query -/
def expectedLine (v : List (Nat × Nat)) : String := answers v ++ " same ba=" ++ baAnswer v

def judge (impl expected : String) (whenDiff : String) : String :=
  if impl.startsWith "fault" then "bad:reader-fault"
  else if impl == expected then "ok"
  else
    -- split off the repeated backward-advance query: if only that part is wrong it is its own verdict
    match impl.splitOn " ba=", expected.splitOn " ba=" with
    | [i1, i2], [e1, e2] =>
        if i1 == e1 then (if i2 == e2 then "ok" else "bad:repeated-boolean-query-differs")
        else if i1.endsWith " changed" then "bad:reader-changed" else whenDiff
    | _, _ => if impl.endsWith " changed" then "bad:reader-changed" else whenDiff

def c04step (d : D) (op : String) (impl : String) : D × String :=
  let ans (d : D) (res verdict : String) (br : List String := []) : D × String :=
    ({ d with m := compact d.m }, res ++ sep ++ verdict ++ (if br.isEmpty then "" else " br=" ++ ",".intercalate br))
  -- `batchf` arms one transient failure of the next segment Persist (writer side). Whichever batch meets it is
  -- applied all the same (its introduction happened) but, being a safe batch, reports the persist error; the
  -- persister releases its snapshot, retries and succeeds.
  let batchStep (ops : String) : D × String :=
    if impl == "ok" then ans { d with abs := applyBatch d.abs (ops.splitOn ",") } "ok" "ok" ["batch"]
    else if impl == "err:persist" then
      ans { d with abs := applyBatch d.abs (ops.splitOn ",") } "err:persist" "ok" ["batch", "batch-persist-fails"]
    else ans d "ok" "ok"
  if impl == "dead" then ans d "dead" "na"
  else if impl.startsWith "fault" then ans { d with dead := true } "no-fault" "bad:reader-fault" ["fault"]
  else if impl == "na" then ans d "na" "na"
  else
  match op.splitOn " " with
  | "case" :: _ => ans d "-" "na"
  | ["wopen", name] =>
      match run d.m (openWriter d.m) with
      | none => ans d "rejected:wopen" "na"
      | some m2 =>
        let snaps := if name == "-" then d.snaps else d.snaps ++ [{ name := name, id := d.m.nS, segs := [] }]
        ans { d with m := m2, snaps := snaps } "ok" "ok" ["wopen"]
  | ["ev", "root", sname, _epoch, creator, segs] =>
      let names := if segs == "-" then [] else segs.splitOn ","
      match d.rootEvent sname creator names with
      | .ok (d2, br) => ans d2 "-" "ok" br
      | .error e => ans d e "na"
  | ["ev", "rootnil"] =>
      match run d.m (closeWriter d.m) with
      | some m2 =>
        ans { d with m := m2 } "-" "ok" (["unroot"] ++ (if totalCloses m2 > totalCloses d.m then ["closer-ran"] else []))
      | none => ans d "rejected:rootnil" "na"
  | ["ev", "grab", sname] =>
      match d.snapByName sname with
      | some s =>
        if d.m.root == some s.id then
          match run d.m persisterGrab with
          | some m2 => ans { d with m := m2 } "-" "ok" ["persister-grab"]
          | none => ans d "rejected:grab" "na"
        else ans d "rejected:grab-not-root" "na"
      | none => ans d "rejected:grab-unknown-snapshot" "na"
  | ["ev", "persisted", sname, _x] =>
      match d.snapByName sname with
      | some s =>
        match run d.m (persisterRelease s.id) with
        | some m2 =>
          ans { d with m := m2 } "-" "ok" (["persister-release"] ++ (if _x != "0" then ["persist-error"] else [])
            ++ (if totalCloses m2 > totalCloses d.m then ["closer-ran"] else []))
        | none => ans d "rejected:persisted" "na"
      | none => ans d "rejected:persisted-unknown-snapshot" "na"
  | ["stress", _g, bs] =>
      -- readers opened and closed inside the step net to nothing in the model; the batches are applied in order
      if impl.startsWith "released" then ans d "ok" "bad:reader-on-released-snapshot" ["stress"]
      else if impl == "ok" then
        ans { d with abs := (bs.splitOn ";").foldl (fun a b => applyBatch a (b.splitOn ",")) d.abs } "ok" "ok" ["stress"]
      else ans d "ok" "ok"
  | ["batch", ops] => batchStep ops
  | ["batchf", ops] => batchStep ops
  | ["open", slot, sname, _epoch] =>
      match d.m.root, d.snapByName sname, slot.toNat? with
      | some r, some s, some k =>
        if s.id != r then ans d "rejected:open-not-root" "na" else
        match run d.m [Event.readerOpen] with
        | some m2 =>
          let exp := expectedLine d.abs
          ans { d with m := m2, readers := d.readers ++ [{ slot := k, snap := some r, view := d.abs }] } exp
            (judge impl exp "bad:reader-not-abstract-index-at-open") ["reader-open"]
        | none => ans d "rejected:open" "na"
      | _, _, _ => ans d "rejected:open-unknown" "na"
  | ["openfs", slot] =>
      match slot.toNat? with
      | some k =>
        let exp := expectedLine d.abs
        ans { d with readers := d.readers ++ [{ slot := k, snap := none, view := d.abs }] } exp
          (judge impl exp "bad:reader-not-abstract-index-at-open") ["disk-reader-open"]
      | none => ans d "bad-op" "na"
  | ["q", slot] =>
      match d.readers.find? (some ·.slot == slot.toNat?) with
      | some rd =>
        let exp := expectedLine rd.view
        let stale := match rd.snap with | some i => d.m.root != some i | none => true
        ans d exp (judge impl exp "bad:reader-changed")
          (["requery"] ++ (if stale then ["requery-stale"] else ["requery-root"]) ++ (if d.m.root.isNone then ["requery-after-close"] else []))
      | none => ans d "rejected:q-unknown-reader" "na"
  | ["close", slot] =>
      match d.readers.find? (some ·.slot == slot.toNat?) with
      | some rd =>
        let rest := d.readers.filter (·.slot != rd.slot)
        match rd.snap with
        | some i =>
          match run d.m [Event.readerClose i] with
          | some m2 =>
            ans { d with m := m2, readers := rest } "ok" "ok"
              (["reader-close"] ++ (if totalCloses m2 > totalCloses d.m then ["closer-ran"] else []))
          | none => ans d "rejected:close" "na"
        | none => ans { d with readers := rest } "ok" "ok" ["disk-reader-close"]
      | none => ans d "rejected:close-unknown-reader" "na"
  | ["refs"] => ans d d.refsLine "ok" ["refs"]
  | ["wclose"] => ans d "ok" "ok"
  | ["end"] =>
      -- everything is released: every known wrapper must have been closed exactly once (handles_exactly_once);
      -- loads that never reached a root (skipped merges, disk readers) are only known to the recording directory
      let get (k : String) : String := ((impl.splitOn " ").filterMap fun f =>
        match f.splitOn "=" with | [a, b] => if a == k then some b else none | _ => none).headD ""
      let cl := d.wraps.filterMap fun (n, w) =>
        let k := d.m.wt.closes w
        if k == 0 then none else if k == 1 then some n else some s!"{n}x{k}"
      let exp := s!"loads={get "loads"} closes={get "loads"} dbl=0 cl={",".intercalate cl}"
      let complete := d.m.root.isNone && d.m.readers.isEmpty && d.m.tempS.isEmpty && d.m.tempW.isEmpty
      let allClosed := d.wraps.all fun (_, w) => d.m.wt.closes w == 1
      ans d exp (if get "loads" != get "closes" then "bad:handle-leak"
                 else if get "dbl" != "0" then "bad:double-close"
                 else if complete && !allClosed then "bad:model-handles" else "ok")
        (if complete then ["complete-run"] else [])
  | _ => ans d "bad-op" "na"

def main : IO Unit := driverLoop D.init c04step

#!/bin/sh
# Build the framework from files on disk only (offline): extractor, Gen layer, Lean models/proofs/drivers.
set -e
cd "$(dirname "$0")"
export GOFLAGS=-mod=mod GOPROXY=off GOSUMDB=off GOTOOLCHAIN=local
mkdir -p bin work evidence replays lean/BlugeGen
PROPS=$(python3 -c "import json;print(' '.join(c['property_id'] for c in json.load(open('MANIFEST.json'))['checks']))")
TARGETS=""
for p in $PROPS; do
  lp=$(echo "$p" | tr 'A-Z' 'a-z')
  if [ -f "checks/$lp.py" ] && grep -q '^GEN *= *True' "checks/$lp.py"; then
    python3 -c "import sys; sys.path.insert(0,'.'); import vlib, importlib; sp=importlib.import_module('checks.$lp'); rc,out,_=vlib.run_extract('$p', getattr(sp,'EXTRACT_DEPS',())); print(out.strip()[-300:]); sys.exit(rc)" || echo "setup: extractor refused $p (the check will report it)"
  fi
  TARGETS="$TARGETS BlugeProofs.$p drv_$lp"
done
# one lake invocation builds everything in parallel; a failure here is reported again by the owning check
(cd lean && lake build $TARGETS) || echo "setup: lake build reported failures (each check re-runs its own targets)"
cp /repo/go.sum go/harness/go.sum 2>/dev/null || true
for p in $PROPS; do
  lp=$(echo "$p" | tr 'A-Z' 'a-z')
  [ -d "go/harness/$lp" ] && (cd go/harness && go build -tags verif -o "../../bin/h_$lp" "./$lp") || true
done
echo "setup done"

package main

// Gen for C19 (merge planner): a small fact table of the guards of index/mergeplan/merge_plan.go and
// sort.go — comparison operators, the "/2", the loop conditions, the empties rule, "the chosen roster
// is removed from the eligibles" — as normalised expression strings. BlugeProofs.C19 carries the
// obligation `BlugeGen.C19.facts = expectedFacts` (the table the hand-written model was transcribed
// from), so a one-token change of a guard breaks the build even if the generators of the
// correspondence run happen to miss it.
//
// Normalisation: local identifiers become "_" (renaming a variable is harmless); field and method
// names, called function names, literals and operators are kept; redundant parentheses are dropped by
// the printer rules below. Anything the walker does not understand is a refusal.

import (
	"fmt"
	"go/ast"
	"go/token"
	"sort"
	"strconv"
	"strings"
)

func init() { Register("C19", genC19) }

type c19gen struct {
	ctx   *Ctx
	pkg   *Pkg
	facts [][2]string
}

func (g *c19gen) add(k, v string) { g.facts = append(g.facts, [2]string{k, v}) }

// norm renders an expression with local identifiers replaced by "_".
func (g *c19gen) norm(e ast.Expr) string {
	switch x := e.(type) {
	case *ast.Ident:
		if x.Name == "nil" || x.Name == "true" || x.Name == "false" {
			return x.Name
		}
		return "_"
	case *ast.BasicLit:
		return x.Value
	case *ast.ParenExpr:
		return "(" + g.norm(x.X) + ")"
	case *ast.SelectorExpr:
		return g.norm(x.X) + "." + x.Sel.Name
	case *ast.IndexExpr:
		return g.norm(x.X) + "[" + g.norm(x.Index) + "]"
	case *ast.UnaryExpr:
		return x.Op.String() + g.norm(x.X)
	case *ast.BinaryExpr:
		return g.norm(x.X) + " " + x.Op.String() + " " + g.norm(x.Y)
	case *ast.CompositeLit:
		parts := make([]string, len(x.Elts))
		for i, el := range x.Elts {
			if kv, ok := el.(*ast.KeyValueExpr); ok {
				parts[i] = g.pkg.Src(kv.Key) + ": " + g.norm(kv.Value)
			} else {
				parts[i] = g.norm(el)
			}
		}
		return g.pkg.Src(x.Type) + "{" + strings.Join(parts, ", ") + "}"
	case *ast.CallExpr:
		var fn string
		switch f := x.Fun.(type) {
		case *ast.Ident:
			fn = f.Name // len, append, removeSegments, float64, int64, scoreSegments, …
		case *ast.SelectorExpr:
			fn = g.norm(f.X) + "." + f.Sel.Name
		default:
			g.ctx.Refuse("call of unsupported form: %s", g.pkg.Src(x))
		}
		args := make([]string, len(x.Args))
		for i, a := range x.Args {
			args[i] = g.norm(a)
		}
		return fn + "(" + strings.Join(args, ", ") + ")"
	}
	g.ctx.Refuse("unsupported expression %T: %s", e, g.pkg.Src(e))
	return ""
}

// stmt renders the simple statements the planner's loops consist of.
func (g *c19gen) stmt(s ast.Stmt) string {
	switch x := s.(type) {
	case *ast.AssignStmt:
		l := make([]string, len(x.Lhs))
		for i, e := range x.Lhs {
			l[i] = g.norm(e)
		}
		r := make([]string, len(x.Rhs))
		for i, e := range x.Rhs {
			r[i] = g.norm(e)
		}
		return strings.Join(l, ", ") + " " + x.Tok.String() + " " + strings.Join(r, ", ")
	case *ast.ReturnStmt:
		r := make([]string, len(x.Results))
		for i, e := range x.Results {
			r[i] = g.norm(e)
		}
		return "return " + strings.Join(r, ", ")
	case *ast.BranchStmt:
		if x.Label != nil {
			return x.Tok.String() + " L"
		}
		return x.Tok.String()
	case *ast.IncDecStmt:
		return g.norm(x.X) + x.Tok.String()
	case *ast.ExprStmt:
		return g.norm(x.X)
	case *ast.DeclStmt:
		return "var"
	}
	g.ctx.Refuse("unsupported statement %T: %s", s, g.pkg.Src(s))
	return ""
}

func (g *c19gen) stmts(b *ast.BlockStmt) string {
	var out []string
	for _, s := range b.List {
		out = append(out, g.stmt(s))
	}
	return strings.Join(out, "; ")
}

func (g *c19gen) fn(name string) *ast.FuncDecl {
	f := g.pkg.Func(name)
	if f == nil || f.Body == nil {
		g.ctx.Refuse("function %s not found in index/mergeplan", name)
	}
	return f
}

// c19alpha renders statements with local identifiers numbered v1, v2, … in order of first appearance
// (renaming a variable is harmless, swapping two variables is not); package names, called function and
// conversion names, field and method names, literals and operators are kept.
type c19alpha struct {
	g     *c19gen
	names map[string]string
	pkgs  map[string]bool
}

func (a *c19alpha) name(n string) string {
	if n == "nil" || n == "true" || n == "false" || n == "_" {
		return n
	}
	if v, ok := a.names[n]; ok {
		return v
	}
	v := fmt.Sprintf("v%d", len(a.names)+1)
	a.names[n] = v
	return v
}

func (a *c19alpha) expr(e ast.Expr) string {
	switch x := e.(type) {
	case *ast.Ident:
		return a.name(x.Name)
	case *ast.BasicLit:
		return x.Value
	case *ast.ParenExpr:
		return "(" + a.expr(x.X) + ")"
	case *ast.SelectorExpr:
		if id, ok := x.X.(*ast.Ident); ok && a.pkgs[id.Name] {
			return id.Name + "." + x.Sel.Name
		}
		return a.expr(x.X) + "." + x.Sel.Name
	case *ast.UnaryExpr:
		return x.Op.String() + a.expr(x.X)
	case *ast.BinaryExpr:
		return a.expr(x.X) + " " + x.Op.String() + " " + a.expr(x.Y)
	case *ast.CallExpr:
		var fn string
		switch f := x.Fun.(type) {
		case *ast.Ident:
			fn = f.Name
		case *ast.SelectorExpr:
			fn = a.expr(f)
		default:
			a.g.ctx.Refuse("CalcBudget: call of unsupported form: %s", a.g.pkg.Src(x))
		}
		args := make([]string, len(x.Args))
		for i, ar := range x.Args {
			args[i] = a.expr(ar)
		}
		return fn + "(" + strings.Join(args, ", ") + ")"
	}
	a.g.ctx.Refuse("CalcBudget: unsupported expression %T: %s", e, a.g.pkg.Src(e))
	return ""
}

func (a *c19alpha) stmt(s ast.Stmt) string {
	switch x := s.(type) {
	case *ast.AssignStmt:
		r := make([]string, len(x.Rhs))
		for i, e := range x.Rhs {
			r[i] = a.expr(e)
		}
		l := make([]string, len(x.Lhs))
		for i, e := range x.Lhs {
			l[i] = a.expr(e)
		}
		return strings.Join(l, ", ") + " " + x.Tok.String() + " " + strings.Join(r, ", ")
	case *ast.ReturnStmt:
		r := make([]string, len(x.Results))
		for i, e := range x.Results {
			r[i] = a.expr(e)
		}
		return strings.TrimSpace("return " + strings.Join(r, ", "))
	case *ast.BranchStmt:
		if x.Label != nil {
			return x.Tok.String() + " L"
		}
		return x.Tok.String()
	case *ast.IncDecStmt:
		return a.expr(x.X) + x.Tok.String()
	case *ast.ExprStmt:
		return a.expr(x.X)
	case *ast.BlockStmt:
		return a.block(x)
	case *ast.IfStmt:
		if x.Init != nil {
			a.g.ctx.Refuse("CalcBudget: if with init statement")
		}
		out := "if " + a.expr(x.Cond) + " " + a.block(x.Body)
		if x.Else != nil {
			out += " else " + a.stmt(x.Else)
		}
		return out
	case *ast.ForStmt:
		if x.Init != nil || x.Post != nil || x.Cond == nil {
			a.g.ctx.Refuse("CalcBudget: loop is not a plain `for cond`")
		}
		return "for " + a.expr(x.Cond) + " " + a.block(x.Body)
	}
	a.g.ctx.Refuse("CalcBudget: unsupported statement %T: %s", s, a.g.pkg.Src(s))
	return ""
}

func (a *c19alpha) block(b *ast.BlockStmt) string {
	out := make([]string, len(b.List))
	for i, s := range b.List {
		out[i] = a.stmt(s)
	}
	return "{ " + strings.Join(out, "; ") + " }"
}

func isLenGuard(e ast.Expr) bool { // len(x) <op> n
	b, ok := e.(*ast.BinaryExpr)
	if !ok {
		return false
	}
	c, ok := b.X.(*ast.CallExpr)
	if !ok {
		return false
	}
	id, ok := c.Fun.(*ast.Ident)
	return ok && id.Name == "len"
}

func genC19(ctx *Ctx) {
	g := &c19gen{ctx: ctx, pkg: ctx.ParseDir("index/mergeplan")}

	// ---- plan
	pl := g.fn("plan")
	body := pl.Body.List
	// (1) "if len(segmentsIn) <= 1 { return nil, nil }" must be the first statement
	first, ok := body[0].(*ast.IfStmt)
	if !ok || first.Init != nil || first.Else != nil {
		ctx.Refuse("plan: first statement is not the input-length guard")
	}
	g.add("plan.tooFew", g.norm(first.Cond)+" => "+g.stmts(first.Body))

	var emptiesRange *ast.RangeStmt
	var emptiesIf *ast.IfStmt
	var budgetLoop *ast.ForStmt
	var sortCall string
	for _, s := range body[1:] {
		switch x := s.(type) {
		case *ast.RangeStmt:
			if emptiesRange != nil {
				ctx.Refuse("plan: more than one top-level range loop")
			}
			emptiesRange = x
		case *ast.ForStmt:
			if budgetLoop != nil {
				ctx.Refuse("plan: more than one top-level for loop")
			}
			budgetLoop = x
		case *ast.IfStmt:
			if isLenGuard(x.Cond) && budgetLoop == nil && emptiesRange != nil {
				emptiesIf = x
			}
		case *ast.ExprStmt:
			if c, ok := x.X.(*ast.CallExpr); ok {
				if sel, ok := c.Fun.(*ast.SelectorExpr); ok && sel.Sel.Name == "Sort" {
					sortCall = g.norm(x.X)
				}
			}
		}
	}
	if emptiesRange == nil || emptiesIf == nil || budgetLoop == nil || sortCall == "" {
		ctx.Refuse("plan: expected sort.Sort, the empties range loop, the empties task and the budget loop")
	}
	g.add("plan.sort", sortCall)
	// (2) empties rule
	if len(emptiesRange.Body.List) != 1 {
		ctx.Refuse("plan: empties loop body changed: %s", g.pkg.Src(emptiesRange.Body))
	}
	ei, ok := emptiesRange.Body.List[0].(*ast.IfStmt)
	if !ok || ei.Else != nil {
		ctx.Refuse("plan: empties loop body is not a single if")
	}
	g.add("plan.emptyRule", g.norm(ei.Cond)+" => "+g.stmts(ei.Body))
	if emptiesIf.Else != nil {
		ctx.Refuse("plan: empties task has an else branch")
	}
	g.add("plan.emptiesTask", g.norm(emptiesIf.Cond)+" => "+g.stmts(emptiesIf.Body))

	// (3) the budget loop
	if budgetLoop.Init != nil || budgetLoop.Post != nil || budgetLoop.Cond == nil {
		ctx.Refuse("plan: budget loop is not a plain `for cond`")
	}
	g.add("plan.budgetLoop", g.norm(budgetLoop.Cond))
	var startLoop *ast.ForStmt
	var tail []string
	seenStart := false
	for _, s := range budgetLoop.Body.List {
		if f, ok := s.(*ast.ForStmt); ok {
			if startLoop != nil {
				ctx.Refuse("plan: two loops inside the budget loop")
			}
			startLoop = f
			seenStart = true
			continue
		}
		if _, ok := s.(*ast.DeclStmt); ok {
			continue
		}
		if !seenStart {
			ctx.Refuse("plan: unexpected statement before the roster loop: %s", g.pkg.Src(s))
		}
		if i, ok := s.(*ast.IfStmt); ok {
			if i.Else != nil || i.Init != nil {
				ctx.Refuse("plan: unexpected if form after the roster loop")
			}
			tail = append(tail, "if "+g.norm(i.Cond)+" { "+g.stmts(i.Body)+" }")
			continue
		}
		tail = append(tail, g.stmt(s))
	}
	if startLoop == nil {
		ctx.Refuse("plan: roster loop not found")
	}
	// what happens with the best roster: no roster => return; append task; remove it from the eligibles
	g.add("plan.afterRosters", strings.Join(tail, "; "))
	g.add("plan.startLoop", g.stmt(startLoop.Init)+"; "+g.norm(startLoop.Cond)+"; "+g.stmt(startLoop.Post))
	var rosterLoop *ast.ForStmt
	var scoreIf *ast.IfStmt
	for _, s := range startLoop.Body.List {
		switch x := s.(type) {
		case *ast.ForStmt:
			if rosterLoop != nil {
				ctx.Refuse("plan: two inner roster loops")
			}
			rosterLoop = x
		case *ast.IfStmt:
			if scoreIf != nil {
				ctx.Refuse("plan: two ifs in the start-index loop")
			}
			scoreIf = x
		case *ast.DeclStmt:
		default:
			ctx.Refuse("plan: unexpected statement in the start-index loop: %s", g.pkg.Src(s))
		}
	}
	if rosterLoop == nil || scoreIf == nil {
		ctx.Refuse("plan: inner roster loop or scoring if not found")
	}
	g.add("plan.rosterLoop", g.stmt(rosterLoop.Init)+"; "+g.norm(rosterLoop.Cond)+"; "+g.stmt(rosterLoop.Post))
	var guard *ast.IfStmt
	for _, s := range rosterLoop.Body.List {
		switch x := s.(type) {
		case *ast.IfStmt:
			if guard != nil {
				ctx.Refuse("plan: two ifs in the roster loop")
			}
			guard = x
		case *ast.AssignStmt:
			if x.Tok != token.DEFINE {
				ctx.Refuse("plan: assignment in the roster loop outside the guard: %s", g.pkg.Src(s))
			}
		default:
			ctx.Refuse("plan: unexpected statement in the roster loop: %s", g.pkg.Src(s))
		}
	}
	if guard == nil || guard.Else != nil || guard.Init != nil {
		ctx.Refuse("plan: roster size guard not found")
	}
	// `eligible := eligibles[idx]` is inlined by normalisation only as "_": keep the guard on its own
	g.add("plan.rosterGuard", g.norm(guard.Cond)+" => "+g.stmts(guard.Body))
	if scoreIf.Else != nil || len(scoreIf.Body.List) != 2 {
		ctx.Refuse("plan: scoring block changed: %s", g.pkg.Src(scoreIf))
	}
	best, ok := scoreIf.Body.List[1].(*ast.IfStmt)
	if !ok || best.Else != nil {
		ctx.Refuse("plan: best-roster rule not found")
	}
	g.add("plan.scoreIf", g.norm(scoreIf.Cond)+" => "+g.stmt(scoreIf.Body.List[0]))
	// which variant of the candidate guard the tree has: `len(roster) > 0` (as pinned), or the guard of
	// work/C19/fix-noop-singleton-rosters.diff; index expressions matter here, so the source text decides
	skipNoop := false
	switch strings.Join(strings.Fields(g.pkg.Src(scoreIf.Cond)), " ") {
	case "len(roster) > 0":
	case "len(roster) > 1 || (len(roster) == 1 && roster[0].LiveSize() < roster[0].FullSize())":
		skipNoop = true
	default:
		ctx.Refuse("plan: the guard in front of scoreSegments is neither the pinned nor the repaired one: %s", g.pkg.Src(scoreIf.Cond))
	}
	g.add("plan.bestRule", g.norm(best.Cond)+" => "+g.stmts(best.Body))

	// ---- findLiveSizesAndEligibles
	fl := g.fn("findLiveSizesAndEligibles")
	var elig *ast.IfStmt
	ast.Inspect(fl.Body, func(n ast.Node) bool {
		if i, ok := n.(*ast.IfStmt); ok {
			if strings.Contains(g.pkg.Src(i.Body), "append(") {
				if elig != nil {
					ctx.Refuse("findLiveSizesAndEligibles: two appending ifs")
				}
				elig = i
			}
		}
		return true
	})
	if elig == nil || elig.Else != nil {
		ctx.Refuse("findLiveSizesAndEligibles: eligibility test not found")
	}
	g.add("eligible", g.norm(elig.Cond)+" => "+g.stmts(elig.Body))

	// ---- removeSegments
	rs := g.fn("removeSegments")
	var eq *ast.IfStmt
	nIf := 0
	ast.Inspect(rs.Body, func(n ast.Node) bool {
		if i, ok := n.(*ast.IfStmt); ok {
			eq = i
			nIf++
		}
		return true
	})
	if nIf != 1 || eq.Else != nil {
		ctx.Refuse("removeSegments: expected exactly one if")
	}
	var loops []string
	ast.Inspect(rs.Body, func(n ast.Node) bool {
		if r, ok := n.(*ast.RangeStmt); ok {
			loops = append(loops, "range "+g.norm(r.X))
		}
		return true
	})
	g.add("removeSegments", strings.Join(loops, " { ")+" { if "+g.norm(eq.Cond)+" { "+g.stmts(eq.Body)+" } }")

	// ---- sort.go
	ls := g.pkg.Func("byLiveSizeDescending.Less")
	if ls == nil || len(ls.Body.List) != 2 {
		ctx.Refuse("byLiveSizeDescending.Less changed shape")
	}
	li, ok1 := ls.Body.List[0].(*ast.IfStmt)
	lr, ok2 := ls.Body.List[1].(*ast.ReturnStmt)
	if !ok1 || !ok2 || li.Else != nil {
		ctx.Refuse("byLiveSizeDescending.Less changed shape")
	}
	// index variables matter here (a[i] vs a[j]): keep the parameter names of Less
	g.add("sort.less", "if "+g.pkg.Src(li.Cond)+" { "+strings.TrimSpace(g.pkg.Src(li.Body.List[0]))+" }; "+strings.TrimSpace(g.pkg.Src(lr)))

	// ---- CalcBudget guards and the scorer's constants
	cb := g.fn("CalcBudget")
	var cbFacts []string
	ast.Inspect(cb.Body, func(n ast.Node) bool {
		switch x := n.(type) {
		case *ast.IfStmt:
			cbFacts = append(cbFacts, "if "+g.norm(x.Cond))
		case *ast.ForStmt:
			cbFacts = append(cbFacts, "for "+g.norm(x.Cond))
		}
		return true
	})
	g.add("calcBudget.guards", strings.Join(cbFacts, "; "))
	// the whole body of CalcBudget with the local names numbered in order of first appearance (the staircase
	// models calcBudgetF / calcBudgetRat / calcBudgetNat are transcriptions of exactly these statements)
	al := &c19alpha{g: g, names: map[string]string{}, pkgs: map[string]bool{}}
	for _, f := range g.pkg.Files {
		for _, im := range f.Imports {
			p, _ := strconv.Unquote(im.Path.Value)
			if i := strings.LastIndex(p, "/"); i >= 0 {
				p = p[i+1:]
			}
			al.pkgs[p] = true
		}
	}
	for _, fl := range cb.Type.Params.List {
		for _, n := range fl.Names {
			al.name(n.Name)
		}
	}
	if cb.Type.Results != nil {
		for _, fl := range cb.Type.Results.List {
			for _, n := range fl.Names {
				al.name(n.Name)
			}
		}
	}
	g.add("calcBudget.body", al.block(cb.Body))
	sc := g.fn("ScoreSegments")
	var lits []string
	ast.Inspect(sc.Body, func(n ast.Node) bool {
		if l, ok := n.(*ast.BasicLit); ok {
			lits = append(lits, l.Value)
		}
		return true
	})
	var scIf []string
	ast.Inspect(sc.Body, func(n ast.Node) bool {
		if i, ok := n.(*ast.IfStmt); ok {
			scIf = append(scIf, g.norm(i.Cond)+" => "+g.stmts(i.Body))
		}
		return true
	})
	g.add("scoreSegments", strings.Join(scIf, "; ")+" lits "+strings.Join(lits, ","))

	// ---- the options the writer plans with: index/config.go defaultConfig() must take them FROM the planner's
	// own defaults (an identifier, not a literal that can forget a field: a missing TierGrowth is clamped to 1 by
	// CalcBudget and the staircase never grows)
	ipkg := ctx.ParseDir("index")
	dc := ipkg.Func("defaultConfig")
	if dc == nil || dc.Body == nil {
		ctx.Refuse("index/config.go: defaultConfig not found")
	}
	var mpo []string
	ast.Inspect(dc.Body, func(n ast.Node) bool {
		switch x := n.(type) {
		case *ast.KeyValueExpr:
			if id, ok := x.Key.(*ast.Ident); ok && id.Name == "MergePlanOptions" {
				mpo = append(mpo, strings.Join(strings.Fields(ipkg.Src(x.Value)), " "))
			}
		case *ast.AssignStmt:
			for i, l := range x.Lhs {
				if sel, ok := l.(*ast.SelectorExpr); ok && strings.Contains(ipkg.Src(sel), "MergePlanOptions") {
					r := x.Rhs[0]
					if i < len(x.Rhs) {
						r = x.Rhs[i]
					}
					mpo = append(mpo, ipkg.Src(l)+" "+x.Tok.String()+" "+strings.Join(strings.Fields(ipkg.Src(r)), " "))
				}
			}
		}
		return true
	})
	if len(mpo) == 0 {
		ctx.Refuse("index/config.go defaultConfig: MergePlanOptions is not initialised")
	}
	g.add("writer.mergePlanOptions", strings.Join(mpo, "; "))
	for _, fn := range []string{"DefaultConfig", "InMemoryOnlyConfig", "DefaultConfigWithDirectory"} {
		f := ipkg.Func(fn)
		if f == nil || f.Body == nil {
			ctx.Refuse("index/config.go: %s not found", fn)
		}
		calls, touches := 0, 0
		ast.Inspect(f.Body, func(n ast.Node) bool {
			switch x := n.(type) {
			case *ast.CallExpr:
				if id, ok := x.Fun.(*ast.Ident); ok && id.Name == "defaultConfig" {
					calls++
				}
			case *ast.SelectorExpr:
				if x.Sel.Name == "MergePlanOptions" {
					touches++
				}
			}
			return true
		})
		g.add("writer."+fn, fmt.Sprintf("defaultConfig()=%d MergePlanOptions-touched=%d", calls, touches))
	}

	// ---- determinism: no clock, random source, map or goroutine in the package
	imports := map[string]bool{}
	maps, gos, selects := 0, 0, 0
	for _, f := range g.pkg.Files {
		for _, im := range f.Imports {
			p, _ := strconv.Unquote(im.Path.Value)
			imports[p] = true
		}
		ast.Inspect(f, func(n ast.Node) bool {
			switch n.(type) {
			case *ast.MapType:
				maps++
			case *ast.GoStmt:
				gos++
			case *ast.SelectStmt:
				selects++
			}
			return true
		})
	}
	var il []string
	for p := range imports {
		il = append(il, p)
	}
	sort.Strings(il)
	g.add("package.imports", strings.Join(il, ","))
	g.add("package.nondeterminism", fmt.Sprintf("maps=%d go=%d select=%d", maps, gos, selects))

	// ---- write
	var b strings.Builder
	b.WriteString("/-! GENERATED by go/extract (c19.go) from index/mergeplan/*.go — do not edit.\n")
	b.WriteString("Guards of the merge planner as normalised source text (local identifiers are `_`). -/\n")
	b.WriteString("namespace BlugeGen.C19\n\n")
	b.WriteString("def facts : List (String × String) := [\n")
	for i, f := range g.facts {
		sep := ","
		if i == len(g.facts)-1 {
			sep = ""
		}
		fmt.Fprintf(&b, "  (%s, %s)%s\n", LeanStr(f[0]), LeanStr(f[1]), sep)
	}
	b.WriteString("]\n\n/-- the roster loop skips one-segment rosters without deletions (see `Bluge.MergePlan.Options.skipNoop`) -/\n")
	fmt.Fprintf(&b, "def skipNoop : Bool := %v\n", skipNoop)
	b.WriteString("\nend BlugeGen.C19\n")
	ctx.WriteLean("C19", b.String())
	ctx.Summary["facts"] = len(g.facts)
	ctx.Summary["skipNoop"] = skipNoop
	for _, f := range g.facts {
		ctx.Summary[f[0]] = f[1]
	}
}

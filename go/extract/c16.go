package main

// Gen for C16: the two facts about the code that decide which document values an aggregation sees.
//
//	search/search.go                    Context.DocValueReaderForReader / DocumentMatch.LoadDocumentValues
//	                                    -> dedupNeeded        (the field list is de-duplicated before the doc value
//	                                                            reader is built; otherwise a field listed twice in
//	                                                            neededFields has its values loaded twice)
//	search/aggregations/range.go        RangeAggregation.Fields
//	search/aggregations/range_date.go   DateRangeAggregation.Fields
//	                                    -> rangeFieldsNested  (Fields() also reports the nested aggregations' fields)
//	search/aggregations/terms.go        TermsAggregation.Fields  must report the nested fields (the model assumes it)
//
// The Lean model `Bluge.Agg.neededFields cf` is parameterised by these facts (`Bluge.C16.codeFacts`);
// `BlugeProofs.C16.agg_exact` is `AggExact Int codeFacts`, provable iff both facts are true (`agg_exact_iff`).

import (
	"fmt"
	"go/ast"
	"go/token"
	"sort"
	"strings"
)

func init() { Register("C16", genC16) }

func c16Sel(e ast.Expr) string {
	if s, ok := e.(*ast.SelectorExpr); ok {
		return s.Sel.Name
	}
	return ""
}

// fieldsIncludesNested classifies a `Fields() []string` method of a bucket aggregation:
// true  = it ranges over <recv>.aggregations and calls .Fields() on the elements,
// false = it only returns the source's fields. Anything else is refused.
func fieldsIncludesNested(c *Ctx, p *Pkg, typ string) bool {
	fd := p.Func(typ + ".Fields")
	if fd == nil || fd.Body == nil {
		c.Refuse("search/aggregations: method %s.Fields not found", typ)
	}
	nested, srcOnly, other := false, false, 0
	ast.Inspect(fd.Body, func(n ast.Node) bool {
		switch x := n.(type) {
		case *ast.RangeStmt:
			if c16Sel(x.X) == "aggregations" {
				ast.Inspect(x.Body, func(m ast.Node) bool {
					if ce, ok := m.(*ast.CallExpr); ok && c16Sel(ce.Fun) == "Fields" {
						nested = true
					}
					return true
				})
			} else {
				other++
			}
		case *ast.ReturnStmt:
			// `return a.src.Fields()`
			if len(x.Results) == 1 {
				if ce, ok := x.Results[0].(*ast.CallExpr); ok && c16Sel(ce.Fun) == "Fields" {
					if inner, ok := ce.Fun.(*ast.SelectorExpr); ok && c16Sel(inner.X) == "src" {
						srcOnly = true
					}
				}
			}
		case *ast.ForStmt, *ast.IfStmt, *ast.SwitchStmt, *ast.GoStmt, *ast.DeferStmt:
			other++
		}
		return true
	})
	switch {
	case nested && other == 0:
		return true
	case !nested && srcOnly && other == 0 && len(fd.Body.List) == 1:
		return false
	}
	c.Refuse("search/aggregations: %s.Fields is neither `return a.src.Fields()` nor source fields plus a loop over a.aggregations calling Fields():\n%s", typ, p.Src(fd))
	return false
}

// isDedupFunc recognises a function  f(xs []string) []string  that keeps one occurrence of every element:
// a map keyed by string, one loop over the parameter, an append guarded by a lookup in that map.
func isDedupFunc(fd *ast.FuncDecl) bool {
	if fd == nil || fd.Body == nil || fd.Type.Params == nil || len(fd.Type.Params.List) != 1 || len(fd.Type.Params.List[0].Names) != 1 {
		return false
	}
	param := fd.Type.Params.List[0].Names[0].Name
	hasMap, loopsParam, guardedAppend := false, false, false
	ast.Inspect(fd.Body, func(n ast.Node) bool {
		switch x := n.(type) {
		case *ast.MapType:
			if id, ok := x.Key.(*ast.Ident); ok && id.Name == "string" {
				hasMap = true
			}
		case *ast.RangeStmt:
			if id, ok := x.X.(*ast.Ident); ok && id.Name == param {
				loopsParam = true
				ast.Inspect(x.Body, func(m ast.Node) bool {
					is, ok := m.(*ast.IfStmt)
					if !ok {
						return true
					}
					// the condition (or its init statement) looks something up by index
					lookup := false
					look := func(e ast.Node) {
						if e == nil {
							return
						}
						ast.Inspect(e, func(k ast.Node) bool {
							if _, ok := k.(*ast.IndexExpr); ok {
								lookup = true
							}
							return true
						})
					}
					if is.Init != nil {
						look(is.Init)
					}
					look(is.Cond)
					if !lookup {
						return true
					}
					ast.Inspect(is.Body, func(k ast.Node) bool {
						if ce, ok := k.(*ast.CallExpr); ok {
							if id, ok := ce.Fun.(*ast.Ident); ok && id.Name == "append" {
								guardedAppend = true
							}
						}
						return true
					})
					return true
				})
			}
		}
		return true
	})
	return hasMap && loopsParam && guardedAppend
}

func genC16(c *Ctx) {
	ap := c.ParseDir("search/aggregations")
	sp := c.ParseDir("search")

	rangeNested := fieldsIncludesNested(c, ap, "RangeAggregation")
	dateNested := fieldsIncludesNested(c, ap, "DateRangeAggregation")
	if rangeNested != dateNested {
		c.Refuse("RangeAggregation.Fields (nested fields: %v) and DateRangeAggregation.Fields (%v) differ; the model has one fact for both", rangeNested, dateNested)
	}
	if !fieldsIncludesNested(c, ap, "TermsAggregation") {
		c.Refuse("TermsAggregation.Fields no longer reports the nested aggregations' fields (the model assumes it does)")
	}

	// ---- is the field list de-duplicated on its way to DocumentValueReader(fields)?
	dv := sp.Func("Context.DocValueReaderForReader")
	if dv == nil || dv.Body == nil {
		c.Refuse("search/search.go: method Context.DocValueReaderForReader not found")
	}
	if dv.Type.Params == nil || len(dv.Type.Params.List) < 2 {
		c.Refuse("search/search.go: Context.DocValueReaderForReader has an unexpected signature:\n%s", sp.Src(dv.Type))
	}
	last := dv.Type.Params.List[len(dv.Type.Params.List)-1]
	if len(last.Names) != 1 {
		c.Refuse("search/search.go: Context.DocValueReaderForReader has an unexpected signature:\n%s", sp.Src(dv.Type))
	}
	fieldsParam := last.Names[0].Name
	calls, dedup, plain := 0, false, false
	var argSrc string
	ast.Inspect(dv.Body, func(n ast.Node) bool {
		ce, ok := n.(*ast.CallExpr)
		if !ok || c16Sel(ce.Fun) != "DocumentValueReader" || len(ce.Args) != 1 {
			return true
		}
		calls++
		argSrc = sp.Src(ce.Args[0])
		switch a := ce.Args[0].(type) {
		case *ast.Ident:
			if a.Name == fieldsParam {
				plain = true
			}
			// a local variable assigned from a de-duplicating call
			ast.Inspect(dv.Body, func(m ast.Node) bool {
				as, ok := m.(*ast.AssignStmt)
				if !ok || len(as.Lhs) != 1 || len(as.Rhs) != 1 {
					return true
				}
				if id, ok := as.Lhs[0].(*ast.Ident); ok && id.Name == a.Name {
					if inner, ok := as.Rhs[0].(*ast.CallExpr); ok {
						if f, ok := inner.Fun.(*ast.Ident); ok && isDedupFunc(sp.Func(f.Name)) {
							dedup, plain = true, false
						}
					}
				}
				return true
			})
		case *ast.CallExpr:
			if f, ok := a.Fun.(*ast.Ident); ok && len(a.Args) == 1 {
				if id, ok := a.Args[0].(*ast.Ident); ok && id.Name == fieldsParam && isDedupFunc(sp.Func(f.Name)) {
					dedup = true
				}
			}
		}
		return true
	})
	if calls != 1 || dedup == plain {
		c.Refuse("search/search.go: Context.DocValueReaderForReader does not pass its field list to DocumentValueReader either as is or through a recognised de-duplicating helper (argument: %s):\n%s", argSrc, sp.Src(dv))
	}
	// LoadDocumentValues must hand its fields to DocValueReaderForReader unchanged or de-duplicated as well
	ld := sp.Func("DocumentMatch.LoadDocumentValues")
	if ld == nil || ld.Body == nil {
		c.Refuse("search/search.go: method DocumentMatch.LoadDocumentValues not found")
	}
	okLoad := false
	ast.Inspect(ld.Body, func(n ast.Node) bool {
		if ce, ok := n.(*ast.CallExpr); ok && c16Sel(ce.Fun) == "DocValueReaderForReader" && len(ce.Args) == 2 {
			switch a := ce.Args[1].(type) {
			case *ast.Ident:
				okLoad = true
			case *ast.CallExpr:
				if f, ok := a.Fun.(*ast.Ident); ok && isDedupFunc(sp.Func(f.Name)) {
					okLoad, dedup = true, true
				}
			}
		}
		return true
	})
	if !okLoad {
		c.Refuse("search/search.go: DocumentMatch.LoadDocumentValues does not call DocValueReaderForReader(reader, fields) in a recognised form:\n%s", sp.Src(ld))
	}
	_ = token.NoPos

	// ---- every Calculator() builds its mutable state itself
	shares, mutable, calcTypes := calculatorShares(c, ap)

	// ---- no value source writes through a slice it got from the match or from another source
	writes := sourceWrites(c, ap, sp)

	// ---- statement order of collectSingle and AllIterator.Next
	cp := c.ParseDir("search/collector")
	csOrder := collectSingleOrder(c, cp)
	allOrder, finishCalls, finishInEnd, endMarksDone := allNextFacts(c, cp)

	b := func(v bool) string {
		if v {
			return "true"
		}
		return "false"
	}
	strList := func(xs []string) string {
		q := make([]string, len(xs))
		for i, x := range xs {
			q[i] = LeanStr(x)
		}
		return "[" + strings.Join(q, ", ") + "]"
	}
	tripleList := func(xs [][3]string) string {
		q := make([]string, len(xs))
		for i, x := range xs {
			q[i] = "(" + LeanStr(x[0]) + ", " + LeanStr(x[1]) + ", " + LeanStr(x[2]) + ")"
		}
		return "[" + strings.Join(q, ",\n  ") + "]"
	}
	src := fmt.Sprintf(strings.ReplaceAll(`/-! GENERATED by /verif/go/extract (c16.go) from search/search.go, search/aggregations/*.go and
search/collector/{topn,all}.go of the repository under check.
Do not edit: §./check C16§ rewrites this file from the working tree on every run. -/
namespace BlugeGen.C16

/-- the list of needed fields is de-duplicated before the document value reader is built
(§Context.DocValueReaderForReader§ passes §%s§ to §DocumentValueReader§) -/
def dedupNeeded : Bool := %s

/-- §RangeAggregation.Fields§ and §DateRangeAggregation.Fields§ report the nested aggregations' fields -/
def rangeFieldsNested : Bool := %s

/-- §TermsAggregation.Fields§ reports the nested aggregations' fields (assumed by the model; the extractor refuses otherwise) -/
def termsFieldsNested : Bool := true

/-- the aggregation definition types of search/aggregations that have a §Calculator()§ method -/
def calculatorTypes : List String := %s

/-- (definition type, receiver field, declared type of the field) for every field of the DEFINITION that
§Calculator()§ hands to the calculator it returns -/
def calculatorShares : List (String × String × String) :=
  %s

/-- those of them whose type can hold mutable state (anything that is not a value source, a basic value, a
function, the nested aggregation definitions or the list of ranges): a calculator built from such a field shares
state with every other calculator of the same definition -/
def sharedMutable : List (String × String × String) :=
  %s

/-- places where a value source (a §Values/Numbers/Dates/GeoPoints/Value/…§ method of search/aggregations, any
function of search/source.go) re-slices, indexes-and-assigns, appends to, copies into or sorts a slice that it did
not create itself (a parameter, or the result of a call such as §f.source.Values(match)§ / §match.DocValues(f)§):
such a write can change the document values other aggregations read from the same hit -/
def sourceWritesThrough : List String := %s

/-- top-level statements of §TopNCollector.collectSingle§, in source order (only the ones that matter) -/
def collectSingleOrder : List String := %s

/-- top-level statements of §AllIterator.Next§, in source order (only the ones that matter) -/
def allNextOrder : List String := %s

/-- number of §Finish()§ calls in §AllIterator.Next§ -/
def allNextFinishCalls : Nat := %d

/-- that call sits in the §next == nil§ branch -/
def allNextFinishInEndBranch : Bool := %s

/-- … which also marks the iterator done (§doneCleanup()§ / §a.done = true§), and §Next§ starts with the done guard -/
def allNextEndMarksDone : Bool := %s

end BlugeGen.C16
`, "§", "`"), argSrc, b(dedup), b(rangeNested), strList(calcTypes), tripleList(shares), tripleList(mutable),
		strList(writes), strList(csOrder), strList(allOrder), finishCalls, b(finishInEnd), b(endMarksDone))
	c.WriteLean("C16", src)
	c.Summary["dedupNeeded"] = dedup
	c.Summary["rangeFieldsNested"] = rangeNested
	c.Summary["termsFieldsNested"] = true
	c.Summary["docValueReaderArgument"] = argSrc
	c.Summary["calculatorTypes"] = calcTypes
	c.Summary["sharedMutable"] = len(mutable)
	c.Summary["sourceWritesThrough"] = writes
	c.Summary["collectSingleOrder"] = csOrder
	c.Summary["allNextOrder"] = allOrder
}

// ---------------------------------------------------------------------------------------------------------

// structFields returns field name -> declared type (source text) of a struct type of the package.
func structFields(p *Pkg, typ string) map[string]string {
	out := map[string]string{}
	for _, f := range p.Files {
		for _, d := range f.Decls {
			gd, ok := d.(*ast.GenDecl)
			if !ok {
				continue
			}
			for _, sp := range gd.Specs {
				ts, ok := sp.(*ast.TypeSpec)
				if !ok || ts.Name.Name != typ {
					continue
				}
				st, ok := ts.Type.(*ast.StructType)
				if !ok {
					continue
				}
				for _, fl := range st.Fields.List {
					for _, n := range fl.Names {
						out[n.Name] = p.Src(fl.Type)
					}
				}
			}
		}
	}
	return out
}

// immutableFieldType: value sources, basic values, functions, the nested aggregation DEFINITIONS and the ranges.
func immutableFieldType(t string) bool {
	switch t {
	case "int", "int64", "uint", "uint64", "float64", "float32", "bool", "string",
		"map[string]search.Aggregation", "[]*NumericRange", "[]*DateRange":
		return true
	}
	if strings.HasPrefix(t, "func(") || strings.HasSuffix(t, "Func") {
		return true
	}
	if strings.HasPrefix(t, "search.") && strings.HasSuffix(t, "Source") {
		return true
	}
	return false
}

// calculatorShares inspects every `func (x *T) Calculator() search.Calculator` of search/aggregations: which fields
// of the definition receiver flow into the returned calculator (as a composite-literal field value, or assigned
// to a field of the calculator afterwards). Values produced by calls to other packages / make / literals are
// fresh. A method call on the receiver is treated as shared state of unknown type.
func calculatorShares(c *Ctx, p *Pkg) (shares, mutable [][3]string, types []string) {
	var decls []*ast.FuncDecl
	for _, f := range p.Files {
		for _, d := range f.Decls {
			fd, ok := d.(*ast.FuncDecl)
			if ok && fd.Name.Name == "Calculator" && fd.Recv != nil && len(fd.Recv.List) == 1 && fd.Body != nil {
				decls = append(decls, fd)
			}
		}
	}
	recvType := func(fd *ast.FuncDecl) string {
		t := fd.Recv.List[0].Type
		if s, ok := t.(*ast.StarExpr); ok {
			t = s.X
		}
		if id, ok := t.(*ast.Ident); ok {
			return id.Name
		}
		return ""
	}
	sort.Slice(decls, func(i, j int) bool { return recvType(decls[i]) < recvType(decls[j]) })
	shares, mutable = [][3]string{}, [][3]string{}
	for _, fd := range decls {
		typ := recvType(fd)
		if typ == "" {
			c.Refuse("search/aggregations: a Calculator() method has an unusual receiver:\n%s", p.Src(fd))
		}
		types = append(types, typ)
		recv := "\x00"
		if len(fd.Recv.List[0].Names) == 1 {
			recv = fd.Recv.List[0].Names[0].Name
		}
		fields := structFields(p, typ)
		add := func(field, ft string, mut bool) {
			t := [3]string{typ, field, ft}
			shares = append(shares, t)
			if mut {
				mutable = append(mutable, t)
			}
		}
		note := func(e ast.Expr) {
			switch x := e.(type) {
			case *ast.SelectorExpr:
				if id, ok := x.X.(*ast.Ident); ok && id.Name == recv {
					ft, ok := fields[x.Sel.Name]
					if !ok {
						ft = "?"
					}
					add(x.Sel.Name, ft, !immutableFieldType(ft))
				}
			case *ast.Ident:
				if x.Name == recv {
					add("(the definition itself)", "*"+typ, true)
				}
			case *ast.CallExpr:
				if se, ok := x.Fun.(*ast.SelectorExpr); ok {
					if id, ok := se.X.(*ast.Ident); ok && id.Name == recv {
						add(se.Sel.Name+"()", "call on the definition", true)
					}
				}
			case *ast.UnaryExpr:
				if x.Op == token.AND {
					if se, ok := x.X.(*ast.SelectorExpr); ok {
						if id, ok := se.X.(*ast.Ident); ok && id.Name == recv {
							add("&"+se.Sel.Name, "address of a definition field", true)
						}
					}
				}
			}
		}
		ast.Inspect(fd.Body, func(n ast.Node) bool {
			switch x := n.(type) {
			case *ast.CompositeLit:
				if strings.HasSuffix(p.Src(x.Type), "Calculator") {
					for _, el := range x.Elts {
						if kv, ok := el.(*ast.KeyValueExpr); ok {
							note(kv.Value)
						} else {
							note(el)
						}
					}
				}
			case *ast.AssignStmt:
				// rv.field = <value>   /   rv.field, _ = <call>
				for i, l := range x.Lhs {
					se, ok := l.(*ast.SelectorExpr)
					if !ok {
						continue
					}
					if id, ok := se.X.(*ast.Ident); ok && id.Name != recv {
						if i < len(x.Rhs) {
							note(x.Rhs[i])
						} else if len(x.Rhs) == 1 {
							note(x.Rhs[0])
						}
					}
				}
			case *ast.ReturnStmt:
				// `return c.calc` / `return c` : the definition hands out something it keeps
				for _, r := range x.Results {
					switch r.(type) {
					case *ast.SelectorExpr, *ast.Ident:
						note(r)
					}
				}
			}
			return true
		})
	}
	if len(types) == 0 {
		c.Refuse("search/aggregations: no Calculator() method found")
	}
	return
}

func containsIdentSel(n ast.Node, name string) bool {
	found := false
	ast.Inspect(n, func(m ast.Node) bool {
		switch x := m.(type) {
		case *ast.SelectorExpr:
			if x.Sel.Name == name {
				found = true
			}
		case *ast.Ident:
			if x.Name == name {
				found = true
			}
		}
		return true
	})
	return found
}

func containsCall(n ast.Node, method string) int {
	k := 0
	ast.Inspect(n, func(m ast.Node) bool {
		if ce, ok := m.(*ast.CallExpr); ok && c16Sel(ce.Fun) == method {
			k++
		}
		return true
	})
	return k
}

func containsReturn(n ast.Node) bool {
	found := false
	ast.Inspect(n, func(m ast.Node) bool {
		if _, ok := m.(*ast.ReturnStmt); ok {
			found = true
		}
		return true
	})
	return found
}

// collectSingleOrder labels the top-level statements of TopNCollector.collectSingle.
func collectSingleOrder(c *Ctx, p *Pkg) []string {
	fd := p.Func("TopNCollector.collectSingle")
	if fd == nil || fd.Body == nil {
		c.Refuse("search/collector/topn.go: method TopNCollector.collectSingle not found")
	}
	out := []string{}
	for _, st := range fd.Body.List {
		switch x := st.(type) {
		case *ast.ExprStmt:
			switch {
			case containsCall(x, "Compute") > 0:
				out = append(out, "sort")
			case containsCall(x, "Consume") > 0:
				out = append(out, "consume")
			case containsCall(x, "AddNotExceedingSize") > 0:
				out = append(out, "store")
			}
		case *ast.AssignStmt:
			switch {
			case containsCall(x, "AddNotExceedingSize") > 0:
				out = append(out, "store")
			case containsCall(x, "LoadDocumentValues") > 0:
				out = append(out, "load")
			case containsCall(x, "Consume") > 0:
				out = append(out, "consume")
			}
		case *ast.IfStmt:
			switch {
			case containsCall(x, "Consume") > 0:
				out = append(out, "consume-conditional")
			case containsCall(x, "LoadDocumentValues") > 0:
				out = append(out, "load")
			case containsCall(x, "AddNotExceedingSize") > 0:
				out = append(out, "store")
			case containsIdentSel(x.Cond, "searchAfter") && containsReturn(x.Body):
				out = append(out, "after")
			case containsIdentSel(x.Cond, "lowestMatchOutsideResults") && containsReturn(x.Body):
				out = append(out, "shortcut")
			}
		default:
			if containsCall(st, "Consume") > 0 {
				out = append(out, "consume-conditional")
			}
		}
	}
	return out
}

// allNextFacts labels the top-level statements of AllIterator.Next and locates the Finish call.
func allNextFacts(c *Ctx, p *Pkg) (order []string, finishCalls int, finishInEnd, endMarksDone bool) {
	fd := p.Func("AllIterator.Next")
	if fd == nil || fd.Body == nil {
		c.Refuse("search/collector/all.go: method AllIterator.Next not found")
	}
	order = []string{}
	finishCalls = containsCall(fd.Body, "Finish")
	doneGuard := false
	for i, st := range fd.Body.List {
		switch x := st.(type) {
		case *ast.IfStmt:
			switch {
			case i == 0 && containsIdentSel(x.Cond, "done") && containsReturn(x.Body):
				order = append(order, "done-guard")
				doneGuard = true
			case strings.Contains(p.Src(x.Cond), "== nil") && containsIdentSel(x.Cond, "next"):
				order = append(order, "end-of-matches")
				if containsCall(x.Body, "Finish") > 0 {
					finishInEnd = true
				}
				if containsCall(x.Body, "doneCleanup") > 0 || containsIdentSel(x.Body, "done") {
					endMarksDone = true
				}
			case containsCall(x, "Consume") > 0:
				order = append(order, "consume-conditional")
			case containsCall(x, "LoadDocumentValues") > 0:
				order = append(order, "load")
			}
		case *ast.AssignStmt:
			switch {
			case containsCall(x, "LoadDocumentValues") > 0:
				order = append(order, "load")
			case containsCall(x, "Consume") > 0:
				order = append(order, "consume")
			case containsCall(x, "Next") > 0:
				order = append(order, "next")
			}
		case *ast.ExprStmt:
			if containsCall(x, "Consume") > 0 {
				order = append(order, "consume")
			}
		case *ast.ReturnStmt:
			if len(x.Results) == 2 && p.Src(x.Results[0]) == "next" {
				order = append(order, "return-match")
			}
		}
	}
	endMarksDone = endMarksDone && doneGuard
	return
}

// sourceWrites lists writes through foreign slices in the value sources (see the Lean doc comment).
func sourceWrites(c *Ctx, agg, search *Pkg) []string {
	out := []string{}
	valueMethods := map[string]bool{"Values": true, "Value": true, "Numbers": true, "Number": true, "Dates": true, "Date": true, "GeoPoints": true, "GeoPoint": true}
	scan := func(p *Pkg, fileFilter func(string) bool, funcFilter func(*ast.FuncDecl) bool, where string) {
		names := make([]string, 0, len(p.Files))
		for n := range p.Files {
			names = append(names, n)
		}
		sort.Strings(names)
		for _, fn := range names {
			if !fileFilter(fn) {
				continue
			}
			for _, d := range p.Files[fn].Decls {
				fd, ok := d.(*ast.FuncDecl)
				if !ok || fd.Body == nil || !funcFilter(fd) {
					continue
				}
				label := fd.Name.Name
				if fd.Recv != nil && len(fd.Recv.List) == 1 {
					t := fd.Recv.List[0].Type
					if s, ok := t.(*ast.StarExpr); ok {
						t = s.X
					}
					label = p.Src(t) + "." + label
				}
				label = where + "/" + fn + ":" + label
				// foreign slices: slice-typed parameters and variables bound to the result of a call
				foreign := map[string]bool{}
				if fd.Type.Params != nil {
					for _, fl := range fd.Type.Params.List {
						if _, ok := fl.Type.(*ast.ArrayType); ok {
							for _, n := range fl.Names {
								foreign[n.Name] = true
							}
						}
					}
				}
				own := map[string]bool{}
				ast.Inspect(fd.Body, func(n ast.Node) bool {
					as, ok := n.(*ast.AssignStmt)
					if !ok {
						return true
					}
					for i, l := range as.Lhs {
						id, ok := l.(*ast.Ident)
						if !ok {
							continue
						}
						var r ast.Expr
						if i < len(as.Rhs) {
							r = as.Rhs[i]
						} else if len(as.Rhs) == 1 {
							r = as.Rhs[0]
						}
						switch x := r.(type) {
						case *ast.CallExpr:
							if f, ok := x.Fun.(*ast.Ident); ok && (f.Name == "make" || f.Name == "append" || f.Name == "new") {
								if f.Name == "append" && len(x.Args) > 0 {
									if a, ok := x.Args[0].(*ast.Ident); ok && foreign[a.Name] && !own[a.Name] {
										break // handled below as a write
									}
								}
								own[id.Name] = true
							} else if as.Tok == token.DEFINE || !own[id.Name] {
								foreign[id.Name] = true
							}
						case *ast.CompositeLit:
							own[id.Name] = true
						}
					}
					return true
				})
				isForeign := func(e ast.Expr) bool {
					switch x := e.(type) {
					case *ast.Ident:
						return foreign[x.Name] && !own[x.Name]
					case *ast.CallExpr:
						if f, ok := x.Fun.(*ast.Ident); ok && (f.Name == "make" || f.Name == "append") {
							return false
						}
						return true
					}
					return false
				}
				add := func(what string, n ast.Node) { out = append(out, label+": "+what+" "+p.Src(n)) }
				ast.Inspect(fd.Body, func(n ast.Node) bool {
					switch x := n.(type) {
					case *ast.SliceExpr:
						if isForeign(x.X) {
							add("re-slices", x)
						}
					case *ast.AssignStmt:
						for _, l := range x.Lhs {
							if ie, ok := l.(*ast.IndexExpr); ok && isForeign(ie.X) {
								add("assigns into", l)
							}
						}
					case *ast.CallExpr:
						name := ""
						switch f := x.Fun.(type) {
						case *ast.Ident:
							name = f.Name
						case *ast.SelectorExpr:
							if id, ok := f.X.(*ast.Ident); ok && id.Name == "sort" {
								name = "sort." + f.Sel.Name
							}
						}
						switch {
						case name == "append" && len(x.Args) > 0 && isForeign(x.Args[0]):
							add("appends to", x)
						case name == "copy" && len(x.Args) == 2 && isForeign(x.Args[0]):
							add("copies into", x)
						case strings.HasPrefix(name, "sort.") && len(x.Args) > 0 && isForeign(x.Args[0]):
							add("sorts", x)
						}
					}
					return true
				})
			}
		}
	}
	scan(agg, func(string) bool { return true }, func(fd *ast.FuncDecl) bool { return fd.Recv != nil && valueMethods[fd.Name.Name] }, "search/aggregations")
	// search/source.go: the value methods and the helper functions (RemoveNumericPaddedTerms, first…); `Fields()` lists field names, not values
	scan(search, func(fn string) bool { return fn == "source.go" }, func(fd *ast.FuncDecl) bool { return fd.Recv == nil || valueMethods[fd.Name.Name] }, "search")
	return out
}

package main

// Gen for C16: the two facts about the code that decide which document values an aggregation sees.
//
//	search/search.go                    Context.DocValueReaderForReader / DocumentMatch.LoadDocumentValues
//	                                    -> dedupNeeded        (the field list is de-duplicated before the doc value
//	                                                            reader is built; otherwise a field listed twice in
//	                                                            neededFields has its values loaded twice)
//	search/aggregations/range.go        RangeAggregation.Fields
//	search/aggregations/range_date.go   DateRangeAggregation.Fields
//	                                    -> rangeFieldsNested  (Fields() also reports the nested aggregations' fields)
//	search/aggregations/terms.go        TermsAggregation.Fields  must report the nested fields (the model assumes it)
//
// The Lean model `Bluge.Agg.neededFields cf` is parameterised by these facts (`Bluge.C16.codeFacts`);
// `BlugeProofs.C16.agg_exact` is `AggExact Int codeFacts`, provable iff both facts are true (`agg_exact_iff`).

import (
	"fmt"
	"go/ast"
	"go/token"
	"strings"
)

func init() { Register("C16", genC16) }

func c16Sel(e ast.Expr) string {
	if s, ok := e.(*ast.SelectorExpr); ok {
		return s.Sel.Name
	}
	return ""
}

// fieldsIncludesNested classifies a `Fields() []string` method of a bucket aggregation:
// true  = it ranges over <recv>.aggregations and calls .Fields() on the elements,
// false = it only returns the source's fields. Anything else is refused.
func fieldsIncludesNested(c *Ctx, p *Pkg, typ string) bool {
	fd := p.Func(typ + ".Fields")
	if fd == nil || fd.Body == nil {
		c.Refuse("search/aggregations: method %s.Fields not found", typ)
	}
	nested, srcOnly, other := false, false, 0
	ast.Inspect(fd.Body, func(n ast.Node) bool {
		switch x := n.(type) {
		case *ast.RangeStmt:
			if c16Sel(x.X) == "aggregations" {
				ast.Inspect(x.Body, func(m ast.Node) bool {
					if ce, ok := m.(*ast.CallExpr); ok && c16Sel(ce.Fun) == "Fields" {
						nested = true
					}
					return true
				})
			} else {
				other++
			}
		case *ast.ReturnStmt:
			// `return a.src.Fields()`
			if len(x.Results) == 1 {
				if ce, ok := x.Results[0].(*ast.CallExpr); ok && c16Sel(ce.Fun) == "Fields" {
					if inner, ok := ce.Fun.(*ast.SelectorExpr); ok && c16Sel(inner.X) == "src" {
						srcOnly = true
					}
				}
			}
		case *ast.ForStmt, *ast.IfStmt, *ast.SwitchStmt, *ast.GoStmt, *ast.DeferStmt:
			other++
		}
		return true
	})
	switch {
	case nested && other == 0:
		return true
	case !nested && srcOnly && other == 0 && len(fd.Body.List) == 1:
		return false
	}
	c.Refuse("search/aggregations: %s.Fields is neither `return a.src.Fields()` nor source fields plus a loop over a.aggregations calling Fields():\n%s", typ, p.Src(fd))
	return false
}

// isDedupFunc recognises a function  f(xs []string) []string  that keeps one occurrence of every element:
// a map keyed by string, one loop over the parameter, an append guarded by a lookup in that map.
func isDedupFunc(fd *ast.FuncDecl) bool {
	if fd == nil || fd.Body == nil || fd.Type.Params == nil || len(fd.Type.Params.List) != 1 || len(fd.Type.Params.List[0].Names) != 1 {
		return false
	}
	param := fd.Type.Params.List[0].Names[0].Name
	hasMap, loopsParam, guardedAppend := false, false, false
	ast.Inspect(fd.Body, func(n ast.Node) bool {
		switch x := n.(type) {
		case *ast.MapType:
			if id, ok := x.Key.(*ast.Ident); ok && id.Name == "string" {
				hasMap = true
			}
		case *ast.RangeStmt:
			if id, ok := x.X.(*ast.Ident); ok && id.Name == param {
				loopsParam = true
				ast.Inspect(x.Body, func(m ast.Node) bool {
					is, ok := m.(*ast.IfStmt)
					if !ok {
						return true
					}
					// the condition (or its init statement) looks something up by index
					lookup := false
					look := func(e ast.Node) {
						if e == nil {
							return
						}
						ast.Inspect(e, func(k ast.Node) bool {
							if _, ok := k.(*ast.IndexExpr); ok {
								lookup = true
							}
							return true
						})
					}
					if is.Init != nil {
						look(is.Init)
					}
					look(is.Cond)
					if !lookup {
						return true
					}
					ast.Inspect(is.Body, func(k ast.Node) bool {
						if ce, ok := k.(*ast.CallExpr); ok {
							if id, ok := ce.Fun.(*ast.Ident); ok && id.Name == "append" {
								guardedAppend = true
							}
						}
						return true
					})
					return true
				})
			}
		}
		return true
	})
	return hasMap && loopsParam && guardedAppend
}

func genC16(c *Ctx) {
	ap := c.ParseDir("search/aggregations")
	sp := c.ParseDir("search")

	rangeNested := fieldsIncludesNested(c, ap, "RangeAggregation")
	dateNested := fieldsIncludesNested(c, ap, "DateRangeAggregation")
	if rangeNested != dateNested {
		c.Refuse("RangeAggregation.Fields (nested fields: %v) and DateRangeAggregation.Fields (%v) differ; the model has one fact for both", rangeNested, dateNested)
	}
	if !fieldsIncludesNested(c, ap, "TermsAggregation") {
		c.Refuse("TermsAggregation.Fields no longer reports the nested aggregations' fields (the model assumes it does)")
	}

	// ---- is the field list de-duplicated on its way to DocumentValueReader(fields)?
	dv := sp.Func("Context.DocValueReaderForReader")
	if dv == nil || dv.Body == nil {
		c.Refuse("search/search.go: method Context.DocValueReaderForReader not found")
	}
	if dv.Type.Params == nil || len(dv.Type.Params.List) < 2 {
		c.Refuse("search/search.go: Context.DocValueReaderForReader has an unexpected signature:\n%s", sp.Src(dv.Type))
	}
	last := dv.Type.Params.List[len(dv.Type.Params.List)-1]
	if len(last.Names) != 1 {
		c.Refuse("search/search.go: Context.DocValueReaderForReader has an unexpected signature:\n%s", sp.Src(dv.Type))
	}
	fieldsParam := last.Names[0].Name
	calls, dedup, plain := 0, false, false
	var argSrc string
	ast.Inspect(dv.Body, func(n ast.Node) bool {
		ce, ok := n.(*ast.CallExpr)
		if !ok || c16Sel(ce.Fun) != "DocumentValueReader" || len(ce.Args) != 1 {
			return true
		}
		calls++
		argSrc = sp.Src(ce.Args[0])
		switch a := ce.Args[0].(type) {
		case *ast.Ident:
			if a.Name == fieldsParam {
				plain = true
			}
			// a local variable assigned from a de-duplicating call
			ast.Inspect(dv.Body, func(m ast.Node) bool {
				as, ok := m.(*ast.AssignStmt)
				if !ok || len(as.Lhs) != 1 || len(as.Rhs) != 1 {
					return true
				}
				if id, ok := as.Lhs[0].(*ast.Ident); ok && id.Name == a.Name {
					if inner, ok := as.Rhs[0].(*ast.CallExpr); ok {
						if f, ok := inner.Fun.(*ast.Ident); ok && isDedupFunc(sp.Func(f.Name)) {
							dedup, plain = true, false
						}
					}
				}
				return true
			})
		case *ast.CallExpr:
			if f, ok := a.Fun.(*ast.Ident); ok && len(a.Args) == 1 {
				if id, ok := a.Args[0].(*ast.Ident); ok && id.Name == fieldsParam && isDedupFunc(sp.Func(f.Name)) {
					dedup = true
				}
			}
		}
		return true
	})
	if calls != 1 || dedup == plain {
		c.Refuse("search/search.go: Context.DocValueReaderForReader does not pass its field list to DocumentValueReader either as is or through a recognised de-duplicating helper (argument: %s):\n%s", argSrc, sp.Src(dv))
	}
	// LoadDocumentValues must hand its fields to DocValueReaderForReader unchanged or de-duplicated as well
	ld := sp.Func("DocumentMatch.LoadDocumentValues")
	if ld == nil || ld.Body == nil {
		c.Refuse("search/search.go: method DocumentMatch.LoadDocumentValues not found")
	}
	okLoad := false
	ast.Inspect(ld.Body, func(n ast.Node) bool {
		if ce, ok := n.(*ast.CallExpr); ok && c16Sel(ce.Fun) == "DocValueReaderForReader" && len(ce.Args) == 2 {
			switch a := ce.Args[1].(type) {
			case *ast.Ident:
				okLoad = true
			case *ast.CallExpr:
				if f, ok := a.Fun.(*ast.Ident); ok && isDedupFunc(sp.Func(f.Name)) {
					okLoad, dedup = true, true
				}
			}
		}
		return true
	})
	if !okLoad {
		c.Refuse("search/search.go: DocumentMatch.LoadDocumentValues does not call DocValueReaderForReader(reader, fields) in a recognised form:\n%s", sp.Src(ld))
	}
	_ = token.NoPos

	b := func(v bool) string {
		if v {
			return "true"
		}
		return "false"
	}
	src := fmt.Sprintf(strings.ReplaceAll(`/-! GENERATED by /verif/go/extract (c16.go) from search/search.go and search/aggregations/{range,range_date,terms}.go
of the repository under check. Do not edit: §./check C16§ rewrites this file from the working tree on every run. -/
namespace BlugeGen.C16

/-- the list of needed fields is de-duplicated before the document value reader is built
(§Context.DocValueReaderForReader§ passes §%s§ to §DocumentValueReader§) -/
def dedupNeeded : Bool := %s

/-- §RangeAggregation.Fields§ and §DateRangeAggregation.Fields§ report the nested aggregations' fields -/
def rangeFieldsNested : Bool := %s

/-- §TermsAggregation.Fields§ reports the nested aggregations' fields (assumed by the model; the extractor refuses otherwise) -/
def termsFieldsNested : Bool := true

end BlugeGen.C16
`, "§", "`"), argSrc, b(dedup), b(rangeNested))
	c.WriteLean("C16", src)
	c.Summary["dedupNeeded"] = dedup
	c.Summary["rangeFieldsNested"] = rangeNested
	c.Summary["termsFieldsNested"] = true
	c.Summary["docValueReaderArgument"] = argSrc
}

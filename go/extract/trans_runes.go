package main

// Extension of the translator (trans.go) to the rune-slice subset in which bluge's in-repo stemmers and
// normalisers are written (driven by c18s.go; the C10 kernels do not use any of it):
//
//   rune / int32            -> BitVec 32 (signed)          string -> List (BitVec 8) (its UTF-8 bytes)
//   []rune("lit")           -> the literal rune list (Go's own conversion, evaluated by the translator)
//   []rune(s), bytes.Runes  -> GoStd.runes                 utf8.RuneCount / RuneLen -> GoStd.runeCount / runeLen
//   utf8.EncodeRune(p[a:], r) (value or statement)         -> GoStd.encodeRuneAt p a r   (writes p, panics when short)
//   bytes.HasSuffix/HasPrefix, utf8.DecodeLastRune         -> GoStd.hasSuffix/hasPrefix/decodeLastRune
//   unicode.IsLetter(r), unicode.In(r, unicode.Cf)         -> uc.isLetter r, uc.isCf r  (uc : GoStd.Unicode, an opaque parameter)
//   copy(dst[a:b], src)                                    -> Go.copyInto dst a b src
//   switch tag { case a, b: … default: … }                 -> sw := tag; if sw == a || sw == b { … } else …
//   return inside for / range                              -> the loop yields (Option result × state); the caller matches
//   for i, v := range xs / for i := range xs               -> recursion on the list with a counter
//   package-level [][]rune / []rune literals               -> Lean defs
//
// Slices are VALUES in the translation. That is faithful as long as no two live slice variables share a
// backing array across a write. prepareRunes enforces a syntactic discipline that implies it (or refuses):
//   (a) no plain copy `a := b` / `a = b` / `a := b[i:j]` between two different slice variables;
//   (b) a call that writes through a slice parameter (computed per translated function: index stores, copy,
//       EncodeRune, passing on to such a function) must have the shape `x = f(…x…)`, `x := f(…x…)` or
//       `return f(…)`, or be given a fresh value;
//   (c) `for i, v := range x`: the body stores into x only at index i and never rebinds x or i (then the
//       element Go reads from the live array is the element of the list the loop started with).
// A reviewed waiver (FuncOpt.AliasOK) is recorded in the generator summary; the `stem`/`util` correspondence
// ops run every translated definition against the real function on the same bytes.

import (
	"fmt"
	"go/ast"
	"go/constant"
	"go/token"
	"go/types"
	"sort"
	"strings"
)

func bytesLit(s string) string {
	bs := []byte(s)
	es := make([]string, len(bs))
	for i, b := range bs {
		es[i] = fmt.Sprintf("0x%02x#8", b)
	}
	return "[" + strings.Join(es, ", ") + "]"
}

func runesLit(s string) string {
	rs := []rune(s)
	es := make([]string, len(rs))
	for i, r := range rs {
		es[i] = fmt.Sprintf("0x%x#32", uint32(r))
	}
	return "[" + strings.Join(es, ", ") + "]"
}

func (t *Translator) constString(e ast.Expr) (string, bool) {
	if tv, ok := t.info.Types[e]; ok && tv.Value != nil && tv.Value.Kind() == constant.String {
		return constant.StringVal(tv.Value), true
	}
	return "", false
}

// exprRunes: expression forms of the rune subset that come before the generic cases of expr.
func (t *Translator) exprRunes(e ast.Expr) (ex, bool) {
	if s, ok := t.constString(e); ok {
		return ex{s: bytesLit(s)}, true
	}
	switch x := e.(type) {
	case *ast.CallExpr:
		// []rune("literal"), []byte("literal")
		if tv, ok := t.info.Types[x.Fun]; ok && tv.IsType() && len(x.Args) == 1 {
			if s, ok := t.constString(x.Args[0]); ok {
				to := t.ltype(tv.Type, x)
				if to.kind == "list" && to.elem.width == 32 {
					return ex{s: runesLit(s)}, true
				}
				if to.kind == "list" && to.elem.width == 8 {
					return ex{s: bytesLit(s)}, true
				}
			}
		}
	case *ast.Ident:
		if _, isGlobal := t.globals[x.Name]; isGlobal {
			if obj, ok := t.info.Uses[x]; ok && obj.Parent() == obj.Pkg().Scope() {
				t.emitGlobal(x.Name, x)
				return ex{s: leanIdent(t.gprefix + x.Name)}, true
			}
		}
	}
	return ex{}, false
}

// emitGlobal renders a package-level slice literal as a Lean def (once).
func (t *Translator) emitGlobal(name string, at ast.Expr) {
	if t.emitted == nil {
		t.emitted = map[string]bool{}
	}
	if t.emitted[name] {
		return
	}
	t.emitted[name] = true
	cl := t.globals[name]
	ty := t.typeOf(at)
	if ty.kind != "list" {
		t.refuse(at, "package-level literal %s of kind %s", name, ty.kind)
	}
	var es []string
	for _, el := range cl.Elts {
		v := t.expr(el)
		if len(v.pre) > 0 {
			t.refuse(el, "package-level literal %s has an element with effects", name)
		}
		es = append(es, v.s)
	}
	t.out = append(t.out, fmt.Sprintf("/-- package-level literal `%s` -/", name),
		fmt.Sprintf("def %s : %s :=\n  [%s]", leanIdent(t.gprefix+name), ty.lean, strings.Join(es, ",\n   ")), "")
}

// sliceTarget: `v` or `v[lo:hi]` with v a variable -> (v, lo, hi, prelude)
func (t *Translator) sliceTarget(e ast.Expr) (name string, lo, hi string, pre []string, ok bool) {
	switch x := e.(type) {
	case *ast.Ident:
		return x.Name, "0#64", "(Go.len " + leanIdent(x.Name) + ")", nil, true
	case *ast.SliceExpr:
		id, isId := x.X.(*ast.Ident)
		if !isId || x.Slice3 {
			return "", "", "", nil, false
		}
		lo, hi = "0#64", "(Go.len "+leanIdent(id.Name)+")"
		if x.Low != nil {
			l := t.expr(x.Low)
			pre = append(pre, l.pre...)
			lo = t.widen(l.s, x.Low)
		}
		if x.High != nil {
			h := t.expr(x.High)
			pre = append(pre, h.pre...)
			hi = t.widen(h.s, x.High)
		}
		return id.Name, lo, hi, pre, true
	}
	return "", "", "", nil, false
}

func (t *Translator) needUC(n ast.Node) {
	if !t.cur.opt.Unicode {
		t.refuse(n, "%s consults Go's unicode tables: translate it with FuncOpt.Unicode", t.cur.name)
	}
}

// callRunes: calls whose translation is not "evaluate the arguments, apply the callee".
func (t *Translator) callRunes(name string, x *ast.CallExpr) (ex, bool) {
	one := func(fn string) (ex, bool) {
		a := t.expr(x.Args[0])
		return ex{a.pre, "(" + fn + " " + a.s + ")"}, true
	}
	two := func(fn string) (ex, bool) {
		a, b := t.expr(x.Args[0]), t.expr(x.Args[1])
		return ex{append(a.pre, b.pre...), "(" + fn + " " + a.s + " " + b.s + ")"}, true
	}
	switch name {
	case "bytes.Runes":
		return one("GoStd.runes")
	case "utf8.RuneCount":
		return one("GoStd.runeCount")
	case "utf8.RuneLen":
		return one("GoStd.runeLen")
	case "bytes.HasSuffix":
		return two("GoStd.hasSuffix")
	case "bytes.HasPrefix":
		return two("GoStd.hasPrefix")
	case "unicode.IsLetter":
		t.needUC(x)
		return one("uc.isLetter")
	case "unicode.In":
		t.needUC(x)
		if len(x.Args) != 2 || t.pkg.Src(x.Args[1]) != "unicode.Cf" {
			t.refuse(x, "unicode.In with a table other than unicode.Cf")
		}
		return one("uc.isCf")
	case "utf8.EncodeRune":
		t.needMonad(x, "utf8.EncodeRune")
		v, lo, _, pre, ok := t.sliceTarget(x.Args[0])
		if se, isSlice := x.Args[0].(*ast.SliceExpr); !ok || (isSlice && se.High != nil) {
			t.refuse(x, "utf8.EncodeRune into %s (only v or v[a:] of a variable)", t.pkg.Src(x.Args[0]))
		}
		r := t.expr(x.Args[1])
		pre = append(pre, r.pre...)
		n := t.tmp()
		pre = append(pre, fmt.Sprintf("let (%s, %s) ← GoStd.encodeRuneAt %s %s %s", leanIdent(v), n, leanIdent(v), lo, r.s))
		return ex{pre, n}, true
	}
	return ex{}, false
}

// exprStmtRunes: call statements of the rune subset. true = handled.
func (t *Translator) exprStmtRunes(c *ast.CallExpr, emit func(string), emitPre func(ex)) bool {
	name := t.calleeName(c.Fun)
	switch name {
	case "utf8.EncodeRune":
		e := t.expr(c)
		emitPre(e)
		return true
	case "copy":
		if _, plain := c.Args[0].(*ast.Ident); plain {
			return false // trans.go
		}
		t.needMonad(c, "copy into a slice expression")
		v, lo, hi, pre, ok := t.sliceTarget(c.Args[0])
		if !ok {
			t.refuse(c, "copy into %s", t.pkg.Src(c.Args[0]))
		}
		for _, p := range pre {
			emit(p)
		}
		src := t.expr(c.Args[1])
		emitPre(src)
		emit(fmt.Sprintf("let %s ← Go.copyInto %s %s %s %s", leanIdent(v), leanIdent(v), lo, hi, src.s))
		return true
	}
	return false
}

// ---------------------------------------------------------------- return inside loops

func hasReturn(n ast.Node) bool {
	found := false
	ast.Inspect(n, func(m ast.Node) bool {
		if _, ok := m.(*ast.ReturnStmt); ok {
			found = true
		}
		if _, ok := m.(*ast.FuncLit); ok {
			return false
		}
		return true
	})
	return found
}

// retTuple: (first, v1, v2, …) — a right-nested pair of the early-return slot and the state
func retTuple(first string, vs []string) string {
	if len(vs) == 0 {
		return "(" + first + ", ())"
	}
	var l []string
	for _, v := range vs {
		l = append(l, leanIdent(v))
	}
	return "(" + first + ", " + strings.Join(l, ", ") + ")"
}

func (t *Translator) retTy() string {
	var tys []string
	for _, r := range t.cur.sig.results {
		tys = append(tys, r.lean)
	}
	if len(tys) == 0 {
		return "Unit"
	}
	return strings.Join(tys, " × ")
}

func (t *Translator) retInLoop(s *ast.ReturnStmt, tm term, d int) []string {
	if t.cur.sig.hasErr {
		t.refuse(s, "return inside a loop of a function with an error result")
	}
	var out []string
	if len(s.Results) == 0 {
		return []string{ind(d) + "pure " + retTuple("some "+tuple(t.cur.named), tm.brk)}
	}
	var vals []string
	for _, r := range s.Results {
		v := t.expr(r)
		for _, p := range v.pre {
			out = append(out, ind(d)+p)
		}
		vals = append(vals, v.s)
	}
	return append(out, ind(d)+"pure "+retTuple("some "+tupleS(vals), tm.brk))
}

// afterRetLoop: `match ret with | some v => return v | none => rest`
func (t *Translator) afterRetLoop(retVar string, rest []ast.Stmt, sc *scope, tm term, d int) []string {
	var out []string
	out = append(out, ind(d)+"match "+retVar+" with")
	if tm.inLoop {
		if !tm.retLoop {
			t.refuse(nil, "internal: returning loop nested in a loop that does not return")
		}
		out = append(out, ind(d)+"| some v_ => pure "+retTuple("some v_", tm.brk))
	} else {
		out = append(out, ind(d)+"| some v_ => pure v_")
	}
	out = append(out, ind(d)+"| none => do")
	out = append(out, t.stmts(rest, sc, tm, d+1)...)
	return out
}

// retLoopStmt: a `for` statement whose body contains `return`.
func (t *Translator) retLoopStmt(s *ast.ForStmt, rest []ast.Stmt, sc *scope, tm term, d int) []string {
	t.needMonad(s, "loop")
	var out []string
	if s.Init != nil {
		out = append(out, t.stmts([]ast.Stmt{s.Init}, sc, term{kind: "none"}, d)...)
	}
	t.cur.loopN++
	name := fmt.Sprintf("%s.loop%d", t.cur.sig.lean, t.cur.loopN)
	retVar := fmt.Sprintf("ret%d_", t.cur.loopN)
	state := append([]string{}, sc.vars...)
	params, args, tupTy := t.stateDecl(sc)
	body := sc.clone()
	ltm := term{kind: "loop", vars: state, loop: name + " fuel", post: s.Post, brk: state, inLoop: true, retLoop: true}
	var lines []string
	lines = append(lines, fmt.Sprintf("def %s (fuel : Nat) %s : Go.Res (Option (%s) × %s) :=", name, params, t.retTy(), tupTy))
	lines = append(lines, "  match fuel with", "  | 0 => Go.Res.crash", "  | fuel + 1 => do")
	if s.Cond != nil {
		c := t.expr(s.Cond)
		for _, p := range c.pre {
			lines = append(lines, ind(2)+p)
		}
		lines = append(lines, ind(2)+"if "+c.s+" then do")
		lines = append(lines, t.stmts(s.Body.List, body, ltm, 3)...)
		lines = append(lines, ind(2)+"else", ind(3)+"pure "+retTuple("none", state))
	} else {
		lines = append(lines, t.stmts(s.Body.List, body, ltm, 2)...)
	}
	t.cur.aux = append(t.cur.aux, strings.Join(lines, "\n"))
	fuel, ok := t.fuel[t.cur.name]
	if !ok {
		t.refuse(s, "no loop fuel registered for %s", t.cur.name)
	}
	out = append(out, fmt.Sprintf("%slet %s ← %s (%s) %s", ind(d), retTuple(retVar, state), name, fuel, strings.Join(args, " ")))
	return append(out, t.afterRetLoop(retVar, rest, sc, tm, d)...)
}

// ---------------------------------------------------------------- range with a key / with return

func rangeNeedsRunes(s *ast.RangeStmt) bool {
	if k, ok := s.Key.(*ast.Ident); !ok || k.Name != "_" {
		return true
	}
	return s.Value == nil
}

// rule (c): the ranged variable is stored into only at the key, and neither it nor the key is rebound
func (t *Translator) checkRangeSnapshot(s *ast.RangeStmt, key string) {
	xv, ok := s.X.(*ast.Ident)
	if !ok {
		return
	}
	if _, g := t.globals[xv.Name]; g {
		if obj, ok := t.info.Uses[xv]; ok && obj.Parent() == obj.Pkg().Scope() {
			return
		}
	}
	bad := func(n ast.Node, why string) {
		t.refuse(n, "range over %s: the body %s (the translation reads the elements of the list the loop started with)", xv.Name, why)
	}
	target := func(l ast.Expr, n ast.Node) {
		switch lx := l.(type) {
		case *ast.Ident:
			if lx.Name == xv.Name {
				bad(n, "rebinds "+xv.Name)
			}
			if key != "" && lx.Name == key {
				bad(n, "assigns the key "+key)
			}
		case *ast.IndexExpr:
			if id, ok := lx.X.(*ast.Ident); ok && id.Name == xv.Name {
				if ix, ok := lx.Index.(*ast.Ident); !ok || key == "" || ix.Name != key {
					bad(n, "stores into "+xv.Name+" at an index other than the key")
				}
			}
		}
	}
	ast.Inspect(s.Body, func(n ast.Node) bool {
		switch st := n.(type) {
		case *ast.AssignStmt:
			for _, l := range st.Lhs {
				target(l, st)
			}
		case *ast.IncDecStmt:
			target(st.X, st)
		case *ast.CallExpr:
			nm := t.calleeName(st.Fun)
			if nm == "copy" || nm == "utf8.EncodeRune" {
				if v, _, _, _, ok := t.sliceTargetName(st.Args[0]); ok && v == xv.Name {
					bad(st, "writes "+xv.Name+" through "+nm)
				}
			}
			if sig := t.sigOf(nm); sig != nil {
				for k, a := range st.Args {
					if sig.mutates[k] && rootIdent(a) == xv.Name {
						bad(st, "passes "+xv.Name+" to a function that writes it")
					}
				}
			}
		}
		return true
	})
}

func (t *Translator) sliceTargetName(e ast.Expr) (string, string, string, []string, bool) {
	switch x := e.(type) {
	case *ast.Ident:
		return x.Name, "", "", nil, true
	case *ast.SliceExpr:
		if id, ok := x.X.(*ast.Ident); ok {
			return id.Name, "", "", nil, true
		}
	}
	return "", "", "", nil, false
}

func rootIdent(e ast.Expr) string {
	switch x := e.(type) {
	case *ast.Ident:
		return x.Name
	case *ast.SliceExpr:
		return rootIdent(x.X)
	case *ast.ParenExpr:
		return rootIdent(x.X)
	}
	return ""
}

func (t *Translator) sigOf(name string) *fnSig {
	if name == "" {
		return nil
	}
	if strings.HasPrefix(name, ".") {
		for k, s := range t.sigs {
			if strings.HasSuffix(k, name) {
				return s
			}
		}
		return nil
	}
	return t.sigs[name]
}

// rangeLoopRunes: `for k, v := range xs`, `for k := range xs`, and range loops that return.
// done = the statements after the loop were consumed (they sit under `| none =>`).
func (t *Translator) rangeLoopRunes(s *ast.RangeStmt, rest []ast.Stmt, sc *scope, tm term, d int) (bool, []string) {
	t.needMonad(s, "loop")
	if s.Tok != token.DEFINE {
		t.refuse(s, "range with assignment to existing variables")
	}
	key, val := "", ""
	if k, ok := s.Key.(*ast.Ident); ok && k.Name != "_" {
		key = k.Name
	} else if !ok && s.Key != nil {
		t.refuse(s, "range key")
	}
	if s.Value != nil {
		v, ok := s.Value.(*ast.Ident)
		if !ok {
			t.refuse(s, "range value")
		}
		if v.Name != "_" {
			val = v.Name
		}
	}
	for _, n := range []string{key, val} {
		if _, clash := sc.ty[n]; n != "" && clash {
			t.refuse(s, "range variable %s shadows a variable in scope", n)
		}
	}
	t.checkRangeSnapshot(s, key)
	ret := hasReturn(s.Body)
	var out []string
	xs := t.expr(s.X)
	for _, p := range xs.pre {
		out = append(out, ind(d)+p)
	}
	et := t.typeOf(s.X).elem
	if et == nil {
		t.refuse(s, "range over a non-slice")
	}
	t.cur.loopN++
	name := fmt.Sprintf("%s.loop%d", t.cur.sig.lean, t.cur.loopN)
	retVar := fmt.Sprintf("ret%d_", t.cur.loopN)
	state := append([]string{}, sc.vars...)
	params, args, tupTy := t.stateDecl(sc)
	body := sc.clone()
	nState := len(body.vars)
	if val != "" {
		body.add(val, et)
	}
	keyParam, keyArg0, keyNext := "", "", ""
	if key != "" {
		body.add(key, &lty{lean: "BitVec 64", width: 64, signed: true, kind: "int", zero: "0#64"})
		keyParam = fmt.Sprintf(" (%s : BitVec 64)", leanIdent(key))
		keyArg0 = " 0#64"
		keyNext = fmt.Sprintf(" (%s + 1#64)", leanIdent(key))
	}
	body.vars = body.vars[:nState] // the element and the key are not loop state
	ltm := term{kind: "loop", vars: state, loop: name + " rest_" + keyNext, brk: state, inLoop: true, retLoop: ret}
	resTy := tupTy
	nilCase := "pure " + tuple(state)
	if ret {
		resTy = fmt.Sprintf("Option (%s) × %s", t.retTy(), tupTy)
		nilCase = "pure " + retTuple("none", state)
	}
	pat := "_"
	if val != "" {
		pat = leanIdent(val)
	}
	var lines []string
	lines = append(lines, fmt.Sprintf("def %s (xs_ : List (%s))%s %s : Go.Res (%s) :=", name, et.lean, keyParam, params, resTy))
	lines = append(lines, "  match xs_ with", "  | [] => "+nilCase, fmt.Sprintf("  | %s :: rest_ => do", pat))
	lines = append(lines, t.stmts(s.Body.List, body, ltm, 2)...)
	t.cur.aux = append(t.cur.aux, strings.Join(lines, "\n"))
	if ret {
		out = append(out, fmt.Sprintf("%slet %s ← %s %s%s %s", ind(d), retTuple(retVar, state), name, xs.s, keyArg0, strings.Join(args, " ")))
		return true, append(out, t.afterRetLoop(retVar, rest, sc, tm, d)...)
	}
	out = append(out, fmt.Sprintf("%slet %s ← %s %s%s %s", ind(d), tuple(state), name, xs.s, keyArg0, strings.Join(args, " ")))
	return false, out
}

// ---------------------------------------------------------------- switch

var swN int

func (t *Translator) desugarSwitch(s *ast.SwitchStmt) []ast.Stmt {
	if s.Init != nil || s.Tag == nil {
		t.refuse(s, "switch with an init statement or without a tag")
	}
	tagTV, ok := t.info.Types[s.Tag]
	if !ok || tagTV.Type == nil {
		t.refuse(s, "cannot type switch tag %s", t.pkg.Src(s.Tag))
	}
	// an unlabelled break directly inside a case leaves the switch: not translated
	for _, cc := range s.Body.List {
		for _, st := range cc.(*ast.CaseClause).Body {
			ast.Inspect(st, func(n ast.Node) bool {
				switch b := n.(type) {
				case *ast.ForStmt, *ast.RangeStmt, *ast.SwitchStmt, *ast.SelectStmt, *ast.TypeSwitchStmt:
					return false
				case *ast.BranchStmt:
					if b.Tok == token.BREAK || b.Tok == token.FALLTHROUGH || b.Tok == token.GOTO {
						t.refuse(b, "%s inside a switch case", b.Tok)
					}
				}
				return true
			})
		}
	}
	swN++
	tmp := &ast.Ident{Name: fmt.Sprintf("sw%d_", swN)}
	t.info.Types[tmp] = types.TypeAndValue{Type: tagTV.Type}
	asg := &ast.AssignStmt{Lhs: []ast.Expr{tmp}, Tok: token.DEFINE, Rhs: []ast.Expr{s.Tag}}
	var clauses []*ast.CaseClause
	var dflt *ast.CaseClause
	for _, cc := range s.Body.List {
		c := cc.(*ast.CaseClause)
		if c.List == nil {
			dflt = c
		} else {
			clauses = append(clauses, c)
		}
	}
	var tail ast.Stmt
	if dflt != nil {
		tail = &ast.BlockStmt{List: dflt.Body}
	}
	for i := len(clauses) - 1; i >= 0; i-- {
		c := clauses[i]
		var cond ast.Expr
		for _, e := range c.List {
			eq := &ast.BinaryExpr{X: tmp, Op: token.EQL, Y: e}
			if cond == nil {
				cond = eq
			} else {
				cond = &ast.BinaryExpr{X: cond, Op: token.LOR, Y: eq}
			}
		}
		tail = &ast.IfStmt{Cond: cond, Body: &ast.BlockStmt{List: c.Body}, Else: tail}
	}
	if tail == nil {
		return []ast.Stmt{asg}
	}
	if b, ok := tail.(*ast.BlockStmt); ok { // only a default clause
		return append([]ast.Stmt{asg}, b.List...)
	}
	return []ast.Stmt{asg, tail}
}

// ---------------------------------------------------------------- per-function preparation

func (t *Translator) isSliceVar(id *ast.Ident) bool {
	var obj types.Object
	if o, ok := t.info.Defs[id]; ok && o != nil {
		obj = o
	} else if o, ok := t.info.Uses[id]; ok {
		obj = o
	}
	if obj == nil || obj.Type() == nil {
		return false
	}
	_, isSlice := obj.Type().Underlying().(*types.Slice)
	return isSlice
}

// prepareRunes: alpha-rename shadowing locals; alias discipline (a), (b); which parameters are written.
func (t *Translator) prepareRunes(goName string, fd *ast.FuncDecl, o FuncOpt, sig *fnSig) {
	// 1. every local object gets its own name
	byName := map[string][]types.Object{}
	seen := map[types.Object]bool{}
	var idents []*ast.Ident
	ast.Inspect(fd, func(n ast.Node) bool {
		if id, ok := n.(*ast.Ident); ok {
			idents = append(idents, id)
			if obj, ok := t.info.Defs[id]; ok && obj != nil && id.Name != "_" {
				if _, isVar := obj.(*types.Var); isVar && !seen[obj] && id != fd.Name {
					seen[obj] = true
					byName[id.Name] = append(byName[id.Name], obj)
				}
			}
		}
		return true
	})
	rename := map[types.Object]string{}
	for name, objs := range byName {
		sort.Slice(objs, func(i, j int) bool { return objs[i].Pos() < objs[j].Pos() })
		for k, obj := range objs[1:] {
			rename[obj] = fmt.Sprintf("%s_%d", name, k+2)
		}
	}
	for _, id := range idents {
		if obj, ok := t.info.Defs[id]; ok && obj != nil {
			if nn, ok := rename[obj]; ok {
				id.Name = nn
			}
		} else if obj, ok := t.info.Uses[id]; ok {
			if nn, ok := rename[obj]; ok {
				id.Name = nn
			}
		}
	}

	// 2. which slice parameters does the function write (directly, or through a plain alias)?
	params := map[string]int{}
	k := 0
	if fd.Recv != nil {
		k = 1
	}
	for _, f := range fd.Type.Params.List {
		for _, n := range f.Names {
			params[n.Name] = k
			k++
		}
	}
	aliasOf := map[string]string{} // local -> parameter it was plainly copied from
	root := func(name string) string {
		for i := 0; i < 10; i++ {
			if p, ok := aliasOf[name]; ok {
				name = p
			} else {
				break
			}
		}
		return name
	}
	var copies []ast.Node
	ast.Inspect(fd.Body, func(n ast.Node) bool {
		if as, ok := n.(*ast.AssignStmt); ok && len(as.Lhs) == len(as.Rhs) {
			for i, l := range as.Lhs {
				lid, ok := l.(*ast.Ident)
				if !ok || !t.isSliceVar(lid) {
					continue
				}
				var src *ast.Ident
				switch r := as.Rhs[i].(type) {
				case *ast.Ident:
					src = r
				case *ast.SliceExpr:
					src, _ = r.X.(*ast.Ident)
				}
				if src != nil && src.Name != lid.Name && src.Name != "nil" && t.isSliceVar(src) {
					copies = append(copies, as)
					aliasOf[lid.Name] = src.Name
				}
			}
		}
		return true
	})
	if len(copies) > 0 && o.AliasOK == "" {
		t.refuse(copies[0], "%s copies a slice between two variables (%s): value semantics needs a reviewed waiver (FuncOpt.AliasOK)", goName, t.pkg.Src(copies[0]))
	}
	sig.mutates = map[int]bool{}
	wr := func(e ast.Expr) {
		if n := rootIdent(e); n != "" {
			if p, ok := params[root(n)]; ok {
				sig.mutates[p] = true
			}
		}
	}
	var stack []ast.Node
	ast.Inspect(fd.Body, func(n ast.Node) bool {
		if n == nil {
			stack = stack[:len(stack)-1]
			return true
		}
		stack = append(stack, n)
		switch st := n.(type) {
		case *ast.AssignStmt:
			for _, l := range st.Lhs {
				if ix, ok := l.(*ast.IndexExpr); ok {
					wr(ix.X)
				}
			}
		case *ast.IncDecStmt:
			if ix, ok := st.X.(*ast.IndexExpr); ok {
				wr(ix.X)
			}
		case *ast.CallExpr:
			nm := t.calleeName(st.Fun)
			if (nm == "copy" || nm == "utf8.EncodeRune") && len(st.Args) > 0 {
				wr(st.Args[0])
			}
			if cs := t.sigOf(nm); cs != nil && nm != goName {
				for i, a := range st.Args {
					if !cs.mutates[i] {
						continue
					}
					wr(a)
					// rule (b)
					x := rootIdent(a)
					if x == "" {
						continue
					}
					okShape := false
					for j := len(stack) - 2; j >= 0; j-- {
						if _, isExpr := stack[j].(ast.Expr); isExpr {
							continue
						}
						switch encl := stack[j].(type) {
						case *ast.AssignStmt:
							if len(encl.Lhs) == 1 && len(encl.Rhs) == 1 && encl.Rhs[0] == ast.Expr(st) {
								if lid, ok := encl.Lhs[0].(*ast.Ident); ok && lid.Name == x {
									okShape = true
								}
							}
						case *ast.ReturnStmt:
							if len(encl.Results) == 1 && encl.Results[0] == ast.Expr(st) {
								okShape = true
							}
						}
						break
					}
					if !okShape && o.AliasOK == "" {
						t.refuse(st, "%s passes %s to %s, which writes it, outside the shapes `%s = f(…)` / `return f(…)`", goName, x, nm, x)
					}
				}
			}
		}
		return true
	})
	if o.AliasOK != "" {
		w, _ := t.c.Summary["alias_waivers"].([]string)
		t.c.Summary["alias_waivers"] = append(w, goName+": "+o.AliasOK)
	}
}

func writesFirstArg(c *ast.CallExpr) bool {
	switch f := c.Fun.(type) {
	case *ast.Ident:
		if f.Name == "copy" && len(c.Args) > 0 {
			_, plain := c.Args[0].(*ast.Ident)
			return !plain // the plain form is handled by trans.go
		}
	case *ast.SelectorExpr:
		if id, ok := f.X.(*ast.Ident); ok && id.Name == "utf8" && f.Sel.Name == "EncodeRune" {
			return true
		}
	}
	return false
}

package main

// Gen for C07: the constants and one-token guards of the searcher construction and of the postings
// iterator that a small generator could miss (coarse facts, syntactically normalised by go/printer):
//
//	search/searcher/search_disjunction.go   DisjunctionHeapTakeover, DisjunctionMaxClauseCount (values),
//	                                        newDisjunctionSearcher: the slice/heap switch and the guard of the
//	                                        unadorned rewrite (+ the minSearcher wrap that keeps Min()),
//	                                        optionsDisjunctionOptimizable, tooManyClauses
//	search/searcher/search_conjunction.go   NewConjunctionSearcher: the guard of the unadorned rewrite
//	search/searcher/search_phrase.go        findPhrasePaths: the slop test
//	search/searcher/search_filter.go        FilteringSearcher.Advance: what happens after a rejected target
//	index/postings.go                       postingsIterator.Advance: the restart guard
//	index/snapshot.go                       segmentIndexAndLocalDocNumFromGlobal: the sort.Search predicate, `- 1`
//
// BlugeProofs.C07 has one `decide` obligation per fact against the value the model (Bluge.Search,
// Bluge.C07.Postings, Bluge.C07.Query) uses.

import (
	"fmt"
	"go/ast"
	"go/token"
	"strconv"
	"strings"
)

func init() { Register("C07", genC07) }

func c07Unparen(e ast.Expr) ast.Expr {
	for {
		p, ok := e.(*ast.ParenExpr)
		if !ok {
			return e
		}
		e = p.X
	}
}

// c07Split flattens a chain of `op` (&& or ||) into its operands, rendered as source without outer parentheses.
func c07Split(p *Pkg, e ast.Expr, op token.Token) []string {
	e = c07Unparen(e)
	if b, ok := e.(*ast.BinaryExpr); ok && b.Op == op {
		return append(c07Split(p, b.X, op), c07Split(p, b.Y, op)...)
	}
	return []string{p.Src(e)}
}

func c07LeanList(xs []string) string {
	q := make([]string, len(xs))
	for i, x := range xs {
		q[i] = LeanStr(x)
	}
	return "[" + strings.Join(q, ", ") + "]"
}

// c07IntVar returns the literal value of `var <name> = <int literal>` at package level.
func c07IntVar(c *Ctx, p *Pkg, name string) int {
	for _, f := range p.Files {
		for _, d := range f.Decls {
			gd, ok := d.(*ast.GenDecl)
			if !ok || (gd.Tok != token.VAR && gd.Tok != token.CONST) {
				continue
			}
			for _, s := range gd.Specs {
				vs, ok := s.(*ast.ValueSpec)
				if !ok {
					continue
				}
				for i, n := range vs.Names {
					if n.Name != name {
						continue
					}
					if i >= len(vs.Values) {
						c.Refuse("%s: %s is declared without a value", p.Dir, name)
					}
					bl, ok := vs.Values[i].(*ast.BasicLit)
					if !ok || bl.Kind != token.INT {
						c.Refuse("%s: %s is not initialised by an integer literal: %s", p.Dir, name, p.Src(vs.Values[i]))
					}
					v, err := strconv.Atoi(bl.Value)
					if err != nil || v < 0 {
						c.Refuse("%s: %s has an unexpected value %s", p.Dir, name, bl.Value)
					}
					return v
				}
			}
		}
	}
	c.Refuse("%s: package-level %s not found", p.Dir, name)
	return 0
}

func c07Func(c *Ctx, p *Pkg, name string) *ast.FuncDecl {
	fd := p.Func(name)
	if fd == nil || fd.Body == nil {
		c.Refuse("%s: function %s not found", p.Dir, name)
	}
	return fd
}

func c07Mentions(n ast.Node, ident string) bool {
	found := false
	ast.Inspect(n, func(m ast.Node) bool {
		if id, ok := m.(*ast.Ident); ok && id.Name == ident {
			found = true
		}
		return true
	})
	return found
}

// c07CallsWithString: does n contain a call f("<lit>", …)?
func c07CallsWithString(n ast.Node, fn, lit string) bool {
	found := false
	ast.Inspect(n, func(m ast.Node) bool {
		ce, ok := m.(*ast.CallExpr)
		if !ok || len(ce.Args) == 0 {
			return true
		}
		if id, ok := ce.Fun.(*ast.Ident); !ok || id.Name != fn {
			return true
		}
		if bl, ok := ce.Args[0].(*ast.BasicLit); ok && bl.Kind == token.STRING && bl.Value == strconv.Quote(lit) {
			found = true
		}
		return true
	})
	return found
}

// c07ReturnedCall: the name of the function called by a `return f(…)` statement.
func c07ReturnedCall(s ast.Stmt) string {
	rs, ok := s.(*ast.ReturnStmt)
	if !ok || len(rs.Results) != 1 {
		return ""
	}
	ce, ok := rs.Results[0].(*ast.CallExpr)
	if !ok {
		return ""
	}
	switch f := ce.Fun.(type) {
	case *ast.Ident:
		return f.Name
	case *ast.SelectorExpr:
		return f.Sel.Name
	}
	return ""
}

func genC07(c *Ctx) {
	sp := c.ParseDir("search/searcher")
	ip := c.ParseDir("index")

	takeover := c07IntVar(c, sp, "DisjunctionHeapTakeover")
	maxClauses := c07IntVar(c, sp, "DisjunctionMaxClauseCount")

	// ---- newDisjunctionSearcher
	nd := c07Func(c, sp, "newDisjunctionSearcher")
	var heapIf, unIf *ast.IfStmt
	var afterHeap ast.Stmt
	for i, s := range nd.Body.List {
		is, ok := s.(*ast.IfStmt)
		if !ok {
			continue
		}
		if c07Mentions(is.Cond, "DisjunctionHeapTakeover") {
			if heapIf != nil {
				c.Refuse("newDisjunctionSearcher tests DisjunctionHeapTakeover more than once:\n%s", sp.Src(nd))
			}
			heapIf = is
			if i+1 < len(nd.Body.List) {
				afterHeap = nd.Body.List[i+1]
			}
		} else if c07CallsWithString(is.Body, "optimizeCompositeSearcher", "disjunction:unadorned") {
			if unIf != nil {
				c.Refuse("newDisjunctionSearcher has more than one unadorned rewrite:\n%s", sp.Src(nd))
			}
			unIf = is
		}
	}
	if heapIf == nil || heapIf.Else != nil || heapIf.Init != nil || len(heapIf.Body.List) != 1 || afterHeap == nil {
		c.Refuse("newDisjunctionSearcher: no `if <len> <op> DisjunctionHeapTakeover { return heap } return slice` found:\n%s", sp.Src(nd))
	}
	hb, ok := c07Unparen(heapIf.Cond).(*ast.BinaryExpr)
	if !ok {
		c.Refuse("newDisjunctionSearcher: the takeover test is not a comparison: %s", sp.Src(heapIf.Cond))
	}
	heapThen := c07ReturnedCall(heapIf.Body.List[0])
	heapElse := c07ReturnedCall(afterHeap)
	if heapThen == "" || heapElse == "" {
		c.Refuse("newDisjunctionSearcher: the two implementations are not returned by plain calls:\n%s", sp.Src(nd))
	}
	if unIf == nil || unIf.Init != nil {
		c.Refuse("newDisjunctionSearcher: the unadorned rewrite `if … { optimizeCompositeSearcher(\"disjunction:unadorned\", …) }` was not found:\n%s", sp.Src(nd))
	}
	disjGuard := c07Split(sp, unIf.Cond, token.LAND)
	// the rewritten searcher keeps Min(): some `if … min > 0 … { rv = &minSearcher{…} }` inside the rewrite
	keepsMin := false
	keepGuard := []string{}
	ast.Inspect(unIf.Body, func(n ast.Node) bool {
		is, ok := n.(*ast.IfStmt)
		if !ok {
			return true
		}
		wraps := false
		ast.Inspect(is.Body, func(m ast.Node) bool {
			if cl, ok := m.(*ast.CompositeLit); ok {
				if id, ok := cl.Type.(*ast.Ident); ok && id.Name == "minSearcher" {
					wraps = true
				}
			}
			return true
		})
		if wraps && c07Mentions(is.Cond, "min") {
			keepsMin = true
			keepGuard = c07Split(sp, is.Cond, token.LAND)
		}
		return true
	})
	if keepsMin {
		ms := c07Func(c, sp, "minSearcher.Min")
		if len(ms.Body.List) != 1 || sp.Src(ms.Body.List[0]) != "return m.min" {
			c.Refuse("minSearcher.Min is not `return m.min`:\n%s", sp.Src(ms))
		}
	}

	// ---- optionsDisjunctionOptimizable
	od := c07Func(c, sp, "optionsDisjunctionOptimizable")
	var odExpr ast.Expr
	ast.Inspect(od.Body, func(n ast.Node) bool {
		if b, ok := n.(*ast.BinaryExpr); ok && b.Op == token.LAND && odExpr == nil {
			odExpr = b
			return false
		}
		return true
	})
	if odExpr == nil || len(od.Body.List) > 2 {
		c.Refuse("optionsDisjunctionOptimizable is not a single conjunction:\n%s", sp.Src(od))
	}
	odGuard := c07Split(sp, odExpr, token.LAND)

	// ---- NewConjunctionSearcher
	nc := c07Func(c, sp, "NewConjunctionSearcher")
	var conjIf *ast.IfStmt
	for _, s := range nc.Body.List {
		if is, ok := s.(*ast.IfStmt); ok && c07CallsWithString(is.Body, "optimizeCompositeSearcher", "conjunction:unadorned") {
			conjIf = is
		}
	}
	if conjIf == nil || conjIf.Init != nil {
		c.Refuse("NewConjunctionSearcher: the unadorned rewrite was not found:\n%s", sp.Src(nc))
	}
	conjGuard := c07Split(sp, conjIf.Cond, token.LAND)

	// ---- tooManyClauses
	tm := c07Func(c, sp, "tooManyClauses")
	if len(tm.Body.List) != 2 {
		c.Refuse("tooManyClauses is not `if … { return true }; return false`:\n%s", sp.Src(tm))
	}
	tmIf, ok := tm.Body.List[0].(*ast.IfStmt)
	if !ok || tmIf.Else != nil || len(tmIf.Body.List) != 1 || sp.Src(tmIf.Body.List[0]) != "return true" || sp.Src(tm.Body.List[1]) != "return false" {
		c.Refuse("tooManyClauses is not `if … { return true }; return false`:\n%s", sp.Src(tm))
	}
	tmGuard := c07Split(sp, tmIf.Cond, token.LAND)

	// ---- findPhrasePaths: the slop test
	fp := c07Func(c, sp, "findPhrasePaths")
	var slopIfs []*ast.IfStmt
	ast.Inspect(fp.Body, func(n ast.Node) bool {
		if is, ok := n.(*ast.IfStmt); ok && c07Mentions(is.Cond, "remainingSlop") {
			slopIfs = append(slopIfs, is)
		}
		return true
	})
	if len(slopIfs) != 1 || slopIfs[0].Else != nil {
		c.Refuse("findPhrasePaths: expected exactly one test of remainingSlop without else:\n%s", sp.Src(fp))
	}
	slopTest := c07Split(sp, slopIfs[0].Cond, token.LOR)
	// dist := editDistance(prevPos+1, loc.Pos) under `prevPos != 0`
	distOK := false
	ast.Inspect(fp.Body, func(n ast.Node) bool {
		if is, ok := n.(*ast.IfStmt); ok && sp.Src(is.Cond) == "prevPos != 0" && len(is.Body.List) == 1 &&
			sp.Src(is.Body.List[0]) == "dist = editDistance(prevPos+1, loc.Pos)" {
			distOK = true
		}
		return true
	})
	if !distOK {
		c.Refuse("findPhrasePaths: `if prevPos != 0 { dist = editDistance(prevPos+1, loc.Pos) }` not found:\n%s", sp.Src(fp))
	}

	// ---- FilteringSearcher.Advance: the statement after `if f.accept(adv) { return adv, nil }`
	fa := c07Func(c, sp, "FilteringSearcher.Advance")
	last, ok := fa.Body.List[len(fa.Body.List)-1].(*ast.ReturnStmt)
	if !ok || len(last.Results) != 1 {
		c.Refuse("FilteringSearcher.Advance does not end in `return <call>`:\n%s", sp.Src(fa))
	}
	filterFallback := sp.Src(last.Results[0])

	// ---- postingsIterator.Advance: the restart guard
	pa := c07Func(c, ip, "postingsIterator.Advance")
	restartIf, ok := pa.Body.List[0].(*ast.IfStmt)
	if !ok || restartIf.Init != nil || !c07Mentions(restartIf.Cond, "currID") {
		c.Refuse("postingsIterator.Advance does not start with the backward-seek test:\n%s", ip.Src(pa))
	}
	restartGuard := c07Split(ip, restartIf.Cond, token.LAND)
	// the object that is closed after the restart must not be the receiver
	closedRecv := false
	ast.Inspect(restartIf.Body, func(n ast.Node) bool {
		if ce, ok := n.(*ast.CallExpr); ok {
			if se, ok := ce.Fun.(*ast.SelectorExpr); ok && se.Sel.Name == "Close" {
				if id, ok := se.X.(*ast.Ident); ok && len(pa.Recv.List[0].Names) == 1 && id.Name == pa.Recv.List[0].Names[0].Name {
					closedRecv = true
				}
			}
		}
		return true
	})

	// ---- segmentIndexAndLocalDocNumFromGlobal
	sg := c07Func(c, ip, "Snapshot.segmentIndexAndLocalDocNumFromGlobal")
	searchPred, minusOne := "", false
	ast.Inspect(sg.Body, func(n ast.Node) bool {
		be, ok := n.(*ast.BinaryExpr)
		if !ok || be.Op != token.SUB {
			return true
		}
		ce, ok := be.X.(*ast.CallExpr)
		if !ok || ip.Src(ce.Fun) != "sort.Search" || len(ce.Args) != 2 {
			return true
		}
		if bl, ok := be.Y.(*ast.BasicLit); ok && bl.Value == "1" {
			minusOne = true
		}
		if ip.Src(ce.Args[0]) != "len(i.offsets)" {
			c.Refuse("segmentIndexAndLocalDocNumFromGlobal: sort.Search does not range over len(i.offsets): %s", ip.Src(ce.Args[0]))
		}
		if fl, ok := ce.Args[1].(*ast.FuncLit); ok && len(fl.Body.List) == 1 {
			if rs, ok := fl.Body.List[0].(*ast.ReturnStmt); ok && len(rs.Results) == 1 {
				searchPred = ip.Src(rs.Results[0])
			}
		}
		return true
	})
	if searchPred == "" {
		c.Refuse("segmentIndexAndLocalDocNumFromGlobal: `sort.Search(len(i.offsets), func(x int) bool { return … }) - 1` not found:\n%s", ip.Src(sg))
	}
	localOK := false
	ast.Inspect(sg.Body, func(n ast.Node) bool {
		if as, ok := n.(*ast.AssignStmt); ok && ip.Src(as) == "localDocNum = docNum - i.offsets[segmentIndex]" {
			localOK = true
		}
		return true
	})
	if !localOK {
		c.Refuse("segmentIndexAndLocalDocNumFromGlobal: `localDocNum = docNum - i.offsets[segmentIndex]` not found:\n%s", ip.Src(sg))
	}
	// the global number of a posting: `next.Number() + i.snapshot.offsets[i.segmentOffset]` in Next and Advance
	pn := c07Func(c, ip, "postingsIterator.Next")
	globals := 0
	for _, fd := range []*ast.FuncDecl{pn, pa} {
		ast.Inspect(fd.Body, func(n ast.Node) bool {
			if as, ok := n.(*ast.AssignStmt); ok && ip.Src(as) == "rvNumber := next.Number() + i.snapshot.offsets[i.segmentOffset]" {
				globals++
			}
			return true
		})
	}
	if globals != 2 {
		c.Refuse("postingsIterator.Next/Advance: `rvNumber := next.Number() + i.snapshot.offsets[i.segmentOffset]` expected once in each (found %d)", globals)
	}

	// ---- literalPrefix (search_regexp.go): a literal is returned as the prefix only when it is NOT case-folded
	lp := c07Func(c, sp, "literalPrefix")
	var lpGuard []string
	lpReturns := 0
	ast.Inspect(lp.Body, func(n ast.Node) bool {
		is, ok := n.(*ast.IfStmt)
		if !ok {
			return true
		}
		returnsRune := false
		ast.Inspect(is.Body, func(m ast.Node) bool {
			if rs, ok := m.(*ast.ReturnStmt); ok && len(rs.Results) == 1 && strings.Contains(sp.Src(rs.Results[0]), ".Rune") {
				returnsRune = true
			}
			return true
		})
		if returnsRune {
			lpReturns++
			lpGuard = c07Split(sp, is.Cond, token.LAND)
		}
		return true
	})
	if lpReturns != 1 {
		c.Refuse("literalPrefix: expected exactly one `if … { return string(s.Rune) }` (found %d):\n%s", lpReturns, sp.Src(lp))
	}
	// every other return of literalPrefix yields the empty prefix
	ast.Inspect(lp.Body, func(n ast.Node) bool {
		if rs, ok := n.(*ast.ReturnStmt); ok && len(rs.Results) == 1 {
			src := sp.Src(rs.Results[0])
			if src != `""` && !strings.Contains(src, ".Rune") {
				c.Refuse("literalPrefix returns something that is neither \"\" nor the literal's runes: %s", src)
			}
		}
		return true
	})
	noFold := false
	for _, g := range lpGuard {
		if strings.ReplaceAll(strings.ReplaceAll(strings.ReplaceAll(g, " ", ""), "(", ""), ")", "") == "s.Flags&syntax.FoldCase==0" {
			noFold = true
		}
	}

	// ---- optimizeConjunctionUnadorned.Finish: two 1-hit constituents for DIFFERENT documents make the segment empty
	cf := c07Func(c, ip, "optimizeConjunctionUnadorned.Finish")
	oneHitGuard := false
	var oneHitGuardSrc []string
	ast.Inspect(cf.Body, func(n ast.Node) bool {
		is, ok := n.(*ast.IfStmt)
		if !ok || !c07Mentions(is.Cond, "docNum1HitLastOk") || !c07Mentions(is.Cond, "docNum1Hit") {
			return true
		}
		conj := c07Split(ip, is.Cond, token.LAND)
		hasNe := false
		for _, g := range conj {
			g2 := strings.ReplaceAll(g, " ", "")
			if g2 == "docNum1HitLast!=docNum1Hit" || g2 == "docNum1Hit!=docNum1HitLast" {
				hasNe = true
			}
		}
		// the body must give the segment the empty iterator and go on with the next segment
		empties, continues := false, false
		ast.Inspect(is.Body, func(m ast.Node) bool {
			if id, ok := m.(*ast.Ident); ok && id.Name == "anEmptyPostingsIterator" {
				empties = true
			}
			if br, ok := m.(*ast.BranchStmt); ok && br.Tok == token.CONTINUE {
				continues = true
			}
			return true
		})
		if hasNe && empties && continues {
			oneHitGuard = true
			oneHitGuardSrc = conj
		}
		return true
	})

	var b strings.Builder
	b.WriteString("/-! GENERATED by /verif/go/extract (c07.go) from search/searcher/{search_disjunction,search_conjunction,\nsearch_phrase,search_filter}.go and index/{postings,snapshot}.go of the repository under check.\nDo not edit: `./check C07` rewrites this file from the working tree on every run. -/\nnamespace BlugeGen.C07\n\n")
	fmt.Fprintf(&b, "/-- `var DisjunctionHeapTakeover` (search_disjunction.go) -/\ndef disjunctionHeapTakeover : Nat := %d\n\n", takeover)
	fmt.Fprintf(&b, "/-- `var DisjunctionMaxClauseCount` (search_disjunction.go); 0 = no limit -/\ndef disjunctionMaxClauseCount : Nat := %d\n\n", maxClauses)
	fmt.Fprintf(&b, "/-- newDisjunctionSearcher: the test that selects the heap implementation (left, operator, right) -/\ndef heapSwitch : String × String × String := (%s, %s, %s)\n\n", LeanStr(sp.Src(hb.X)), LeanStr(hb.Op.String()), LeanStr(sp.Src(hb.Y)))
	fmt.Fprintf(&b, "/-- … the constructor called when it holds, and otherwise -/\ndef heapSwitchThen : String := %s\ndef heapSwitchElse : String := %s\n\n", LeanStr(heapThen), LeanStr(heapElse))
	fmt.Fprintf(&b, "/-- newDisjunctionSearcher: the conjuncts guarding the unadorned rewrite -/\ndef disjUnadornedGuard : List String := %s\n\n", c07LeanList(disjGuard))
	fmt.Fprintf(&b, "/-- optionsDisjunctionOptimizable -/\ndef optionsOptimizable : List String := %s\n\n", c07LeanList(odGuard))
	fmt.Fprintf(&b, "/-- the rewritten disjunction is wrapped in a `minSearcher` (Min() = the requested min) under these conjuncts -/\ndef disjUnadornedKeepsMin : Bool := %v\ndef disjUnadornedKeepsMinGuard : List String := %s\n\n", keepsMin, c07LeanList(keepGuard))
	fmt.Fprintf(&b, "/-- NewConjunctionSearcher: the conjuncts guarding the unadorned rewrite -/\ndef conjUnadornedGuard : List String := %s\n\n", c07LeanList(conjGuard))
	fmt.Fprintf(&b, "/-- tooManyClauses: `if <these> { return true }; return false` -/\ndef tooManyClausesGuard : List String := %s\n\n", c07LeanList(tmGuard))
	fmt.Fprintf(&b, "/-- findPhrasePaths: the disjuncts of the test under which a location is accepted\n(`dist = editDistance(prevPos+1, loc.Pos)` under `prevPos != 0`, 0 otherwise: checked by the extractor) -/\ndef phraseSlopTest : List String := %s\n\n", c07LeanList(slopTest))
	fmt.Fprintf(&b, "/-- FilteringSearcher.Advance: what is returned after the filter rejected the document the child was advanced to -/\ndef filterAdvanceFallback : String := %s\n\n", LeanStr(filterFallback))
	fmt.Fprintf(&b, "/-- postingsIterator.Advance: the conjuncts of the backward-seek (restart) test -/\ndef postingsRestartGuard : List String := %s\n\n", c07LeanList(restartGuard))
	fmt.Fprintf(&b, "/-- … the restart closes the RECEIVER (the iterator that stays in use) — the defect repaired by a8a2358 -/\ndef postingsRestartClosesReceiver : Bool := %v\n\n", closedRecv)
	fmt.Fprintf(&b, "/-- segmentIndexAndLocalDocNumFromGlobal: the predicate handed to `sort.Search(len(i.offsets), …)`, and is 1 subtracted -/\ndef segmentSearchPred : String := %s\ndef segmentSearchMinusOne : Bool := %v\n\n", LeanStr(searchPred), minusOne)
	fmt.Fprintf(&b, "/-- literalPrefix (search_regexp.go): the conjuncts under which the left-most literal of the parsed pattern is\nreturned as the prefix that confines the dictionary walk, and whether `s.Flags&syntax.FoldCase == 0` is among them\n(a case-folded literal stands for all case variants; regexp/syntax stores its UPPER-case spelling) -/\ndef literalPrefixGuard : List String := %s\ndef literalPrefixOnlyWithoutFoldCase : Bool := %v\n\n", c07LeanList(lpGuard), noFold)
	fmt.Fprintf(&b, "/-- optimizeConjunctionUnadorned.Finish (index/optimize.go): a 1-hit constituent whose document differs from the\n1-hit document seen before makes the segment's result empty (`if <these> { iterators[i] = anEmptyPostingsIterator; continue OUTER }`) -/\ndef conjUnadorned1HitDisagreementGuard : Bool := %v\ndef conjUnadorned1HitDisagreementCond : List String := %s\n\n", oneHitGuard, c07LeanList(oneHitGuardSrc))
	b.WriteString("end BlugeGen.C07\n")
	c.WriteLean("C07", b.String())
	c.Summary["facts"] = 17
	c.Summary["DisjunctionHeapTakeover"] = takeover
	c.Summary["DisjunctionMaxClauseCount"] = maxClauses
}

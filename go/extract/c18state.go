package main

// Gen for C18, second table: "analyzers are stateless across calls".
//
// receiverWrites lists, for every analysis package, every WRITE that can reach the state of a component
// value that outlives one call: starting from the receiver of every Tokenize / Filter / Analyze method
// (the object a caller shares between calls and between goroutines), a flow-insensitive taint is
// propagated inside the package
//   * to locals bound to an expression rooted at a tainted name (`r := s.ring`, `r = r.Next()`,
//     `curr := r.Value.(*T)`, `for _, x := range s.items`): they may alias receiver state;
//   * to the receiver / parameters of package functions and methods called on / with a tainted
//     expression (`s.flush(r, &n)`), and back through their results (`return s.buf`);
//   * the result of a method of ANOTHER package called on a tainted value (`r.Next()`, `r.Move(-1)`)
//     is tainted (it may point into the same structure); the result of a package-level function of
//     another package (`bytes.Runes(s.x)`) is fresh.
// A write is an assignment / inc-dec whose left-hand side is a selector, index or dereference rooted at a
// tainted name (`s.n++`, `s.buf[i] = b`, `r.Value = tok`, `s.seen[k] = true`, `s.buf = append(s.buf, x)`),
// `delete` / `copy` into such an expression, or a call of a known mutating method of another package on
// it (ring.Link/Unlink, Reset, Write*, Push/Pop, Set*, Store, Add, Grow, Truncate).
// Plain rebinding of a local (`r = r.Next()`) is not a write. BlugeProofs.C18 compares the list with a
// reviewed allowed list by `decide` (`filters_do_not_mutate_receiver`).

import (
	"go/ast"
	"go/token"
	"sort"
	"strings"
)

var c18Mutators = map[string]bool{"Link": true, "Unlink": true, "Reset": true, "Write": true, "WriteByte": true, "WriteRune": true,
	"WriteString": true, "Push": true, "Pop": true, "Set": true, "SetValue": true, "Store": true, "Add": true, "Grow": true,
	"Truncate": true, "Swap": true, "Delete": true, "Clear": true, "Insert": true, "Remove": true, "Init": true, "PushBack": true, "PushFront": true}

type c18Taint struct {
	p       *c18Pkg
	names   map[*ast.FuncDecl]map[string]bool // tainted identifiers per function
	ret     map[*ast.FuncDecl]bool            // the function may return an alias of tainted state
	changed bool
}

func (t *c18Taint) mark(fd *ast.FuncDecl, name string) {
	if name == "" || name == "_" {
		return
	}
	m := t.names[fd]
	if m == nil {
		m = map[string]bool{}
		t.names[fd] = m
	}
	if !m[name] {
		m[name] = true
		t.changed = true
	}
}

func recvVar(fd *ast.FuncDecl) string {
	if fd.Recv == nil || len(fd.Recv.List) != 1 || len(fd.Recv.List[0].Names) != 1 {
		return ""
	}
	return fd.Recv.List[0].Names[0].Name
}

func paramNames(fd *ast.FuncDecl) []string {
	var out []string
	if fd.Type.Params == nil {
		return nil
	}
	for _, f := range fd.Type.Params.List {
		if len(f.Names) == 0 {
			out = append(out, "_")
		}
		for _, n := range f.Names {
			out = append(out, n.Name)
		}
	}
	return out
}

// tainted: may the value of e alias state reachable from a tainted name of fd?
func (t *c18Taint) tainted(fd *ast.FuncDecl, e ast.Expr) bool {
	switch x := e.(type) {
	case *ast.Ident:
		return t.names[fd][x.Name]
	case *ast.SelectorExpr:
		return t.tainted(fd, x.X)
	case *ast.IndexExpr:
		return t.tainted(fd, x.X)
	case *ast.SliceExpr:
		return t.tainted(fd, x.X)
	case *ast.StarExpr:
		return t.tainted(fd, x.X)
	case *ast.ParenExpr:
		return t.tainted(fd, x.X)
	case *ast.TypeAssertExpr:
		return t.tainted(fd, x.X)
	case *ast.UnaryExpr:
		if x.Op == token.AND {
			return t.tainted(fd, x.X)
		}
	case *ast.CallExpr:
		switch f := x.Fun.(type) {
		case *ast.Ident:
			if f.Name == "append" && len(x.Args) > 0 {
				return t.tainted(fd, x.Args[0])
			}
			for _, d := range t.p.byName[f.Name] {
				if d.Recv == nil && t.ret[d] {
					return true
				}
			}
		case *ast.SelectorExpr:
			inPkg := false
			for _, d := range t.p.byName[f.Sel.Name] {
				if d.Recv != nil {
					inPkg = true
					if t.ret[d] {
						return true
					}
				}
			}
			if !inPkg {
				return t.tainted(fd, f.X) // method of another package on a tainted value
			}
		}
	}
	return false
}

// one pass over a function body: propagate taint, record calls into the package
func (t *c18Taint) pass(fd *ast.FuncDecl) {
	if fd.Body == nil {
		return
	}
	ast.Inspect(fd.Body, func(n ast.Node) bool {
		switch s := n.(type) {
		case *ast.AssignStmt:
			for i, l := range s.Lhs {
				id, ok := l.(*ast.Ident)
				if !ok {
					continue
				}
				var rhs ast.Expr
				if len(s.Lhs) == len(s.Rhs) {
					rhs = s.Rhs[i]
				} else if len(s.Rhs) == 1 && i == 0 {
					rhs = s.Rhs[0]
				}
				if rhs != nil && t.tainted(fd, rhs) {
					t.mark(fd, id.Name)
				}
			}
		case *ast.RangeStmt:
			if t.tainted(fd, s.X) {
				if v, ok := s.Value.(*ast.Ident); ok && s.Value != nil {
					t.mark(fd, v.Name)
				}
			}
		case *ast.DeclStmt:
			if gd, ok := s.Decl.(*ast.GenDecl); ok {
				for _, sp := range gd.Specs {
					if vs, ok := sp.(*ast.ValueSpec); ok {
						for i, nm := range vs.Names {
							if i < len(vs.Values) && t.tainted(fd, vs.Values[i]) {
								t.mark(fd, nm.Name)
							}
						}
					}
				}
			}
		case *ast.ReturnStmt:
			for _, r := range s.Results {
				if t.tainted(fd, r) && !t.ret[fd] {
					t.ret[fd] = true
					t.changed = true
				}
			}
		case *ast.CallExpr:
			var callees []*ast.FuncDecl
			var recv ast.Expr
			switch f := s.Fun.(type) {
			case *ast.Ident:
				for _, d := range t.p.byName[f.Name] {
					if d.Recv == nil {
						callees = append(callees, d)
					}
				}
			case *ast.SelectorExpr:
				recv = f.X
				for _, d := range t.p.byName[f.Sel.Name] {
					if d.Recv != nil {
						callees = append(callees, d)
					}
				}
			}
			for _, d := range callees {
				if recv != nil && t.tainted(fd, recv) {
					t.mark(d, recvVar(d))
				}
				ps := paramNames(d)
				for i, a := range s.Args {
					if t.tainted(fd, a) {
						k := i
						if k >= len(ps) {
							k = len(ps) - 1 // variadic tail
						}
						if k >= 0 {
							t.mark(d, ps[k])
						}
					}
				}
			}
		}
		return true
	})
}

func (t *c18Taint) writesIn(fd *ast.FuncDecl) []c18Site {
	var out []c18Site
	if fd.Body == nil || len(t.names[fd]) == 0 {
		return nil
	}
	file, fn := t.p.rel+"/"+t.p.file[fd], funcKey(fd)
	add := func(kind string, e ast.Node) {
		out = append(out, c18Site{file, fn, kind + " " + strings.Join(strings.Fields(t.p.pkg.Src(e)), " ")})
	}
	through := func(l ast.Expr) bool {
		switch l.(type) {
		case *ast.SelectorExpr, *ast.IndexExpr, *ast.StarExpr:
			return t.tainted(fd, l)
		}
		return false
	}
	ast.Inspect(fd.Body, func(n ast.Node) bool {
		switch s := n.(type) {
		case *ast.AssignStmt:
			for _, l := range s.Lhs {
				if through(l) {
					add("assign", l)
				}
			}
		case *ast.IncDecStmt:
			if through(s.X) {
				add("assign", s.X)
			}
		case *ast.CallExpr:
			switch f := s.Fun.(type) {
			case *ast.Ident:
				if (f.Name == "delete" || f.Name == "copy") && len(s.Args) > 0 && t.tainted(fd, s.Args[0]) {
					add(f.Name, s.Args[0])
				}
			case *ast.SelectorExpr:
				inPkg := false
				for _, d := range t.p.byName[f.Sel.Name] {
					if d.Recv != nil {
						inPkg = true
					}
				}
				if !inPkg && c18Mutators[f.Sel.Name] && t.tainted(fd, f.X) {
					add("call", s.Fun)
				}
			}
		}
		return true
	})
	return out
}

// receiverWrites of one package. entry reports whether fd is a method whose receiver is shared state.
func c18ReceiverWrites(p *c18Pkg, entry func(*ast.FuncDecl) bool) (sites []c18Site, entries int) {
	t := &c18Taint{p: p, names: map[*ast.FuncDecl]map[string]bool{}, ret: map[*ast.FuncDecl]bool{}}
	keys := make([]string, 0, len(p.funcs))
	for k := range p.funcs {
		keys = append(keys, k)
	}
	sort.Strings(keys)
	for _, k := range keys {
		if fd := p.funcs[k]; entry(fd) && recvVar(fd) != "" {
			t.mark(fd, recvVar(fd))
			entries++
		}
	}
	for round := 0; round < 50; round++ {
		t.changed = false
		for _, k := range keys {
			if len(t.names[p.funcs[k]]) > 0 {
				t.pass(p.funcs[k])
			}
		}
		if !t.changed {
			break
		}
	}
	for _, k := range keys {
		sites = append(sites, t.writesIn(p.funcs[k])...)
	}
	return sites, entries
}

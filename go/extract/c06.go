package main

// Gen layer of C06: the decisive statements of the merge / persist introductions, as printed by go/printer.
//
// The logic of introduceMerge / ProcessSegmentNow / introducePersist / persistSnapshotMaybeMerge / executeMergeTask is
// transcribed by hand into Bluge.Index + Bluge.C06.Model and tied to the code by the gated correspondence stream. The
// facts below guard the one-token changes a generator could miss or reach only rarely: the set algebra on the deleted
// bitmaps (AndNot / Or, and that nothing mutates a published `deleted` bitmap in place), the mapping through
// oldNewDocNums, the running offsets, the `deleted:` field of every segmentSnapshot literal, the skip condition, and the
// positional indexing task.Segments[i] <-> newDocNums[i].
//
// A fact is (function, statement) for every statement of the watched functions that mentions one of the watched names;
// statements are whitespace-normalised source text. Unrelated edits (statistics, timing, events) do not change them.

import (
	"fmt"
	"go/ast"
	"go/token"
	"sort"
	"strings"
)

func init() { Register("C06", genC06) }

var c06Watched = []string{"deleted", "oldNewDocNums", "newSegmentDeleted", "running", "offsets", "DocNumbersLive", "LiveSize",
	".old", "skipped", "obsoletes", "DocsMatchingTerms", "mergedSegmentIDs", "wasMerged", "sbsIndexes", "newDocNums", "segmentsToMerge", "docsToDrop", "oldMap"}

var c06Funcs = []string{
	"segmentMerge.ProcessSegmentNow",
	"Writer.introduceMerge",
	"Writer.introducePersist",
	"Writer.introduceSegment",
	"Writer.persistSnapshotMaybeMerge",
	"Writer.planSegmentsToMerge",
	"Writer.executeMergeTask",
	"Writer.mergeSegmentBases",
	"segmentSnapshot.Count",
	"segmentSnapshot.DocNumbersLive",
}

// in-place mutators of roaring.Bitmap
var c06Mutators = map[string]bool{"Or": true, "And": true, "AndNot": true, "Xor": true, "Add": true, "AddMany": true, "AddRange": true,
	"AddInt": true, "Remove": true, "RemoveRange": true, "Flip": true, "FlipInt": true, "Clear": true, "CheckedAdd": true, "CheckedRemove": true,
	"RunOptimize": false, "ReadFrom": true, "FromBuffer": true, "UnmarshalBinary": true}

func norm(s string) string { return strings.Join(strings.Fields(s), " ") }

func c06Mentions(s string) bool {
	if strings.Contains(s, "make(") || strings.Contains(s, "docsToPersistCount") {
		return false // allocations and statistics
	}
	for _, w := range c06Watched {
		if strings.Contains(s, w) {
			return true
		}
	}
	return false
}

func genC06(c *Ctx) {
	idx := c.ParseDir("index")
	var facts [][2]string
	add := func(fn, st string) { facts = append(facts, [2]string{fn, norm(st)}) }

	for _, name := range c06Funcs {
		fd := idx.Func(name)
		if fd == nil || fd.Body == nil {
			c.Refuse("index: %s not found", name)
		}
		short := name[strings.Index(name, ".")+1:]
		type item struct {
			pos token.Pos
			s   string
		}
		var items []item
		ast.Inspect(fd.Body, func(n ast.Node) bool {
			switch x := n.(type) {
			case *ast.AssignStmt:
				// composite literals are reported field by field below
				s := idx.Src(x)
				hasLit := false
				ast.Inspect(x, func(m ast.Node) bool {
					if _, ok := m.(*ast.CompositeLit); ok {
						hasLit = true
					}
					if _, ok := m.(*ast.FuncLit); ok {
						hasLit = true
					}
					return true
				})
				if !hasLit && c06Mentions(s) {
					items = append(items, item{x.Pos(), s})
				}
			case *ast.IncDecStmt:
				if s := idx.Src(x); c06Mentions(s) {
					items = append(items, item{x.Pos(), s})
				}
			case *ast.ExprStmt:
				if s := idx.Src(x); c06Mentions(s) {
					if _, ok := x.X.(*ast.CallExpr); ok && !strings.Contains(s, "atomic.") {
						items = append(items, item{x.Pos(), s})
					}
				}
			case *ast.IfStmt:
				s := idx.Src(x.Cond)
				// introduceSegment: the fallback lookup for a segment the optimistic obsoletes do not cover must be
				// guarded by exactly `!ok` (merge products are persisted segments with fresh ids)
				okGuard := short == "introduceSegment" && (s == "ok" || strings.Contains(s, "!ok") || strings.Contains(s, "ok &&") || strings.Contains(s, "ok ||"))
				if c06Mentions(s) || okGuard {
					items = append(items, item{x.Pos(), "if " + s})
				}
			case *ast.RangeStmt:
				if s := idx.Src(x.X); c06Mentions(s) {
					k, v := "_", "_"
					if x.Key != nil {
						k = idx.Src(x.Key)
					}
					if x.Value != nil {
						v = idx.Src(x.Value)
					}
					items = append(items, item{x.Pos(), "for " + k + ", " + v + " := range " + s})
				}
			case *ast.KeyValueExpr:
				if k, ok := x.Key.(*ast.Ident); ok && (k.Name == "deleted" || k.Name == "epoch" || k.Name == "old" || k.Name == "oldNewDocNums") &&
					!strings.Contains(idx.Src(x.Value), "make(") {
					items = append(items, item{x.Pos(), k.Name + ": " + idx.Src(x.Value)})
				}
			case *ast.ReturnStmt:
				if s := idx.Src(x); c06Mentions(s) && (short == "Count" || short == "DocNumbersLive" || short == "planSegmentsToMerge") {
					items = append(items, item{x.Pos(), s})
				}
			}
			return true
		})
		sort.Slice(items, func(i, j int) bool { return items[i].pos < items[j].pos })
		if len(items) == 0 {
			c.Refuse("index: %s mentions none of the watched names any more", name)
		}
		for _, it := range items {
			add(short, it.s)
		}
	}

	// ---- nothing mutates a published `deleted` bitmap in place: every method called ON an expression ending in .deleted,
	// in the files of the introducer, merger, persister and the segment snapshot
	var recvCalls []string
	for _, fn := range []string{"introducer.go", "merge.go", "persister.go", "segment.go", "writer.go"} {
		f, ok := idx.Files[fn]
		if !ok {
			c.Refuse("index/%s not found", fn)
		}
		ast.Inspect(f, func(n ast.Node) bool {
			call, ok := n.(*ast.CallExpr)
			if !ok {
				return true
			}
			sel, ok := call.Fun.(*ast.SelectorExpr)
			if !ok {
				return true
			}
			recv := idx.Src(sel.X)
			if strings.HasSuffix(recv, ".deleted") || recv == "deleted" {
				tag := "reads"
				if c06Mutators[sel.Sel.Name] {
					tag = "MUTATES"
				}
				recvCalls = append(recvCalls, fmt.Sprintf("%s %s %s.%s", fn, tag, norm(recv), sel.Sel.Name))
			}
			return true
		})
	}
	sort.Strings(recvCalls)
	uniq := recvCalls[:0]
	for i, s := range recvCalls {
		if i == 0 || s != recvCalls[i-1] {
			uniq = append(uniq, s)
		}
	}
	for _, s := range uniq {
		add("methods-called-on-a-deleted-bitmap", s)
	}

	var b strings.Builder
	b.WriteString("/-! GENERATED by go/extract (c06.go) from index/introducer.go, merge.go, persister.go, segment.go — do not edit.\n")
	b.WriteString("The statements of the merge / persist introductions that mention the deleted bitmaps, the doc-number tables,\n")
	b.WriteString("the running offsets and the bookkeeping of `old`, as normalised source text. -/\n")
	b.WriteString("namespace BlugeGen.C06\n\n")
	b.WriteString("def facts : List (String × String) := [\n")
	for i, f := range facts {
		sep := ","
		if i == len(facts)-1 {
			sep = ""
		}
		fmt.Fprintf(&b, "  (%s, %s)%s\n", LeanStr(f[0]), LeanStr(f[1]), sep)
	}
	b.WriteString("]\n\nend BlugeGen.C06\n")
	c.WriteLean("C06", b.String())
	c.Summary["facts"] = len(facts)
}

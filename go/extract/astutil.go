package main

import (
	"bytes"
	"go/ast"
	"go/parser"
	"go/printer"
	"go/token"
	"os"
	"path/filepath"
	"strings"
)

// Pkg is one parsed directory of /repo (test files excluded; build-tagged verif files excluded).
type Pkg struct {
	Fset  *token.FileSet
	Files map[string]*ast.File
	Dir   string
}

func (c *Ctx) ParseDir(rel string) *Pkg {
	dir := filepath.Join(c.Repo, rel)
	fset := token.NewFileSet()
	ents, err := os.ReadDir(dir)
	if err != nil {
		c.Refuse("cannot read %s: %v", dir, err)
	}
	p := &Pkg{Fset: fset, Files: map[string]*ast.File{}, Dir: dir}
	for _, e := range ents {
		n := e.Name()
		if e.IsDir() || !strings.HasSuffix(n, ".go") || strings.HasSuffix(n, "_test.go") || strings.Contains(n, "verif") {
			continue
		}
		f, err := parser.ParseFile(fset, filepath.Join(dir, n), nil, parser.ParseComments)
		if err != nil {
			c.Refuse("parse %s: %v", n, err)
		}
		p.Files[n] = f
	}
	return p
}

// Func finds a function or method declaration: "Name" or "Recv.Name" (Recv without '*').
func (p *Pkg) Func(name string) *ast.FuncDecl {
	recv, fn := "", name
	if i := strings.Index(name, "."); i >= 0 {
		recv, fn = name[:i], name[i+1:]
	}
	for _, f := range p.Files {
		for _, d := range f.Decls {
			fd, ok := d.(*ast.FuncDecl)
			if !ok || fd.Name.Name != fn {
				continue
			}
			r := ""
			if fd.Recv != nil && len(fd.Recv.List) == 1 {
				t := fd.Recv.List[0].Type
				if s, ok := t.(*ast.StarExpr); ok {
					t = s.X
				}
				if id, ok := t.(*ast.Ident); ok {
					r = id.Name
				}
			}
			if r == recv {
				return fd
			}
		}
	}
	return nil
}

// Src renders a node back to source (used in facts and refusal messages).
func (p *Pkg) Src(n ast.Node) string {
	var b bytes.Buffer
	_ = printer.Fprint(&b, p.Fset, n)
	return b.String()
}

// LeanStr renders a Go string as a Lean string literal.
func LeanStr(s string) string {
	var b strings.Builder
	b.WriteByte('"')
	for _, r := range s {
		switch r {
		case '"':
			b.WriteString("\\\"")
		case '\\':
			b.WriteString("\\\\")
		case '\n':
			b.WriteString("\\n")
		case '\t':
			b.WriteString("\\t")
		default:
			b.WriteRune(r)
		}
	}
	b.WriteByte('"')
	return b.String()
}

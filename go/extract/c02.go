package main

// Gen layer of C02 (and, through shared helpers, C11): fact tables about statement ORDER and LOCK
// REGIONS in /repo/index that no execution can observe reliably. Every fact is coarse and
// syntactically normalised (positions of calls relative to each other, sets of field names);
// BlugeProofs.C02 / BlugeProofs.C11 hold one `decide` obligation per fact.

import (
	"fmt"
	"go/ast"
	"go/token"
	"sort"
	"strings"
)

func init() { Register("C02", genC02) }

// sel returns "a.b.c" for a selector chain of identifiers, "" otherwise.
func selName(e ast.Expr) string {
	switch x := e.(type) {
	case *ast.Ident:
		return x.Name
	case *ast.SelectorExpr:
		p := selName(x.X)
		if p == "" {
			return ""
		}
		return p + "." + x.Sel.Name
	}
	return ""
}

type callSite struct {
	name string
	pos  token.Pos
	end  token.Pos
	call *ast.CallExpr
}

// calls lists every call in n in source order.
func callsIn(n ast.Node) []callSite {
	var out []callSite
	ast.Inspect(n, func(m ast.Node) bool {
		if c, ok := m.(*ast.CallExpr); ok {
			out = append(out, callSite{name: selName(c.Fun), pos: c.Pos(), end: c.End(), call: c})
		}
		return true
	})
	sort.Slice(out, func(i, j int) bool { return out[i].pos < out[j].pos })
	return out
}

func firstCall(cs []callSite, name string, pred func(*ast.CallExpr) bool) (callSite, bool) {
	for _, c := range cs {
		if c.name == name && (pred == nil || pred(c.call)) {
			return c, true
		}
	}
	return callSite{}, false
}

func argIs(i int, ident string) func(*ast.CallExpr) bool {
	return func(c *ast.CallExpr) bool {
		return len(c.Args) > i && selName(c.Args[i]) == ident
	}
}

func leanStrs(xs []string) string {
	q := make([]string, len(xs))
	for i, x := range xs {
		q[i] = LeanStr(x)
	}
	return "[" + strings.Join(q, ", ") + "]"
}

func leanBool(b bool) string {
	if b {
		return "true"
	}
	return "false"
}

func sortedSet(m map[string]bool) []string {
	var out []string
	for k := range m {
		out = append(out, k)
	}
	sort.Strings(out)
	return out
}

// isErrNilReturn: `if err != nil { … return … }`
func isErrCheckReturning(st ast.Stmt) bool {
	is, ok := st.(*ast.IfStmt)
	if !ok {
		return false
	}
	be, ok := is.Cond.(*ast.BinaryExpr)
	if !ok || be.Op != token.NEQ || selName(be.X) != "err" || selName(be.Y) != "nil" {
		return false
	}
	if len(is.Body.List) == 0 {
		return false
	}
	_, ret := is.Body.List[len(is.Body.List)-1].(*ast.ReturnStmt)
	return ret
}

// stmtAfter finds, in any block of fn, the statement that directly follows the statement containing pos.
func stmtAfter(fn ast.Node, pos token.Pos) ast.Stmt {
	var res ast.Stmt
	ast.Inspect(fn, func(m ast.Node) bool {
		b, ok := m.(*ast.BlockStmt)
		if !ok {
			return true
		}
		for i, st := range b.List {
			if st.Pos() <= pos && pos < st.End() {
				// the innermost block wins: keep descending
				if i+1 < len(b.List) {
					res = b.List[i+1]
				} else {
					res = nil
				}
			}
		}
		return true
	})
	return res
}

type c02facts struct {
	grabLockPairs     int
	grabReads         []string
	grabResets        []string
	grabOutside       []string
	grabTraceInside   bool
	directOrder       []string
	directErrChecked  []bool
	ackAfterPersist   bool
	errSentOnFailure  bool
	cbAfterErrBranch  bool
	lastPersistedOnOk bool
	waitsUnlessUnsafe bool
	removeExclFirst   bool
	persistSyncOrder  []string
	ackFieldUsers     []string
	closeTouchesAcks  bool
	loadCommitCalls   int
	loadCommitOnErr   bool
}

func extractC02(c *Ctx) c02facts {
	var f c02facts
	idx := c.ParseDir("index")

	// ---- persisterLoop: the grab
	pl := idx.Func("Writer.persisterLoop")
	if pl == nil {
		c.Refuse("index: func (*Writer) persisterLoop not found")
	}
	recv := "s"
	if pl.Recv != nil && len(pl.Recv.List) == 1 && len(pl.Recv.List[0].Names) == 1 {
		recv = pl.Recv.List[0].Names[0].Name
	}
	cs := callsIn(pl.Body)
	var locks, unlocks []callSite
	for _, x := range cs {
		switch x.name {
		case recv + ".rootLock.Lock":
			locks = append(locks, x)
		case recv + ".rootLock.Unlock":
			unlocks = append(unlocks, x)
		}
	}
	if len(locks) != len(unlocks) {
		c.Refuse("persisterLoop: %d rootLock.Lock() vs %d Unlock()", len(locks), len(unlocks))
	}
	f.grabLockPairs = len(locks)
	inRegion := func(p token.Pos) bool {
		for i := range locks {
			if locks[i].pos < p && p < unlocks[i].pos {
				return true
			}
		}
		return false
	}
	watched := map[string]bool{"root": true, "rootPersisted": true, "persistedCallbacks": true}
	reads, resets, outside := map[string]bool{}, map[string]bool{}, map[string]bool{}
	ast.Inspect(pl.Body, func(m ast.Node) bool {
		switch x := m.(type) {
		case *ast.AssignStmt:
			for i, l := range x.Lhs {
				n := selName(l)
				if strings.HasPrefix(n, recv+".") && watched[strings.TrimPrefix(n, recv+".")] {
					fld := strings.TrimPrefix(n, recv+".")
					if !inRegion(l.Pos()) {
						outside[fld] = true
					} else if i < len(x.Rhs) && selName(x.Rhs[i]) == "nil" {
						resets[fld] = true
					} else {
						outside[fld+":assigned-non-nil"] = true
					}
				}
			}
		case *ast.SelectorExpr:
			n := selName(x)
			if strings.HasPrefix(n, recv+".") && watched[strings.TrimPrefix(n, recv+".")] {
				fld := strings.TrimPrefix(n, recv+".")
				if inRegion(x.Pos()) {
					reads[fld] = true
				} else {
					outside[fld] = true
				}
			}
		}
		return true
	})
	f.grabReads, f.grabResets, f.grabOutside = sortedSet(reads), sortedSet(resets), sortedSet(outside)
	if tr, ok := firstCall(cs, "verifTrace", func(c *ast.CallExpr) bool {
		if len(c.Args) > 1 {
			if bl, ok := c.Args[1].(*ast.BasicLit); ok {
				return bl.Value == `"grab"`
			}
		}
		return false
	}); ok {
		f.grabTraceInside = inRegion(tr.pos)
	} else {
		f.grabTraceInside = true // hook absent (tag off tree): nothing to place
	}

	// ---- persisterLoop: acknowledgements after persistSnapshot returned
	ps, ok := firstCall(cs, recv+".persistSnapshot", nil)
	if !ok {
		c.Refuse("persisterLoop: call of persistSnapshot not found")
	}
	nclose, ncb := 0, 0
	f.ackAfterPersist = true
	var errContinueEnd token.Pos
	ast.Inspect(pl.Body, func(m ast.Node) bool {
		switch x := m.(type) {
		case *ast.RangeStmt:
			if selName(x.X) == "ourPersisted" {
				for _, cc := range callsIn(x.Body) {
					if cc.name == "close" {
						nclose++
						if cc.pos < ps.end {
							f.ackAfterPersist = false
						}
					}
				}
				// `if err != nil { ch <- err }` before the close
				ast.Inspect(x.Body, func(k ast.Node) bool {
					if is, ok := k.(*ast.IfStmt); ok {
						if be, ok := is.Cond.(*ast.BinaryExpr); ok && be.Op == token.NEQ && selName(be.X) == "err" && selName(be.Y) == "nil" {
							for _, st := range is.Body.List {
								if snd, ok := st.(*ast.SendStmt); ok && selName(snd.Value) == "err" {
									f.errSentOnFailure = true
								}
							}
						}
					}
					return true
				})
				if x.Pos() < ps.end {
					f.ackAfterPersist = false
				}
			}
		case *ast.CallExpr:
			if ie, ok := x.Fun.(*ast.IndexExpr); ok && selName(ie.X) == "ourPersistedCallbacks" {
				ncb++
				if x.Pos() < ps.end {
					f.ackAfterPersist = false
				}
				if errContinueEnd == 0 || x.Pos() < errContinueEnd {
					f.cbAfterErrBranch = false
				} else {
					f.cbAfterErrBranch = true
				}
			}
		case *ast.IfStmt:
			// the error branch after persistSnapshot: `if err != nil { … continue OUTER }`
			if be, ok := x.Cond.(*ast.BinaryExpr); ok && be.Op == token.NEQ && selName(be.X) == "err" && selName(be.Y) == "nil" && x.Pos() > ps.end {
				if n := len(x.Body.List); n > 0 {
					if br, ok := x.Body.List[n-1].(*ast.BranchStmt); ok && br.Tok == token.CONTINUE && errContinueEnd == 0 {
						errContinueEnd = x.End()
					}
				}
			}
		case *ast.AssignStmt:
			if len(x.Lhs) == 1 && selName(x.Lhs[0]) == "lastPersistedEpoch" && errContinueEnd != 0 && x.Pos() > errContinueEnd {
				f.lastPersistedOnOk = true
			}
		}
		return true
	})
	if nclose == 0 || ncb == 0 {
		c.Refuse("persisterLoop: %d channel closes and %d callback invocations found", nclose, ncb)
	}

	// ---- persistSnapshotDirect: segments -> prepareIntroducePersist -> snapshot -> Commit
	pd := idx.Func("Writer.persistSnapshotDirect")
	if pd == nil {
		c.Refuse("index: persistSnapshotDirect not found")
	}
	r2 := "s"
	if len(pd.Recv.List[0].Names) == 1 {
		r2 = pd.Recv.List[0].Names[0].Name
	}
	for _, x := range callsIn(pd.Body) {
		switch {
		case x.name == r2+".directory.Persist" && argIs(0, "ItemKindSegment")(x.call):
			f.directOrder = append(f.directOrder, "persist-segment")
			f.directErrChecked = append(f.directErrChecked, isErrCheckReturning(stmtAfter(pd.Body, x.pos)))
		case x.name == r2+".directory.Persist" && argIs(0, "ItemKindSnapshot")(x.call):
			f.directOrder = append(f.directOrder, "persist-snapshot")
			f.directErrChecked = append(f.directErrChecked, isErrCheckReturning(stmtAfter(pd.Body, x.pos)))
		case x.name == r2+".directory.Persist":
			f.directOrder = append(f.directOrder, "persist-unknown-kind")
		case x.name == r2+".prepareIntroducePersist":
			f.directOrder = append(f.directOrder, "introduce-persist")
			f.directErrChecked = append(f.directErrChecked, isErrCheckReturning(stmtAfter(pd.Body, x.pos)))
		case x.name == r2+".deletionPolicy.Commit":
			f.directOrder = append(f.directOrder, "commit")
		}
	}

	// ---- prepareSegment: block on introduction.persisted unless UnsafeBatch
	pg := idx.Func("Writer.prepareSegment")
	if pg == nil {
		c.Refuse("index: prepareSegment not found")
	}
	madeUnderGuard, waits, waitAfterApplied := false, false, false
	var appliedPos token.Pos
	ast.Inspect(pg.Body, func(m ast.Node) bool {
		switch x := m.(type) {
		case *ast.IfStmt:
			// if !s.config.UnsafeBatch { introduction.persisted = make(chan error, 1) }
			if u, ok := x.Cond.(*ast.UnaryExpr); ok && u.Op == token.NOT && strings.HasSuffix(selName(u.X), ".config.UnsafeBatch") {
				for _, st := range x.Body.List {
					if as, ok := st.(*ast.AssignStmt); ok && len(as.Lhs) == 1 && selName(as.Lhs[0]) == "introduction.persisted" {
						madeUnderGuard = true
					}
				}
			}
			// if introduction.persisted != nil { err = <-introduction.persisted }
			if be, ok := x.Cond.(*ast.BinaryExpr); ok && be.Op == token.NEQ && selName(be.X) == "introduction.persisted" && selName(be.Y) == "nil" {
				for _, st := range x.Body.List {
					if as, ok := st.(*ast.AssignStmt); ok && len(as.Rhs) == 1 {
						if u, ok := as.Rhs[0].(*ast.UnaryExpr); ok && u.Op == token.ARROW && selName(u.X) == "introduction.persisted" {
							waits = true
							waitAfterApplied = appliedPos != 0 && x.Pos() > appliedPos
						}
					}
				}
			}
		case *ast.UnaryExpr:
			if x.Op == token.ARROW && selName(x.X) == "introduction.applied" {
				appliedPos = x.Pos()
			}
		}
		return true
	})
	f.waitsUnlessUnsafe = madeUnderGuard && waits && waitAfterApplied

	// ---- remove: exclusive open before os.Remove
	rm := funcInFile(idx, "directory_fs_nix.go", "remove")
	if rm == nil {
		c.Refuse("index: (*FileSystemDirectory).remove not found (directory_fs_nix.go)")
	}
	rcs := callsIn(rm.Body)
	op, ok1 := firstCall(rcs, "d.openExclusive", nil)
	rr, ok2 := firstCall(rcs, "os.Remove", nil)
	f.removeExclFirst = ok1 && ok2 && op.pos < rr.pos && isErrCheckReturning(stmtAfter(rm.Body, op.pos))

	// ---- FileSystemDirectory.Persist: write -> Sync -> Close, each error-checked (C13 owns the details)
	fp := idx.Func("FileSystemDirectory.Persist")
	if fp != nil {
		for _, x := range callsIn(fp.Body) {
			switch {
			case x.name == "d.openExclusive":
				f.persistSyncOrder = append(f.persistSyncOrder, "open-exclusive")
			case x.name == "w.WriteTo":
				f.persistSyncOrder = append(f.persistSyncOrder, "write")
			case calledMethod(x.call) == "Sync":
				f.persistSyncOrder = append(f.persistSyncOrder, "sync")
			case x.name == "f.Close" && !inFuncLit(fp.Body, x.pos):
				f.persistSyncOrder = append(f.persistSyncOrder, "close")
			}
		}
	}
	// ---- acknowledgements are released only by persisterLoop: which functions of package index mention
	// Writer.rootPersisted / Writer.persistedCallbacks at all (replaceRoot appends, persisterLoop grabs)
	users := map[string]bool{}
	for _, file := range idx.Files {
		for _, d := range file.Decls {
			fd, ok := d.(*ast.FuncDecl)
			if !ok || fd.Body == nil {
				continue
			}
			name := fd.Name.Name
			ast.Inspect(fd.Body, func(m ast.Node) bool {
				if se, ok := m.(*ast.SelectorExpr); ok && (se.Sel.Name == "rootPersisted" || se.Sel.Name == "persistedCallbacks") {
					users[name] = true
				}
				return true
			})
		}
	}
	f.ackFieldUsers = sortedSet(users)
	if cl := idx.Func("Writer.close"); cl != nil {
		for _, x := range callsIn(cl.Body) {
			// any close(…) other than close(s.closeCh), any send, any call of a func-typed element
			if x.name == "close" && len(x.call.Args) == 1 && !strings.HasSuffix(selName(x.call.Args[0]), ".closeCh") {
				f.closeTouchesAcks = true
			}
			if _, ok := x.call.Fun.(*ast.IndexExpr); ok {
				f.closeTouchesAcks = true
			}
		}
	} else {
		c.Refuse("index: (*Writer).close not found")
	}
	f.loadCommitCalls, f.loadCommitOnErr = loadSnapshotsCommitFacts(c, idx)
	return f
}

// loadSnapshotsCommitFacts: how many deletionPolicy.Commit calls loadSnapshots contains, and whether any of them
// sits in an error branch (`if err != nil { … }`, or the else of `if err == nil`): only a snapshot that LOADED may be
// committed to the policy — committing an unloadable (torn newest) epoch makes the last good one deletable.
func loadSnapshotsCommitFacts(c *Ctx, idx *Pkg) (int, bool) {
	ls := idx.Func("Writer.loadSnapshots")
	if ls == nil {
		c.Refuse("index: loadSnapshots not found")
	}
	n, onErr := 0, false
	var errBranches []ast.Node
	ast.Inspect(ls.Body, func(m ast.Node) bool {
		if is, ok := m.(*ast.IfStmt); ok {
			if be, ok := is.Cond.(*ast.BinaryExpr); ok && strings.HasPrefix(strings.ToLower(selName(be.X)), "err") && selName(be.Y) == "nil" {
				if be.Op == token.NEQ {
					errBranches = append(errBranches, is.Body)
				} else if be.Op == token.EQL && is.Else != nil {
					errBranches = append(errBranches, is.Else)
				}
			}
		}
		return true
	})
	for _, x := range callsIn(ls.Body) {
		if strings.HasSuffix(x.name, ".deletionPolicy.Commit") || calledMethod(x.call) == "Commit" {
			n++
			for _, b := range errBranches {
				if b.Pos() <= x.pos && x.pos < b.End() {
					onErr = true
				}
			}
		}
	}
	return n, onErr
}

// calledMethod is the method name of a call `….Name(…)`, whatever the receiver expression.
func calledMethod(c *ast.CallExpr) string {
	if se, ok := c.Fun.(*ast.SelectorExpr); ok {
		return se.Sel.Name
	}
	return ""
}

// funcInFile finds a function or method by name in one named file of the package.
func funcInFile(p *Pkg, file, name string) *ast.FuncDecl {
	f, ok := p.Files[file]
	if !ok {
		return nil
	}
	for _, d := range f.Decls {
		if fd, ok := d.(*ast.FuncDecl); ok && fd.Name.Name == name {
			return fd
		}
	}
	return nil
}

func inFuncLit(root ast.Node, pos token.Pos) bool {
	in := false
	ast.Inspect(root, func(m ast.Node) bool {
		if fl, ok := m.(*ast.FuncLit); ok && fl.Pos() <= pos && pos < fl.End() {
			in = true
		}
		return true
	})
	return in
}

func genC02(c *Ctx) {
	f := extractC02(c)
	var b strings.Builder
	b.WriteString("/-! GENERATED by go/extract (c02.go) from /repo/index — do not edit.\nFacts about statement order and lock regions of the persister (see BlugeProofs.C02 for the obligations). -/\nnamespace BlugeGen.C02\n\n")
	fmt.Fprintf(&b, "/-- number of rootLock.Lock()/Unlock() pairs in persisterLoop -/\ndef grabLockPairs : Nat := %d\n", f.grabLockPairs)
	fmt.Fprintf(&b, "/-- Writer fields among root/rootPersisted/persistedCallbacks read inside that region -/\ndef grabReads : List String := %s\n", leanStrs(f.grabReads))
	fmt.Fprintf(&b, "/-- … reset to nil inside that region -/\ndef grabResets : List String := %s\n", leanStrs(f.grabResets))
	fmt.Fprintf(&b, "/-- … touched by persisterLoop OUTSIDE the region -/\ndef grabOutside : List String := %s\n", leanStrs(f.grabOutside))
	fmt.Fprintf(&b, "/-- the verif trace point \"grab\" lies inside the region -/\ndef grabTraceInside : Bool := %s\n", leanBool(f.grabTraceInside))
	fmt.Fprintf(&b, "/-- calls of persistSnapshotDirect in source order -/\ndef directOrder : List String := %s\n", leanStrs(f.directOrder))
	bs := make([]string, len(f.directErrChecked))
	for i, x := range f.directErrChecked {
		bs[i] = leanBool(x)
	}
	fmt.Fprintf(&b, "/-- each of segment Persist / prepareIntroducePersist / snapshot Persist is directly followed by `if err != nil { return … }` -/\ndef directErrChecked : List Bool := [%s]\n", strings.Join(bs, ", "))
	fmt.Fprintf(&b, "/-- every close of a grabbed channel and every callback invocation comes after persistSnapshot returned -/\ndef ackAfterPersist : Bool := %s\n", leanBool(f.ackAfterPersist))
	fmt.Fprintf(&b, "/-- on failure the error is sent into the channel before it is closed -/\ndef errSentOnFailure : Bool := %s\n", leanBool(f.errSentOnFailure))
	fmt.Fprintf(&b, "/-- the callbacks are invoked only after the `if err != nil { … continue OUTER }` branch -/\ndef cbAfterErrBranch : Bool := %s\n", leanBool(f.cbAfterErrBranch))
	fmt.Fprintf(&b, "/-- lastPersistedEpoch is assigned only after that branch -/\ndef lastPersistedOnOk : Bool := %s\n", leanBool(f.lastPersistedOnOk))
	fmt.Fprintf(&b, "/-- prepareSegment creates introduction.persisted iff !UnsafeBatch and, after `applied`, blocks on it when non-nil -/\ndef waitsUnlessUnsafe : Bool := %s\n", leanBool(f.waitsUnlessUnsafe))
	fmt.Fprintf(&b, "/-- remove: openExclusive (error-checked) before os.Remove -/\ndef removeExclFirst : Bool := %s\n", leanBool(f.removeExclFirst))
	fmt.Fprintf(&b, "/-- FileSystemDirectory.Persist: calls in source order -/\ndef persistSyncOrder : List String := %s\n", leanStrs(f.persistSyncOrder))
	fmt.Fprintf(&b, "/-- the functions of package index that mention Writer.rootPersisted / Writer.persistedCallbacks -/\ndef ackFieldUsers : List String := %s\n", leanStrs(f.ackFieldUsers))
	fmt.Fprintf(&b, "/-- Writer.close closes a channel other than closeCh, or invokes an element of a callback slice -/\ndef closeTouchesAcks : Bool := %s\n", leanBool(f.closeTouchesAcks))
	fmt.Fprintf(&b, "/-- loadSnapshots: number of deletionPolicy.Commit calls, and whether one of them lies in an error branch -/\ndef loadCommitCalls : Nat := %d\ndef loadCommitOnErr : Bool := %s\n", f.loadCommitCalls, leanBool(f.loadCommitOnErr))
	b.WriteString("\nend BlugeGen.C02\n")
	c.WriteLean("C02", b.String())
	c.Summary["facts"] = 16
	c.Summary["grabLockPairs"] = f.grabLockPairs
	c.Summary["directOrder"] = strings.Join(f.directOrder, ">")
}

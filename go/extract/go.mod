module verif/extract

go 1.21

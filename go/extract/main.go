// Command extract regenerates the Gen layer of the Lean model from /repo's CURRENT working tree.
//
//	extract -repo /repo -out /verif/lean/BlugeGen -prop C10 -facts work/C10/facts.json
//
// Each property registers a generator (file cNN.go, func init(){ Register("CNN", genCNN) }).
// A generator parses the Go sources it is anchored in (go/parser, go/ast, go/types only),
// and writes lean/BlugeGen/<PROP>.lean: translated kernels (Lean defs) and/or fact tables
// (Lean data that `decide`/`rfl` obligations in BlugeProofs.<PROP> are stated over).
// A generator that meets source outside the subset it understands REFUSES (non-zero exit,
// reason on stderr): ./check reports that as a broken obligation, never as a pass.
package main

import (
	"encoding/json"
	"flag"
	"fmt"
	"os"
	"path/filepath"
	"sort"
)

type Ctx struct {
	Repo    string
	Out     string
	Prop    string
	Summary map[string]interface{} // copied into evidence coverage.gen
}

// Refuse aborts the generation of this property with a reason.
func (c *Ctx) Refuse(format string, a ...interface{}) {
	fmt.Fprintf(os.Stderr, "REFUSED %s: %s\n", c.Prop, fmt.Sprintf(format, a...))
	os.Exit(3)
}

// WriteLean writes lean/BlugeGen/<name>.lean only when the content changed.
func (c *Ctx) WriteLean(name, content string) {
	p := filepath.Join(c.Out, name+".lean")
	old, err := os.ReadFile(p)
	if err == nil && string(old) == content {
		return
	}
	if err := os.WriteFile(p, []byte(content), 0o644); err != nil {
		c.Refuse("cannot write %s: %v", p, err)
	}
}

var registry = map[string]func(*Ctx){}

func Register(prop string, f func(*Ctx)) { registry[prop] = f }

func main() {
	repo := flag.String("repo", "/repo", "")
	out := flag.String("out", "", "")
	prop := flag.String("prop", "", "property id, or 'all'")
	facts := flag.String("facts", "", "")
	flag.Parse()
	if *out == "" {
		fmt.Fprintln(os.Stderr, "need -out")
		os.Exit(2)
	}
	_ = os.MkdirAll(*out, 0o755)
	props := []string{*prop}
	if *prop == "all" {
		props = nil
		for p := range registry {
			props = append(props, p)
		}
		sort.Strings(props)
	}
	for _, p := range props {
		f, ok := registry[p]
		if !ok {
			fmt.Fprintf(os.Stderr, "no generator registered for %s\n", p)
			os.Exit(2)
		}
		c := &Ctx{Repo: *repo, Out: *out, Prop: p, Summary: map[string]interface{}{}}
		f(c)
		if *facts != "" && len(props) == 1 {
			b, _ := json.MarshalIndent(map[string]interface{}{"summary": c.Summary}, "", " ")
			_ = os.WriteFile(*facts, b, 0o644)
		}
		fmt.Printf("generated %s\n", p)
	}
}

package main

// Gen for C20 (highlighter, package search/highlight). Written to lean/BlugeGen/C20.lean:
//
//   - the constants the model spells out as bytes: DefaultSeparator, the HTML marks, the ANSI colour and
//     reset codes, the default fragment size (resolved through the constructors that use them);
//   - the comparison kernels as Lean definitions translated from the source expressions:
//     TermLocation.Overlaps, Fragment.Overlaps, TermLocations.Less, the "inside the fragment" test of the
//     scorer; BlugeProofs.C20 proves each equal to what the hand-written model uses;
//   - a fact table (normalised source text; local identifiers are `_`) of the statement order and guards of
//     the two Format loops, of MergeOverlapping, and of the loop conditions and bail tests of Fragment;
//   - `variant`: which of the proposed repairs (work/C20/fix-1..5) the tree contains, recognised by the
//     exact guard forms (fix-4: `Less` compares (Start, End); fix-5: MergeOverlapping keeps the larger End);
//     the model driver and the theorems about "this tree" use it.
//
// Anything outside the recognised shapes is a refusal.

import (
	"fmt"
	"go/ast"
	"go/token"
	"strconv"
	"strings"
)

func init() { Register("C20", genC20) }

type c20gen struct {
	ctx   *Ctx
	pkg   *Pkg
	facts [][2]string
}

func (g *c20gen) add(k, v string) { g.facts = append(g.facts, [2]string{k, v}) }

func (g *c20gen) fn(name string) *ast.FuncDecl {
	fd := g.pkg.Func(name)
	if fd == nil || fd.Body == nil {
		g.ctx.Refuse("function %s not found in search/highlight", name)
	}
	return fd
}

// norm renders an expression with local identifiers replaced by "_" (package names, field names, called
// functions, literals and operators are kept).
func (g *c20gen) norm(e ast.Expr) string {
	switch x := e.(type) {
	case *ast.Ident:
		switch x.Name {
		case "nil", "true", "false", "utf8", "html", "len", "string", "Reset":
			return x.Name
		}
		return "_"
	case *ast.BasicLit:
		return x.Value
	case *ast.ParenExpr:
		return "(" + g.norm(x.X) + ")"
	case *ast.SelectorExpr:
		return g.norm(x.X) + "." + x.Sel.Name
	case *ast.IndexExpr:
		return g.norm(x.X) + "[" + g.norm(x.Index) + "]"
	case *ast.SliceExpr:
		lo, hi := "", ""
		if x.Low != nil {
			lo = g.norm(x.Low)
		}
		if x.High != nil {
			hi = g.norm(x.High)
		}
		return g.norm(x.X) + "[" + lo + ":" + hi + "]"
	case *ast.UnaryExpr:
		return x.Op.String() + g.norm(x.X)
	case *ast.BinaryExpr:
		return g.norm(x.X) + " " + x.Op.String() + " " + g.norm(x.Y)
	case *ast.CallExpr:
		parts := make([]string, len(x.Args))
		for i, a := range x.Args {
			parts[i] = g.norm(a)
		}
		return g.norm(x.Fun) + "(" + strings.Join(parts, ", ") + ")"
	}
	g.ctx.Refuse("expression outside the understood subset: `%s`", g.pkg.Src(e))
	return ""
}

// stmt renders a simple statement in normalised form.
func (g *c20gen) stmt(s ast.Stmt) string {
	switch x := s.(type) {
	case *ast.AssignStmt:
		l := make([]string, len(x.Lhs))
		for i, e := range x.Lhs {
			l[i] = g.norm(e)
		}
		r := make([]string, len(x.Rhs))
		for i, e := range x.Rhs {
			r[i] = g.norm(e)
		}
		return strings.Join(l, ", ") + " " + x.Tok.String() + " " + strings.Join(r, ", ")
	case *ast.IncDecStmt:
		return g.norm(x.X) + x.Tok.String()
	case *ast.BranchStmt:
		if x.Label != nil {
			return x.Tok.String() + " L"
		}
		return x.Tok.String()
	case *ast.ExprStmt:
		return g.norm(x.X)
	case *ast.ReturnStmt:
		r := make([]string, len(x.Results))
		for i, e := range x.Results {
			r[i] = g.norm(e)
		}
		return "return " + strings.Join(r, ", ")
	case *ast.DeclStmt:
		return strings.Join(strings.Fields(g.pkg.Src(x)), " ")
	case *ast.RangeStmt:
		return "range " + g.norm(x.X) + " { " + g.block(x.Body) + " }"
	case *ast.IfStmt:
		if x.Init != nil {
			g.ctx.Refuse("if with init statement: `%s`", g.pkg.Src(x))
		}
		out := "if " + g.norm(x.Cond) + " { " + g.block(x.Body) + " }"
		switch e := x.Else.(type) {
		case nil:
		case *ast.BlockStmt:
			out += " else { " + g.block(e) + " }"
		case *ast.IfStmt:
			out += " else " + g.stmt(e)
		}
		return out
	}
	g.ctx.Refuse("statement outside the understood subset: `%s`", g.pkg.Src(s))
	return ""
}

func (g *c20gen) block(b *ast.BlockStmt) string {
	parts := make([]string, len(b.List))
	for i, s := range b.List {
		parts[i] = g.stmt(s)
	}
	return strings.Join(parts, "; ")
}

// ---------------------------------------------------------------- constants

type c20consts struct {
	str map[string]string
	num map[string]int64
	ref map[string]string
}

func (g *c20gen) consts() *c20consts {
	cs := &c20consts{str: map[string]string{}, num: map[string]int64{}, ref: map[string]string{}}
	for _, f := range g.pkg.Files {
		for _, d := range f.Decls {
			gd, ok := d.(*ast.GenDecl)
			if !ok || gd.Tok != token.CONST {
				continue
			}
			for _, sp := range gd.Specs {
				vs := sp.(*ast.ValueSpec)
				for i, n := range vs.Names {
					if i >= len(vs.Values) {
						continue
					}
					switch v := vs.Values[i].(type) {
					case *ast.BasicLit:
						switch v.Kind {
						case token.STRING:
							s, err := strconv.Unquote(v.Value)
							if err != nil {
								g.ctx.Refuse("constant %s: %v", n.Name, err)
							}
							cs.str[n.Name] = s
						case token.INT:
							k, err := strconv.ParseInt(v.Value, 0, 64)
							if err != nil {
								g.ctx.Refuse("constant %s: %v", n.Name, err)
							}
							cs.num[n.Name] = k
						}
					case *ast.Ident:
						cs.ref[n.Name] = v.Name
					}
				}
			}
		}
	}
	return cs
}

func (cs *c20consts) strOf(g *c20gen, name string) string {
	for i := 0; i < 4; i++ {
		if s, ok := cs.str[name]; ok {
			return s
		}
		r, ok := cs.ref[name]
		if !ok {
			break
		}
		name = r
	}
	g.ctx.Refuse("string constant %s not found", name)
	return ""
}

func leanBytes(s string) string {
	parts := make([]string, len(s))
	for i := 0; i < len(s); i++ {
		parts[i] = fmt.Sprintf("0x%02X", s[i])
	}
	return "[" + strings.Join(parts, ", ") + "]"
}

// singleReturnCall: the function body is `return F(args…)` (possibly after simple := lines); returns the
// normalised source of the whole body for the fact table and checks that it mentions every `want`.
func (g *c20gen) usesConst(fn string, want ...string) {
	fd := g.fn(fn)
	src := g.pkg.Src(fd.Body)
	for _, w := range want {
		if !strings.Contains(src, w) {
			g.ctx.Refuse("%s no longer uses %s", fn, w)
		}
	}
}

// ---------------------------------------------------------------- comparison kernels -> Lean

// cmp translates a boolean expression over fields of two values. vars maps a Go expression (source text
// of the operand before the field selector, e.g. "tl", "other", "t[i]") to the Lean variable.
func (g *c20gen) cmp(e ast.Expr, vars map[string]string) string {
	switch x := e.(type) {
	case *ast.ParenExpr:
		return "(" + g.cmp(x.X, vars) + ")"
	case *ast.BinaryExpr:
		switch x.Op {
		case token.LAND:
			return "(" + g.cmp(x.X, vars) + " && " + g.cmp(x.Y, vars) + ")"
		case token.LOR:
			return "(" + g.cmp(x.X, vars) + " || " + g.cmp(x.Y, vars) + ")"
		case token.LSS, token.LEQ, token.GTR, token.GEQ, token.EQL, token.NEQ:
			op := map[token.Token]string{token.LSS: "<", token.LEQ: "≤", token.GTR: ">", token.GEQ: "≥", token.EQL: "=", token.NEQ: "≠"}[x.Op]
			return "decide (" + g.field(x.X, vars) + " " + op + " " + g.field(x.Y, vars) + ")"
		}
	}
	g.ctx.Refuse("comparison outside the understood subset: `%s`", g.pkg.Src(e))
	return ""
}

func (g *c20gen) field(e ast.Expr, vars map[string]string) string {
	s, ok := e.(*ast.SelectorExpr)
	if !ok {
		g.ctx.Refuse("operand is not a field: `%s`", g.pkg.Src(e))
	}
	v, ok := vars[g.pkg.Src(s.X)]
	if !ok {
		g.ctx.Refuse("operand of an unknown value: `%s`", g.pkg.Src(e))
	}
	switch s.Sel.Name {
	case "Start":
		return v + ".start"
	case "End":
		return v + ".stop"
	}
	g.ctx.Refuse("unknown field: `%s`", g.pkg.Src(e))
	return ""
}

// overlaps: `if A { return true } else if B { return true }; return false`  ->  A || B
func (g *c20gen) overlaps(fn string) string {
	fd := g.fn(fn)
	recv := fd.Recv.List[0].Names[0].Name
	par := fd.Type.Params.List[0].Names[0].Name
	vars := map[string]string{recv: "a", par: "b"}
	if len(fd.Body.List) != 2 {
		g.ctx.Refuse("%s: body is not `if … else if …; return false`", fn)
	}
	ifs, ok := fd.Body.List[0].(*ast.IfStmt)
	ret, ok2 := fd.Body.List[1].(*ast.ReturnStmt)
	if !ok || !ok2 || len(ret.Results) != 1 || g.pkg.Src(ret.Results[0]) != "false" {
		g.ctx.Refuse("%s: body is not `if … else if …; return false`", fn)
	}
	var alts []string
	for cur := ifs; cur != nil; {
		if g.block(cur.Body) != "return true" {
			g.ctx.Refuse("%s: branch does not return true", fn)
		}
		alts = append(alts, g.cmp(cur.Cond, vars))
		switch e := cur.Else.(type) {
		case nil:
			cur = nil
		case *ast.IfStmt:
			cur = e
		default:
			g.ctx.Refuse("%s: unexpected else", fn)
		}
	}
	return "(" + strings.Join(alts, " || ") + ")"
}

// ---------------------------------------------------------------- generator

func genC20(c *Ctx) {
	g := &c20gen{ctx: c, pkg: c.ParseDir("search/highlight")}
	cs := g.consts()

	// constants, and the constructors that put them to use
	sep := cs.strOf(g, "DefaultSeparator")
	before := cs.strOf(g, "defaultHTMLHighlightBefore")
	after := cs.strOf(g, "defaultHTMLHighlightAfter")
	color := cs.strOf(g, "defaultAnsiHighlight")
	reset := cs.strOf(g, "Reset")
	fsize, ok := cs.num["defaultFragmentSize"]
	if !ok {
		c.Refuse("defaultFragmentSize not found")
	}
	g.usesConst("NewHTMLFragmentFormatter", "defaultHTMLHighlightBefore", "defaultHTMLHighlightAfter")
	g.usesConst("NewANSIFragmentFormatter", "defaultAnsiHighlight")
	g.usesConst("NewSimpleFragmenter", "defaultFragmentSize")
	g.usesConst("NewHTMLHighlighter", "NewSimpleFragmenter()", "NewHTMLFragmentFormatter()", "DefaultSeparator")
	g.usesConst("NewANSIHighlighter", "NewSimpleFragmenter()", "NewANSIFragmentFormatter()", "DefaultSeparator")

	// comparison kernels
	ovTL := g.overlaps("TermLocation.Overlaps")
	ovFr := g.overlaps("Fragment.Overlaps")
	less := g.fn("TermLocations.Less")
	if len(less.Body.List) != 1 {
		c.Refuse("TermLocations.Less is not a single return")
	}
	lret, ok := less.Body.List[0].(*ast.ReturnStmt)
	if !ok || len(lret.Results) != 1 {
		c.Refuse("TermLocations.Less is not a single return")
	}
	lp := less.Type.Params.List
	var idx []string
	for _, f := range lp {
		for _, n := range f.Names {
			idx = append(idx, n.Name)
		}
	}
	if len(idx) != 2 {
		c.Refuse("TermLocations.Less: parameters")
	}
	recvT := less.Recv.List[0].Names[0].Name
	lessLean := g.cmp(lret.Results[0], map[string]string{recvT + "[" + idx[0] + "]": "a", recvT + "[" + idx[1] + "]": "b"})
	// repair 4: which of the two known forms the comparison has (the translation above carries the operands;
	// BlugeProofs.C20.gen_less proves it equal to the model's `lessTL variant.tieBreak`)
	tieBreak := false
	switch t := g.norm(lret.Results[0]); t {
	case "_[_].Start < _[_].Start":
	case "_[_].Start < _[_].Start || (_[_].Start == _[_].Start && _[_].End < _[_].End)":
		tieBreak = true
	default:
		c.Refuse("TermLocations.Less has neither of the two known forms: `%s`", t)
	}

	// scorer: the innermost `if` of Score
	score := g.fn("SimpleFragmentScorer.Score")
	var inner *ast.IfStmt
	ast.Inspect(score.Body, func(n ast.Node) bool {
		if i, ok := n.(*ast.IfStmt); ok {
			inner = i
		}
		return true
	})
	if inner == nil {
		c.Refuse("SimpleFragmentScorer.Score: no test found")
	}
	fpar := score.Type.Params.List[0].Names[0].Name
	// the loop variable of the inner range
	var locVar string
	ast.Inspect(score.Body, func(n ast.Node) bool {
		if r, ok := n.(*ast.RangeStmt); ok && r.Value != nil {
			locVar = g.pkg.Src(r.Value)
		}
		return true
	})
	insideLean := g.cmp(inner.Cond, map[string]string{locVar: "a", fpar: "b"})
	g.add("score.onHit", g.block(inner.Body))

	// Format loops
	inverted := map[string]bool{}
	for _, f := range []string{"HTMLFragmentFormatter.Format", "ANSIFragmentFormatter.Format"} {
		fd := g.fn(f)
		key := "html"
		if strings.HasPrefix(f, "ANSI") {
			key = "ansi"
		}
		var loop *ast.RangeStmt
		var tail []string
		for _, s := range fd.Body.List {
			if r, ok := s.(*ast.RangeStmt); ok {
				loop = r
				continue
			}
			if loop != nil {
				tail = append(tail, g.stmt(s))
			} else {
				g.add(key+".init", g.stmt(s))
			}
		}
		if loop == nil {
			c.Refuse("%s: no range loop", f)
		}
		var body []string
		for _, s := range loop.Body.List {
			t := g.stmt(s)
			if t == "if _.End < _.Start { continue }" {
				inverted[key] = true
				continue
			}
			body = append(body, t)
		}
		g.add(key+".loop", strings.Join(body, "; "))
		g.add(key+".tail", strings.Join(tail, "; "))
	}
	if inverted["html"] != inverted["ansi"] {
		c.Refuse("only one of the two formatters skips inverted locations")
	}

	// MergeOverlapping
	mergeSrc := g.block(g.fn("TermLocations.MergeOverlapping").Body)
	g.add("merge", mergeSrc)
	// repair 5: `lastTl.End = tl.End` guarded by `tl.End > lastTl.End` (the fact table pins the whole loop;
	// the flag only says which of the two tables to expect)
	mergeMax := strings.Contains(mergeSrc, "if _.End > _.End { _.End = _.End }")

	// Fragment: loop conditions, bail tests, the no-location branch, the location filter
	frag := g.fn("SimpleFragmenter.Fragment")
	var bare, guarded int
	var conds []string
	ast.Inspect(frag.Body, func(n ast.Node) bool {
		switch x := n.(type) {
		case *ast.IfStmt:
			t := g.norm(x.Cond)
			if strings.Contains(t, "utf8.RuneError") {
				switch t {
				case "_ == utf8.RuneError":
					bare++
				case "_ == utf8.RuneError && _ <= 1":
					guarded++
				default:
					c.Refuse("Fragment: unknown RuneError test `%s`", t)
				}
				if g.block(x.Body) != "continue L" {
					c.Refuse("Fragment: a RuneError test does not `continue OUTER`")
				}
			} else {
				conds = append(conds, "if "+t)
			}
		case *ast.ForStmt:
			t := ""
			if x.Cond != nil {
				t = g.norm(x.Cond)
			}
			conds = append(conds, "for "+t)
		}
		return true
	})
	if bare+guarded != 4 || (bare != 0 && guarded != 0) {
		c.Refuse("Fragment: expected four RuneError tests of one form, found %d bare and %d guarded", bare, guarded)
	}
	sizeGuard := guarded == 4
	// the location filter of repair 2 and the no-location branch
	locGuardFrag := false
	runeCut := false
	var keep []string
	for _, t := range conds {
		switch t {
		case "if _ != nil && _.Start >= 0 && _.End >= _.Start":
			locGuardFrag = true
		case "for _ < len(_) && _ < _.fragmentSize":
			keep = append(keep, t)
		default:
			keep = append(keep, t)
		}
	}
	// no-location branch: last statement group `if len(ot) == 0 { … }`
	var noLoc *ast.IfStmt
	for _, s := range frag.Body.List {
		if i, ok := s.(*ast.IfStmt); ok && g.norm(i.Cond) == "len(_) == 0" {
			noLoc = i
		}
	}
	if noLoc == nil {
		c.Refuse("Fragment: no `if len(ot) == 0` branch")
	}
	noLocSrc := g.pkg.Src(noLoc.Body)
	switch {
	case strings.Contains(noLocSrc, "utf8.DecodeRune(") && !strings.Contains(noLocSrc, "start + s.fragmentSize"):
		runeCut = true
	case strings.Contains(noLocSrc, "start + s.fragmentSize") && !strings.Contains(noLocSrc, "utf8.DecodeRune("):
		runeCut = false
	default:
		c.Refuse("Fragment: the no-location branch has neither of the two known forms")
	}
	if locGuardFrag != inverted["html"] {
		c.Refuse("repair 2 is only partly present (Fragment filter %v, formatter guard %v)", locGuardFrag, inverted["html"])
	}
	// the conditions outside the no-location branch are the same in every variant (the filter of repair 2 is
	// reported through `variant`); those inside the no-location branch are a separate entry
	var inNoLoc []string
	ast.Inspect(noLoc.Body, func(n ast.Node) bool {
		switch x := n.(type) {
		case *ast.IfStmt:
			inNoLoc = append(inNoLoc, "if "+g.norm(x.Cond))
		case *ast.ForStmt:
			t := ""
			if x.Cond != nil {
				t = g.norm(x.Cond)
			}
			inNoLoc = append(inNoLoc, "for "+t)
		}
		return true
	})
	var common []string
	for _, t := range keep {
		if t == "if _ != nil && _.Start >= 0 && _.End >= _.Start" {
			continue
		}
		common = append(common, t)
	}
	if len(common) < len(inNoLoc) {
		c.Refuse("Fragment: condition list shorter than its no-location branch")
	}
	common = common[:len(common)-len(inNoLoc)] // the no-location branch is the last statement of the function
	g.add("fragment.conds", strings.Join(common, "; "))
	g.add("fragment.noLocation", strings.Join(inNoLoc, "; "))

	b2s := func(b bool) string {
		if b {
			return "true"
		}
		return "false"
	}
	var sb strings.Builder
	sb.WriteString("import Bluge.Highlight\n")
	sb.WriteString("/-! GENERATED by go/extract (c20.go) from search/highlight/*.go — do not edit. -/\n")
	sb.WriteString("namespace BlugeGen.C20\nopen Bluge.Highlight\n\n")
	fmt.Fprintf(&sb, "def separator : Bytes := %s\n", leanBytes(sep))
	fmt.Fprintf(&sb, "def htmlBefore : Bytes := %s\n", leanBytes(before))
	fmt.Fprintf(&sb, "def htmlAfter : Bytes := %s\n", leanBytes(after))
	fmt.Fprintf(&sb, "def ansiColor : Bytes := %s\n", leanBytes(color))
	fmt.Fprintf(&sb, "def ansiReset : Bytes := %s\n", leanBytes(reset))
	fmt.Fprintf(&sb, "def defaultFragmentSize : Int := %d\n\n", fsize)
	fmt.Fprintf(&sb, "/-- (tl *TermLocation) Overlaps(other): a = receiver, b = argument -/\ndef overlapsTL (a b : TermLocation) : Bool := %s\n", ovTL)
	fmt.Fprintf(&sb, "/-- (f *Fragment) Overlaps(other) -/\ndef overlapsFrag (a b : Fragment) : Bool := %s\n", ovFr)
	fmt.Fprintf(&sb, "/-- TermLocations.Less(i, j): a = t[i], b = t[j] -/\ndef lessTL (a b : TermLocation) : Bool := %s\n", lessLean)
	fmt.Fprintf(&sb, "/-- the scorer's test: a = location, b = fragment -/\ndef inside (a : TermLocation) (b : Fragment) : Bool := %s\n\n", insideLean)
	fmt.Fprintf(&sb, "/-- which of the repairs work/C20/fix-1..5 this tree contains -/\ndef variant : Variant := ⟨%s, %s, %s, %s, %s⟩\n\n", b2s(sizeGuard), b2s(locGuardFrag), b2s(runeCut), b2s(tieBreak), b2s(mergeMax))
	sb.WriteString("def facts : List (String × String) := [\n")
	for i, f := range g.facts {
		comma := ","
		if i == len(g.facts)-1 {
			comma = ""
		}
		fmt.Fprintf(&sb, "  (%s, %s)%s\n", LeanStr(f[0]), LeanStr(f[1]), comma)
	}
	sb.WriteString("]\n\nend BlugeGen.C20\n")
	c.WriteLean("C20", sb.String())
	c.Summary["variant"] = map[string]bool{"sizeGuard": sizeGuard, "locGuard": locGuardFrag, "runeCut": runeCut, "tieBreak": tieBreak, "mergeMax": mergeMax}
	c.Summary["facts"] = len(g.facts)
	c.Summary["kernels"] = []string{"TermLocation.Overlaps", "Fragment.Overlaps", "TermLocations.Less", "SimpleFragmentScorer.Score test"}
}

package main

// Gen for C13: the file-system steps of FileSystemDirectory.Persist (and of `remove`) as a
// `Bluge.FS.Prog` — the calls in source order, and for each call the clean-up calls of its error
// branch. Nothing is guessed: a statement, call, flag expression or error branch outside the shapes
// listed below makes the generator REFUSE.
//
// Understood statements (variable names are free; `err != nil` / `nil != err`; `if init; cond {}` forms):
//   p := filepath.Join(...)                                   the path variable
//   h, err := <recv>.openExclusive|openShared(p, FLAGS, PERM)  (also lock.OpenExclusive/OpenShared, os.OpenFile)
//   c := func() { _ = call; ... }                             a clean-up closure (calls with ignored results)
//   _, err = <w>.WriteTo(h.File(), ch)  |  err = h.File().Sync()  |  err = h.File().Truncate(N)
//   err = h.Close()  |  err = os.Remove(p)                    each followed by  if err != nil { clean-up…; return <non-nil> }
//   _ = call                                                  result ignored
//   defer func() { _ = call … }()  |  defer call              deferred, results ignored
//   return nil  |  return <call>  |  (after `err = call`) return err
// FLAGS is an `|`-tree of os.O_* constants (order irrelevant, emitted sorted); PERM an octal literal or a
// receiver field whose value is the literal in NewFileSystemDirectory; the lock mode of a receiver field
// is the function NewFileSystemDirectory stores in it.

import (
	"fmt"
	"go/ast"
	"go/build/constraint"
	"go/token"
	"sort"
	"strconv"
	"strings"
)

func init() { Register("C13", genC13) }

type fsOp struct {
	lean string // Lean term of Bluge.FS.FsOp
	kind string // open|truncate|writeTo|sync|close|remove
}

type c13x struct {
	c        *Ctx
	pkg      *Pkg
	fn       string
	recv     string            // receiver variable
	writer   map[string]bool   // parameters of type WriterTo
	paths    map[string]bool   // variables holding the path
	handles  map[string]bool   // variables holding the opened file
	closures map[string][]fsOp // clean-up closures
	ctor     map[string]ast.Expr
	maps     map[string]bool     // variables holding a mapping (mmap.Map)
	closers  map[string][]string // closures with an error result: their steps (the io.Closer of Load)
	closer   []string            // the closer the function returns (second result `closerFunc(…)`), as steps
	tail     string              // `return <recv>.<field>(handle)`: the field through which the function tail-calls
	checked  string              // the error variable whose nil-check was the previous statement
}

func (x *c13x) refuse(n ast.Node, why string) {
	x.c.Refuse("%s: %s: `%s`", x.fn, why, strings.Join(strings.Fields(x.pkg.Src(n)), " "))
}

var oflags = map[string]bool{"O_RDONLY": true, "O_WRONLY": true, "O_RDWR": true, "O_APPEND": true,
	"O_CREATE": true, "O_EXCL": true, "O_SYNC": true, "O_TRUNC": true}

func (x *c13x) flagSet(e ast.Expr, into map[string]bool) {
	switch v := e.(type) {
	case *ast.ParenExpr:
		x.flagSet(v.X, into)
	case *ast.BinaryExpr:
		if v.Op != token.OR {
			x.refuse(e, "flag expression is not an |-combination")
		}
		x.flagSet(v.X, into)
		x.flagSet(v.Y, into)
	case *ast.SelectorExpr:
		id, ok := v.X.(*ast.Ident)
		if !ok || id.Name != "os" || !oflags[v.Sel.Name] {
			x.refuse(e, "unknown open flag")
		}
		into[v.Sel.Name] = true
	default:
		x.refuse(e, "open flags are not a constant |-combination of os.O_*")
	}
}

// recvField returns the field name when e is `<recv>.<field>`.
func (x *c13x) recvField(e ast.Expr) (string, bool) {
	s, ok := e.(*ast.SelectorExpr)
	if !ok {
		return "", false
	}
	id, ok := s.X.(*ast.Ident)
	if !ok || id.Name != x.recv || x.recv == "" {
		return "", false
	}
	return s.Sel.Name, true
}

func (x *c13x) perm(e ast.Expr) uint64 {
	if f, ok := x.recvField(e); ok {
		v, ok := x.ctor[f]
		if !ok {
			x.refuse(e, "permission field is not set by a literal in NewFileSystemDirectory")
		}
		e = v
	}
	lit, ok := e.(*ast.BasicLit)
	if !ok || lit.Kind != token.INT {
		x.refuse(e, "permission is not an integer literal")
	}
	n, err := strconv.ParseUint(lit.Value, 0, 32)
	if err != nil {
		x.refuse(e, "permission literal")
	}
	return n
}

// lockOf resolves the callee of an open call to a lock mode.
func (x *c13x) lockOf(fun ast.Expr) (string, bool) {
	if f, ok := x.recvField(fun); ok {
		v, ok := x.ctor[f]
		if !ok {
			return "", false
		}
		fun = v
	}
	s, ok := fun.(*ast.SelectorExpr)
	if !ok {
		return "", false
	}
	id, ok := s.X.(*ast.Ident)
	if !ok {
		return "", false
	}
	switch id.Name + "." + s.Sel.Name {
	case "lock.OpenExclusive":
		return ".exclusive", true
	case "lock.OpenShared":
		return ".shared", true
	case "os.OpenFile":
		return ".none", true
	}
	return "", false
}

func isIdent(e ast.Expr, names map[string]bool) bool {
	id, ok := e.(*ast.Ident)
	return ok && names[id.Name]
}

// isHandle: a handle variable, or a receiver field that holds the handle (`d.pid`).
func (x *c13x) isHandle(e ast.Expr) bool {
	if isIdent(e, x.handles) {
		return true
	}
	if s, ok := e.(*ast.SelectorExpr); ok {
		return x.handles[strings.Join(strings.Fields(x.pkg.Src(s)), "")]
	}
	return false
}

// handleFile: `h.File()` or `h` for a handle variable h.
func (x *c13x) handleFile(e ast.Expr) bool {
	if x.isHandle(e) {
		return true
	}
	c, ok := e.(*ast.CallExpr)
	if !ok || len(c.Args) != 0 {
		return false
	}
	s, ok := c.Fun.(*ast.SelectorExpr)
	return ok && s.Sel.Name == "File" && x.isHandle(s.X)
}

// call classifies one call expression as a file-system step (ok=false: not one).
func (x *c13x) call(e ast.Expr) (fsOp, bool) {
	c, ok := e.(*ast.CallExpr)
	if !ok {
		return fsOp{}, false
	}
	s, ok := c.Fun.(*ast.SelectorExpr)
	if !ok {
		return fsOp{}, false
	}
	if lk, ok := x.lockOf(c.Fun); ok {
		if len(c.Args) != 3 {
			x.refuse(e, "open call without (path, flag, perm)")
		}
		if !isIdent(c.Args[0], x.paths) {
			x.refuse(e, "open of something that is not the item path")
		}
		set := map[string]bool{}
		x.flagSet(c.Args[1], set)
		var names []string
		for f := range set {
			names = append(names, "."+f)
		}
		sort.Strings(names)
		return fsOp{lean: fmt.Sprintf(".openFile [%s] 0o%o %s", strings.Join(names, ", "), x.perm(c.Args[2]), lk), kind: "open"}, true
	}
	switch s.Sel.Name {
	case "WriteTo":
		if isIdent(s.X, x.writer) {
			if len(c.Args) < 1 || !x.handleFile(c.Args[0]) {
				x.refuse(e, "writer does not write to the opened file")
			}
			return fsOp{".writeTo", "writeTo"}, true
		}
	case "Sync":
		if x.handleFile(s.X) && len(c.Args) == 0 {
			return fsOp{".sync", "sync"}, true
		}
	case "Truncate":
		if x.handleFile(s.X) && len(c.Args) == 1 {
			lit, ok := c.Args[0].(*ast.BasicLit)
			if !ok || lit.Kind != token.INT {
				x.refuse(e, "truncate length is not a literal")
			}
			n, err := strconv.ParseUint(lit.Value, 0, 63)
			if err != nil {
				x.refuse(e, "truncate length")
			}
			return fsOp{fmt.Sprintf(".truncate %d", n), "truncate"}, true
		}
	case "Close":
		if x.isHandle(s.X) && len(c.Args) == 0 {
			return fsOp{".close", "close"}, true
		}
	case "Write":
		// h.File().Write(bytes): the bytes are the environment's content, in one call
		if x.handleFile(s.X) && len(c.Args) == 1 {
			return fsOp{".write", "write"}, true
		}
	case "RemoveAll":
		if id, ok := s.X.(*ast.Ident); ok && id.Name == "os" && len(c.Args) == 1 {
			if !isIdent(c.Args[0], x.paths) {
				x.refuse(e, "removal of something that is not the item path")
			}
			return fsOp{".removeAll", "removeAll"}, true
		}
	case "Map":
		if id, ok := s.X.(*ast.Ident); ok && id.Name == "mmap" {
			if len(c.Args) != 3 || !x.handleFile(c.Args[0]) || strings.Join(strings.Fields(x.pkg.Src(c.Args[1])), "") != "mmap.RDONLY" ||
				strings.Join(strings.Fields(x.pkg.Src(c.Args[2])), "") != "0" {
				x.refuse(e, "mmap.Map that is not (handle file, mmap.RDONLY, 0)")
			}
			return fsOp{".mmap", "mmap"}, true
		}
	case "Unmap":
		if isIdent(s.X, x.maps) && len(c.Args) == 0 {
			return fsOp{".unmap", "unmap"}, true
		}
	case "NewDataFile":
		if id, ok := s.X.(*ast.Ident); ok && id.Name == "segment" && len(c.Args) == 1 && x.handleFile(c.Args[0]) {
			return fsOp{".dataFile", "dataFile"}, true
		}
	case "Remove":
		if id, ok := s.X.(*ast.Ident); ok && id.Name == "os" && len(c.Args) == 1 {
			if !isIdent(c.Args[0], x.paths) {
				x.refuse(e, "removal of something that is not the item path")
			}
			return fsOp{".remove", "remove"}, true
		}
	}
	return fsOp{}, false
}

func isNil(e ast.Expr) bool { id, ok := e.(*ast.Ident); return ok && id.Name == "nil" }

// errNotNil: `v != nil` or `nil != v`; returns v.
func errNotNil(e ast.Expr) (string, bool) {
	if p, ok := e.(*ast.ParenExpr); ok {
		return errNotNil(p.X)
	}
	b, ok := e.(*ast.BinaryExpr)
	if !ok || b.Op != token.NEQ {
		return "", false
	}
	l, r := b.X, b.Y
	if isNil(l) {
		l, r = r, l
	}
	id, ok := l.(*ast.Ident)
	if !ok || !isNil(r) {
		return "", false
	}
	return id.Name, true
}

// quietCalls: statements of a closure body / an error branch prefix, each a call with ignored result.
func (x *c13x) quietCall(st ast.Stmt) ([]fsOp, bool) {
	switch v := st.(type) {
	case *ast.AssignStmt: // _ = call   |   _, _ = call
		for _, l := range v.Lhs {
			if id, ok := l.(*ast.Ident); !ok || id.Name != "_" {
				return nil, false
			}
		}
		if len(v.Rhs) != 1 {
			return nil, false
		}
		if op, ok := x.call(v.Rhs[0]); ok {
			return []fsOp{op}, true
		}
	case *ast.ExprStmt:
		if c, ok := v.X.(*ast.CallExpr); ok {
			if id, ok := c.Fun.(*ast.Ident); ok && len(c.Args) == 0 {
				if ops, ok := x.closures[id.Name]; ok {
					return ops, true
				}
			}
		}
		if op, ok := x.call(v.X); ok {
			return []fsOp{op}, true
		}
	}
	return nil, false
}

func (x *c13x) quietBlock(stmts []ast.Stmt, where ast.Node) []fsOp {
	var ops []fsOp
	for _, st := range stmts {
		o, ok := x.quietCall(st)
		if !ok {
			x.refuse(st, "statement in a clean-up block that is not a call with ignored result")
		}
		ops = append(ops, o...)
	}
	return ops
}

// errBranch: `{ quiet…; return <non-nil> }`.
func (x *c13x) errBranch(b *ast.BlockStmt, errVar string) []fsOp {
	if len(b.List) == 0 {
		x.refuse(b, "error branch does not return")
	}
	ret, ok := b.List[len(b.List)-1].(*ast.ReturnStmt)
	if !ok {
		x.refuse(b, "error branch does not end in a return")
	}
	if len(ret.Results) < 1 || isNil(ret.Results[len(ret.Results)-1]) {
		x.refuse(ret, "error branch does not return the error")
	}
	if !strings.Contains(x.pkg.Src(ret.Results[len(ret.Results)-1]), errVar) {
		x.refuse(ret, "error branch returns something that does not carry the error")
	}
	for _, r := range ret.Results[:len(ret.Results)-1] {
		if !isNil(r) {
			x.refuse(ret, "error branch returns a value beside the error")
		}
	}
	return x.quietBlock(b.List[:len(b.List)-1], b)
}

func leanOps(ops []fsOp) string {
	var s []string
	for _, o := range ops {
		s = append(s, o.lean)
	}
	return "[" + strings.Join(s, ", ") + "]"
}

// opAssign: `…, err (:)= call` where call is a file-system step. Returns the op, the error variable,
// and registers the handle variable of an open.
func (x *c13x) opAssign(st ast.Stmt) (fsOp, string, bool) {
	a, ok := st.(*ast.AssignStmt)
	if !ok || len(a.Rhs) != 1 {
		return fsOp{}, "", false
	}
	op, ok := x.call(a.Rhs[0])
	if !ok {
		return fsOp{}, "", false
	}
	last, ok := a.Lhs[len(a.Lhs)-1].(*ast.Ident)
	if !ok || last.Name == "_" {
		return fsOp{}, "", false // result ignored: handled by quietCall
	}
	if op.kind == "mmap" {
		if id, ok := a.Lhs[0].(*ast.Ident); ok && len(a.Lhs) == 2 {
			x.maps[id.Name] = true
		} else {
			x.refuse(st, "mmap.Map must bind (mapping, err)")
		}
	}
	if op.kind == "open" {
		if len(a.Lhs) != 2 {
			x.refuse(st, "open call must bind (handle, err)")
		}
		switch h := a.Lhs[0].(type) {
		case *ast.Ident:
			x.handles[h.Name] = true
		case *ast.SelectorExpr: // d.pid = …
			x.handles[x.pkg.Src(h)] = true
		default:
			x.refuse(st, "handle of the open call")
		}
	}
	return op, last.Name, true
}

func (x *c13x) program(fd *ast.FuncDecl) []string {
	var steps []string
	emitAct := func(op fsOp, onErr []fsOp) {
		steps = append(steps, fmt.Sprintf(".act (%s) %s", op.lean, leanOps(onErr)))
	}
	list := fd.Body.List
	for i := 0; i < len(list); i++ {
		st := list[i]
		last := i == len(list)-1
		// path := filepath.Join(...)
		if a, ok := st.(*ast.AssignStmt); ok && len(a.Lhs) == 1 && len(a.Rhs) == 1 {
			if c, ok := a.Rhs[0].(*ast.CallExpr); ok && x.pkg.Src(c.Fun) == "filepath.Join" {
				if id, ok := a.Lhs[0].(*ast.Ident); ok {
					x.paths[id.Name] = true
					continue
				}
			}
			// closure := func() { … }
			if fl, ok := a.Rhs[0].(*ast.FuncLit); ok {
				id, ok := a.Lhs[0].(*ast.Ident)
				if !ok || len(fl.Type.Params.List) != 0 {
					x.refuse(st, "closure shape")
				}
				if fl.Type.Results != nil && len(fl.Type.Results.List) != 0 {
					// func() error { e1 := call; e2 := call; if e1 == nil { e1 = e2 }; return e1 }
					x.closers[id.Name] = x.firstErrorClosure(fl)
					continue
				}
				x.closures[id.Name] = x.quietBlock(fl.Body.List, fl)
				continue
			}
		}
		// var err error
		if d, ok := st.(*ast.DeclStmt); ok {
			if g, ok := d.Decl.(*ast.GenDecl); ok && g.Tok == token.VAR {
				plain := true
				for _, sp := range g.Specs {
					if vs, ok := sp.(*ast.ValueSpec); !ok || len(vs.Values) != 0 {
						plain = false
					}
				}
				if plain {
					continue
				}
			}
		}
		// err = call ; if err != nil { … }      |   err = call ; return err
		if op, ev, ok := x.opAssign(st); ok {
			x.checked = ""
			if i+1 >= len(list) {
				x.refuse(st, "result of the call is never examined")
			}
			switch nx := list[i+1].(type) {
			case *ast.IfStmt:
				v, ok := errNotNil(nx.Cond)
				if !ok || v != ev || nx.Init != nil || nx.Else != nil {
					x.refuse(nx, "call is not followed by `if err != nil { … return err }`")
				}
				emitAct(op, x.errBranch(nx.Body, ev))
				x.checked = ev
				i++
				continue
			case *ast.ReturnStmt:
				if i+1 == len(list)-1 && len(nx.Results) == 1 && x.pkg.Src(nx.Results[0]) == ev {
					emitAct(op, nil)
					i++
					continue
				}
			}
			x.refuse(st, "result of the call is not examined by the next statement")
		}
		// if [_,] err := call; err != nil { … }
		if is, ok := st.(*ast.IfStmt); ok {
			if is.Init == nil || is.Else != nil {
				x.refuse(st, "if statement that is not an error check of a file-system call")
			}
			op, ev, ok := x.opAssign(is.Init)
			v, ok2 := errNotNil(is.Cond)
			if !ok || !ok2 || v != ev {
				x.refuse(st, "if statement that is not an error check of a file-system call")
			}
			if op.kind == "open" {
				x.refuse(st, "open inside an if-initialiser (handle would be out of scope)")
			}
			emitAct(op, x.errBranch(is.Body, ev))
			continue
		}
		// defer
		if d, ok := st.(*ast.DeferStmt); ok {
			if fl, ok := d.Call.Fun.(*ast.FuncLit); ok && len(d.Call.Args) == 0 {
				steps = append(steps, ".deferOps "+leanOps(x.quietBlock(fl.Body.List, fl)))
				continue
			}
			if op, ok := x.call(d.Call); ok {
				steps = append(steps, ".deferOps "+leanOps([]fsOp{op}))
				continue
			}
			x.refuse(st, "deferred call")
		}
		// return
		if r, ok := st.(*ast.ReturnStmt); ok {
			if !last {
				x.refuse(st, "return before the end of the body")
			}
			if len(r.Results) < 1 {
				x.refuse(st, "return shape")
			}
			res := r.Results[len(r.Results)-1]
			// a closer among the other results: closerFunc(<closure>) | closerFunc(<handle>.Close)
			for _, o := range r.Results[:len(r.Results)-1] {
				c, ok := o.(*ast.CallExpr)
				if !ok {
					continue
				}
				if id, ok := c.Fun.(*ast.Ident); ok && id.Name == "closerFunc" && len(c.Args) == 1 {
					switch a := c.Args[0].(type) {
					case *ast.Ident:
						st, ok := x.closers[a.Name]
						if !ok {
							x.refuse(o, "closer that is not a closure of this function")
						}
						x.closer = st
					case *ast.SelectorExpr:
						if a.Sel.Name != "Close" || !x.isHandle(a.X) {
							x.refuse(o, "closer that is not the handle's Close")
						}
						x.closer = []string{".act (.close) []"}
					default:
						x.refuse(o, "closer shape")
					}
				}
			}
			if isNil(res) {
				continue
			}
			// `return err` right after `if err != nil { … return … }`: err is nil here
			if id, ok := res.(*ast.Ident); ok && len(r.Results) == 1 && id.Name == x.checked && x.checked != "" {
				continue
			}
			// tail call through a receiver field: return d.loadMMapFunc(f)
			if c, ok := res.(*ast.CallExpr); ok && len(r.Results) == 1 {
				if f, ok := x.recvField(c.Fun); ok && len(c.Args) == 1 && x.isHandle(c.Args[0]) {
					x.tail = f
					continue
				}
			}
			if len(r.Results) != 1 {
				x.refuse(st, "return shape")
			}
			if op, ok := x.call(res); ok {
				if op.kind == "open" {
					x.refuse(st, "returns an open call")
				}
				emitAct(op, nil)
				continue
			}
			x.refuse(st, "final return is neither nil nor a file-system call")
		}
		// _ = call
		if ops, ok := x.quietCall(st); ok {
			for _, o := range ops {
				steps = append(steps, ".ignore ("+o.lean+")")
			}
			continue
		}
		x.refuse(st, "statement shape not understood")
	}
	if len(list) == 0 {
		x.refuse(fd, "empty body")
	}
	if _, ok := list[len(list)-1].(*ast.ReturnStmt); !ok {
		x.refuse(fd, "body does not end in a return")
	}
	return steps
}

func (x *c13x) setup(fd *ast.FuncDecl) {
	x.recv = ""
	x.writer = map[string]bool{}
	x.paths = map[string]bool{}
	x.handles = map[string]bool{}
	x.closures = map[string][]fsOp{}
	if fd.Recv != nil && len(fd.Recv.List) == 1 && len(fd.Recv.List[0].Names) == 1 {
		x.recv = fd.Recv.List[0].Names[0].Name
	}
	for _, p := range fd.Type.Params.List {
		if id, ok := p.Type.(*ast.Ident); ok && id.Name == "WriterTo" {
			for _, n := range p.Names {
				x.writer[n.Name] = true
			}
		}
	}
	for _, p := range fd.Type.Params.List {
		if x.pkg.Src(p.Type) == "lock.LockedFile" {
			for _, n := range p.Names {
				x.handles[n.Name] = true
			}
		}
	}
	// receiver fields of type lock.LockedFile hold a handle (`d.pid`)
	if x.recv != "" && fd.Recv != nil {
		t := fd.Recv.List[0].Type
		if st, ok := t.(*ast.StarExpr); ok {
			t = st.X
		}
		if tid, ok := t.(*ast.Ident); ok {
			for _, f := range x.pkg.Files {
				for _, d := range f.Decls {
					gd, ok := d.(*ast.GenDecl)
					if !ok || gd.Tok != token.TYPE {
						continue
					}
					for _, sp := range gd.Specs {
						ts, ok := sp.(*ast.TypeSpec)
						if !ok || ts.Name.Name != tid.Name {
							continue
						}
						if stt, ok := ts.Type.(*ast.StructType); ok {
							for _, fl := range stt.Fields.List {
								if x.pkg.Src(fl.Type) == "lock.LockedFile" {
									for _, n := range fl.Names {
										x.handles[x.recv+"."+n.Name] = true
									}
								}
							}
						}
					}
				}
			}
		}
	}
	x.maps = map[string]bool{}
	x.closers = map[string][]string{}
	x.closer = nil
	x.tail = ""
	x.checked = ""
	rs := fd.Type.Results
	if rs == nil || len(rs.List) == 0 || x.pkg.Src(rs.List[len(rs.List)-1].Type) != "error" {
		x.refuse(fd.Type, "the last result of the function is not an error")
	}
}

// firstErrorClosure: `func() error { e1 := call; e2 := call; …; if e1 == nil { e1 = e2 }; return e1 }` —
// every call runs whatever the others return, the first error is the result: steps `.always op`.
func (x *c13x) firstErrorClosure(fl *ast.FuncLit) []string {
	rs := fl.Type.Results.List
	if len(rs) != 1 || x.pkg.Src(rs[0].Type) != "error" {
		x.refuse(fl, "closure result is not one error")
	}
	var steps []string
	var evs []string
	list := fl.Body.List
	i := 0
	for ; i < len(list); i++ {
		a, ok := list[i].(*ast.AssignStmt)
		if !ok || len(a.Lhs) != 1 || len(a.Rhs) != 1 {
			break
		}
		id, ok := a.Lhs[0].(*ast.Ident)
		if !ok {
			break
		}
		op, ok := x.call(a.Rhs[0])
		if !ok {
			x.refuse(list[i], "closure statement that is not a file-system call")
		}
		steps = append(steps, ".always ("+op.lean+")")
		evs = append(evs, id.Name)
	}
	if len(evs) == 0 {
		x.refuse(fl, "closure without calls")
	}
	// the merging ifs: if e1 == nil { e1 = ek }   (comments aside), in the order of the calls
	for k := 1; k < len(evs); k++ {
		if i >= len(list) {
			x.refuse(fl, "closure drops the error of a call")
		}
		is, ok := list[i].(*ast.IfStmt)
		want := "if " + evs[0] + " == nil { " + evs[0] + " = " + evs[k] + " }"
		got := ""
		if ok && is.Init == nil && is.Else == nil && len(is.Body.List) == 1 {
			got = "if " + strings.Join(strings.Fields(x.pkg.Src(is.Cond)), " ") + " { " + strings.Join(strings.Fields(x.pkg.Src(is.Body.List[0])), " ") + " }"
		}
		if got != want {
			x.refuse(list[i], "closure does not merge the errors as `"+want+"`")
		}
		i++
	}
	if i != len(list)-1 {
		x.refuse(fl, "closure has statements the generator does not understand")
	}
	ret, ok := list[i].(*ast.ReturnStmt)
	if !ok || len(ret.Results) != 1 || x.pkg.Src(ret.Results[0]) != evs[0] {
		x.refuse(list[i], "closure does not return the first error")
	}
	return steps
}

func genC13(c *Ctx) {
	pkg := c.ParseDir("index")
	x := &c13x{c: c, pkg: pkg, ctor: map[string]ast.Expr{}}
	// field values set by the constructor
	ctor := pkg.Func("NewFileSystemDirectory")
	if ctor == nil {
		c.Refuse("NewFileSystemDirectory not found")
	}
	ast.Inspect(ctor, func(n ast.Node) bool {
		if cl, ok := n.(*ast.CompositeLit); ok && strings.HasSuffix(pkg.Src(cl.Type), "FileSystemDirectory") {
			for _, el := range cl.Elts {
				if kv, ok := el.(*ast.KeyValueExpr); ok {
					if k, ok := kv.Key.(*ast.Ident); ok {
						x.ctor[k.Name] = kv.Value
					}
				}
			}
		}
		return true
	})
	// the fields must not be assigned anywhere else in the package (else the constructor value is not THE value)
	for fname, f := range pkg.Files {
		ast.Inspect(f, func(n ast.Node) bool {
			a, ok := n.(*ast.AssignStmt)
			if !ok {
				return true
			}
			for _, l := range a.Lhs {
				if s, ok := l.(*ast.SelectorExpr); ok {
					switch s.Sel.Name {
					case "openExclusive", "openShared", "newFilePerm":
						c.Refuse("%s: field %s is assigned outside the constructor: `%s`", fname, s.Sel.Name, pkg.Src(a))
					}
				}
			}
			return true
		})
	}

	gen := func(name string) (*ast.FuncDecl, []string) {
		fd := linuxFunc(c, pkg, name)
		if fd == nil || fd.Body == nil {
			c.Refuse("%s not found in index/", name)
		}
		x.fn = name
		x.setup(fd)
		return fd, x.program(fd)
	}
	_, persist := gen("FileSystemDirectory.Persist")
	_, remove := gen("FileSystemDirectory.remove")
	_, lockP := gen("FileSystemDirectory.Lock")
	_, unlockP := gen("FileSystemDirectory.Unlock")
	_, loadP := gen("FileSystemDirectory.Load")
	loadTail := x.tail
	if loadTail == "" {
		c.Refuse("Load does not end in a call of a loader field")
	}
	loadDefault := ""
	if v, ok := x.ctor[loadTail]; ok {
		loadDefault = strings.Join(strings.Fields(pkg.Src(v)), "")
	}
	if loadDefault == "" {
		c.Refuse("the loader field %s is not set by NewFileSystemDirectory", loadTail)
	}
	_, mmAlways := gen("LoadMMapAlways")
	mmAlwaysCloser := x.closer
	_, mmNever := gen("LoadMMapNever")
	mmNeverCloser := x.closer
	if mmAlwaysCloser == nil || mmNeverCloser == nil {
		c.Refuse("a loader does not return a closer")
	}

	// ---- OpenWriter: what happens between a failed Lock() and the return; Writer.close: its directory calls
	norm := func(n ast.Node) string { return strings.Join(strings.Fields(pkg.Src(n)), " ") }
	ow := pkg.Func("OpenWriter")
	if ow == nil || ow.Body == nil {
		c.Refuse("OpenWriter not found")
	}
	var afterLockFail []string
	lockSeen := false
	for i, st := range ow.Body.List {
		a, ok := st.(*ast.AssignStmt)
		if !ok || len(a.Rhs) != 1 || !strings.HasSuffix(norm(a.Rhs[0]), ".directory.Lock()") {
			continue
		}
		if lockSeen {
			c.Refuse("OpenWriter calls Lock() twice")
		}
		lockSeen = true
		ev := norm(a.Lhs[len(a.Lhs)-1])
		if i+1 >= len(ow.Body.List) {
			c.Refuse("OpenWriter: the result of Lock() is not examined")
		}
		is, ok := ow.Body.List[i+1].(*ast.IfStmt)
		if !ok || is.Init != nil || is.Else != nil {
			c.Refuse("OpenWriter: Lock() is not followed by `if err != nil { … }`")
		}
		if v, ok := errNotNil(is.Cond); !ok || v != ev {
			c.Refuse("OpenWriter: Lock() is not followed by `if err != nil { … }`")
		}
		n := len(is.Body.List)
		if n == 0 {
			c.Refuse("OpenWriter: the Lock() failure branch does not return")
		}
		ret, ok := is.Body.List[n-1].(*ast.ReturnStmt)
		if !ok || len(ret.Results) != 2 || !isNil(ret.Results[0]) || !strings.Contains(norm(ret.Results[1]), ev) {
			c.Refuse("OpenWriter: the Lock() failure branch does not end in `return nil, <error>`")
		}
		for _, b := range is.Body.List[:n-1] {
			afterLockFail = append(afterLockFail, norm(b))
		}
	}
	if !lockSeen {
		c.Refuse("OpenWriter does not call directory.Lock()")
	}
	// a deferred call in OpenWriter could undo the lock as well
	ast.Inspect(ow.Body, func(n ast.Node) bool {
		if d, ok := n.(*ast.DeferStmt); ok {
			afterLockFail = append(afterLockFail, "defer "+norm(d.Call))
		}
		return true
	})
	wc := pkg.Func("Writer.close")
	if wc == nil || wc.Body == nil {
		c.Refuse("Writer.close not found")
	}
	var closeDirCalls []string
	ast.Inspect(wc.Body, func(n ast.Node) bool {
		if ce, ok := n.(*ast.CallExpr); ok {
			if sel, ok := ce.Fun.(*ast.SelectorExpr); ok {
				if in, ok := sel.X.(*ast.SelectorExpr); ok && in.Sel.Name == "directory" {
					closeDirCalls = append(closeDirCalls, sel.Sel.Name)
				}
			}
		}
		return true
	})

	var b strings.Builder
	b.WriteString("import Bluge.FS\n")
	b.WriteString("/-! GENERATED by verif/go/extract (c13.go) from index/directory_fs.go, index/directory_fs_nix.go and index/writer.go\n")
	b.WriteString("of the current working tree — do not edit. The file-system steps of `FileSystemDirectory.Persist`, `.remove`,\n")
	b.WriteString("`.Lock`, `.Unlock`, `.Load`, of the two loaders and of the closers they return, in source order, each with the\n")
	b.WriteString("clean-up calls of its error branch; and what `OpenWriter` does when `Lock()` fails. -/\n")
	b.WriteString("namespace BlugeGen.C13\nopen Bluge.FS\n\n")
	wr := func(name string, steps []string) {
		b.WriteString("def " + name + " : Prog := [\n")
		for i, s := range steps {
			b.WriteString("  " + s)
			if i+1 < len(steps) {
				b.WriteString(",")
			}
			b.WriteString("\n")
		}
		b.WriteString("]\n\n")
	}
	strs := func(name, doc string, xs []string) {
		var q []string
		for _, v := range xs {
			q = append(q, LeanStr(v))
		}
		b.WriteString("/-- " + doc + " -/\ndef " + name + " : List String := [" + strings.Join(q, ", ") + "]\n\n")
	}
	wr("persistProgram", persist)
	wr("removeProgram", remove)
	wr("lockProgram", lockP)
	wr("unlockProgram", unlockP)
	wr("loadProgram", loadP)
	b.WriteString("/-- `Load` ends in `return d." + loadTail + "(f)`; NewFileSystemDirectory stores this loader in the field -/\n")
	b.WriteString("def loadTailField : String := " + LeanStr(loadTail) + "\ndef loadDefaultLoader : String := " + LeanStr(loadDefault) + "\n\n")
	wr("loadMMapAlwaysProgram", mmAlways)
	wr("loadMMapAlwaysCloser", mmAlwaysCloser)
	wr("loadMMapNeverProgram", mmNever)
	wr("loadMMapNeverCloser", mmNeverCloser)
	strs("openWriterAfterLockFail", "OpenWriter: the statements between a failed `directory.Lock()` and `return nil, err` (and every deferred call of OpenWriter)", afterLockFail)
	strs("writerCloseDirectoryCalls", "Writer.close: its calls on the directory, in source order", closeDirCalls)
	// ---- the item writer of snapshots: its buffered tail must reach the file or be reported (Persist trusts WriteTo's error)
	wt := pkg.Func("Snapshot.WriteTo")
	if wt == nil || wt.Body == nil {
		c.Refuse("Snapshot.WriteTo not found")
	}
	var wtTail []string
	deferred := []string{}
	ast.Inspect(wt.Body, func(n ast.Node) bool {
		if d, ok := n.(*ast.DeferStmt); ok {
			deferred = append(deferred, norm(d))
		}
		return true
	})
	nst := len(wt.Body.List)
	for i := nst - 3; i < nst; i++ {
		if i >= 0 {
			wtTail = append(wtTail, norm(wt.Body.List[i]))
		}
	}
	strs("snapshotWriteToTail", "(*Snapshot).WriteTo: its last three statements (the buffered writer is flushed and the error returned)", wtTail)
	strs("snapshotWriteToDefers", "(*Snapshot).WriteTo: its deferred calls (a deferred Flush would drop the error)", deferred)
	b.WriteString("end BlugeGen.C13\n")
	c.WriteLean("C13", b.String())
	c.Summary["persist_steps"] = persist
	c.Summary["remove_steps"] = remove
	c.Summary["lock_steps"] = lockP
	c.Summary["unlock_steps"] = unlockP
	c.Summary["load_steps"] = append(append([]string{}, loadP...), "tail:"+loadTail+"="+loadDefault)
	c.Summary["open_writer_after_lock_fail"] = afterLockFail
	trunc := false
	for _, s := range persist {
		if strings.Contains(s, ".truncate") || strings.Contains(s, ".O_TRUNC") {
			trunc = true
		}
	}
	c.Summary["persist_truncates"] = trunc
}

// linuxFunc finds the declaration of "Recv.Name" that is compiled on linux/amd64 (file-name suffix and
// //go:build constraint are honoured; the harness runs on linux). More than one candidate: refuse.
func linuxFunc(c *Ctx, p *Pkg, name string) *ast.FuncDecl {
	recv, fn := "", name
	if i := strings.Index(name, "."); i >= 0 {
		recv, fn = name[:i], name[i+1:]
	}
	oses := []string{"windows", "darwin", "freebsd", "netbsd", "openbsd", "dragonfly", "solaris", "plan9", "js", "aix", "android", "ios", "illumos", "wasip1"}
	tags := map[string]bool{"linux": true, "amd64": true, "unix": true, "cgo": true}
	var found []*ast.FuncDecl
	var files []string
	for n := range p.Files {
		files = append(files, n)
	}
	sort.Strings(files)
FILES:
	for _, n := range files {
		base := strings.TrimSuffix(n, ".go")
		for _, o := range oses {
			if strings.HasSuffix(base, "_"+o) || strings.Contains(base, "_"+o+"_") {
				continue FILES
			}
		}
		f := p.Files[n]
		for _, cg := range f.Comments {
			if cg.Pos() > f.Package {
				break
			}
			for _, cm := range cg.List {
				if constraint.IsGoBuild(cm.Text) {
					ex, err := constraint.Parse(cm.Text)
					if err != nil {
						c.Refuse("%s: build constraint: %v", n, err)
					}
					if !ex.Eval(func(t string) bool { return tags[t] || strings.HasPrefix(t, "go1.") }) {
						continue FILES
					}
				}
			}
		}
		for _, d := range f.Decls {
			fd, ok := d.(*ast.FuncDecl)
			if !ok || fd.Name.Name != fn {
				continue
			}
			r := ""
			if fd.Recv != nil && len(fd.Recv.List) == 1 {
				t := fd.Recv.List[0].Type
				if s, ok := t.(*ast.StarExpr); ok {
					t = s.X
				}
				if id, ok := t.(*ast.Ident); ok {
					r = id.Name
				}
			}
			if r == recv {
				found = append(found, fd)
			}
		}
	}
	if len(found) > 1 {
		c.Refuse("%s is declared %d times for linux", name, len(found))
	}
	if len(found) == 0 {
		return nil
	}
	return found[0]
}

package main

// Gen for C15 — "Writer and Reader are safe for concurrent use and Close terminates".
//
// Reads package /repo/index (go/parser + go/types with a stub importer: only the types declared in the
// package itself are needed) and writes lean/BlugeGen/C15.lean:
//
//  (a) `groups` / `accesses`: every read and write of every field of the shared structs
//      (Writer, Snapshot, segmentSnapshot, KeepNLatestDeletionPolicy, closeOnLastRefCounter, Stats —
//      the postingsIterator recycling list is Snapshot.fieldTFRs), each with
//        - the lock set syntactically held (X.Lock()/RLock() … X.Unlock()/RUnlock() in one block of one
//          function body, or `defer X.Unlock()`), with exclusive/shared mode,
//        - whether the access goes through sync/atomic,
//        - whether the object is still private to the accessing function ("fresh": the base is a local
//          variable bound to a composite literal / new() and has not yet been passed anywhere, or the
//          access is a key of the composite literal itself, or the enclosing method is only ever called
//          on such receivers),
//        - the goroutine roles that can reach the enclosing function in a name-based call graph rooted at
//          the three loops, OpenWriter/OpenReader (init-before-go) and the exported methods of the API types.
//      Anything the analysis cannot classify (address taken, lock leaking out of its block, `go` in a
//      single-goroutine role, …) is listed in `unclassified`, which the proof obligation requires empty.
//  (b) `chanOps`: every blocking channel operation (send, receive, select, range, WaitGroup.Wait) in the
//      functions reachable from the three loops, and in Batch/prepareSegment/Close/close/analysisWorker/
//      NotifyUsAfter, with whether it sits in a select that has a `<-…closeCh` case, and the locks held.
//  (c) small facts: the `go` statements of OpenWriter, the WaitGroup Add/Done/Wait sites, the order
//      close(closeCh) → Wait in Writer.close, use-after-recycle sites of postingsIterator.
//
// Deliberately simple and syntactic; its limits are listed in checks/c15.py ASSUMPTIONS.

import (
	"fmt"
	"go/ast"
	"go/token"
	"go/types"
	"os"
	"path/filepath"
	"sort"
	"strings"
)

func init() { Register("C15", genC15) }

var c15Targets = []string{"Writer", "Snapshot", "segmentSnapshot", "KeepNLatestDeletionPolicy", "closeOnLastRefCounter", "Stats"}

// exported methods of these types are entry points of the concurrent API
var c15APITypes = map[string]string{
	"Writer":                          "api",
	"Snapshot":                        "searcher",
	"postingsIterator":                "searcher",
	"postingsIteratorAll":             "searcher",
	"dictionary":                      "searcher",
	"documentValueReader":             "searcher",
	"segmentSnapshot":                 "searcher",
	"optimizeConjunction":             "searcher",
	"optimizeConjunctionUnadorned":    "searcher",
	"optimizeDisjunctionUnadorned":    "searcher",
	"unadornedPostingsIteratorBitmap": "searcher",
	"unadornedPostingsIterator1Hit":   "searcher",
	"collectionStats":                 "searcher",
}

// calls into other packages that call back into methods of index types (the call graph cannot see them)
var c15ExtraEdges = map[string][]string{
	"Writer.planMergeAtSnapshot":   {"segmentSnapshot.ID", "segmentSnapshot.FullSize", "segmentSnapshot.LiveSize"}, // mergeplan.Plan
	"Writer.persistSnapshotDirect": {"Snapshot.WriteTo"},                                                           // Directory.Persist(…, snapshot, …)
	"Snapshot.Backup":              {"Snapshot.WriteTo"},
}

var c15SyncTypes = map[string]bool{"sync.Mutex": true, "sync.RWMutex": true, "sync.WaitGroup": true, "sync.Once": true}

type c15Importer struct{ pkgs map[string]*types.Package }

func (m *c15Importer) Import(path string) (*types.Package, error) {
	if p, ok := m.pkgs[path]; ok {
		return p, nil
	}
	name := path
	if i := strings.LastIndex(path, "/"); i >= 0 {
		name = path[i+1:]
	}
	if strings.HasPrefix(name, "v") && len(name) <= 3 { // …/ice/v2
		parts := strings.Split(path, "/")
		if len(parts) >= 2 {
			name = parts[len(parts)-2]
		}
	}
	name = strings.TrimPrefix(name, "go-")
	p := types.NewPackage(path, name)
	p.MarkComplete()
	m.pkgs[path] = p
	return p, nil
}

type c15Func struct {
	name     string // "Recv.Name" or "Name"
	recv     string
	decl     *ast.FuncDecl
	file     string
	exported bool
	byValue  bool
	calls    map[string]bool // callees (role-propagating)
	goCalls  map[string]bool // callees started with `go`
	hasGo    bool            // contains a go statement (other than in OpenWriter)
}

type c15Access struct {
	strct, field string
	write        bool
	atomic       bool
	locks        []c15Lock
	fresh        bool
	recvBase     bool // base of the access is the method receiver
	fn           string
	pos          token.Pos
}

type c15Lock struct {
	name string // "Snapshot.m"
	excl bool
	base string // rendered base expression of the lock ("i" for i.m)
}

type c15ChanOp struct {
	fn       string
	kind     string
	ch       string
	closeAlt bool
	inFor    bool   // the operation sits inside a for statement of its function
	exit     string // where the `<-closeCh` case of a select goes: none | ret | leavesFor | noFor | staysInFor
	deflt    bool
	locks    []string
	pos      token.Pos
}

type c15Gen struct {
	ctx    *Ctx
	pkg    *Pkg
	info   *types.Info
	funcs  map[string]*c15Func
	byName map[string][]string // method name -> function names
	fields map[string][]string // target struct -> field names (non-sync)
	syncF  map[string]string   // "Struct.field" -> sync type
	acc    []c15Access
	uncl   []string
	ops    []c15ChanOp
	wg     []string
	reuse  []string
	retain []string              // hand-off objects whose parts a deferred closure of the sender still touches
	extVar map[types.Object]bool // local variables defined as `v := pkg.Func(…)` and never assigned again
}

func (g *c15Gen) unclassified(pos token.Pos, format string, a ...interface{}) {
	p := g.pkg.Fset.Position(pos)
	g.uncl = append(g.uncl, fmt.Sprintf("%s:%d: %s", c15ShortFile(p.Filename), p.Line, fmt.Sprintf(format, a...)))
}

func c15ShortFile(f string) string {
	if i := strings.LastIndex(f, "/"); i >= 0 {
		return f[i+1:]
	}
	return f
}

func genC15(ctx *Ctx) {
	pkg := ctx.ParseDir("index")
	g := &c15Gen{ctx: ctx, pkg: pkg, funcs: map[string]*c15Func{}, byName: map[string][]string{}, fields: map[string][]string{}, syncF: map[string]string{}}
	var files []*ast.File
	var names []string
	for n := range pkg.Files {
		if strings.HasSuffix(n, "_windows.go") {
			continue
		}
		names = append(names, n)
	}
	sort.Strings(names)
	for _, n := range names {
		files = append(files, pkg.Files[n])
	}
	g.info = &types.Info{
		Types:      map[ast.Expr]types.TypeAndValue{},
		Defs:       map[*ast.Ident]types.Object{},
		Uses:       map[*ast.Ident]types.Object{},
		Selections: map[*ast.SelectorExpr]*types.Selection{},
	}
	conf := types.Config{Importer: &c15Importer{pkgs: map[string]*types.Package{}}, Error: func(error) {}, DisableUnusedImportCheck: true}
	_, _ = conf.Check("index", pkg.Fset, files, g.info) // errors about imported names are expected and ignored

	// ---- structs
	for _, n := range names {
		for _, d := range pkg.Files[n].Decls {
			gd, ok := d.(*ast.GenDecl)
			if !ok || gd.Tok != token.TYPE {
				continue
			}
			for _, sp := range gd.Specs {
				ts := sp.(*ast.TypeSpec)
				st, ok := ts.Type.(*ast.StructType)
				if !ok || !c15IsTarget(ts.Name.Name) {
					continue
				}
				for _, f := range st.Fields.List {
					ty := pkg.Src(f.Type)
					for _, id := range f.Names {
						if c15SyncTypes[ty] {
							g.syncF[ts.Name.Name+"."+id.Name] = ty
							continue
						}
						g.fields[ts.Name.Name] = append(g.fields[ts.Name.Name], id.Name)
					}
					if len(f.Names) == 0 {
						ctx.Refuse("embedded field in shared struct %s is outside the analysed subset", ts.Name.Name)
					}
				}
			}
		}
	}
	for _, t := range c15Targets {
		if len(g.fields[t]) == 0 {
			ctx.Refuse("anchor moved: struct %s not found in package index", t)
		}
	}
	// ---- functions
	for _, n := range names {
		for _, d := range pkg.Files[n].Decls {
			fd, ok := d.(*ast.FuncDecl)
			if !ok || fd.Body == nil {
				continue
			}
			f := &c15Func{decl: fd, file: n, calls: map[string]bool{}, goCalls: map[string]bool{}, exported: fd.Name.IsExported()}
			f.name = fd.Name.Name
			if fd.Recv != nil && len(fd.Recv.List) == 1 {
				t := fd.Recv.List[0].Type
				f.byValue = true
				if s, ok := t.(*ast.StarExpr); ok {
					t = s.X
					f.byValue = false
				}
				if id, ok := t.(*ast.Ident); ok {
					f.recv = id.Name
					f.name = id.Name + "." + fd.Name.Name
				}
			}
			if f.name == "init" {
				continue
			}
			g.funcs[f.name] = f
			g.byName[fd.Name.Name] = append(g.byName[fd.Name.Name], f.name)
		}
	}
	for _, anchor := range []string{"Writer.introducerLoop", "Writer.persisterLoop", "Writer.mergerLoop", "OpenWriter", "OpenReader", "Writer.close", "Writer.Close",
		"Writer.Batch", "Writer.prepareSegment", "Writer.replaceRoot", "Writer.currentSnapshot", "Snapshot.allocPostingsIterator", "Snapshot.recyclePostingsIterator",
		"watcherChan.NotifyUsAfter", "Writer.Stats", "Writer.MemoryUsed", "analysisWorker"} {
		if g.funcs[anchor] == nil {
			ctx.Refuse("anchor moved: function %s not found", anchor)
		}
	}
	for from, tos := range c15ExtraEdges {
		if g.funcs[from] == nil {
			ctx.Refuse("anchor moved: %s (extra call-graph edge) not found", from)
		}
		for _, to := range tos {
			if g.funcs[to] == nil {
				ctx.Refuse("anchor moved: %s (extra call-graph edge) not found", to)
			}
		}
	}
	// ---- local variables that hold values of imported types (v := pkg.Func(…), single definition)
	g.extVar = map[types.Object]bool{}
	reassigned := map[types.Object]bool{}
	for _, n := range names {
		ast.Inspect(pkg.Files[n], func(nd ast.Node) bool {
			as, ok := nd.(*ast.AssignStmt)
			if !ok {
				return true
			}
			for i, l := range as.Lhs {
				id, ok := l.(*ast.Ident)
				if !ok {
					continue
				}
				if as.Tok != token.DEFINE || g.info.Defs[id] == nil {
					if obj := g.info.Uses[id]; obj != nil {
						reassigned[obj] = true
					}
					continue
				}
				if len(as.Rhs) != len(as.Lhs) {
					continue
				}
				if c, ok := as.Rhs[i].(*ast.CallExpr); ok {
					if sel, ok := c.Fun.(*ast.SelectorExpr); ok {
						if pid, ok := sel.X.(*ast.Ident); ok {
							if _, isPkg := g.info.Uses[pid].(*types.PkgName); isPkg {
								g.extVar[g.info.Defs[id]] = true
							}
						}
					}
				}
			}
			return true
		})
	}
	for o := range reassigned {
		delete(g.extVar, o)
	}
	// ---- call graph, accesses, channel operations
	fnames := make([]string, 0, len(g.funcs))
	for n := range g.funcs {
		fnames = append(fnames, n)
	}
	sort.Strings(fnames)
	for _, n := range fnames {
		g.scanCalls(g.funcs[n])
	}
	for from, tos := range c15ExtraEdges {
		for _, to := range tos {
			g.funcs[from].calls[to] = true
		}
	}
	for _, n := range fnames {
		g.walkFunc(g.funcs[n])
	}

	// ---- roles
	roles := map[string]map[string]bool{}
	addRole := func(root, role string, viaGo bool) {
		seen := map[string]bool{}
		var dfs func(string)
		dfs = func(n string) {
			if seen[n] || g.funcs[n] == nil {
				return
			}
			seen[n] = true
			if roles[n] == nil {
				roles[n] = map[string]bool{}
			}
			roles[n][role] = true
			for c := range g.funcs[n].calls {
				dfs(c)
			}
		}
		dfs(root)
	}
	addRole("Writer.introducerLoop", "introducer", false)
	addRole("Writer.persisterLoop", "persister", false)
	addRole("Writer.mergerLoop", "merger", false)
	for _, r := range []string{"OpenWriter", "OpenReader", "NewKeepNLatestDeletionPolicy"} {
		if g.funcs[r] != nil {
			addRole(r, "init", false)
		}
	}
	var entries []string
	for _, n := range fnames {
		f := g.funcs[n]
		if role, ok := c15APITypes[f.recv]; ok && f.exported {
			addRole(n, role, false)
			entries = append(entries, n+":"+role)
		}
	}
	// the loops must be started by `go` in OpenWriter only, and nothing reachable from a single-goroutine
	// role may start goroutines
	ow := g.funcs["OpenWriter"]
	for _, l := range []string{"Writer.introducerLoop", "Writer.persisterLoop", "Writer.mergerLoop"} {
		if !ow.goCalls[l] {
			g.unclassified(ow.decl.Pos(), "OpenWriter does not start %s with a go statement", l)
		}
		for _, n := range fnames {
			if n != "OpenWriter" && (g.funcs[n].calls[l] || g.funcs[n].goCalls[l]) {
				g.unclassified(g.funcs[n].decl.Pos(), "%s is also called from %s: the role is no longer a single goroutine", l, n)
			}
		}
	}
	for _, n := range fnames {
		f := g.funcs[n]
		if f.hasGo && (roles[n]["introducer"] || roles[n]["persister"] || roles[n]["merger"]) {
			g.unclassified(f.decl.Pos(), "go statement in %s, which is reachable from a single-goroutine role", n)
		}
	}

	// ---- ctor-phase methods: every call site in the package has a fresh receiver (or sits in another
	// ctor-phase method on its own receiver)
	ctorOnly := g.ctorOnlyMethods(fnames)

	g.emit(fnames, roles, ctorOnly, entries)
	// Reader side: writes to objects shared between concurrent searches (c15shared.go)
	ctx.WriteLean("C15Shared", genC15Shared(ctx))
}

func c15IsTarget(n string) bool {
	for _, t := range c15Targets {
		if t == n {
			return true
		}
	}
	return false
}

// ------------------------------------------------------------------------------------------------
// call graph

func (g *c15Gen) calleeNames(call *ast.CallExpr) []string {
	switch fun := call.Fun.(type) {
	case *ast.Ident:
		if obj, ok := g.info.Uses[fun].(*types.Func); ok && obj.Pkg() != nil && obj.Pkg().Name() == "index" {
			if g.funcs[fun.Name] != nil {
				return []string{fun.Name}
			}
		}
		return nil
	case *ast.SelectorExpr:
		if sel, ok := g.info.Selections[fun]; ok && sel.Kind() == types.MethodVal {
			if fn, ok := sel.Obj().(*types.Func); ok {
				if sig, ok := fn.Type().(*types.Signature); ok && sig.Recv() != nil {
					rt := sig.Recv().Type()
					if p, ok := rt.(*types.Pointer); ok {
						rt = p.Elem()
					}
					if nt, ok := rt.(*types.Named); ok {
						if _, isIface := nt.Underlying().(*types.Interface); !isIface {
							n := nt.Obj().Name() + "." + fn.Name()
							if g.funcs[n] != nil {
								return []string{n}
							}
							return nil
						}
					}
				}
			}
		}
		if sel, ok := g.info.Selections[fun]; ok && sel.Kind() == types.FieldVal {
			return nil // a call of a function-typed field (callback)
		}
		// interface method or receiver of unknown (imported) type: every method of that name in the package
		if id, ok := fun.X.(*ast.Ident); ok {
			if _, isPkg := g.info.Uses[id].(*types.PkgName); isPkg {
				return nil // pkg.Func
			}
			if obj := g.info.Uses[id]; obj != nil && g.extVar[obj] {
				return nil // a local variable bound to the result of pkg.Func(…): a value of an imported type
			}
		}
		return g.byName[fun.Sel.Name]
	}
	return nil
}

func (g *c15Gen) scanCalls(f *c15Func) {
	ast.Inspect(f.decl.Body, func(n ast.Node) bool {
		switch x := n.(type) {
		case *ast.GoStmt:
			if f.name != "OpenWriter" {
				f.hasGo = true
			}
			for _, c := range g.calleeNames(x.Call) {
				f.goCalls[c] = true
			}
			// arguments and a function literal body still belong to f
			for _, a := range x.Call.Args {
				ast.Inspect(a, func(m ast.Node) bool {
					if c, ok := m.(*ast.CallExpr); ok {
						for _, cn := range g.calleeNames(c) {
							f.calls[cn] = true
						}
					}
					return true
				})
			}
			if fl, ok := x.Call.Fun.(*ast.FuncLit); ok {
				ast.Inspect(fl.Body, func(m ast.Node) bool {
					if c, ok := m.(*ast.CallExpr); ok {
						for _, cn := range g.calleeNames(c) {
							f.calls[cn] = true
						}
					}
					return true
				})
			}
			return false
		case *ast.CallExpr:
			for _, c := range g.calleeNames(x) {
				f.calls[c] = true
			}
		}
		return true
	})
}

// ------------------------------------------------------------------------------------------------
// accesses, lock regions, channel operations

type c15Walk struct {
	g         *c15Gen
	f         *c15Func
	recvVar   string
	fresh     map[string]token.Pos // local variable -> position of its first escape (NoPos = never)
	isFresh   map[string]bool
	freshFrom map[string]token.Pos // for `v = &T{…}`: fresh only after this position
	atomicN   string               // local name of sync/atomic in this file
	inSel     bool
	asBase    bool     // the expression being visited is the X of a selector
	loops     []string // labels ("" = none) of the enclosing for statements of this function body, outermost first
	label     string   // label of the statement about to be visited
}

func (g *c15Gen) walkFunc(f *c15Func) {
	w := &c15Walk{g: g, f: f, fresh: map[string]token.Pos{}, isFresh: map[string]bool{}, freshFrom: map[string]token.Pos{}}
	if f.decl.Recv != nil && len(f.decl.Recv.List) == 1 && len(f.decl.Recv.List[0].Names) == 1 {
		w.recvVar = f.decl.Recv.List[0].Names[0].Name
	}
	for _, imp := range g.pkg.Files[f.file].Imports {
		if imp.Path.Value == `"sync/atomic"` {
			w.atomicN = "atomic"
			if imp.Name != nil {
				w.atomicN = imp.Name.Name
			}
		}
	}
	w.findFresh()
	w.block(f.decl.Body.List, nil)
	// WaitGroup sites, use-after-recycle
	ast.Inspect(f.decl.Body, func(n ast.Node) bool {
		if c, ok := n.(*ast.CallExpr); ok {
			if s, ok := c.Fun.(*ast.SelectorExpr); ok && (s.Sel.Name == "Add" || s.Sel.Name == "Done" || s.Sel.Name == "Wait") {
				if strings.HasSuffix(g.pkg.Src(s.X), ".asyncTasks") {
					g.wg = append(g.wg, f.name+":"+s.Sel.Name)
				}
			}
		}
		return true
	})
	if f.recv == "postingsIterator" && w.recvVar != "" {
		w.useAfterRecycle()
	}
	w.handoffRetained()
}

// handoffRetained: the function builds `o := &T{…, f: u, …}` from a local `u`, sends `o` on a channel
// (plain send or select case), and a deferred closure of the same function still uses `u`: after the
// hand-over the receiver owns `u`, so the deferred use is only ordered if every path from the send to the
// function's exit first receives the receiver's reply: a function that receives `<-o.field` outside any
// select is taken to do so.
func (w *c15Walk) handoffRetained() {
	parts := map[string][]string{} // object variable -> local variables stored in its literal
	ast.Inspect(w.f.decl.Body, func(n ast.Node) bool {
		as, ok := n.(*ast.AssignStmt)
		if !ok || len(as.Lhs) != len(as.Rhs) {
			return true
		}
		for i, l := range as.Lhs {
			id, ok := l.(*ast.Ident)
			if !ok {
				continue
			}
			e := as.Rhs[i]
			if u, ok := e.(*ast.UnaryExpr); ok && u.Op == token.AND {
				e = u.X
			}
			cl, ok := e.(*ast.CompositeLit)
			if !ok {
				continue
			}
			for _, el := range cl.Elts {
				if kv, ok := el.(*ast.KeyValueExpr); ok {
					if v, ok := kv.Value.(*ast.Ident); ok && v.Name != "nil" && v.Name != "true" && v.Name != "false" {
						if _, isVar := w.g.info.Uses[v].(*types.Var); isVar {
							parts[id.Name] = append(parts[id.Name], v.Name)
						}
					}
				}
			}
		}
		return true
	})
	if len(parts) == 0 {
		return
	}
	sent := map[string]bool{}
	ast.Inspect(w.f.decl.Body, func(n ast.Node) bool {
		if s, ok := n.(*ast.SendStmt); ok {
			if id, ok := s.Value.(*ast.Ident); ok && parts[id.Name] != nil {
				sent[id.Name] = true
			}
		}
		return true
	})
	// a reply awaited unconditionally (a receive `<-o.field` that is not a select case) after the send gives
	// the object back before the function can exit
	inSelect := map[ast.Node]bool{}
	ast.Inspect(w.f.decl.Body, func(n ast.Node) bool {
		if sel, ok := n.(*ast.SelectStmt); ok {
			for _, c := range sel.Body.List {
				if cc, ok := c.(*ast.CommClause); ok && cc.Comm != nil {
					ast.Inspect(cc.Comm, func(m ast.Node) bool {
						if m != nil {
							inSelect[m] = true
						}
						return true
					})
				}
			}
		}
		return true
	})
	ast.Inspect(w.f.decl.Body, func(n ast.Node) bool {
		u, ok := n.(*ast.UnaryExpr)
		if !ok || u.Op != token.ARROW || inSelect[u] {
			return true
		}
		if se, ok := u.X.(*ast.SelectorExpr); ok {
			if id, ok := se.X.(*ast.Ident); ok && sent[id.Name] {
				delete(sent, id.Name)
			}
		}
		return true
	})
	for o := range sent {
		for _, u := range parts[o] {
			used := false
			ast.Inspect(w.f.decl.Body, func(n ast.Node) bool {
				d, ok := n.(*ast.DeferStmt)
				if !ok {
					return true
				}
				ast.Inspect(d.Call, func(m ast.Node) bool {
					if id, ok := m.(*ast.Ident); ok && id.Name == u {
						used = true
					}
					return true
				})
				return false
			})
			if used {
				w.g.retain = append(w.g.retain, w.f.name+":"+u)
			}
		}
	}
}

// findFresh: local variables bound (at their declaration) to &T{…}, T{…} or new(T) with T a shared struct,
// and the position of the first use that is not `v.field…` / `v.method(…)`.
func (w *c15Walk) findFresh() {
	g := w.g
	ast.Inspect(w.f.decl.Body, func(n ast.Node) bool {
		as, ok := n.(*ast.AssignStmt)
		if !ok || as.Tok != token.DEFINE || len(as.Lhs) != len(as.Rhs) {
			return true
		}
		for i, l := range as.Lhs {
			id, ok := l.(*ast.Ident)
			if !ok {
				continue
			}
			if c15FreshExpr(as.Rhs[i]) != "" {
				w.isFresh[id.Name] = true
			}
		}
		return true
	})
	// a variable assigned again later is no longer known fresh; a variable (named result, `var v`) whose ONLY
	// assignment in the function is `v = &T{…}` is fresh from that assignment on
	nAssign := map[string]int{}
	ast.Inspect(w.f.decl.Body, func(n ast.Node) bool {
		if as, ok := n.(*ast.AssignStmt); ok && as.Tok != token.DEFINE {
			for _, l := range as.Lhs {
				if id, ok := l.(*ast.Ident); ok {
					nAssign[id.Name]++
					if w.isFresh[id.Name] {
						delete(w.isFresh, id.Name)
						nAssign[id.Name] += 2
					}
				}
			}
		}
		return true
	})
	ast.Inspect(w.f.decl.Body, func(n ast.Node) bool {
		if as, ok := n.(*ast.AssignStmt); ok && as.Tok == token.ASSIGN && len(as.Lhs) == len(as.Rhs) {
			for i, l := range as.Lhs {
				if id, ok := l.(*ast.Ident); ok && nAssign[id.Name] == 1 && c15FreshExpr(as.Rhs[i]) != "" {
					w.isFresh[id.Name] = true
					w.freshFrom[id.Name] = as.End()
				}
			}
		}
		return true
	})
	// first escape: an occurrence of the identifier that is not the X of a selector
	parentSel := map[*ast.Ident]bool{}
	ast.Inspect(w.f.decl.Body, func(n ast.Node) bool {
		if s, ok := n.(*ast.SelectorExpr); ok {
			if id, ok := s.X.(*ast.Ident); ok {
				parentSel[id] = true
			}
		}
		return true
	})
	ast.Inspect(w.f.decl.Body, func(n ast.Node) bool {
		id, ok := n.(*ast.Ident)
		if !ok || !w.isFresh[id.Name] || parentSel[id] {
			return true
		}
		if _, isDef := g.info.Defs[id]; isDef && g.info.Defs[id] != nil {
			return true
		}
		if from, ok := w.freshFrom[id.Name]; ok && id.Pos() < from {
			return true
		}
		if p, ok := w.fresh[id.Name]; !ok || id.Pos() < p {
			w.fresh[id.Name] = id.Pos()
		}
		return true
	})
}

// freshAt: is local `name` a private, not yet escaped object at pos?
func (w *c15Walk) freshAt(name string, pos token.Pos) bool {
	if !w.isFresh[name] {
		return false
	}
	if from, ok := w.freshFrom[name]; ok && pos < from {
		return false
	}
	if esc, ok := w.fresh[name]; ok && pos >= esc {
		return false
	}
	return true
}

func c15FreshExpr(e ast.Expr) string {
	if u, ok := e.(*ast.UnaryExpr); ok && u.Op == token.AND {
		e = u.X
	}
	if cl, ok := e.(*ast.CompositeLit); ok {
		if id, ok := cl.Type.(*ast.Ident); ok && c15IsTarget(id.Name) {
			return id.Name
		}
	}
	if c, ok := e.(*ast.CallExpr); ok {
		if id, ok := c.Fun.(*ast.Ident); ok && id.Name == "new" && len(c.Args) == 1 {
			if t, ok := c.Args[0].(*ast.Ident); ok && c15IsTarget(t.Name) {
				return t.Name
			}
		}
	}
	return ""
}

func (w *c15Walk) lockCall(s ast.Stmt) (base, field string, op string, ok bool) {
	es, isExpr := s.(*ast.ExprStmt)
	var call *ast.CallExpr
	if isExpr {
		call, _ = es.X.(*ast.CallExpr)
	}
	if ds, isDefer := s.(*ast.DeferStmt); isDefer {
		call = ds.Call
	}
	if call == nil {
		return
	}
	sel, isSel := call.Fun.(*ast.SelectorExpr)
	if !isSel {
		return
	}
	switch sel.Sel.Name {
	case "Lock", "RLock", "Unlock", "RUnlock":
	default:
		return
	}
	inner, isSel2 := sel.X.(*ast.SelectorExpr)
	if !isSel2 {
		return
	}
	fs, okf := w.g.info.Selections[inner]
	if !okf || fs.Kind() != types.FieldVal {
		return
	}
	owner := c15Named(fs.Recv())
	if owner == "" {
		return
	}
	ty, isSync := w.g.syncF[owner+"."+inner.Sel.Name]
	if !isSync {
		// a mutex field of a struct outside the shared set (e.g. InMemoryDirectory.segLock)
		return
	}
	if ty != "sync.Mutex" && ty != "sync.RWMutex" {
		return
	}
	return w.g.pkg.Src(inner.X), owner + "." + inner.Sel.Name, sel.Sel.Name, true
}

func c15Named(t types.Type) string {
	if p, ok := t.(*types.Pointer); ok {
		t = p.Elem()
	}
	if n, ok := t.(*types.Named); ok {
		return n.Obj().Name()
	}
	return ""
}

func c15Terminates(list []ast.Stmt) bool {
	if len(list) == 0 {
		return false
	}
	switch s := list[len(list)-1].(type) {
	case *ast.ReturnStmt:
		return true
	case *ast.BranchStmt:
		return s.Tok == token.BREAK || s.Tok == token.CONTINUE || s.Tok == token.GOTO
	case *ast.ExprStmt:
		if c, ok := s.X.(*ast.CallExpr); ok {
			if id, ok := c.Fun.(*ast.Ident); ok && id.Name == "panic" {
				return true
			}
		}
	}
	return false
}

// block walks a statement list with the set of locks held on entry; returns nothing: locks acquired in
// the block must be released in the block (or deferred), else the site is unclassified.
func (w *c15Walk) block(list []ast.Stmt, held []c15Lock) {
	held = append([]c15Lock(nil), held...)
	entry := len(held)
	deferred := map[string]bool{}
	for _, s := range list {
		if base, name, op, ok := w.lockCall(s); ok {
			_, isDefer := s.(*ast.DeferStmt)
			switch {
			case isDefer && (op == "Unlock" || op == "RUnlock"):
				deferred[name+"|"+base] = true
			case isDefer:
				w.g.unclassified(s.Pos(), "deferred %s of %s", op, name)
			case op == "Lock" || op == "RLock":
				held = append(held, c15Lock{name: name, excl: op == "Lock", base: base})
			default:
				found := false
				for i := len(held) - 1; i >= 0; i-- {
					if held[i].name == name && held[i].base == base {
						if i < entry {
							// releasing a lock of the enclosing block: only sound when this block then leaves
							if !c15Terminates(list) {
								w.g.unclassified(s.Pos(), "%s released in a nested block that falls through", name)
							}
						}
						held = append(held[:i:i], held[i+1:]...)
						if i < entry {
							entry--
						}
						found = true
						break
					}
				}
				if !found {
					w.g.unclassified(s.Pos(), "%s of %s without a matching acquire in the same function", op, name)
				}
			}
			continue
		}
		w.stmt(s, held)
	}
	for i := entry; i < len(held); i++ {
		if !deferred[held[i].name+"|"+held[i].base] && !c15Terminates(list) {
			w.g.unclassified(list[len(list)-1].End(), "%s acquired in a block of %s and still held at its end", held[i].name, w.f.name)
		}
	}
}

func (w *c15Walk) stmt(s ast.Stmt, held []c15Lock) {
	switch x := s.(type) {
	case nil:
	case *ast.BlockStmt:
		w.block(x.List, held)
	case *ast.IfStmt:
		w.stmt(x.Init, held)
		w.expr(x.Cond, held, false)
		w.block(x.Body.List, held)
		w.stmt(x.Else, held)
	case *ast.ForStmt:
		lbl := w.label
		w.label = ""
		w.stmt(x.Init, held)
		w.expr(x.Cond, held, false)
		w.stmt(x.Post, held)
		w.loops = append(w.loops, lbl)
		w.block(x.Body.List, held)
		w.loops = w.loops[:len(w.loops)-1]
	case *ast.RangeStmt:
		lbl := w.label
		w.label = ""
		w.expr(x.X, held, false)
		if t, ok := w.g.info.Types[x.X]; ok {
			if _, isChan := t.Type.Underlying().(*types.Chan); isChan {
				w.op("range", w.chName(x.X), false, false, held, x.Pos())
			}
		}
		w.loops = append(w.loops, lbl)
		w.block(x.Body.List, held)
		w.loops = w.loops[:len(w.loops)-1]
	case *ast.SwitchStmt:
		w.stmt(x.Init, held)
		w.expr(x.Tag, held, false)
		for _, c := range x.Body.List {
			cc := c.(*ast.CaseClause)
			for _, e := range cc.List {
				w.expr(e, held, false)
			}
			w.block(cc.Body, held)
		}
	case *ast.TypeSwitchStmt:
		w.stmt(x.Init, held)
		w.stmt(x.Assign, held)
		for _, c := range x.Body.List {
			w.block(c.(*ast.CaseClause).Body, held)
		}
	case *ast.SelectStmt:
		var cases []string
		closeAlt, deflt := false, false
		w.label = ""
		var closeBody []ast.Stmt
		for _, c := range x.Body.List {
			cc := c.(*ast.CommClause)
			isClose := func(e ast.Expr) {
				if w.chName(e) == "closeCh" {
					closeBody = cc.Body
				}
			}
			switch comm := cc.Comm.(type) {
			case *ast.ExprStmt:
				if u, ok := comm.X.(*ast.UnaryExpr); ok && u.Op == token.ARROW {
					isClose(u.X)
				}
			case *ast.AssignStmt:
				if len(comm.Rhs) == 1 {
					if u, ok := comm.Rhs[0].(*ast.UnaryExpr); ok && u.Op == token.ARROW {
						isClose(u.X)
					}
				}
			}
			switch comm := cc.Comm.(type) {
			case nil:
				deflt = true
			case *ast.SendStmt:
				cases = append(cases, w.chName(comm.Chan)+"!")
			case *ast.ExprStmt:
				if u, ok := comm.X.(*ast.UnaryExpr); ok && u.Op == token.ARROW {
					cases = append(cases, w.chName(u.X)+"?")
					if w.chName(u.X) == "closeCh" {
						closeAlt = true
					}
				}
			case *ast.AssignStmt:
				if len(comm.Rhs) == 1 {
					if u, ok := comm.Rhs[0].(*ast.UnaryExpr); ok && u.Op == token.ARROW {
						cases = append(cases, w.chName(u.X)+"?")
						if w.chName(u.X) == "closeCh" {
							closeAlt = true
						}
					}
				}
			}
		}
		sort.Strings(cases)
		w.op("select", strings.Join(cases, ","), closeAlt, deflt, held, x.Pos())
		if closeAlt {
			w.g.ops[len(w.g.ops)-1].exit = w.closeExit(closeBody)
		}
		for _, c := range x.Body.List {
			cc := c.(*ast.CommClause)
			// accesses inside the comm statement (value sent, etc.)
			w.inSel = true
			w.stmt(cc.Comm, held)
			w.inSel = false
			w.block(cc.Body, held)
		}
	case *ast.LabeledStmt:
		w.label = x.Label.Name
		w.stmt(x.Stmt, held)
		w.label = ""
	case *ast.ExprStmt:
		w.expr(x.X, held, false)
	case *ast.SendStmt:
		if !w.inSel {
			w.op("send", w.chName(x.Chan), false, false, held, x.Pos())
		}
		w.expr(x.Chan, held, false)
		w.expr(x.Value, held, false)
	case *ast.IncDecStmt:
		w.expr(x.X, held, true)
	case *ast.AssignStmt:
		for _, r := range x.Rhs {
			w.expr(r, held, false)
		}
		for _, l := range x.Lhs {
			if x.Tok != token.ASSIGN && x.Tok != token.DEFINE {
				w.expr(l, held, false) // op-assign reads too
			}
			w.expr(l, held, true)
		}
	case *ast.GoStmt:
		w.expr(x.Call, nil, false) // the new goroutine holds none of our locks
	case *ast.DeferStmt:
		// deferred calls run at function exit: the lock state then is unknown, assume none
		w.expr(x.Call, nil, false)
	case *ast.ReturnStmt:
		for _, r := range x.Results {
			w.expr(r, held, false)
		}
	case *ast.DeclStmt:
		if gd, ok := x.Decl.(*ast.GenDecl); ok {
			for _, sp := range gd.Specs {
				if vs, ok := sp.(*ast.ValueSpec); ok {
					for _, v := range vs.Values {
						w.expr(v, held, false)
					}
				}
			}
		}
	case *ast.BranchStmt, *ast.EmptyStmt:
	default:
		w.g.unclassified(s.Pos(), "statement kind %T outside the analysed subset", s)
	}
}

func (w *c15Walk) chName(e ast.Expr) string {
	switch x := e.(type) {
	case *ast.Ident:
		return x.Name
	case *ast.SelectorExpr:
		return x.Sel.Name
	case *ast.CallExpr:
		return strings.ReplaceAll(w.g.pkg.Src(x.Fun), " ", "")
	case *ast.ParenExpr:
		return w.chName(x.X)
	}
	return strings.ReplaceAll(w.g.pkg.Src(e), " ", "")
}

func (w *c15Walk) op(kind, ch string, closeAlt, deflt bool, held []c15Lock, pos token.Pos) {
	var ls []string
	for _, l := range held {
		ls = append(ls, l.name)
	}
	w.g.ops = append(w.g.ops, c15ChanOp{fn: w.f.name, kind: kind, ch: ch, closeAlt: closeAlt, deflt: deflt, locks: ls, pos: pos,
		inFor: len(w.loops) > 0, exit: "none"})
}

// closeExit: where the body of a select's `<-closeCh` case sends control, judged by its last statement.
//
//	ret        return (or panic): the function is left
//	leavesFor  `break L` with L the label of the OUTERMOST for statement around the select in this function
//	noFor      the case falls out of the select (empty body, bare break) and the select is in no for statement
//	staysInFor anything that keeps control inside an enclosing for: a bare `break` (leaves only the select),
//	           falling out of the case, `continue`, a labelled break that leaves an inner for only
func (w *c15Walk) closeExit(body []ast.Stmt) string {
	inFor := len(w.loops) > 0
	fall := "noFor"
	if inFor {
		fall = "staysInFor"
	}
	if len(body) == 0 {
		return fall
	}
	switch s := body[len(body)-1].(type) {
	case *ast.ReturnStmt:
		return "ret"
	case *ast.ExprStmt:
		if c, ok := s.X.(*ast.CallExpr); ok {
			if id, ok := c.Fun.(*ast.Ident); ok && id.Name == "panic" {
				return "ret"
			}
		}
	case *ast.BranchStmt:
		switch s.Tok {
		case token.BREAK:
			if s.Label == nil {
				return fall
			}
			if inFor && w.loops[0] == s.Label.Name {
				return "leavesFor"
			}
			return fall
		case token.CONTINUE:
			return "staysInFor"
		case token.GOTO:
			w.g.unclassified(s.Pos(), "goto in the closeCh case of a select in %s", w.f.name)
			return "staysInFor"
		}
	}
	return fall
}

// expr visits an expression; write = the expression is the target of an assignment / inc / dec.
func (w *c15Walk) expr(e ast.Expr, held []c15Lock, write bool) {
	g := w.g
	if _, isSel := e.(*ast.SelectorExpr); !isSel {
		if _, isParen := e.(*ast.ParenExpr); !isParen {
			saved := w.asBase
			w.asBase = false
			defer func() { w.asBase = saved }()
		}
	}
	switch x := e.(type) {
	case nil:
		return
	case *ast.ParenExpr:
		w.expr(x.X, held, write)
	case *ast.SelectorExpr:
		if sel, ok := g.info.Selections[x]; ok && sel.Kind() == types.FieldVal {
			owner := c15Named(sel.Recv())
			if c15IsTarget(owner) {
				if _, isSync := g.syncF[owner+"."+x.Sel.Name]; !isSync {
					structVal := false
					if ft := c15Named(sel.Type()); c15IsTarget(ft) {
						if _, isPtr := sel.Type().(*types.Pointer); !isPtr {
							structVal = true
							// a value of a shared struct type: as the base of a further selection it is only an
							// address computation; read as a value it reads every field; assigned, it writes every field
							if !w.asBase {
								if write {
									g.unclassified(x.Pos(), "whole-struct assignment to %s.%s in %s", owner, x.Sel.Name, w.f.name)
								} else {
									w.wholeStruct(x, ft, held)
								}
							}
						}
					}
					if !structVal {
						w.access(x, owner, x.Sel.Name, write, false, held)
					}
				}
			}
		}
		saved := w.asBase
		w.asBase = true
		w.expr(x.X, held, false)
		w.asBase = saved
	case *ast.IndexExpr:
		// x.f[i] = v writes the contents of x.f: folded into the location of the field
		w.expr(x.X, held, write)
		if write {
			w.expr(x.X, held, false)
		}
		w.expr(x.Index, held, false)
	case *ast.SliceExpr:
		w.expr(x.X, held, false)
		w.expr(x.Low, held, false)
		w.expr(x.High, held, false)
		w.expr(x.Max, held, false)
	case *ast.StarExpr:
		if write || true {
			// *p (read or written) of a shared struct: whole-struct access
			if t, ok := g.info.Types[x]; ok {
				if n := c15Named(t.Type); c15IsTarget(n) {
					if _, isPtr := t.Type.(*types.Pointer); !isPtr {
						g.unclassified(x.Pos(), "whole-struct dereference of %s in %s", n, w.f.name)
					}
				}
			}
		}
		w.expr(x.X, held, false)
	case *ast.UnaryExpr:
		if x.Op == token.ARROW {
			if !w.inSel {
				w.op("recv", w.chName(x.X), false, false, held, x.Pos())
			}
			w.expr(x.X, held, false)
			return
		}
		if x.Op == token.AND {
			if cl, ok := x.X.(*ast.CompositeLit); ok {
				w.expr(cl, held, false)
				return
			}
			if fs := w.fieldSel(x.X); fs != nil {
				owner := c15Named(g.info.Selections[fs].Recv())
				if c15IsTarget(owner) {
					if _, isSync := g.syncF[owner+"."+fs.Sel.Name]; !isSync {
						g.unclassified(x.Pos(), "address of %s.%s taken in %s (not a sync/atomic argument)", owner, fs.Sel.Name, w.f.name)
					}
				}
			}
		}
		w.expr(x.X, held, false)
	case *ast.BinaryExpr:
		w.expr(x.X, held, false)
		w.expr(x.Y, held, false)
	case *ast.KeyValueExpr:
		w.expr(x.Key, held, false)
		w.expr(x.Value, held, false)
	case *ast.CompositeLit:
		tn := ""
		if id, ok := x.Type.(*ast.Ident); ok && c15IsTarget(id.Name) {
			tn = id.Name
		}
		for _, el := range x.Elts {
			if kv, ok := el.(*ast.KeyValueExpr); ok && tn != "" {
				if k, ok := kv.Key.(*ast.Ident); ok {
					if _, isSync := g.syncF[tn+"."+k.Name]; !isSync {
						g.acc = append(g.acc, c15Access{strct: tn, field: k.Name, write: true, fresh: true, fn: w.f.name, pos: k.Pos()})
					}
				}
				w.expr(kv.Value, held, false)
				continue
			}
			if tn != "" {
				g.unclassified(el.Pos(), "positional composite literal of %s", tn)
			}
			w.expr(el, held, false)
		}
	case *ast.FuncLit:
		// the body runs later (callback, goroutine, deferred): no lock of the enclosing region is assumed
		sub := *w
		sub.loops, sub.label = nil, ""
		sub.block(x.Body.List, nil)
	case *ast.TypeAssertExpr:
		w.expr(x.X, held, false)
	case *ast.CallExpr:
		// sync/atomic
		if s, ok := x.Fun.(*ast.SelectorExpr); ok {
			if id, ok := s.X.(*ast.Ident); ok && id.Name == w.atomicN && w.atomicN != "" {
				if _, isPkg := g.info.Uses[id].(*types.PkgName); isPkg && len(x.Args) > 0 {
					if u, ok := x.Args[0].(*ast.UnaryExpr); ok && u.Op == token.AND {
						if fs := w.fieldSel(u.X); fs != nil {
							owner := c15Named(g.info.Selections[fs].Recv())
							if c15IsTarget(owner) {
								isWrite := !strings.HasPrefix(s.Sel.Name, "Load")
								w.access(fs, owner, fs.Sel.Name, isWrite, true, held)
								w.asBase = true
								w.expr(fs.X, held, false)
								w.asBase = false
								for _, a := range x.Args[1:] {
									w.expr(a, held, false)
								}
								return
							}
						}
					}
				}
			}
			// method with a value receiver of a shared struct type: the call copies the whole struct
			if sel, ok := g.info.Selections[s]; ok && sel.Kind() == types.MethodVal {
				if fn, ok := sel.Obj().(*types.Func); ok {
					if sig, ok := fn.Type().(*types.Signature); ok && sig.Recv() != nil {
						if _, isPtr := sig.Recv().Type().(*types.Pointer); !isPtr {
							if n := c15Named(sig.Recv().Type()); c15IsTarget(n) {
								w.wholeStruct(s.X, n, held)
							}
						}
					}
				}
			}
		}
		if s, ok := x.Fun.(*ast.SelectorExpr); ok && s.Sel.Name == "Wait" && len(x.Args) == 0 {
			w.op("wait", w.chName(s.X), false, false, held, x.Pos())
		}
		if id, ok := x.Fun.(*ast.Ident); ok && len(x.Args) > 0 {
			switch id.Name {
			case "delete": // delete(x.f, k) writes the contents of x.f
				w.expr(x.Args[0], held, true)
				w.expr(x.Args[0], held, false)
				for _, a := range x.Args[1:] {
					w.expr(a, held, false)
				}
				return
			case "close":
				w.expr(x.Args[0], held, false)
				return
			}
		}
		w.expr(x.Fun, held, false)
		for _, a := range x.Args {
			w.expr(a, held, false)
		}
	case *ast.Ident, *ast.BasicLit, *ast.ArrayType, *ast.MapType, *ast.ChanType, *ast.FuncType, *ast.InterfaceType, *ast.StructType, *ast.Ellipsis:
	default:
		g.unclassified(e.Pos(), "expression kind %T outside the analysed subset", e)
	}
}

// fieldSel returns the selector if e is `….field` of a struct declared in the package
func (w *c15Walk) fieldSel(e ast.Expr) *ast.SelectorExpr {
	if p, ok := e.(*ast.ParenExpr); ok {
		e = p.X
	}
	s, ok := e.(*ast.SelectorExpr)
	if !ok {
		return nil
	}
	if sel, ok := w.g.info.Selections[s]; ok && sel.Kind() == types.FieldVal {
		return s
	}
	return nil
}

func (w *c15Walk) baseIdent(e ast.Expr) *ast.Ident {
	for {
		switch x := e.(type) {
		case *ast.Ident:
			return x
		case *ast.SelectorExpr:
			e = x.X
		case *ast.IndexExpr:
			e = x.X
		case *ast.ParenExpr:
			e = x.X
		case *ast.StarExpr:
			e = x.X
		default:
			return nil
		}
	}
}

func (w *c15Walk) access(sel *ast.SelectorExpr, owner, field string, write, atomic bool, held []c15Lock) {
	// `v.field` where v is a local variable (or value receiver) holding a struct VALUE: a private copy,
	// not shared memory (the copying itself was recorded as a whole-struct read where it happened)
	if id, ok := sel.X.(*ast.Ident); ok {
		if v, ok := w.g.info.Uses[id].(*types.Var); ok && !v.IsField() {
			if _, isPtr := v.Type().(*types.Pointer); !isPtr {
				if c15IsTarget(c15Named(v.Type())) {
					return
				}
			}
		}
	}
	a := c15Access{strct: owner, field: field, write: write, atomic: atomic, fn: w.f.name, pos: sel.Pos()}
	accBase := w.g.pkg.Src(sel.X)
	for _, l := range held {
		lockOwner := l.name[:strings.Index(l.name, ".")]
		switch {
		case lockOwner == owner && l.base == accBase:
			a.locks = append(a.locks, l)
		case lockOwner == "Writer" && owner != "Writer":
			// the Writer is one object per index: its locks cover whatever is accessed while they are held
			a.locks = append(a.locks, l)
		case lockOwner == "Writer" && owner == "Writer" && l.base == accBase:
			a.locks = append(a.locks, l)
		}
	}
	// fresh: `v.field` with v a not-yet-escaped local bound to a composite literal
	if id, ok := sel.X.(*ast.Ident); ok {
		if w.freshAt(id.Name, sel.Pos()) {
			a.fresh = true
		}
		if id.Name == w.recvVar && w.recvVar != "" {
			a.recvBase = true
		}
	} else if ix, ok := sel.X.(*ast.IndexExpr); ok {
		_ = ix
	}
	w.g.acc = append(w.g.acc, a)
}

func (w *c15Walk) wholeStruct(at ast.Expr, strct string, held []c15Lock) {
	for _, f := range w.g.fields[strct] {
		a := c15Access{strct: strct, field: f, write: false, fn: w.f.name, pos: at.Pos()}
		for _, l := range held {
			if strings.HasPrefix(l.name, "Writer.") || strings.HasPrefix(l.name, strct+".") {
				a.locks = append(a.locks, l)
			}
		}
		w.g.acc = append(w.g.acc, a)
	}
}

// useAfterRecycle: in a method of postingsIterator, a use of the receiver after it was handed to the
// recycling list (i.Close() / recyclePostingsIterator(i)) in the same body.
func (w *c15Walk) useAfterRecycle() {
	var recycled token.Pos
	ast.Inspect(w.f.decl.Body, func(n ast.Node) bool {
		c, ok := n.(*ast.CallExpr)
		if !ok {
			return true
		}
		if s, ok := c.Fun.(*ast.SelectorExpr); ok {
			if id, ok := s.X.(*ast.Ident); ok && id.Name == w.recvVar && s.Sel.Name == "Close" {
				if recycled == token.NoPos || c.Pos() < recycled {
					recycled = c.End()
				}
			}
			if s.Sel.Name == "recyclePostingsIterator" && len(c.Args) == 1 {
				if id, ok := c.Args[0].(*ast.Ident); ok && id.Name == w.recvVar {
					if recycled == token.NoPos || c.Pos() < recycled {
						recycled = c.End()
					}
				}
			}
		}
		return true
	})
	if recycled == token.NoPos {
		return
	}
	n := 0
	ast.Inspect(w.f.decl.Body, func(nd ast.Node) bool {
		if id, ok := nd.(*ast.Ident); ok && id.Name == w.recvVar && id.Pos() > recycled {
			n++
		}
		return true
	})
	if n > 0 {
		w.g.reuse = append(w.g.reuse, w.f.name)
	}
}

// ctorOnlyMethods: methods of shared structs all of whose call sites have a receiver that is a fresh,
// not yet escaped local, or the receiver of another such method. Fixed point, starting from "all".
func (g *c15Gen) ctorOnlyMethods(fnames []string) map[string]bool {
	type site struct {
		caller string
		fresh  bool
		onRecv bool
	}
	sites := map[string][]site{}
	for _, n := range fnames {
		f := g.funcs[n]
		w := &c15Walk{g: g, f: f, fresh: map[string]token.Pos{}, isFresh: map[string]bool{}, freshFrom: map[string]token.Pos{}}
		if f.decl.Recv != nil && len(f.decl.Recv.List) == 1 && len(f.decl.Recv.List[0].Names) == 1 {
			w.recvVar = f.decl.Recv.List[0].Names[0].Name
		}
		w.findFresh()
		ast.Inspect(f.decl.Body, func(nd ast.Node) bool {
			c, ok := nd.(*ast.CallExpr)
			if !ok {
				return true
			}
			s, ok := c.Fun.(*ast.SelectorExpr)
			if !ok {
				return true
			}
			for _, callee := range g.calleeNames(c) {
				cf := g.funcs[callee]
				if cf == nil || !c15IsTarget(cf.recv) {
					continue
				}
				st := site{caller: n}
				if id, ok := s.X.(*ast.Ident); ok {
					if w.freshAt(id.Name, c.Pos()) {
						st.fresh = true
					}
					if id.Name == w.recvVar && w.recvVar != "" && f.recv == cf.recv {
						st.onRecv = true
					}
				}
				sites[callee] = append(sites[callee], st)
			}
			return true
		})
	}
	ctor := map[string]bool{}
	for _, n := range fnames {
		if c15IsTarget(g.funcs[n].recv) && len(sites[n]) > 0 {
			ctor[n] = true
		}
	}
	for changed := true; changed; {
		changed = false
		for n := range ctor {
			for _, s := range sites[n] {
				if s.fresh || (s.onRecv && ctor[s.caller]) {
					continue
				}
				delete(ctor, n)
				changed = true
				break
			}
		}
	}
	return ctor
}

// ------------------------------------------------------------------------------------------------
// output

func c15Ident(s string) string {
	r := strings.NewReplacer(".", "_", "*", "", " ", "_")
	return r.Replace(s)
}

func (g *c15Gen) emit(fnames []string, roles map[string]map[string]bool, ctorOnly map[string]bool, entries []string) {
	roleOrder := []string{"api", "searcher", "introducer", "persister", "merger", "init"}
	// ids
	var locs []string
	for _, t := range c15Targets {
		for _, f := range g.fields[t] {
			locs = append(locs, t+"."+f)
		}
	}
	locID := map[string]int{}
	for i, l := range locs {
		locID[l] = i
	}
	var lockNames []string
	for k, ty := range g.syncF {
		if ty == "sync.Mutex" || ty == "sync.RWMutex" {
			lockNames = append(lockNames, k)
		}
	}
	sort.Strings(lockNames)
	lockID := map[string]int{}
	for i, l := range lockNames {
		lockID[l] = i
	}
	fnWithAcc := map[string]bool{}
	for _, a := range g.acc {
		fnWithAcc[a.fn] = true
	}
	var fns []string
	for _, n := range fnames {
		if fnWithAcc[n] {
			fns = append(fns, n)
		}
	}
	fnID := map[string]int{}
	for i, n := range fns {
		fnID[n] = i
	}
	// classes
	type class struct {
		loc, fn              int
		write, atomic, fresh bool
		locks                string
		roles                string
		sites                []int
		key                  string
	}
	classes := map[string]*class{}
	var noRole []string
	for _, a := range g.acc {
		var rs []string
		for _, r := range roleOrder {
			if roles[a.fn][r] {
				rs = append(rs, "."+r)
			}
		}
		if len(rs) == 0 {
			// dead code or a function reachable only from functions outside every role: report, do not drop
			noRole = append(noRole, a.fn)
			continue
		}
		var ls []string
		seen := map[string]bool{}
		for _, l := range a.locks {
			k := fmt.Sprintf("(%d, %v)", lockID[l.name], l.excl)
			if !seen[k] {
				seen[k] = true
				ls = append(ls, k)
			}
		}
		sort.Strings(ls)
		fresh := a.fresh || (a.recvBase && ctorOnly[a.fn])
		c := &class{loc: locID[a.strct+"."+a.field], fn: fnID[a.fn], write: a.write, atomic: a.atomic, fresh: fresh,
			locks: "[" + strings.Join(ls, ", ") + "]", roles: "[" + strings.Join(rs, ", ") + "]"}
		c.key = fmt.Sprintf("%04d|%04d|%v|%v|%v|%s|%s", c.loc, c.fn, c.write, c.atomic, c.fresh, c.locks, c.roles)
		if old, ok := classes[c.key]; ok {
			c = old
		} else {
			classes[c.key] = c
		}
		c.sites = append(c.sites, g.pkg.Fset.Position(a.pos).Line)
	}
	keys := make([]string, 0, len(classes))
	for k := range classes {
		keys = append(keys, k)
	}
	sort.Strings(keys)
	sort.Strings(noRole)
	noRole = c15Uniq(noRole)
	sort.Strings(g.uncl)
	g.uncl = c15Uniq(g.uncl)

	var b strings.Builder
	b.WriteString("import Bluge.Conc\n")
	b.WriteString("/-! GENERATED by /verif/go/extract/c15.go from /repo/index — do not edit.\n")
	b.WriteString("Lock-set table of every access to the shared structs of package index, and the table of blocking\n")
	b.WriteString("channel operations of the three background loops and the API callers. -/\n")
	b.WriteString("namespace BlugeGen.C15\nopen Bluge.Conc\n\n")
	b.WriteString("/-- location id → \"Struct.field\" -/\ndef locNames : List String := [\n")
	for i, l := range locs {
		fmt.Fprintf(&b, "  %s%s -- %d\n", LeanStr(l), c15Comma(i, len(locs)), i)
	}
	b.WriteString("]\n\n")
	for i, l := range locs {
		fmt.Fprintf(&b, "def loc_%s : Nat := %d\n", c15Ident(l), i)
	}
	b.WriteString("\n/-- lock id → \"Struct.mutexField\" -/\ndef lockNames : List String := [")
	for i, l := range lockNames {
		fmt.Fprintf(&b, "%s%s", LeanStr(l), c15Comma(i, len(lockNames)))
	}
	b.WriteString("]\n")
	for i, l := range lockNames {
		fmt.Fprintf(&b, "def lock_%s : Nat := %d\n", c15Ident(l), i)
	}
	b.WriteString("\n/-- function id → name (functions that access a shared struct) -/\ndef fnNames : List String := [\n")
	for i, n := range fns {
		fmt.Fprintf(&b, "  %s%s -- %d\n", LeanStr(n), c15Comma(i, len(fns)), i)
	}
	b.WriteString("]\n\n")
	for i, n := range fns {
		fmt.Fprintf(&b, "def fn_%s : Nat := %d\n", c15Ident(n), i)
	}
	b.WriteString("\n/-- the access classes, grouped by location (sites = source lines, in the comment) -/\ndef groups : List (Nat × List Access) := [\n")
	first := true
	for li, l := range locs {
		var rows []string
		for _, k := range keys {
			c := classes[k]
			if c.loc != li {
				continue
			}
			var ss []string
			for _, s := range c.sites {
				ss = append(ss, fmt.Sprint(s))
			}
			rows = append(rows, fmt.Sprintf("    { loc := %d, write := %v, atomic := %v, locks := %s, fresh := %v, fn := %d, roles := %s } /- %s %s lines %s -/",
				c.loc, c.write, c.atomic, c.locks, c.fresh, c.fn, c.roles, fns[c.fn], c15RW(c.write), strings.Join(ss, " ")))
		}
		if len(rows) == 0 {
			continue
		}
		if !first {
			b.WriteString(",\n")
		}
		first = false
		fmt.Fprintf(&b, "  (%d, [ -- %s\n%s])", li, l, strings.Join(rows, ",\n"))
	}
	b.WriteString("\n]\n\ndef accesses : List Access := groups.flatMap (·.2)\n\n")
	b.WriteString("/-- sites the analysis could not classify (the obligation requires this to be empty) -/\ndef unclassified : List String := [")
	for i, u := range g.uncl {
		fmt.Fprintf(&b, "\n  %s%s", LeanStr(u), c15Comma(i, len(g.uncl)))
	}
	b.WriteString("]\n\n")
	b.WriteString("/-- functions that access a shared struct but are reachable from no role root (dead or test-only code) -/\ndef noRole : List String := [")
	for i, u := range noRole {
		fmt.Fprintf(&b, "%s%s", LeanStr(u), c15Comma(i, len(noRole)))
	}
	b.WriteString("]\n\n")
	b.WriteString("/-- methods only ever called on receivers that are still private to their constructor -/\ndef ctorOnly : List String := [")
	var cos []string
	for n := range ctorOnly {
		cos = append(cos, n)
	}
	sort.Strings(cos)
	for i, u := range cos {
		fmt.Fprintf(&b, "%s%s", LeanStr(u), c15Comma(i, len(cos)))
	}
	b.WriteString("]\n\n")
	b.WriteString("/-- exported ctor-phase methods of shared structs (a user could call them on a published object) -/\ndef ctorOnlyExported : List String := [")
	var coe []string
	for _, n := range cos {
		if g.funcs[n].exported {
			coe = append(coe, n)
		}
	}
	for i, u := range coe {
		fmt.Fprintf(&b, "%s%s", LeanStr(u), c15Comma(i, len(coe)))
	}
	b.WriteString("]\n\n")

	// ---- channel operations
	opFns := map[string]bool{}
	for _, root := range []string{"Writer.introducerLoop", "Writer.persisterLoop", "Writer.mergerLoop", "Writer.Batch", "Writer.Close", "analysisWorker"} {
		var dfs func(string)
		dfs = func(n string) {
			if opFns[n] || g.funcs[n] == nil {
				return
			}
			opFns[n] = true
			for c := range g.funcs[n].calls {
				dfs(c)
			}
		}
		dfs(root)
	}
	sort.SliceStable(g.ops, func(i, j int) bool {
		if g.ops[i].fn != g.ops[j].fn {
			return g.ops[i].fn < g.ops[j].fn
		}
		return g.ops[i].pos < g.ops[j].pos
	})
	b.WriteString("/-- every blocking channel operation reachable from the three loops, Batch, Close and the analysis\nworkers, in function-name then source order -/\ndef chanOps : List ChanOp := [")
	nOps := 0
	for _, o := range g.ops {
		if !opFns[o.fn] {
			continue
		}
		if nOps > 0 {
			b.WriteString(",")
		}
		nOps++
		var ls []string
		for _, l := range o.locks {
			ls = append(ls, LeanStr(l))
		}
		fmt.Fprintf(&b, "\n  { fn := %s, kind := .%s, ch := %s, closeAlt := %v, inFor := %v, closeExit := .%s, hasDefault := %v, locks := [%s] } /- line %d -/",
			LeanStr(o.fn), o.kind, LeanStr(o.ch), o.closeAlt, o.inFor, o.exit, o.deflt, strings.Join(ls, ", "), g.pkg.Fset.Position(o.pos).Line)
	}
	b.WriteString("\n]\n\n")
	sort.Strings(g.wg)
	b.WriteString("/-- sites of Writer.asyncTasks (the wait group of the three loops) -/\ndef wgSites : List String := [")
	for i, s := range g.wg {
		fmt.Fprintf(&b, "%s%s", LeanStr(s), c15Comma(i, len(g.wg)))
	}
	b.WriteString("]\n\n")
	// order in Writer.close: close(s.closeCh) before s.asyncTasks.Wait()
	closeOrder := g.closeOrder()
	fmt.Fprintf(&b, "/-- statement order in Writer.close -/\ndef closeSequence : List String := [")
	for i, s := range closeOrder {
		fmt.Fprintf(&b, "%s%s", LeanStr(s), c15Comma(i, len(closeOrder)))
	}
	b.WriteString("]\n\n")
	var gos []string
	for c := range g.funcs["OpenWriter"].goCalls {
		gos = append(gos, c)
	}
	sort.Strings(gos)
	b.WriteString("/-- functions started with `go` in OpenWriter -/\ndef openWriterGo : List String := [")
	for i, s := range gos {
		fmt.Fprintf(&b, "%s%s", LeanStr(s), c15Comma(i, len(gos)))
	}
	b.WriteString("]\n\n")
	sort.Strings(g.reuse)
	b.WriteString("/-- methods of postingsIterator that keep using the receiver after handing it to the recycling list -/\ndef useAfterRecycle : List String := [")
	for i, s := range g.reuse {
		fmt.Fprintf(&b, "%s%s", LeanStr(s), c15Comma(i, len(g.reuse)))
	}
	b.WriteString("]\n\n")
	// channel capacities
	chanTypes := map[string]bool{}
	for _, f := range g.pkg.Files {
		for _, d := range f.Decls {
			if gd, ok := d.(*ast.GenDecl); ok && gd.Tok == token.TYPE {
				for _, sp := range gd.Specs {
					ts := sp.(*ast.TypeSpec)
					if _, ok := ts.Type.(*ast.ChanType); ok {
						chanTypes[ts.Name.Name] = true
					}
				}
			}
		}
	}
	var makes []string
	mk := func(fn, target string, e ast.Expr) {
		c, ok := e.(*ast.CallExpr)
		if !ok {
			return
		}
		id, ok := c.Fun.(*ast.Ident)
		if !ok || id.Name != "make" || len(c.Args) == 0 {
			return
		}
		isChan := false
		if _, ok := c.Args[0].(*ast.ChanType); ok {
			isChan = true
		}
		if t, ok := c.Args[0].(*ast.Ident); ok && chanTypes[t.Name] {
			isChan = true
		}
		if !isChan {
			return
		}
		capa := "0"
		if len(c.Args) > 1 {
			capa = g.pkg.Src(c.Args[1])
		}
		makes = append(makes, fn+":"+target+":"+capa)
	}
	for _, n := range fnames {
		if !opFns[n] && n != "OpenWriter" {
			continue
		}
		ast.Inspect(g.funcs[n].decl.Body, func(nd ast.Node) bool {
			switch x := nd.(type) {
			case *ast.AssignStmt:
				if len(x.Lhs) == len(x.Rhs) {
					for i := range x.Lhs {
						w := &c15Walk{g: g}
						mk(n, w.chName(x.Lhs[i]), x.Rhs[i])
					}
				}
			case *ast.KeyValueExpr:
				if k, ok := x.Key.(*ast.Ident); ok {
					mk(n, k.Name, x.Value)
				}
			}
			return true
		})
	}
	sort.Strings(makes)
	b.WriteString("/-- `function:channel:capacity` of every make(chan …) in OpenWriter and the functions above -/\ndef chanMakes : List String := [")
	for i, s := range makes {
		fmt.Fprintf(&b, "%s%s", LeanStr(s), c15Comma(i, len(makes)))
	}
	b.WriteString("]\n\n")
	sort.Strings(g.retain)
	b.WriteString("/-- `function:variable`: the function hands an object containing the variable over a channel and a\ndeferred closure of the function still uses the variable -/\ndef handoffRetained : List String := [")
	for i, s := range g.retain {
		fmt.Fprintf(&b, "%s%s", LeanStr(s), c15Comma(i, len(g.retain)))
	}
	b.WriteString("]\n\n")
	sort.Strings(entries)
	b.WriteString("/-- API entry points (exported methods of the API types) with their role -/\ndef entries : List String := [")
	for i, s := range entries {
		fmt.Fprintf(&b, "%s%s", LeanStr(s), c15Comma(i, len(entries)))
	}
	b.WriteString("]\n\nend BlugeGen.C15\n")
	g.ctx.WriteLean("C15", b.String())
	// the access sites as file:line, for the harness (a race report at a line of package index that is not
	// in this list is an access the table does not cover)
	siteSet := map[string]bool{}
	for _, a := range g.acc {
		p := g.pkg.Fset.Position(a.pos)
		siteSet[fmt.Sprintf("%s:%d", c15ShortFile(p.Filename), p.Line)] = true
	}
	var siteList []string
	for k := range siteSet {
		siteList = append(siteList, k)
	}
	sort.Strings(siteList)
	_ = os.WriteFile(filepath.Join(g.ctx.Out, "C15.sites.txt"), []byte(strings.Join(siteList, "\n")+"\n"), 0o644)

	nAcc := 0
	for _, c := range classes {
		nAcc += len(c.sites)
	}
	g.ctx.Summary["access_sites"] = nAcc
	g.ctx.Summary["access_classes"] = len(classes)
	g.ctx.Summary["locations"] = len(locs)
	g.ctx.Summary["functions_with_accesses"] = len(fns)
	g.ctx.Summary["unclassified"] = len(g.uncl)
	g.ctx.Summary["no_role_functions"] = noRole
	g.ctx.Summary["chan_ops"] = nOps
	g.ctx.Summary["ctor_only_methods"] = cos
	g.ctx.Summary["use_after_recycle"] = g.reuse
	g.ctx.Summary["handoff_retained"] = g.retain
	nCopy := 0
	for _, a := range g.acc {
		if a.fn == "Writer.Stats" && a.strct == "Stats" && !a.atomic {
			nCopy++
		}
	}
	g.ctx.Summary["stats_plain_reads_in_Writer_Stats"] = nCopy
}

func (g *c15Gen) closeOrder() []string {
	var out []string
	f := g.funcs["Writer.close"]
	for _, s := range f.decl.Body.List {
		es, ok := s.(*ast.ExprStmt)
		if !ok {
			continue
		}
		c, ok := es.X.(*ast.CallExpr)
		if !ok {
			continue
		}
		src := strings.ReplaceAll(g.pkg.Src(c), " ", "")
		switch {
		case strings.HasPrefix(src, "close(") && strings.HasSuffix(src, ".closeCh)"):
			out = append(out, "close(closeCh)")
		case strings.HasSuffix(src, ".asyncTasks.Wait()"):
			out = append(out, "asyncTasks.Wait")
		case strings.Contains(src, ".replaceRoot(nil"):
			out = append(out, "replaceRoot(nil)")
		}
	}
	return out
}

func c15RW(w bool) string {
	if w {
		return "W"
	}
	return "R"
}

func c15Comma(i, n int) string {
	if i+1 < n {
		return ","
	}
	return ""
}

func c15Uniq(s []string) []string {
	var o []string
	for i, x := range s {
		if i == 0 || x != s[i-1] {
			o = append(o, x)
		}
	}
	return o
}

package main

// Gen for C09: coarse facts about how a TopNSearch hands its sort order to the collector.
//
//	search/sort.go  SortOrder.Copy     -> copyIsDeep             (pointer copy vs. new Sort objects)
//	search/sort.go  SortOrder.Reverse  -> reverseFlips           (which fields of each element are negated)
//	search.go       TopNSearch.Collector -> collectorReversesACopy (Reverse is called on the result of Copy,
//	                                      never on the request's own slice)
//
// The Lean model `Bluge.TopN.buildCollector deep` is parameterised by `copyIsDeep`; BlugeProofs.C09 proves
// `CollectorPure copyIsDeep ↔ copyIsDeep = true` and the two `decide` obligations on the other facts.

import (
	"fmt"
	"go/ast"
	"go/token"
	"sort"
	"strings"
)

func init() { Register("C09", genC09) }

func genC09(c *Ctx) {
	sp := c.ParseDir("search")
	root := c.ParseDir(".")

	// ---- SortOrder.Copy
	cp := sp.Func("SortOrder.Copy")
	if cp == nil || cp.Body == nil {
		c.Refuse("search/sort.go: method SortOrder.Copy not found")
	}
	recvName := "o"
	if len(cp.Recv.List[0].Names) == 1 {
		recvName = cp.Recv.List[0].Names[0].Name
	}
	shallowCopyCall, allocSort, loops := false, false, false
	ast.Inspect(cp.Body, func(n ast.Node) bool {
		switch x := n.(type) {
		case *ast.CallExpr:
			if id, ok := x.Fun.(*ast.Ident); ok && id.Name == "copy" && len(x.Args) == 2 {
				if a, ok := x.Args[1].(*ast.Ident); ok && a.Name == recvName {
					shallowCopyCall = true
				}
			}
			if id, ok := x.Fun.(*ast.Ident); ok && id.Name == "new" && len(x.Args) == 1 {
				if a, ok := x.Args[0].(*ast.Ident); ok && a.Name == "Sort" {
					allocSort = true
				}
			}
			// append(rv, o...) is a pointer copy as well
			if id, ok := x.Fun.(*ast.Ident); ok && id.Name == "append" && x.Ellipsis != token.NoPos {
				shallowCopyCall = true
			}
		case *ast.UnaryExpr:
			if x.Op == token.AND {
				if cl, ok := x.X.(*ast.CompositeLit); ok {
					if id, ok := cl.Type.(*ast.Ident); ok && id.Name == "Sort" {
						allocSort = true
					}
				}
			}
		case *ast.RangeStmt, *ast.ForStmt:
			loops = true
		case *ast.ReturnStmt:
			// `return o` would alias everything
			if len(x.Results) == 1 {
				if id, ok := x.Results[0].(*ast.Ident); ok && id.Name == recvName {
					shallowCopyCall = true
				}
			}
		}
		return true
	})
	// a deep copy may also go through a helper that returns a fresh *Sort (e.g. SortBy(...)/oi.copy())
	callsFreshSort := false
	ast.Inspect(cp.Body, func(n ast.Node) bool {
		if ce, ok := n.(*ast.CallExpr); ok {
			name := ""
			switch f := ce.Fun.(type) {
			case *ast.Ident:
				name = f.Name
			case *ast.SelectorExpr:
				name = f.Sel.Name
			}
			if name == "SortBy" || strings.EqualFold(name, "copy") && len(ce.Args) == 0 || strings.EqualFold(name, "clone") {
				callsFreshSort = true
			}
		}
		return true
	})
	var deep bool
	switch {
	case shallowCopyCall && !allocSort && !callsFreshSort:
		deep = false
	case !shallowCopyCall && loops && (allocSort || callsFreshSort):
		deep = true
	default:
		c.Refuse("search/sort.go: SortOrder.Copy is neither the pointer copy (make+copy) nor an element-wise copy that allocates new Sort objects:\n%s", sp.Src(cp))
	}

	// ---- SortOrder.Reverse: assignments  oi.F = !oi.F
	rv := sp.Func("SortOrder.Reverse")
	if rv == nil || rv.Body == nil {
		c.Refuse("search/sort.go: method SortOrder.Reverse not found")
	}
	flips := map[string]bool{}
	other := 0
	ast.Inspect(rv.Body, func(n ast.Node) bool {
		as, ok := n.(*ast.AssignStmt)
		if !ok {
			return true
		}
		if len(as.Lhs) != 1 || len(as.Rhs) != 1 || as.Tok != token.ASSIGN {
			other++
			return true
		}
		l, lok := as.Lhs[0].(*ast.SelectorExpr)
		u, uok := as.Rhs[0].(*ast.UnaryExpr)
		if !lok || !uok || u.Op != token.NOT {
			other++
			return true
		}
		r, rok := u.X.(*ast.SelectorExpr)
		if !rok || r.Sel.Name != l.Sel.Name || sp.Src(r.X) != sp.Src(l.X) {
			other++
			return true
		}
		flips[l.Sel.Name] = true
		return true
	})
	if other > 0 || len(flips) == 0 {
		c.Refuse("search/sort.go: SortOrder.Reverse is not a loop of `x.f = !x.f` assignments:\n%s", sp.Src(rv))
	}
	var flipNames []string
	for k := range flips {
		flipNames = append(flipNames, k)
	}
	sort.Strings(flipNames)

	// ---- TopNSearch.Collector: X = s.sort.Copy(); X.Reverse(); never s.sort.Reverse()
	col := root.Func("TopNSearch.Collector")
	if col == nil || col.Body == nil {
		c.Refuse("search.go: method TopNSearch.Collector not found")
	}
	copied := map[string]bool{} // variables assigned from <recv>.sort.Copy()
	reversedVars := map[string]bool{}
	reversesRequestSort := false
	ast.Inspect(col.Body, func(n ast.Node) bool {
		switch x := n.(type) {
		case *ast.AssignStmt:
			for i, r := range x.Rhs {
				if ce, ok := r.(*ast.CallExpr); ok {
					if se, ok := ce.Fun.(*ast.SelectorExpr); ok && se.Sel.Name == "Copy" && strings.HasSuffix(root.Src(se.X), ".sort") {
						if i < len(x.Lhs) {
							if id, ok := x.Lhs[i].(*ast.Ident); ok {
								copied[id.Name] = true
							}
						}
					}
				}
			}
		case *ast.CallExpr:
			if se, ok := x.Fun.(*ast.SelectorExpr); ok && se.Sel.Name == "Reverse" {
				if id, ok := se.X.(*ast.Ident); ok {
					reversedVars[id.Name] = true
				} else {
					reversesRequestSort = true
				}
			}
		}
		return true
	})
	reversesACopy := len(reversedVars) > 0 && !reversesRequestSort
	for v := range reversedVars {
		if !copied[v] {
			reversesACopy = false
		}
	}
	if len(reversedVars) == 0 && !reversesRequestSort {
		c.Refuse("search.go: TopNSearch.Collector no longer calls Reverse; the search-before model does not apply:\n%s", root.Src(col))
	}

	// ---- the comparator, translated (c09tr.go)
	translated := c09BytesVar(c, sp, "highTerm") + "\n" + c09BytesVar(c, sp, "lowTerm") + "\n" +
		c09Func(c, sp, "SortOrder.Compare", "SortOrder_Compare",
			[][2]string{{"o", string(c09Order)}, {"i", string(c09Match)}, {"j", string(c09Match)}}, c09Int) + "\n" +
		c09Func(c, sp, "sortFirstLast.Value", "sortFirstLast_Value",
			[][2]string{{"c", string(c09FirstLast)}}, c09Bytes) + "\n"
	revDef, revLoop := c09ElemUpdate(c, sp, "SortOrder.Reverse", "SortOrder_Reverse_elem")
	translated += revDef

	// ---- how a sort value is produced and how the comparator's result is used (statement tables)
	facts := &c01Facts{}
	for _, m := range []string{"SortBy", "Sort.Desc", "Sort.MissingFirst", "Sort.Value", "MissingTextValue", "MissingTextValueSource.Value", "SortOrder.Compute"} {
		_, lines := c01Skeleton(c, sp, "search", m, nil)
		facts.addStmts(m, lines)
	}
	facts.d("SortOrder.Reverse", "loop", revLoop+" (every element, no index, field assignments only)")
	cpk := c.ParseDir("search/collector")
	{
		// every call of the comparator in package collector, with the test applied to its result
		var names []string
		for n := range cpk.Files {
			names = append(names, n)
		}
		sort.Strings(names)
		for _, fnm := range names {
			for _, d := range cpk.Files[fnm].Decls {
				fd, ok := d.(*ast.FuncDecl)
				if !ok || fd.Body == nil {
					continue
				}
				c01Blocks(fd.Body, func(list []ast.Stmt) {
					for i, st := range list {
						// the call sits in this statement itself (not in a nested block)
						var call *ast.CallExpr
						ast.Inspect(st, func(m ast.Node) bool {
							switch x := m.(type) {
							case *ast.BlockStmt, *ast.FuncLit:
								return false
							case *ast.CallExpr:
								if se, ok := x.Fun.(*ast.SelectorExpr); ok && (se.Sel.Name == "compare" || se.Sel.Name == "Compare") {
									call = x
								}
							}
							return true
						})
						if call == nil {
							continue
						}
						where := fnm + " " + fd.Name.Name
						switch x := st.(type) {
						case *ast.AssignStmt:
							// v := compare(…): the next statement tests v
							if len(x.Lhs) != 1 || i+1 >= len(list) {
								c.Refuse("search/collector %s: comparator result assigned in an unknown form: %s", where, cpk.Src(st))
							}
							use := ""
							switch n := list[i+1].(type) {
							case *ast.IfStmt:
								use = "if " + c01Norm(cpk.Src(n.Cond))
							case *ast.ReturnStmt:
								use = c01Norm(cpk.Src(n))
							default:
								c.Refuse("search/collector %s: the statement after the comparator call is neither an if nor a return: %s", where, cpk.Src(n))
							}
							facts.d(where, c01Norm(cpk.Src(st)), use)
						case *ast.IfStmt:
							prev := "(first statement of its block)"
							if i > 0 {
								prev = c01Norm(cpk.Src(list[i-1]))
							}
							facts.d(where, "(in the condition; the statement before it: "+prev+")", "if "+c01Norm(cpk.Src(x.Cond)))
						case *ast.ReturnStmt:
							facts.d(where, "(returned)", c01Norm(cpk.Src(x)))
						default:
							c.Refuse("search/collector %s: comparator called in an unknown position: %s", where, cpk.Src(st))
						}
					}
				})
			}
		}
	}

	// ---- search.Context.DocValueReaderForReader(r, fields): the doc value reader it hands out is looked up
	// (and stored) under the reader argument — one collector / one Context serves the searchers of SEVERAL
	// readers in bluge.MultiSearch, and a hit's sort value must be read from the reader the hit came from
	dvf := sp.Func("Context.DocValueReaderForReader")
	if dvf == nil || dvf.Body == nil || dvf.Type.Params == nil || len(dvf.Type.Params.List) == 0 || len(dvf.Type.Params.List[0].Names) == 0 {
		c.Refuse("search/search.go: method Context.DocValueReaderForReader(reader, fields) not found")
	}
	readerParam := dvf.Type.Params.List[0].Names[0].Name
	recvVar := ""
	if dvf.Recv != nil && len(dvf.Recv.List) == 1 && len(dvf.Recv.List[0].Names) == 1 {
		recvVar = dvf.Recv.List[0].Names[0].Name
	}
	indexedByReader := func(e ast.Expr) bool {
		ix, ok := e.(*ast.IndexExpr)
		if !ok {
			return false
		}
		id, ok := ix.Index.(*ast.Ident)
		return ok && id.Name == readerParam
	}
	keyedRead, keyedWrite, returnsReceiverField := false, false, false
	ast.Inspect(dvf.Body, func(n ast.Node) bool {
		switch x := n.(type) {
		case *ast.AssignStmt:
			for _, l := range x.Lhs {
				if indexedByReader(l) {
					keyedWrite = true
				}
			}
			for _, r := range x.Rhs {
				if indexedByReader(r) {
					keyedRead = true
				}
			}
		case *ast.ReturnStmt:
			for _, r := range x.Results {
				if indexedByReader(r) {
					keyedRead = true
				}
				if se, ok := r.(*ast.SelectorExpr); ok {
					if id, ok := se.X.(*ast.Ident); ok && id.Name == recvVar {
						returnsReceiverField = true // one reader for the whole search, whatever the argument
					}
				}
			}
		}
		return true
	})
	dvKeyed := keyedRead && keyedWrite && !returnsReceiverField

	var b strings.Builder
	b.WriteString("import Bluge.C09.GoBind\n/-! GENERATED by /verif/go/extract (c09.go, c09tr.go) from search/sort.go, search/source.go, search/collector and search.go of the\nrepository under check. Do not edit: `./check C09` rewrites this file from the working tree on every run. -/\n")
	b.WriteString("set_option linter.unusedVariables false\nnamespace BlugeGen.C09\n\n")
	b.WriteString(translated)
	b.WriteString("\n")
	tables := c01LeanTables("X", "", facts)
	tables = strings.TrimPrefix(tables, "namespace X\n\n")
	tables = strings.TrimSuffix(tables, "end X\n")
	b.WriteString(tables)
	fmt.Fprintf(&b, "/-- `SortOrder.Copy` allocates new `Sort` objects (true) or copies the pointers only (false) -/\ndef copyIsDeep : Bool := %v\n\n", deep)
	fmt.Fprintf(&b, "/-- `TopNSearch.Collector()` calls `Reverse` only on a value obtained from `s.sort.Copy()` -/\ndef collectorReversesACopy : Bool := %v\n\n", reversesACopy)
	fmt.Fprintf(&b, "/-- `search.Context.DocValueReaderForReader` looks its doc value reader up, and stores it, under its reader argument -/\ndef dvReaderKeyedByReader : Bool := %v\n\n", dvKeyed)
	b.WriteString("/-- the fields `SortOrder.Reverse` negates in every element -/\ndef reverseFlips : List String := [")
	for i, f := range flipNames {
		if i > 0 {
			b.WriteString(", ")
		}
		b.WriteString(LeanStr(f))
	}
	b.WriteString("]\n\nend BlugeGen.C09\n")
	c.WriteLean("C09", b.String())
	c.Summary["copyIsDeep"] = deep
	c.Summary["collectorReversesACopy"] = reversesACopy
	c.Summary["reverseFlips"] = flipNames
	c.Summary["dvReaderKeyedByReader"] = dvKeyed
	c.Summary["translated"] = []string{"highTerm", "lowTerm", "SortOrder.Compare", "sortFirstLast.Value", "SortOrder.Reverse (element update)"}
	c.Summary["statements"] = len(facts.stmts)
	c.Summary["derived_facts"] = len(facts.derived)
}

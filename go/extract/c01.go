package main

// Gen layer of C01: the writer protocol of a batch, as it stands in /repo NOW.
//
//	index/introducer.go  introduceSegment                    (the loop over root.segment, the new segment, replaceRoot, the ack)
//	index/writer.go      Writer.Batch, prepareSegment         (new segment iff documents; optimistic obsoletes; send / receive / wait)
//	index/batch.go       Batch.Insert / Update / Delete       (which of `documents` / `ids` each operation appends to)
//	index/segment.go     segmentSnapshot.Count / LiveSize
//	batch.go, writer.go  NewBatch, Identifier, Writer.Insert / Update / Delete (one-operation batches)
//
// Two tables are written to lean/BlugeGen/C01.lean:
//
//   - `stmts`   (function, statement): the STATEMENT SKELETON of every watched function — one entry per statement, in
//     source order, control structure spelled with `{` / `} else {` / `}` entries, text whitespace-normalised. Statistics
//     (atomic counters, timing, events, the verif trace hook, the `creator` / `parent` fields of literals) are left out,
//     so editing them does not change the table; everything else does.
//   - `derived` (function, key, value): CLASSIFIED facts that the text alone does not give: that `roaring.Or` is a
//     function of the imported package (its result is a fresh bitmap, the old one is not written), which `Count` the
//     running offset adds, what the live-size guard guards, the order of construction / replaceRoot / ack, which channel
//     operations prepareSegment performs in which order, which slices each Batch operation appends to.
//
// BlugeProofs.C01.Gen obliges both tables to equal the expected ones of BlugeProofs/C01/Facts.lean (`decide`), where
// every expected fact names the line of the model Bluge/Index.lean it justifies.
//
// The walker REFUSES statement kinds it does not render (switch, go, goto, type switch, …) and the derived facts refuse
// when their anchor statement is missing; a shape that is understood but different is REPORTED (the `decide` fails and
// shows the difference) rather than refused.
//
// c05.go re-uses the walker (checks/c05.py: EXTRACT_DEPS).

import (
	"fmt"
	"go/ast"
	"go/token"
	"sort"
	"strings"
)

func init() { Register("C01", genC01) }

func c01Norm(s string) string {
	s = strings.Join(strings.Fields(s), " ")
	s = strings.ReplaceAll(s, ", }", "}")
	s = strings.ReplaceAll(s, "{ ", "{")
	s = strings.ReplaceAll(s, "( ", "(")
	s = strings.ReplaceAll(s, ", )", ")")
	return s
}

// ---------------------------------------------------------------------------------------------------------------
// the statement-skeleton walker

type c01Walker struct {
	c          *Ctx
	p          *Pkg
	fn         string
	ignoreVars map[string]bool // local variables that only feed statistics
	litSkip    map[string]bool // composite-literal keys left out
	lines      []string
}

var c01IgnoreCalls = map[string]bool{"verifTrace": true, "s.fireEvent": true}
var c01PureCalls = map[string]bool{"Persisted": true, "Count": true, "LiveSize": true, "len": true, "atomic.LoadUint64": true, "time.Since": true, "time.Now": true, "uint64": true}

func c01Sel(e ast.Expr) string {
	switch x := e.(type) {
	case *ast.Ident:
		return x.Name
	case *ast.SelectorExpr:
		p := c01Sel(x.X)
		if p == "" {
			return ""
		}
		return p + "." + x.Sel.Name
	}
	return ""
}

func (w *c01Walker) src(n ast.Node) string {
	// leave the bookkeeping keys out of composite literals (the node is ours: mutate it)
	ast.Inspect(n, func(m ast.Node) bool {
		if cl, ok := m.(*ast.CompositeLit); ok {
			kept := cl.Elts[:0:0]
			for _, e := range cl.Elts {
				if kv, ok := e.(*ast.KeyValueExpr); ok {
					if k, ok := kv.Key.(*ast.Ident); ok && w.litSkip[k.Name] {
						continue
					}
				}
				kept = append(kept, e)
			}
			cl.Elts = kept
		}
		return true
	})
	return c01Norm(w.p.Src(n))
}

func (w *c01Walker) emit(s string) { w.lines = append(w.lines, s) }

func (w *c01Walker) statCall(e ast.Expr) bool {
	ce, ok := e.(*ast.CallExpr)
	if !ok {
		return false
	}
	name := c01Sel(ce.Fun)
	if c01IgnoreCalls[name] {
		return true
	}
	return name == "atomic.AddUint64" || name == "atomic.StoreUint64"
}

func (w *c01Walker) allIgnored(es []ast.Expr) bool {
	if len(es) == 0 {
		return false
	}
	for _, e := range es {
		id, ok := e.(*ast.Ident)
		if !ok || !w.ignoreVars[id.Name] {
			return false
		}
	}
	return true
}

// pure: every call in e is one of the read-only calls (used to drop an `if` whose branches hold statistics only)
func (w *c01Walker) pure(e ast.Node) bool {
	ok := true
	ast.Inspect(e, func(m ast.Node) bool {
		if ce, is := m.(*ast.CallExpr); is {
			short := c01Sel(ce.Fun)
			if se, is := ce.Fun.(*ast.SelectorExpr); is && !strings.HasPrefix(short, "atomic.") && !strings.HasPrefix(short, "time.") {
				short = se.Sel.Name
			}
			if !c01PureCalls[short] {
				ok = false
			}
		}
		if _, is := m.(*ast.UnaryExpr); is && m.(*ast.UnaryExpr).Op == token.ARROW {
			ok = false
		}
		return true
	})
	return ok
}

func (w *c01Walker) block(b *ast.BlockStmt) {
	for _, st := range b.List {
		w.stmt(st)
	}
}

// sub renders a block into a fresh line list (to see whether anything is left of it)
func (w *c01Walker) sub(b *ast.BlockStmt) []string {
	saved := w.lines
	w.lines = nil
	w.block(b)
	out := w.lines
	w.lines = saved
	return out
}

func (w *c01Walker) funcLit(prefix string, fl *ast.FuncLit, suffix string) {
	if len(fl.Type.Params.List) != 0 || fl.Type.Results != nil {
		w.c.Refuse("%s: function literal with parameters or results is outside the rendered subset:\n%s", w.fn, w.p.Src(fl))
	}
	w.emit(prefix + "func() {")
	w.block(fl.Body)
	w.emit("}" + suffix)
}

func (w *c01Walker) stmt(st ast.Stmt) {
	switch x := st.(type) {
	case *ast.BlockStmt:
		w.emit("{")
		w.block(x)
		w.emit("}")
	case *ast.EmptyStmt:
	case *ast.DeclStmt:
		gd, ok := x.Decl.(*ast.GenDecl)
		if !ok || gd.Tok != token.VAR {
			w.c.Refuse("%s: declaration outside the rendered subset:\n%s", w.fn, w.p.Src(x))
		}
		for _, sp := range gd.Specs {
			vs := sp.(*ast.ValueSpec)
			var names []string
			for _, n := range vs.Names {
				if !w.ignoreVars[n.Name] {
					names = append(names, n.Name)
				}
			}
			if len(names) == 0 {
				continue
			}
			if len(vs.Values) != 0 && len(names) != len(vs.Names) {
				w.c.Refuse("%s: var declaration mixes statistics and logic with initial values:\n%s", w.fn, w.p.Src(x))
			}
			s := "var " + strings.Join(names, ", ")
			if vs.Type != nil {
				s += " " + w.src(vs.Type)
			}
			if len(vs.Values) != 0 {
				var vals []string
				for _, v := range vs.Values {
					vals = append(vals, w.src(v))
				}
				s += " = " + strings.Join(vals, ", ")
			}
			w.emit(s)
		}
	case *ast.AssignStmt:
		if w.allIgnored(x.Lhs) {
			if !w.pure(x) {
				w.c.Refuse("%s: a statistics variable is assigned from a call that is not known to be read-only:\n%s", w.fn, w.p.Src(x))
			}
			return
		}
		if len(x.Rhs) == 1 {
			if fl, ok := x.Rhs[0].(*ast.FuncLit); ok && len(x.Lhs) == 1 {
				w.funcLit(w.src(x.Lhs[0])+" "+x.Tok.String()+" ", fl, "")
				return
			}
		}
		w.noFuncLit(x)
		w.emit(w.src(x))
	case *ast.IncDecStmt:
		if w.allIgnored([]ast.Expr{x.X}) {
			return
		}
		w.emit(w.src(x))
	case *ast.ExprStmt:
		if w.statCall(x.X) {
			return
		}
		w.noFuncLit(x)
		w.emit(w.src(x))
	case *ast.SendStmt:
		w.noFuncLit(x)
		w.emit(w.src(x))
	case *ast.ReturnStmt:
		w.noFuncLit(x)
		w.emit(w.src(x))
	case *ast.BranchStmt:
		if x.Tok == token.GOTO || x.Tok == token.FALLTHROUGH {
			w.c.Refuse("%s: goto / fallthrough is outside the rendered subset", w.fn)
		}
		w.emit(w.src(x))
	case *ast.LabeledStmt:
		w.emit(x.Label.Name + ":")
		w.stmt(x.Stmt)
	case *ast.DeferStmt:
		if w.statCall(x.Call) {
			return
		}
		if fl, ok := x.Call.Fun.(*ast.FuncLit); ok && len(x.Call.Args) == 0 {
			if len(w.sub(fl.Body)) == 0 {
				return // a deferred closure that only fires events / counts
			}
			w.funcLit("defer ", fl, "()")
			return
		}
		w.noFuncLit(x)
		w.emit(w.src(x))
	case *ast.IfStmt:
		w.ifStmt(x, "if ")
	case *ast.ForStmt:
		h := "for "
		if x.Init != nil || x.Post != nil {
			i, c, p := "", "", ""
			if x.Init != nil {
				i = w.src(x.Init)
			}
			if x.Cond != nil {
				c = w.src(x.Cond)
			}
			if x.Post != nil {
				p = w.src(x.Post)
			}
			h += i + "; " + c + "; " + p + " "
		} else if x.Cond != nil {
			h += w.src(x.Cond) + " "
		}
		w.emit(h + "{")
		w.block(x.Body)
		w.emit("}")
	case *ast.RangeStmt:
		h := "for "
		if x.Key != nil {
			h += w.src(x.Key)
			if x.Value != nil {
				h += ", " + w.src(x.Value)
			}
			h += " " + x.Tok.String() + " "
		}
		h += "range " + w.src(x.X) + " {"
		w.emit(h)
		w.block(x.Body)
		w.emit("}")
	case *ast.SelectStmt:
		w.emit("select {")
		for _, cc := range x.Body.List {
			cl := cc.(*ast.CommClause)
			if cl.Comm == nil {
				w.emit("default:")
			} else {
				w.emit("case " + w.src(cl.Comm) + ":")
			}
			for _, s := range cl.Body {
				w.stmt(s)
			}
		}
		w.emit("}")
	default:
		w.c.Refuse("%s: statement kind %T is outside the rendered subset:\n%s", w.fn, st, w.p.Src(st))
	}
}

func (w *c01Walker) noFuncLit(n ast.Node) {
	ast.Inspect(n, func(m ast.Node) bool {
		if _, ok := m.(*ast.FuncLit); ok {
			w.c.Refuse("%s: function literal in a position the walker does not render:\n%s", w.fn, w.p.Src(n))
		}
		return true
	})
}

func (w *c01Walker) ifStmt(x *ast.IfStmt, kw string) {
	body := w.sub(x.Body)
	var els []string
	elseIf, hasElse := false, x.Else != nil
	if hasElse {
		switch e := x.Else.(type) {
		case *ast.BlockStmt:
			els = w.sub(e)
		case *ast.IfStmt:
			elseIf = true
			saved := w.lines
			w.lines = nil
			w.ifStmt(e, "} else if ")
			els = w.lines
			w.lines = saved
		}
	}
	if len(body) == 0 && len(els) == 0 && x.Init == nil && w.pure(x.Cond) {
		return // statistics only
	}
	h := kw
	if x.Init != nil {
		w.noFuncLit(x.Init)
		h += w.src(x.Init) + "; "
	}
	w.noFuncLit(x.Cond)
	w.emit(h + w.src(x.Cond) + " {")
	w.lines = append(w.lines, body...)
	switch {
	case elseIf && len(els) > 0:
		w.lines = append(w.lines, els...) // ends with its own "}"
		return
	case hasElse && len(els) > 0:
		w.emit("} else {")
		w.lines = append(w.lines, els...)
	}
	w.emit("}")
}

// c01Skeleton renders the body of pkg function `name` ("Recv.Name" or "Name").
func c01Skeleton(c *Ctx, p *Pkg, where, name string, ignoreVars []string) (*ast.FuncDecl, []string) {
	fd := p.Func(name)
	if fd == nil || fd.Body == nil {
		c.Refuse("%s: %s not found", where, name)
	}
	w := &c01Walker{c: c, p: p, fn: where + " " + name, ignoreVars: map[string]bool{}, litSkip: map[string]bool{"creator": true, "parent": true}}
	for _, v := range ignoreVars {
		w.ignoreVars[v] = true
	}
	w.block(fd.Body)
	return fd, w.lines
}

// ---------------------------------------------------------------------------------------------------------------
// helpers of the derived facts

// c01Blocks calls f for every statement list of n (blocks, case clauses), outermost first.
func c01Blocks(n ast.Node, f func(list []ast.Stmt)) {
	ast.Inspect(n, func(m ast.Node) bool {
		switch x := m.(type) {
		case *ast.BlockStmt:
			f(x.List)
		case *ast.CommClause:
			f(x.Body)
		case *ast.CaseClause:
			f(x.Body)
		}
		return true
	})
}

// c01FindStmt: the first statement (source order, any depth) satisfying pred, with the list holding it and its index.
func c01FindStmt(n ast.Node, pred func(ast.Stmt) bool) (ast.Stmt, []ast.Stmt, int) {
	var rs ast.Stmt
	var rl []ast.Stmt
	ri := -1
	c01Blocks(n, func(list []ast.Stmt) {
		for i, st := range list {
			if pred(st) && (rs == nil || st.Pos() < rs.Pos()) {
				rs, rl, ri = st, list, i
			}
		}
	})
	return rs, rl, ri
}

// c01ImportName: the local name under which file f imports a path ending in suffix ("" if it does not).
func c01ImportName(f *ast.File, suffix string) string {
	for _, im := range f.Imports {
		path := strings.Trim(im.Path.Value, "\"")
		if path == suffix || strings.HasSuffix(path, "/"+suffix) {
			if im.Name != nil {
				return im.Name.Name
			}
			return suffix
		}
	}
	return ""
}

// c01DeclaredIn: is `name` declared (:=, var, parameter, range) anywhere inside fd — i.e. could it shadow a package?
func c01DeclaredIn(fd *ast.FuncDecl, name string) bool {
	found := false
	ast.Inspect(fd, func(m ast.Node) bool {
		switch x := m.(type) {
		case *ast.AssignStmt:
			if x.Tok == token.DEFINE {
				for _, l := range x.Lhs {
					if id, ok := l.(*ast.Ident); ok && id.Name == name {
						found = true
					}
				}
			}
		case *ast.ValueSpec:
			for _, id := range x.Names {
				if id.Name == name {
					found = true
				}
			}
		case *ast.Field:
			for _, id := range x.Names {
				if id.Name == name {
					found = true
				}
			}
		case *ast.RangeStmt:
			for _, e := range []ast.Expr{x.Key, x.Value} {
				if id, ok := e.(*ast.Ident); ok && id.Name == name && x.Tok == token.DEFINE {
					found = true
				}
			}
		}
		return true
	})
	return found
}

// in-place mutators of *roaring.Bitmap (the receiver is written)
var c01Mutators = map[string]bool{"Or": true, "And": true, "AndNot": true, "Xor": true, "Add": true, "AddMany": true, "AddRange": true,
	"AddInt": true, "Remove": true, "RemoveRange": true, "Flip": true, "FlipInt": true, "Clear": true, "CheckedAdd": true, "CheckedRemove": true,
	"ReadFrom": true, "FromBuffer": true, "UnmarshalBinary": true}

// c01ClassifyValue says where the value of expression e comes from, as far as syntax tells.
func c01ClassifyValue(p *Pkg, file *ast.File, fd *ast.FuncDecl, e ast.Expr) string {
	src := c01Norm(p.Src(e))
	switch x := e.(type) {
	case *ast.Ident:
		return "the value " + src + " itself (no copy)"
	case *ast.SelectorExpr:
		return "the value " + src + " itself (no copy)"
	case *ast.CallExpr:
		se, ok := x.Fun.(*ast.SelectorExpr)
		if !ok {
			return "call " + src
		}
		if id, ok := se.X.(*ast.Ident); ok {
			imp := ""
			for _, im := range file.Imports {
				path := strings.Trim(im.Path.Value, "\"")
				n := path[strings.LastIndex(path, "/")+1:]
				if im.Name != nil {
					n = im.Name.Name
				}
				if n == id.Name {
					imp = path
				}
			}
			if imp != "" && !c01DeclaredIn(fd, id.Name) {
				return "fresh value: function " + se.Sel.Name + " of imported package " + imp + ", called as " + src
			}
		}
		kind := "method call (reads the receiver)"
		if c01Mutators[se.Sel.Name] {
			kind = "IN-PLACE method call (writes the receiver)"
		}
		return kind + ": " + src
	}
	return "expression " + src
}

// c01Appends: st is `X = append(X, v)`; returns X, v.
func c01Append(p *Pkg, st ast.Stmt) (string, string, bool) {
	as, ok := st.(*ast.AssignStmt)
	if !ok || as.Tok != token.ASSIGN || len(as.Lhs) != 1 || len(as.Rhs) != 1 {
		return "", "", false
	}
	ce, ok := as.Rhs[0].(*ast.CallExpr)
	if !ok || c01Sel(ce.Fun) != "append" || len(ce.Args) != 2 || ce.Ellipsis != token.NoPos {
		return "", "", false
	}
	l := c01Norm(p.Src(as.Lhs[0]))
	if c01Norm(p.Src(ce.Args[0])) != l {
		return "", "", false
	}
	return l, c01Norm(p.Src(ce.Args[1])), true
}

func c01IsAssignFrom(p *Pkg, st ast.Stmt, lhs string, rhsPred func(ast.Expr) bool) bool {
	as, ok := st.(*ast.AssignStmt)
	if !ok || len(as.Rhs) != 1 || len(as.Lhs) == 0 {
		return false
	}
	if c01Norm(p.Src(as.Lhs[0])) != lhs {
		return false
	}
	return rhsPred == nil || rhsPred(as.Rhs[0])
}

func c01CallNamed(e ast.Expr, suffix string) (*ast.CallExpr, bool) {
	ce, ok := e.(*ast.CallExpr)
	if !ok {
		return nil, false
	}
	n := c01Sel(ce.Fun)
	if n == suffix || strings.HasSuffix(n, "."+suffix) {
		return ce, true
	}
	// receiver that is not a plain selector chain (index expressions)
	if se, ok := ce.Fun.(*ast.SelectorExpr); ok && se.Sel.Name == suffix {
		return ce, true
	}
	return nil, false
}

func c01FileOf(p *Pkg, fd *ast.FuncDecl) *ast.File {
	for _, f := range p.Files {
		if f.Pos() <= fd.Pos() && fd.End() <= f.End() {
			return f
		}
	}
	return nil
}

type c01Facts struct {
	stmts   [][2]string
	derived [][3]string
}

func (f *c01Facts) addStmts(fn string, lines []string) {
	for _, l := range lines {
		f.stmts = append(f.stmts, [2]string{fn, l})
	}
}
func (f *c01Facts) d(fn, key, val string) { f.derived = append(f.derived, [3]string{fn, key, val}) }

func c01Describe(p *Pkg, list []ast.Stmt, w *c01Walker) string {
	saved := w.lines
	w.lines = nil
	for _, s := range list {
		w.stmt(s)
	}
	out := strings.Join(w.lines, " ; ")
	w.lines = saved
	if out == "" {
		return "(nothing)"
	}
	return out
}

// ---------------------------------------------------------------------------------------------------------------
// derived facts of introduceSegment

var c01StatVars = []string{"docsToPersistCount", "memSegments", "fileSegments", "introStartTime", "introTime", "start", "indexStart", "bufBytes", "numDeletes"}

func c01IntroduceSegment(c *Ctx, idx *Pkg, f *c01Facts) {
	const fn = "introduceSegment"
	fd, lines := c01Skeleton(c, idx, "index/introducer.go", "Writer.introduceSegment", c01StatVars)
	f.addStmts(fn, lines)
	file := c01FileOf(idx, fd)
	w := &c01Walker{c: c, p: idx, fn: fn, ignoreVars: map[string]bool{}, litSkip: map[string]bool{"creator": true, "parent": true}}
	for _, v := range c01StatVars {
		w.ignoreVars[v] = true
	}
	src := func(n ast.Node) string { return c01Norm(idx.Src(n)) }
	top := fd.Body.List

	// root := s.currentSnapshot()
	rootSt, _, _ := c01FindStmt(fd.Body, func(st ast.Stmt) bool { return c01IsAssignFrom(idx, st, "root", nil) })
	if rootSt == nil {
		c.Refuse("introduceSegment: no assignment to `root`")
	}
	f.d(fn, "root-is", src(rootSt.(*ast.AssignStmt).Rhs[0]))

	// the loop over root.segment (a top-level statement)
	var loop *ast.RangeStmt
	loopIdx := -1
	for i, st := range top {
		if rs, ok := st.(*ast.RangeStmt); ok && src(rs.X) == "root.segment" {
			if loop != nil {
				c.Refuse("introduceSegment: two loops over root.segment")
			}
			loop, loopIdx = rs, i
		}
	}
	if loop == nil {
		c.Refuse("introduceSegment: no top-level `for … range root.segment`")
	}
	key, val := "_", "_"
	if loop.Key != nil {
		key = src(loop.Key)
	}
	if loop.Value != nil {
		val = src(loop.Value)
	}
	f.d(fn, "loop", "for "+key+", "+val+" := range root.segment, every element, in order (no break / continue / goto inside: "+c01NoJumps(loop.Body)+")")

	// delta, ok := next.obsoletes[K]
	body := loop.Body.List
	lookIdx := -1
	for i, st := range body {
		if as, ok := st.(*ast.AssignStmt); ok && len(as.Lhs) >= 1 && src(as.Lhs[0]) == "delta" {
			lookIdx = i
			break
		}
	}
	if lookIdx < 0 {
		c.Refuse("introduceSegment: the loop body does not assign `delta` at its top level")
	}
	look := body[lookIdx].(*ast.AssignStmt)
	if ie, ok := look.Rhs[0].(*ast.IndexExpr); ok && len(look.Lhs) == 2 {
		f.d(fn, "obsoletes-lookup", "map "+src(ie.X)+" indexed by "+src(ie.Index)+", comma-ok into "+src(look.Lhs[0])+", "+src(look.Lhs[1]))
	} else {
		f.d(fn, "obsoletes-lookup", "NOT a comma-ok map lookup: "+src(look))
	}
	// the recompute: the `if !ok` directly after the lookup
	rec := "NONE: the statement after the lookup is not `if !ok {…}`"
	if lookIdx+1 < len(body) {
		if is, ok := body[lookIdx+1].(*ast.IfStmt); ok && src(is.Cond) == "!"+src(look.Lhs[len(look.Lhs)-1]) && is.Else == nil {
			st, _, _ := c01FindStmt(is.Body, func(st ast.Stmt) bool { return c01IsAssignFrom(idx, st, "delta", nil) })
			if st == nil {
				rec = "if " + src(is.Cond) + " does not assign delta"
			} else {
				rec = "if " + src(is.Cond) + ": delta = " + src(st.(*ast.AssignStmt).Rhs[0])
			}
		}
	}
	f.d(fn, "obsoletes-recompute", rec)

	// newss literal
	nss, _, _ := c01FindStmt(loop.Body, func(st ast.Stmt) bool { return c01IsAssignFrom(idx, st, "newss", nil) })
	if nss == nil {
		c.Refuse("introduceSegment: no `newss := …` in the loop")
	}
	f.d(fn, "kept-snapshot-literal", w.src(nss.(*ast.AssignStmt).Rhs[0]))

	// the union: if <old>.deleted == nil { newss.deleted = delta } else { newss.deleted = F(old, delta) }
	uni, _, uniIdx := c01FindStmt(loop.Body, func(st ast.Stmt) bool {
		is, ok := st.(*ast.IfStmt)
		return ok && strings.HasSuffix(src(is.Cond), ".deleted == nil")
	})
	if uni == nil {
		c.Refuse("introduceSegment: no `if ….deleted == nil` in the loop")
	}
	ui := uni.(*ast.IfStmt)
	old := strings.TrimSuffix(src(ui.Cond), " == nil")
	f.d(fn, "union-when-old-nil", c01Describe(idx, ui.Body.List, w))
	eb, isBlock := ui.Else.(*ast.BlockStmt)
	switch {
	case !isBlock:
		f.d(fn, "union-otherwise", "NO else branch")
	case len(eb.List) == 1 && c01IsAssignFrom(idx, eb.List[0], "newss.deleted", nil):
		f.d(fn, "union-otherwise", "newss.deleted = "+c01ClassifyValue(idx, file, fd, eb.List[0].(*ast.AssignStmt).Rhs[0]))
	default:
		f.d(fn, "union-otherwise", "other statements: "+c01Describe(idx, eb.List, w))
	}
	// every method called on the old bitmap, on delta or on newss.deleted inside the function
	var onBitmaps []string
	ast.Inspect(fd.Body, func(m ast.Node) bool {
		ce, ok := m.(*ast.CallExpr)
		if !ok {
			return true
		}
		se, ok := ce.Fun.(*ast.SelectorExpr)
		if !ok {
			return true
		}
		r := src(se.X)
		if strings.HasSuffix(r, ".deleted") || r == "delta" || r == "deleted" {
			tag := "reads "
			if c01Mutators[se.Sel.Name] {
				tag = "WRITES "
			}
			onBitmaps = append(onBitmaps, tag+r+"."+se.Sel.Name)
		}
		return true
	})
	sort.Strings(onBitmaps)
	f.d(fn, "methods-called-on-bitmaps", strings.Join(onBitmaps, ", "))
	_ = old

	// if newss.deleted.IsEmpty() { newss.deleted = nil }  — directly after the union
	body2 := loop.Body.List
	emp := "NONE directly after the union"
	if uniIdx+1 < len(body2) {
		if is, ok := body2[uniIdx+1].(*ast.IfStmt); ok && is.Else == nil {
			emp = "if " + src(is.Cond) + " { " + c01Describe(idx, is.Body.List, w) + " }"
		}
	}
	f.d(fn, "empty-becomes-nil", emp)

	// the live-size guard and what it guards
	grd, _, grdIdx := c01FindStmt(loop.Body, func(st ast.Stmt) bool {
		is, ok := st.(*ast.IfStmt)
		return ok && strings.Contains(src(is.Cond), "LiveSize()")
	})
	if grd == nil {
		c.Refuse("introduceSegment: no `if ….LiveSize() …` in the loop")
	}
	gi := grd.(*ast.IfStmt)
	f.d(fn, "keep-guard", "if "+src(gi.Cond)+" (no else: "+fmt.Sprint(gi.Else == nil)+") guards: "+c01Describe(idx, gi.Body.List, w))
	// order inside the loop body
	f.d(fn, "loop-order", fmt.Sprintf("lookup@%d < union@%d < keep-guard@%d: %v", lookIdx, uniIdx, grdIdx, lookIdx < uniIdx && uniIdx < grdIdx))
	// appends to newSnapshot.segment / offsets and AddRef outside the guard, inside the loop
	var outside []string
	for i, st := range body2 {
		if i == grdIdx {
			continue
		}
		ast.Inspect(st, func(m ast.Node) bool {
			if s, ok := m.(ast.Stmt); ok {
				if l, v, ok := c01Append(idx, s); ok && strings.HasPrefix(l, "newSnapshot.") {
					outside = append(outside, l+" += "+v)
				}
			}
			if ce, ok := m.(*ast.CallExpr); ok {
				if se, ok := ce.Fun.(*ast.SelectorExpr); ok && se.Sel.Name == "AddRef" {
					outside = append(outside, src(ce))
				}
			}
			return true
		})
	}
	f.d(fn, "appends-or-AddRef-in-loop-outside-guard", "["+strings.Join(outside, ", ")+"]")

	// running += E
	run, _, _ := c01FindStmt(gi.Body, func(st ast.Stmt) bool {
		as, ok := st.(*ast.AssignStmt)
		return ok && len(as.Lhs) == 1 && src(as.Lhs[0]) == "running"
	})
	if run == nil {
		f.d(fn, "running-offset", "NOT advanced inside the guard")
	} else {
		ra := run.(*ast.AssignStmt)
		e := src(ra.Rhs[0])
		which := "UNCLASSIFIED"
		if ce, ok := ra.Rhs[0].(*ast.CallExpr); ok && len(ce.Args) == 0 {
			if se, ok := ce.Fun.(*ast.SelectorExpr); ok && se.Sel.Name == "Count" {
				r := src(se.X)
				if strings.HasSuffix(r, ".segment") {
					which = "FULL count: Count of the segment " + r + " (deleted documents included)"
				} else {
					which = "LIVE count: segmentSnapshot.Count of " + r + " (deleted documents subtracted)"
				}
			}
		}
		f.d(fn, "running-offset", "running "+ra.Tok.String()+" "+e+" — "+which)
	}

	// the new segment: a top-level `if next.data != nil { … }` after the loop
	newIdx := -1
	for i, st := range top {
		if is, ok := st.(*ast.IfStmt); ok && src(is.Cond) == "next.data != nil" {
			newIdx = i
			lit, _, _ := c01FindStmt(is.Body, func(st ast.Stmt) bool {
				as, ok := st.(*ast.AssignStmt)
				if !ok || len(as.Rhs) != 1 {
					return false
				}
				found := false
				ast.Inspect(as.Rhs[0], func(m ast.Node) bool {
					if _, ok := m.(*ast.CompositeLit); ok {
						found = true
					}
					return true
				})
				return found
			})
			if lit == nil {
				c.Refuse("introduceSegment: `if next.data != nil` builds no segmentSnapshot literal")
			}
			f.d(fn, "new-segment-literal", w.src(lit))
			var apps []string
			for _, s := range is.Body.List {
				if l, v, ok := c01Append(idx, s); ok {
					apps = append(apps, l+" += "+v)
				}
			}
			f.d(fn, "new-segment-appends", "if next.data != nil (no else: "+fmt.Sprint(is.Else == nil)+"): "+strings.Join(apps, " ; "))
		}
	}
	if newIdx < 0 {
		c.Refuse("introduceSegment: no top-level `if next.data != nil`")
	}

	// replaceRoot and the ack: top-level statements
	rrIdx, ackIdx, retIdx := -1, -1, -1
	for i, st := range top {
		if es, ok := st.(*ast.ExprStmt); ok {
			if ce, ok := c01CallNamed(es.X, "replaceRoot"); ok {
				rrIdx = i
				f.d(fn, "replaceRoot-call", src(ce))
			}
			if ce, ok := c01CallNamed(es.X, "close"); ok && len(ce.Args) == 1 && src(ce.Args[0]) == "next.applied" {
				ackIdx = i
			}
		}
		if _, ok := st.(*ast.ReturnStmt); ok {
			retIdx = i
		}
	}
	if rrIdx < 0 || ackIdx < 0 {
		c.Refuse("introduceSegment: replaceRoot / close(next.applied) are not top-level statements of the function")
	}
	f.d(fn, "order", fmt.Sprintf("loop < new-segment < replaceRoot < close(next.applied) < return: %v",
		loopIdx < newIdx && newIdx < rrIdx && rrIdx < ackIdx && ackIdx < retIdx))
	// nothing between replaceRoot and the end writes newSnapshot
	var late []string
	for _, st := range top[rrIdx+1:] {
		ast.Inspect(st, func(m ast.Node) bool {
			if as, ok := m.(*ast.AssignStmt); ok {
				for _, l := range as.Lhs {
					if strings.HasPrefix(src(l), "newSnapshot") {
						late = append(late, src(as))
					}
				}
			}
			return true
		})
	}
	f.d(fn, "writes-to-newSnapshot-after-replaceRoot", "["+strings.Join(late, ", ")+"]")
	// acks (sends on / closes of next.applied) anywhere
	var acks []string
	c01Blocks(fd.Body, func(list []ast.Stmt) {
		for _, st := range list {
			switch x := st.(type) {
			case *ast.SendStmt:
				if src(x.Chan) == "next.applied" {
					acks = append(acks, fmt.Sprintf("%d:send", idx.Fset.Position(x.Pos()).Line-idx.Fset.Position(fd.Pos()).Line))
				}
			case *ast.ExprStmt:
				if ce, ok := c01CallNamed(x.X, "close"); ok && len(ce.Args) == 1 && src(ce.Args[0]) == "next.applied" {
					acks = append(acks, fmt.Sprintf("%d:close", idx.Fset.Position(x.Pos()).Line-idx.Fset.Position(fd.Pos()).Line))
				}
			}
		}
	})
	// only the COUNT of each kind is recorded (line numbers are not stable)
	sends, closes := 0, 0
	for _, a := range acks {
		if strings.HasSuffix(a, ":send") {
			sends++
		} else {
			closes++
		}
	}
	f.d(fn, "acks", fmt.Sprintf("sends on next.applied: %d (error path), closes of next.applied: %d (error path + after replaceRoot)", sends, closes))
}

func c01NoJumps(b *ast.BlockStmt) string {
	var js []string
	ast.Inspect(b, func(m ast.Node) bool {
		if br, ok := m.(*ast.BranchStmt); ok {
			js = append(js, br.Tok.String())
		}
		return true
	})
	if len(js) == 0 {
		return "true"
	}
	return "FALSE " + strings.Join(js, ",")
}

// ---------------------------------------------------------------------------------------------------------------
// derived facts of prepareSegment (used by C01 and C05)

func c01PrepareSegment(c *Ctx, idx *Pkg, f *c01Facts) {
	const fn = "prepareSegment"
	fd, lines := c01Skeleton(c, idx, "index/writer.go", "Writer.prepareSegment", c01StatVars)
	f.addStmts(fn, lines)
	src := func(n ast.Node) string { return c01Norm(idx.Src(n)) }
	top := fd.Body.List
	w := &c01Walker{c: c, p: idx, fn: fn, ignoreVars: map[string]bool{}, litSkip: map[string]bool{}}

	pos := map[string]int{}
	for i, st := range top {
		switch x := st.(type) {
		case *ast.AssignStmt:
			if c01IsAssignFrom(idx, x, "introduction", nil) {
				pos["literal"] = i
				f.d(fn, "introduction-literal", w.src(x.Rhs[0]))
			}
			if c01IsAssignFrom(idx, x, "root", nil) {
				pos["root"] = i
				f.d(fn, "root-is", src(x.Rhs[0]))
			}
			// err := <-introduction.applied
			if len(x.Rhs) == 1 {
				if ue, ok := x.Rhs[0].(*ast.UnaryExpr); ok && ue.Op == token.ARROW {
					pos["recv:"+src(ue.X)] = i
					f.d(fn, "receive", src(x)+" (unconditional, top level)")
				}
			}
		case *ast.RangeStmt:
			if src(x.X) == "root.segment" {
				pos["loop"] = i
				f.d(fn, "obsoletes-loop", "for … range root.segment { "+c01Describe(idx, x.Body.List, w)+" }")
			}
		case *ast.SendStmt:
			pos["send:"+src(x.Chan)] = i
			f.d(fn, "send", src(x)+" (unconditional, top level)")
		case *ast.IfStmt:
			cond := src(x.Cond)
			var recvs []string
			ast.Inspect(x.Body, func(m ast.Node) bool {
				if ue, ok := m.(*ast.UnaryExpr); ok && ue.Op == token.ARROW {
					recvs = append(recvs, src(ue.X))
				}
				return true
			})
			if len(recvs) > 0 {
				pos["wait"] = i
				f.d(fn, "conditional-receive", "if "+cond+" (no else: "+fmt.Sprint(x.Else == nil)+") { "+c01Describe(idx, x.Body.List, w)+" }")
			}
			if strings.Contains(cond, "UnsafeBatch") {
				pos["unsafe"] = i
				f.d(fn, "persisted-channel", "if "+cond+" (no else: "+fmt.Sprint(x.Else == nil)+") { "+c01Describe(idx, x.Body.List, w)+" }")
			}
		}
	}
	for _, k := range []string{"literal", "root", "loop", "send:s.introductions", "recv:introduction.applied", "wait", "unsafe"} {
		if _, ok := pos[k]; !ok {
			c.Refuse("prepareSegment: anchor %q is not a top-level statement any more", k)
		}
	}
	f.d(fn, "order", fmt.Sprintf("introduction literal < persisted channel made iff !UnsafeBatch < root := currentSnapshot() < obsoletes loop < send on s.introductions < receive from introduction.applied < conditional receive from introduction.persisted: %v",
		pos["literal"] < pos["unsafe"] && pos["unsafe"] < pos["root"] && pos["root"] < pos["loop"] && pos["loop"] < pos["send:s.introductions"] &&
			pos["send:s.introductions"] < pos["recv:introduction.applied"] && pos["recv:introduction.applied"] < pos["wait"]))
	// every channel operation of the function
	var ops []string
	ast.Inspect(fd.Body, func(m ast.Node) bool {
		switch x := m.(type) {
		case *ast.SendStmt:
			ops = append(ops, "send "+src(x.Chan))
		case *ast.UnaryExpr:
			if x.Op == token.ARROW {
				ops = append(ops, "recv "+src(x.X))
			}
		case *ast.SelectStmt:
			ops = append(ops, "SELECT")
		}
		return true
	})
	f.d(fn, "channel-operations", strings.Join(ops, ", "))
}

// ---------------------------------------------------------------------------------------------------------------
// Batch operations

func c01BatchOps(c *Ctx, idx *Pkg, f *c01Facts) {
	for _, m := range []string{"Insert", "Update", "Delete"} {
		fd := idx.Func("Batch." + m)
		if fd == nil || fd.Body == nil {
			c.Refuse("index/batch.go: Batch.%s not found", m)
		}
		recv := fd.Recv.List[0].Names[0].Name
		var params []string
		for _, p := range fd.Type.Params.List {
			for _, n := range p.Names {
				params = append(params, n.Name)
			}
		}
		var apps []string
		for _, st := range fd.Body.List {
			l, v, ok := c01Append(idx, st)
			if !ok || !strings.HasPrefix(l, recv+".") {
				c.Refuse("index/batch.go: Batch.%s holds a statement that is not `%s.f = append(%s.f, x)`:\n%s", m, recv, recv, idx.Src(st))
			}
			apps = append(apps, strings.TrimPrefix(l, recv+".")+" += "+v)
			f.stmts = append(f.stmts, [2]string{"Batch." + m, c01Norm(idx.Src(st))})
		}
		sort.Strings(apps) // the two appends of Update are independent
		f.d("Batch."+m, "appends", "("+strings.Join(params, ", ")+"): "+strings.Join(apps, " ; "))
	}
	// Reset keeps nothing
	_, lines := c01Skeleton(c, idx, "index/batch.go", "Batch.Reset", nil)
	f.addStmts("Batch.Reset", lines)
	_, lines = c01Skeleton(c, idx, "index/batch.go", "NewBatch", nil)
	f.addStmts("index.NewBatch", lines)
}

// ---------------------------------------------------------------------------------------------------------------

func c01LeanTables(ns, header string, f *c01Facts) string {
	var b strings.Builder
	b.WriteString(header)
	b.WriteString("namespace " + ns + "\n\n")
	b.WriteString("/-- (function, statement): statement skeletons, source order -/\ndef stmts : List (String × String) := [\n")
	for i, s := range f.stmts {
		sep := ","
		if i == len(f.stmts)-1 {
			sep = ""
		}
		fmt.Fprintf(&b, "  (%s, %s)%s\n", LeanStr(s[0]), LeanStr(s[1]), sep)
	}
	b.WriteString("]\n\n/-- (function, key, value): classified facts -/\ndef derived : List (String × String × String) := [\n")
	for i, s := range f.derived {
		sep := ","
		if i == len(f.derived)-1 {
			sep = ""
		}
		fmt.Fprintf(&b, "  (%s, %s, %s)%s\n", LeanStr(s[0]), LeanStr(s[1]), LeanStr(s[2]), sep)
	}
	b.WriteString("]\n\nend " + ns + "\n")
	return b.String()
}

func genC01(c *Ctx) {
	idx := c.ParseDir("index")
	root := c.ParseDir(".")
	f := &c01Facts{}

	c01IntroduceSegment(c, idx, f)
	c01PrepareSegment(c, idx, f)

	// Writer.Batch: the new segment exists iff the batch holds documents; what is handed to prepareSegment
	{
		fd, lines := c01Skeleton(c, idx, "index/writer.go", "Writer.Batch", c01StatVars)
		f.addStmts("Writer.Batch", lines)
		src := func(n ast.Node) string { return c01Norm(idx.Src(n)) }
		nu, _, _ := c01FindStmt(fd.Body, func(st ast.Stmt) bool {
			ds, ok := st.(*ast.DeclStmt)
			return ok && strings.Contains(src(ds), "numUpdates")
		})
		if nu == nil {
			c.Refuse("Writer.Batch: no declaration of numUpdates")
		}
		vs := nu.(*ast.DeclStmt).Decl.(*ast.GenDecl).Specs[0].(*ast.ValueSpec)
		if len(vs.Values) != 1 {
			c.Refuse("Writer.Batch: numUpdates is not declared with one initial value")
		}
		f.d("Writer.Batch", "numUpdates-is", src(vs.Values[0]))
		seg, _, _ := c01FindStmt(fd.Body, func(st ast.Stmt) bool {
			is, ok := st.(*ast.IfStmt)
			if !ok {
				return false
			}
			s, _, _ := c01FindStmt(is.Body, func(st ast.Stmt) bool { return c01IsAssignFrom(idx, st, "newSegment", nil) })
			return s != nil
		})
		if seg == nil {
			c.Refuse("Writer.Batch: no `if … { newSegment, … = … }`")
		}
		is := seg.(*ast.IfStmt)
		as, _, _ := c01FindStmt(is.Body, func(st ast.Stmt) bool { return c01IsAssignFrom(idx, st, "newSegment", nil) })
		f.d("Writer.Batch", "new-segment-iff", "if "+src(is.Cond)+" { newSegment = "+src(as.(*ast.AssignStmt).Rhs[0])+" } — otherwise newSegment stays nil")
		ps, _, _ := c01FindStmt(fd.Body, func(st ast.Stmt) bool {
			as, ok := st.(*ast.AssignStmt)
			if !ok || len(as.Rhs) != 1 {
				return false
			}
			_, ok = c01CallNamed(as.Rhs[0], "prepareSegment")
			return ok
		})
		if ps == nil {
			c.Refuse("Writer.Batch: no call of prepareSegment")
		}
		f.d("Writer.Batch", "prepareSegment-call", src(ps.(*ast.AssignStmt).Rhs[0]))
	}

	c01BatchOps(c, idx, f)

	// segmentSnapshot.Count / LiveSize
	for _, m := range []string{"Count", "LiveSize"} {
		_, lines := c01Skeleton(c, idx, "index/segment.go", "segmentSnapshot."+m, nil)
		f.addStmts("segmentSnapshot."+m, lines)
	}

	// package bluge: NewBatch, Identifier, Writer.Insert / Update / Delete / Batch
	for _, m := range []string{"NewBatch", "Identifier.Term", "Identifier.Field", "Writer.Insert", "Writer.Update", "Writer.Delete", "Writer.Batch"} {
		_, lines := c01Skeleton(c, root, "bluge", m, nil)
		f.addStmts("bluge."+m, lines)
	}

	header := "/-! GENERATED by go/extract (c01.go) from index/introducer.go, index/writer.go, index/batch.go, index/segment.go, batch.go,\nwriter.go of the repository under check — do not edit; `./check C01` rewrites this file from the working tree on every run. -/\n"
	c.WriteLean("C01", c01LeanTables("BlugeGen.C01", header, f))
	c.Summary["statements"] = len(f.stmts)
	c.Summary["derived_facts"] = len(f.derived)
}

package main

// Gen for C18, Indic normaliser: lean/BlugeGen/C18I.lean.
//
// analysis/lang/in (scripts.go, indic_normalize.go) is outside the translated rune subset (a map keyed by
// *unicode.RangeTable, struct pointers, a bitset). Bluge.C18.Indic is a hand transcription of
// normalize / compose over the TABLES extracted here (scripts: flag, base; decompositions with the flag(..)
// calls evaluated), and BlugeProofs.C18 obliges, by `decide`, the shape of the source to be the reviewed one:
//   * maskField / maskUses: the container of the per-script decomposition mask and every expression that
//     touches it — the transcription relies on `(*bitset.BitSet).Test` being TOTAL (false beyond the length);
//     an array / slice index in its place is a different program;
//   * indexSites: every index and slice expression of the package (what could go out of range);
//   * digests: sha256 of the comment-free, gofmt-normalised source of each function (the transcription is of
//     exactly this text; any edit asks for a re-review).

import (
	"bytes"
	"crypto/sha256"
	"fmt"
	"go/ast"
	"go/printer"
	"go/token"
	"sort"
	"strconv"
	"strings"
)

func evalIntLit(e ast.Expr) (int64, bool) {
	switch x := e.(type) {
	case *ast.BasicLit:
		if x.Kind == token.INT {
			v, err := strconv.ParseInt(x.Value, 0, 64)
			return v, err == nil
		}
		if x.Kind == token.CHAR {
			s, err := strconv.Unquote(x.Value)
			if err == nil {
				r := []rune(s)
				if len(r) == 1 {
					return int64(r[0]), true
				}
			}
		}
	case *ast.UnaryExpr:
		if x.Op == token.SUB {
			v, ok := evalIntLit(x.X)
			return -v, ok
		}
	case *ast.ParenExpr:
		return evalIntLit(x.X)
	}
	return 0, false
}

func genC18I(c *Ctx) {
	pkg := c.ParseDir("analysis/lang/in")
	src := func(n ast.Node) string {
		var b bytes.Buffer
		_ = (&printer.Config{Mode: printer.RawFormat}).Fprint(&b, pkg.Fset, n)
		return strings.Join(strings.Fields(b.String()), " ")
	}

	// ---- the mask field
	maskField := ""
	for _, f := range pkg.Files {
		for _, d := range f.Decls {
			gd, ok := d.(*ast.GenDecl)
			if !ok {
				continue
			}
			for _, sp := range gd.Specs {
				ts, ok := sp.(*ast.TypeSpec)
				if !ok || ts.Name.Name != "ScriptData" {
					continue
				}
				st, ok := ts.Type.(*ast.StructType)
				if !ok {
					c.Refuse("in.ScriptData is not a struct")
				}
				for _, fl := range st.Fields.List {
					for _, nm := range fl.Names {
						if nm.Name == "decompMask" {
							maskField = src(fl.Type)
						}
					}
				}
			}
		}
	}
	if maskField == "" {
		c.Refuse("in.ScriptData.decompMask not found (anchor moved)")
	}

	// ---- scripts table: unicode.<Name>: {flag: n, base: m}
	type sd struct {
		name       string
		flag, base int64
	}
	var scripts []sd
	flagOf := map[string]int64{}
	var decompLit *ast.CompositeLit
	for _, f := range pkg.Files {
		for _, d := range f.Decls {
			gd, ok := d.(*ast.GenDecl)
			if !ok || gd.Tok != token.VAR {
				continue
			}
			for _, sp := range gd.Specs {
				vs := sp.(*ast.ValueSpec)
				for i, nm := range vs.Names {
					if i >= len(vs.Values) {
						continue
					}
					lit, ok := vs.Values[i].(*ast.CompositeLit)
					if !ok {
						continue
					}
					switch nm.Name {
					case "scripts":
						for _, el := range lit.Elts {
							kv, ok := el.(*ast.KeyValueExpr)
							if !ok {
								c.Refuse("scripts: element is not key: value")
							}
							e := sd{name: src(kv.Key), flag: -1, base: -1}
							v, ok := kv.Value.(*ast.CompositeLit)
							if !ok {
								c.Refuse("scripts[%s]: value is not a literal", e.name)
							}
							for _, fe := range v.Elts {
								fkv, ok := fe.(*ast.KeyValueExpr)
								if !ok {
									c.Refuse("scripts[%s]: positional field", e.name)
								}
								n, ok := evalIntLit(fkv.Value)
								if !ok {
									c.Refuse("scripts[%s].%s is not an integer literal", e.name, src(fkv.Key))
								}
								switch src(fkv.Key) {
								case "flag":
									e.flag = n
								case "base":
									e.base = n
								default:
									c.Refuse("scripts[%s]: unexpected field %s in the literal", e.name, src(fkv.Key))
								}
							}
							if e.flag < 0 || e.base < 0 {
								c.Refuse("scripts[%s]: flag or base missing", e.name)
							}
							scripts = append(scripts, e)
							flagOf[e.name] = e.flag
						}
					case "decompositions":
						decompLit = lit
					}
				}
			}
		}
	}
	if len(scripts) == 0 || decompLit == nil {
		c.Refuse("in.scripts / in.decompositions not found (anchor moved)")
	}
	sort.Slice(scripts, func(i, j int) bool { return scripts[i].base < scripts[j].base })

	// ---- decompositions: rows of integers; `flag(unicode.X) | flag(unicode.Y)` evaluated through the table
	var evalFlag func(e ast.Expr) (int64, bool)
	evalFlag = func(e ast.Expr) (int64, bool) {
		switch x := e.(type) {
		case *ast.BinaryExpr:
			if x.Op == token.OR {
				a, ok1 := evalFlag(x.X)
				b, ok2 := evalFlag(x.Y)
				return a | b, ok1 && ok2
			}
		case *ast.CallExpr:
			if id, ok := x.Fun.(*ast.Ident); ok && id.Name == "flag" && len(x.Args) == 1 {
				v, ok := flagOf[src(x.Args[0])]
				return v, ok
			}
		case *ast.ParenExpr:
			return evalFlag(x.X)
		}
		return evalIntLit(e)
	}
	var rows [][]int64
	for _, el := range decompLit.Elts {
		row, ok := el.(*ast.CompositeLit)
		if !ok {
			c.Refuse("decompositions: a row is not a literal")
		}
		var r []int64
		for _, x := range row.Elts {
			v, ok := evalFlag(x)
			if !ok {
				c.Refuse("decompositions: cannot evaluate %s", src(x))
			}
			r = append(r, v)
		}
		rows = append(rows, r)
	}

	// ---- per function: mask uses, index / slice sites, digest
	type site struct{ fn, a, b string }
	var maskUses, indexSites []site
	var digests [][2]string
	var fds []*ast.FuncDecl
	for _, f := range pkg.Files {
		for _, d := range f.Decls {
			if fd, ok := d.(*ast.FuncDecl); ok {
				fds = append(fds, fd)
			}
		}
	}
	sort.Slice(fds, func(i, j int) bool { return funcKey(fds[i]) < funcKey(fds[j]) })
	for _, fd := range fds {
		name := funcKey(fd)
		// digest of the comment-free source (printing the FuncDecl node alone drops free-floating comments)
		doc := fd.Doc
		fd.Doc = nil
		sum := sha256.Sum256([]byte(src(fd)))
		fd.Doc = doc
		digests = append(digests, [2]string{name, fmt.Sprintf("%x", sum[:8])})
		if fd.Body == nil {
			continue
		}
		// parents of `.decompMask`
		var stack []ast.Node
		ast.Inspect(fd.Body, func(n ast.Node) bool {
			if n == nil {
				stack = stack[:len(stack)-1]
				return true
			}
			switch x := n.(type) {
			case *ast.SelectorExpr:
				if x.Sel.Name == "decompMask" {
					// the innermost enclosing call / index / assignment says how the mask is used
					use := src(x)
					for i := len(stack) - 1; i >= 0; i-- {
						switch p := stack[i].(type) {
						case *ast.CallExpr, *ast.IndexExpr, *ast.AssignStmt, *ast.SliceExpr:
							use = src(p)
							i = -1
						case *ast.SelectorExpr:
							_ = p
							continue
						default:
							i = -1
						}
					}
					maskUses = append(maskUses, site{name, use, ""})
				}
			case *ast.IndexExpr:
				indexSites = append(indexSites, site{name, src(x.X), src(x.Index)})
			case *ast.SliceExpr:
				lo, hi := "", ""
				if x.Low != nil {
					lo = src(x.Low)
				}
				if x.High != nil {
					hi = src(x.High)
				}
				indexSites = append(indexSites, site{name, src(x.X), lo + ":" + hi})
			}
			stack = append(stack, n)
			return true
		})
	}

	var b strings.Builder
	b.WriteString("/-! GENERATED by verif/go/extract (c18in.go) from /repo/analysis/lang/in — do not edit.\n")
	b.WriteString("Tables and shape facts of the Indic normaliser (see Bluge.C18.Indic for the transcription they feed). -/\n")
	b.WriteString("namespace BlugeGen.C18I\n\n")
	fmt.Fprintf(&b, "/-- the declared type of `ScriptData.decompMask` -/\ndef maskField : String := %s\n\n", LeanStr(maskField))
	b.WriteString("/-- (function, expression): every expression that touches `.decompMask` -/\ndef maskUses : List (String × String) := [\n")
	for i, s := range maskUses {
		fmt.Fprintf(&b, "  (%s, %s)", LeanStr(s.fn), LeanStr(s.a))
		if i+1 < len(maskUses) {
			b.WriteString(",")
		}
		b.WriteString("\n")
	}
	b.WriteString("]\n\n/-- (function, indexed expression, index or lo:hi): every index and slice expression of the package -/\ndef indexSites : List (String × String × String) := [\n")
	for i, s := range indexSites {
		fmt.Fprintf(&b, "  (%s, %s, %s)", LeanStr(s.fn), LeanStr(s.a), LeanStr(s.b))
		if i+1 < len(indexSites) {
			b.WriteString(",")
		}
		b.WriteString("\n")
	}
	b.WriteString("]\n\n/-- (function, first 8 bytes of the sha256 of its comment-free source) -/\ndef digests : List (String × String) := [\n")
	for i, d := range digests {
		fmt.Fprintf(&b, "  (%s, %s)", LeanStr(d[0]), LeanStr(d[1]))
		if i+1 < len(digests) {
			b.WriteString(",")
		}
		b.WriteString("\n")
	}
	b.WriteString("]\n\n/-- the `scripts` map, by base: (unicode table, flag, base) -/\ndef scripts : List (String × Int × Int) := [\n")
	for i, s := range scripts {
		fmt.Fprintf(&b, "  (%s, %d, %d)", LeanStr(s.name), s.flag, s.base)
		if i+1 < len(scripts) {
			b.WriteString(",")
		}
		b.WriteString("\n")
	}
	b.WriteString("]\n\n/-- the `decompositions` table, `flag(..) | flag(..)` evaluated: rows {ch0, ch1, ch2 (or -1), result, flags} -/\ndef decompositions : List (List Int) := [\n")
	for i, r := range rows {
		ss := make([]string, len(r))
		for j, v := range r {
			ss[j] = strconv.FormatInt(v, 10)
		}
		fmt.Fprintf(&b, "  [%s]", strings.Join(ss, ", "))
		if i+1 < len(rows) {
			b.WriteString(",")
		}
		b.WriteString("\n")
	}
	b.WriteString("]\n\nend BlugeGen.C18I\n")
	c.WriteLean("C18I", b.String())
	c.Summary["indic_scripts"] = len(scripts)
	c.Summary["indic_decompositions"] = len(rows)
	c.Summary["indic_index_sites"] = len(indexSites)
	c.Summary["indic_mask_field"] = maskField
}

package main

// Gen layer of C11: order facts of OpenWriter / close and the decisive expressions of
// KeepNLatestDeletionPolicy (whose logic is transcribed by hand into Bluge.Persist.Policy).

import (
	"fmt"
	"go/ast"
	"go/token"
	"strings"
)

func init() { Register("C11", genC11) }

func genC11(c *Ctx) {
	idx := c.ParseDir("index")

	// ---- OpenWriter: Setup -> Lock -> loadSnapshots -> List -> Cleanup, before the loops start
	ow := idx.Func("OpenWriter")
	if ow == nil {
		c.Refuse("index: OpenWriter not found")
	}
	var openOrder []string
	for _, x := range callsIn(ow.Body) {
		switch {
		case strings.HasSuffix(x.name, ".directory.Setup"):
			openOrder = append(openOrder, "setup")
		case strings.HasSuffix(x.name, ".directory.Lock"):
			openOrder = append(openOrder, "lock")
		case strings.HasSuffix(x.name, ".loadSnapshots"):
			openOrder = append(openOrder, "load-snapshots")
		case strings.HasSuffix(x.name, ".directory.List"):
			openOrder = append(openOrder, "list")
		case strings.HasSuffix(x.name, ".deletionPolicy.Cleanup"):
			openOrder = append(openOrder, "cleanup")
		case strings.HasSuffix(x.name, ".directory.Remove"), strings.HasSuffix(x.name, ".directory.Persist"):
			openOrder = append(openOrder, "WRITE:"+x.name)
		case strings.HasSuffix(x.name, ".introducerLoop"), strings.HasSuffix(x.name, ".persisterLoop"), strings.HasSuffix(x.name, ".mergerLoop"):
			openOrder = append(openOrder, "loop")
		}
	}
	lk, _ := firstCall(callsIn(ow.Body), "rv.directory.Lock", nil)
	lockErrReturns := isErrCheckReturning(stmtAfter(ow.Body, lk.pos))

	// ---- close: close(closeCh) -> asyncTasks.Wait -> replaceRoot(nil…) -> directory.Unlock
	cl := idx.Func("Writer.close")
	if cl == nil {
		c.Refuse("index: (*Writer).close not found")
	}
	var closeOrder []string
	for _, x := range callsIn(cl.Body) {
		if inFuncLit(cl.Body, x.pos) {
			continue
		}
		switch {
		case x.name == "close" && len(x.call.Args) == 1 && strings.HasSuffix(selName(x.call.Args[0]), ".closeCh"):
			closeOrder = append(closeOrder, "close-closeCh")
		case strings.HasSuffix(x.name, ".asyncTasks.Wait"):
			closeOrder = append(closeOrder, "wait")
		case strings.HasSuffix(x.name, ".replaceRoot"):
			closeOrder = append(closeOrder, "replace-root")
		case strings.HasSuffix(x.name, ".directory.Unlock"):
			closeOrder = append(closeOrder, "unlock")
		}
	}

	// ---- loadSnapshots: Commit + replaceRoot per loaded snapshot, oldest first
	ls := idx.Func("Writer.loadSnapshots")
	if ls == nil {
		c.Refuse("index: loadSnapshots not found")
	}
	loadLoopDescending, loadCommits, loadContinuesOnErr := false, false, false
	ast.Inspect(ls.Body, func(m ast.Node) bool {
		if fs, ok := m.(*ast.ForStmt); ok {
			if inc, ok := fs.Post.(*ast.IncDecStmt); ok && inc.Tok == token.DEC {
				loadLoopDescending = true // List returns newest first: walking backwards = oldest first
			}
			for _, x := range callsIn(fs.Body) {
				if strings.HasSuffix(x.name, ".deletionPolicy.Commit") {
					loadCommits = true
				}
			}
			ast.Inspect(fs.Body, func(k ast.Node) bool {
				if is, ok := k.(*ast.IfStmt); ok {
					if be, ok := is.Cond.(*ast.BinaryExpr); ok && be.Op == token.NEQ && selName(be.X) == "err" {
						if n := len(is.Body.List); n > 0 {
							if br, ok := is.Body.List[n-1].(*ast.BranchStmt); ok && br.Tok == token.CONTINUE {
								loadContinuesOnErr = true
							}
						}
					}
				}
				return true
			})
		}
		return true
	})

	// ---- KeepNLatestDeletionPolicy: the decisive expressions, as printed by go/printer
	cm := idx.Func("KeepNLatestDeletionPolicy.Commit")
	cs := idx.Func("KeepNLatestDeletionPolicy.cleanupSnapshots")
	cg := idx.Func("KeepNLatestDeletionPolicy.cleanupSegments")
	cu := idx.Func("KeepNLatestDeletionPolicy.Cleanup")
	if cm == nil || cs == nil || cg == nil || cu == nil {
		c.Refuse("index: KeepNLatestDeletionPolicy methods not found")
	}
	var commitExprs []string
	ast.Inspect(cm.Body, func(m ast.Node) bool {
		switch x := m.(type) {
		case *ast.IfStmt:
			commitExprs = append(commitExprs, "if "+idx.Src(x.Cond))
		case *ast.AssignStmt:
			if len(x.Lhs) == 1 && len(x.Rhs) == 1 {
				l := idx.Src(x.Lhs[0])
				if strings.HasPrefix(l, "p.") || l == "newlyDeletable" {
					commitExprs = append(commitExprs, l+" "+x.Tok.String()+" "+idx.Src(x.Rhs[0]))
				}
			}
		}
		return true
	})
	// cleanupSnapshots: Remove per deletable epoch; kept on error, liveSegments entry deleted on success
	var snapExprs []string
	ast.Inspect(cs.Body, func(m ast.Node) bool {
		switch x := m.(type) {
		case *ast.RangeStmt:
			snapExprs = append(snapExprs, "range "+idx.Src(x.X))
		case *ast.IfStmt:
			s := "if " + idx.Src(x.Cond) + " {"
			for _, st := range x.Body.List {
				s += " " + idx.Src(st) + ";"
			}
			s += " }"
			if eb, ok := x.Else.(*ast.BlockStmt); ok {
				s += " else {"
				for _, st := range eb.List {
					s += " " + idx.Src(st) + ";"
				}
				s += " }"
			}
			snapExprs = append(snapExprs, s)
		case *ast.AssignStmt:
			if len(x.Lhs) == 1 && strings.HasPrefix(idx.Src(x.Lhs[0]), "p.") {
				snapExprs = append(snapExprs, idx.Src(x))
			}
		}
		return true
	})
	// cleanupSegments: `continue OUTER` when any liveSegments entry names the segment; Remove; delete on success
	var order []string
	ast.Inspect(cg.Body, func(m ast.Node) bool {
		switch x := m.(type) {
		case *ast.RangeStmt:
			order = append(order, "range "+idx.Src(x.X))
		case *ast.BranchStmt:
			if x.Tok == token.CONTINUE && x.Label != nil {
				order = append(order, "continue-outer")
			} else if x.Tok == token.CONTINUE {
				order = append(order, "continue")
			}
		case *ast.CallExpr:
			n := selName(x.Fun)
			if n == "dir.Remove" {
				order = append(order, "remove")
			}
			if n == "delete" && len(x.Args) == 2 {
				order = append(order, "delete "+idx.Src(x.Args[0]))
			}
		case *ast.IfStmt:
			cond := strings.Join(strings.Fields(idx.Src(x.Cond)), " ")
			if x.Init != nil {
				cond = strings.Join(strings.Fields(idx.Src(x.Init)), " ") + "; " + cond
			}
			order = append(order, "if "+cond)
		}
		return true
	})
	var cleanupOrder []string
	for _, x := range callsIn(cu.Body) {
		cleanupOrder = append(cleanupOrder, strings.TrimPrefix(x.name, "p."))
	}

	var b strings.Builder
	b.WriteString("/-! GENERATED by go/extract (c11.go) from /repo/index — do not edit. -/\nnamespace BlugeGen.C11\n\n")
	fmt.Fprintf(&b, "/-- OpenWriter: directory and policy calls in source order (`loop` = a background loop is started) -/\ndef openOrder : List String := %s\n", leanStrs(openOrder))
	fmt.Fprintf(&b, "/-- OpenWriter returns the error right after a failed Lock() -/\ndef lockErrReturns : Bool := %s\n", leanBool(lockErrReturns))
	fmt.Fprintf(&b, "/-- Writer.close: calls in source order -/\ndef closeOrder : List String := %s\n", leanStrs(closeOrder))
	fmt.Fprintf(&b, "/-- loadSnapshots walks the (newest-first) listing backwards, commits every loaded snapshot to the policy, continues on a load error -/\ndef loadOldestFirst : Bool := %s\ndef loadCommits : Bool := %s\ndef loadContinuesOnErr : Bool := %s\n",
		leanBool(loadLoopDescending), leanBool(loadCommits), leanBool(loadContinuesOnErr))
	fmt.Fprintf(&b, "/-- KeepNLatestDeletionPolicy.Commit: assignments to policy state and conditions, in source order -/\ndef commitExprs : List String := %s\n", leanStrs(commitExprs))
	fmt.Fprintf(&b, "/-- cleanupSnapshots -/\ndef cleanupSnapshotsExprs : List String := %s\n", leanStrs(snapExprs))
	fmt.Fprintf(&b, "/-- cleanupSegments: control skeleton in source order -/\ndef cleanupSegmentsSkeleton : List String := %s\n", leanStrs(order))
	fmt.Fprintf(&b, "/-- Cleanup: snapshots first, then segments -/\ndef cleanupOrder : List String := %s\n", leanStrs(cleanupOrder))
	// ---- close(): Unlock is reached on every path: no `return` between asyncTasks.Wait() and directory.Unlock()
	closeReturnsBeforeUnlock := 0
	{
		var waitPos, unlockPos token.Pos
		for _, x := range callsIn(cl.Body) {
			if inFuncLit(cl.Body, x.pos) {
				continue
			}
			if strings.HasSuffix(x.name, ".asyncTasks.Wait") && waitPos == 0 {
				waitPos = x.pos
			}
			if strings.HasSuffix(x.name, ".directory.Unlock") {
				unlockPos = x.pos
			}
		}
		if waitPos == 0 || unlockPos == 0 {
			closeReturnsBeforeUnlock = 99 // no Wait or no Unlock at all
		} else {
			ast.Inspect(cl.Body, func(m ast.Node) bool {
				if _, ok := m.(*ast.FuncLit); ok {
					return false
				}
				if r, ok := m.(*ast.ReturnStmt); ok && r.Pos() > waitPos && r.Pos() < unlockPos {
					closeReturnsBeforeUnlock++
				}
				return true
			})
		}
	}
	// ---- mergeSegmentBases: the reference obtained from loadSegment is given back on both paths that do not keep it
	var memMergeReleases []string
	if mb := idx.Func("Writer.mergeSegmentBases"); mb != nil {
		for _, x := range callsIn(mb.Body) {
			if x.name == "seg.Close" || x.name == "seg.DecRef" {
				where := "closed-writer"
				// the release on the skipped path lies after the receive from notifyCh
				ast.Inspect(mb.Body, func(m ast.Node) bool {
					if u, ok := m.(*ast.UnaryExpr); ok && u.Op == token.ARROW && strings.HasSuffix(selName(u.X), ".notifyCh") && u.Pos() < x.pos {
						where = "after-introduction"
					}
					return true
				})
				memMergeReleases = append(memMergeReleases, where)
			}
		}
	} else {
		c.Refuse("index: mergeSegmentBases not found")
	}
	// ---- Writer.Close: close() runs through s.closeOnce.Do (a sync.Once field), and Close returns after it
	closeViaOnce := false
	if cf := idx.Func("Writer.Close"); cf != nil && cf.Body != nil {
		onceField := false
		for _, file := range idx.Files {
			ast.Inspect(file, func(m ast.Node) bool {
				ts, ok := m.(*ast.TypeSpec)
				if !ok || ts.Name.Name != "Writer" {
					return true
				}
				if st, ok := ts.Type.(*ast.StructType); ok {
					for _, fl := range st.Fields.List {
						for _, nm := range fl.Names {
							if nm.Name == "closeOnce" && selName(fl.Type) == "sync.Once" {
								onceField = true
							}
						}
					}
				}
				return false
			})
		}
		doPos, callsCloseInside := token.NoPos, false
		for _, x := range callsIn(cf.Body) {
			if strings.HasSuffix(x.name, ".closeOnce.Do") {
				doPos = x.end
				for _, y := range callsIn(x.call) {
					if strings.HasSuffix(y.name, ".close") {
						callsCloseInside = true
					}
				}
			} else if strings.HasSuffix(x.name, ".close") && !(doPos != token.NoPos && x.pos < doPos) {
				callsCloseInside = false // close() is also called outside the Once
				onceField = false
			}
		}
		retAfter, retBefore := false, false
		ast.Inspect(cf.Body, func(m ast.Node) bool {
			if _, ok := m.(*ast.FuncLit); ok {
				return false
			}
			if r, ok := m.(*ast.ReturnStmt); ok {
				if doPos != token.NoPos && r.Pos() > doPos {
					retAfter = true
				} else {
					retBefore = true
				}
			}
			return true
		})
		closeViaOnce = onceField && doPos != token.NoPos && callsCloseInside && retAfter && !retBefore
	} else {
		c.Refuse("index: (*Writer).Close not found")
	}
	// ---- persisterLoop's error branch after persistSnapshot: ourSnapshot.Close() exactly once on each path
	// (the `err == segment.ErrClosed` path that breaks out, and the retry path that continues)
	closesClosedPath, closesRetryPath := -1, -1
	if pl := idx.Func("Writer.persisterLoop"); pl != nil {
		isSnapClose := func(st ast.Stmt) bool {
			n := 0
			ast.Inspect(st, func(m ast.Node) bool {
				if ce, ok := m.(*ast.CallExpr); ok && selName(ce.Fun) == "ourSnapshot.Close" {
					n++
				}
				return true
			})
			return n > 0
		}
		ast.Inspect(pl.Body, func(m ast.Node) bool {
			is, ok := m.(*ast.IfStmt)
			if !ok || closesClosedPath >= 0 {
				return true
			}
			be, ok := is.Cond.(*ast.BinaryExpr)
			if !ok || be.Op != token.NEQ || selName(be.X) != "err" || selName(be.Y) != "nil" || len(is.Body.List) == 0 {
				return true
			}
			if br, ok := is.Body.List[len(is.Body.List)-1].(*ast.BranchStmt); !ok || br.Tok != token.CONTINUE {
				return true
			}
			before, nested, total, seenNested := 0, 0, 0, false
			for _, st := range is.Body.List {
				if sub, ok := st.(*ast.IfStmt); ok {
					if sb, ok := sub.Cond.(*ast.BinaryExpr); ok && sb.Op == token.EQL && strings.HasSuffix(selName(sb.Y), "ErrClosed") {
						seenNested = true
						for _, s2 := range sub.Body.List {
							if isSnapClose(s2) {
								nested++
							}
						}
						continue
					}
				}
				if isSnapClose(st) {
					total++
					if !seenNested {
						before++
					}
				}
			}
			closesClosedPath, closesRetryPath = before+nested, total
			return true
		})
	} else {
		c.Refuse("index: persisterLoop not found")
	}
	ncm, cmErr := loadSnapshotsCommitFacts(c, idx)
	fmt.Fprintf(&b, "/-- loadSnapshots: number of deletionPolicy.Commit calls, and whether one of them lies in an error branch -/\ndef loadCommitCalls : Nat := %d\ndef loadCommitOnErr : Bool := %s\n", ncm, leanBool(cmErr))
	fmt.Fprintf(&b, "/-- persisterLoop, error branch after persistSnapshot: number of ourSnapshot.Close() calls on the ErrClosed path and on the retry path -/\ndef errBranchClosesClosedPath : Int := %d\ndef errBranchClosesRetryPath : Int := %d\n", closesClosedPath, closesRetryPath)
	fmt.Fprintf(&b, "/-- Writer.Close runs close() inside s.closeOnce.Do (closeOnce a sync.Once field of Writer) and returns only after it -/\ndef closeViaOnce : Bool := %s\n", leanBool(closeViaOnce))
	fmt.Fprintf(&b, "/-- Writer.close: number of return statements between asyncTasks.Wait() and directory.Unlock() -/\ndef closeReturnsBeforeUnlock : Nat := %d\n", closeReturnsBeforeUnlock)
	fmt.Fprintf(&b, "/-- mergeSegmentBases: where the reference from loadSegment(newSegmentID) is released (seg.Close / seg.DecRef) -/\ndef memMergeReleases : List String := %s\n", leanStrs(memMergeReleases))
	b.WriteString("\nend BlugeGen.C11\n")
	c.WriteLean("C11", b.String())
	c.Summary["facts"] = 10
}

package main

// Gen layer of C05: the event alphabet of Bluge.Lin, as it stands in /repo NOW.
//
// The model of C05 makes each of these an ATOMIC event and fixes their program order:
//
//	Prepare c sid seen   prepareSegment: segment id from the atomic counter, root := currentSnapshot() (under rootLock.RLock),
//	                     optimistic obsoletes against THAT root outside any lock, then the send on s.introductions
//	IntroSegment c       the introducer goroutine — the only one that swaps the root while the writer is open — runs
//	                     introduceSegment: replaceRoot (root and rootPersisted written in ONE rootLock.Lock region), then close(applied)
//	Ack cs               the persister closes the `persisted` channels it grabbed together with a root, in one rootLock.Lock region
//	Return c             prepareSegment returns after the receive from `applied` and, iff !UnsafeBatch, from `persisted`
//	ReaderGet r          Writer.Reader = currentSnapshot()
//
// None of this is observable by an execution (a run sees one interleaving; the harness gates what it can), so it is
// pinned as facts: statement skeletons (`stmts`) of prepareSegment, introducerLoop, replaceRoot, currentSnapshot,
// Writer.Reader and Writer.close, and classified facts (`derived`): the callers of introduceSegment / introducePersist /
// introduceMerge / replaceRoot / introducerLoop in package index, every assignment to a `.root` field, the select table of
// introducerLoop with what each case runs, the lock regions of replaceRoot / currentSnapshot / the persister's grab, the
// close loop of the persister. BlugeProofs.C05 obliges both tables to equal BlugeProofs/C05/Facts.lean.
//
// Uses the statement walker of c01.go (checks/c05.py: EXTRACT_DEPS = ("c01.go",)).

import (
	"fmt"
	"go/ast"
	"go/token"
	"sort"
	"strings"
)

func init() { Register("C05", genC05) }

// c05Enclosing: name of the function declaration of p that contains pos.
func c05Enclosing(p *Pkg, pos token.Pos) string {
	for _, f := range p.Files {
		for _, d := range f.Decls {
			if fd, ok := d.(*ast.FuncDecl); ok && fd.Pos() <= pos && pos < fd.End() {
				return fd.Name.Name
			}
		}
	}
	return "?"
}

// c05LockRegion: the statements of fd strictly between `<lock>()` and `<unlock>()`, which must be expression statements
// of ONE statement list, in this order, each occurring exactly once in the function.
func c05LockRegion(c *Ctx, p *Pkg, fd *ast.FuncDecl, lock, unlock string) []ast.Stmt {
	count := map[string]int{}
	var region []ast.Stmt
	found := false
	ast.Inspect(fd.Body, func(m ast.Node) bool {
		if ce, ok := m.(*ast.CallExpr); ok {
			n := c01Sel(ce.Fun)
			if n == lock || n == unlock {
				count[n]++
			}
		}
		return true
	})
	if count[lock] != 1 || count[unlock] != 1 {
		c.Refuse("%s: expected exactly one %s() and one %s() (found %d / %d)", fd.Name.Name, lock, unlock, count[lock], count[unlock])
	}
	c01Blocks(fd.Body, func(list []ast.Stmt) {
		li, ui := -1, -1
		for i, st := range list {
			if es, ok := st.(*ast.ExprStmt); ok {
				if ce, ok := es.X.(*ast.CallExpr); ok {
					switch c01Sel(ce.Fun) {
					case lock:
						li = i
					case unlock:
						ui = i
					}
				}
			}
		}
		if li >= 0 && ui > li {
			region = list[li+1 : ui]
			found = true
		}
	})
	if !found {
		c.Refuse("%s: %s() and %s() are not two statements of one block, in this order (deferred unlock or early return?)", fd.Name.Name, lock, unlock)
	}
	// no return / break / continue / goto may leave the region with the lock held
	for _, st := range region {
		ast.Inspect(st, func(m ast.Node) bool {
			switch m.(type) {
			case *ast.ReturnStmt, *ast.BranchStmt:
				c.Refuse("%s: a jump inside the %s region:\n%s", fd.Name.Name, lock, p.Src(st))
			}
			return true
		})
	}
	return region
}

func genC05(c *Ctx) {
	idx := c.ParseDir("index")
	f := &c01Facts{}
	src := func(n ast.Node) string { return c01Norm(idx.Src(n)) }
	newWalker := func(fn string) *c01Walker {
		w := &c01Walker{c: c, p: idx, fn: fn, ignoreVars: map[string]bool{}, litSkip: map[string]bool{"creator": true, "parent": true}}
		for _, v := range c01StatVars {
			w.ignoreVars[v] = true
		}
		return w
	}

	// ---- prepareSegment (shared with C01)
	c01PrepareSegment(c, idx, f)

	// ---- Writer.Reader
	_, lines := c01Skeleton(c, idx, "index/writer.go", "Writer.Reader", nil)
	f.addStmts("Writer.Reader", lines)

	// ---- introducerLoop
	{
		const fn = "introducerLoop"
		fd, lines := c01Skeleton(c, idx, "index/introducer.go", "Writer.introducerLoop", c01StatVars)
		f.addStmts(fn, lines)
		w := newWalker(fn)
		var sels []*ast.SelectStmt
		var fors []ast.Stmt
		ast.Inspect(fd.Body, func(m ast.Node) bool {
			switch x := m.(type) {
			case *ast.SelectStmt:
				sels = append(sels, x)
			case *ast.ForStmt:
				fors = append(fors, x)
			case *ast.RangeStmt:
				fors = append(fors, x)
			case *ast.GoStmt:
				c.Refuse("introducerLoop starts a goroutine")
			}
			return true
		})
		if len(sels) != 1 || len(fors) != 1 {
			c.Refuse("introducerLoop: expected one `for` holding one `select` (found %d / %d)", len(fors), len(sels))
		}
		loop, ok := fors[0].(*ast.ForStmt)
		if !ok || loop.Cond != nil || loop.Init != nil || loop.Post != nil {
			c.Refuse("introducerLoop: the loop is not `for { … }`")
		}
		selAt := -1
		for i, st := range loop.Body.List {
			if st == ast.Stmt(sels[0]) {
				selAt = i
			}
		}
		if selAt < 0 {
			c.Refuse("introducerLoop: the select is not a direct statement of the loop body")
		}
		var table []string
		intro := map[string]int{}
		for _, cc := range sels[0].Body.List {
			cl := cc.(*ast.CommClause)
			if cl.Comm == nil {
				table = append(table, "default")
				f.d(fn, "case default", c01Describe(idx, cl.Body, w))
				continue
			}
			comm := src(cl.Comm)
			table = append(table, comm)
			f.d(fn, "case "+comm, c01Describe(idx, cl.Body, w))
			for _, st := range cl.Body {
				ast.Inspect(st, func(m ast.Node) bool {
					if ce, ok := m.(*ast.CallExpr); ok {
						if se, ok := ce.Fun.(*ast.SelectorExpr); ok && strings.HasPrefix(se.Sel.Name, "introduce") {
							intro[comm]++
						}
					}
					return true
				})
			}
		}
		f.d(fn, "select-table", strings.Join(table, " | "))
		var per []string
		for _, t := range table {
			per = append(per, fmt.Sprintf("%s: %d", t, intro[t]))
		}
		f.d(fn, "introductions-per-case", strings.Join(per, " | "))
		// introduce* calls outside the select
		outside := 0
		ast.Inspect(fd.Body, func(m ast.Node) bool {
			if m == ast.Node(sels[0]) {
				return false
			}
			if ce, ok := m.(*ast.CallExpr); ok {
				if se, ok := ce.Fun.(*ast.SelectorExpr); ok && strings.HasPrefix(se.Sel.Name, "introduce") {
					outside++
				}
			}
			return true
		})
		f.d(fn, "introductions-outside-the-select", fmt.Sprint(outside))
	}

	// ---- introduceSegment: the swap precedes the acknowledgement (Return c is enabled only after IntroSegment c)
	{
		const fn = "introduceSegment"
		fd := idx.Func("Writer.introduceSegment")
		if fd == nil || fd.Body == nil {
			c.Refuse("index/introducer.go: introduceSegment not found")
		}
		rr, ack := -1, -1
		for i, st := range fd.Body.List {
			if es, ok := st.(*ast.ExprStmt); ok {
				if ce, ok := c01CallNamed(es.X, "replaceRoot"); ok {
					rr = i
					f.d(fn, "replaceRoot-call", src(ce))
				}
				if ce, ok := c01CallNamed(es.X, "close"); ok && len(ce.Args) == 1 && src(ce.Args[0]) == "next.applied" {
					ack = i
				}
			}
		}
		if rr < 0 || ack < 0 {
			c.Refuse("introduceSegment: replaceRoot / close(next.applied) are not top-level statements of the function")
		}
		f.d(fn, "order", fmt.Sprintf("replaceRoot < close(next.applied): %v", rr < ack))
		// every other send on / close of next.applied lies on a path that returns an error without a swap
		n := 0
		ast.Inspect(fd.Body, func(m ast.Node) bool {
			switch x := m.(type) {
			case *ast.SendStmt:
				if src(x.Chan) == "next.applied" {
					n++
				}
			case *ast.CallExpr:
				if id, ok := x.Fun.(*ast.Ident); ok && id.Name == "close" && len(x.Args) == 1 && src(x.Args[0]) == "next.applied" {
					n++
				}
			}
			return true
		})
		f.d(fn, "sends on / closes of next.applied", fmt.Sprint(n)+" (error path: send + close, then return err; success path: close after replaceRoot)")
	}

	// ---- who calls what (package index, production files)
	callers := map[string][]string{}
	gos := map[string][]string{}
	watched := []string{"introduceSegment", "introducePersist", "introduceMerge", "replaceRoot", "introducerLoop", "prepareSegment"}
	isWatched := map[string]bool{}
	for _, n := range watched {
		isWatched[n] = true
	}
	var fileNames []string
	for n := range idx.Files {
		fileNames = append(fileNames, n)
	}
	sort.Strings(fileNames)
	var rootWrites []string
	for _, fnm := range fileNames {
		file := idx.Files[fnm]
		ast.Inspect(file, func(m ast.Node) bool {
			switch x := m.(type) {
			case *ast.GoStmt:
				if se, ok := x.Call.Fun.(*ast.SelectorExpr); ok && isWatched[se.Sel.Name] {
					gos[se.Sel.Name] = append(gos[se.Sel.Name], c05Enclosing(idx, x.Pos()))
				}
			case *ast.CallExpr:
				if se, ok := x.Fun.(*ast.SelectorExpr); ok && isWatched[se.Sel.Name] {
					callers[se.Sel.Name] = append(callers[se.Sel.Name], c05Enclosing(idx, x.Pos()))
				}
				if id, ok := x.Fun.(*ast.Ident); ok && isWatched[id.Name] {
					callers[id.Name] = append(callers[id.Name], c05Enclosing(idx, x.Pos()))
				}
			case *ast.SelectorExpr:
				// a method value (s.replaceRoot passed around) would escape the call table
				_ = x
			case *ast.AssignStmt:
				for _, l := range x.Lhs {
					if se, ok := l.(*ast.SelectorExpr); ok && se.Sel.Name == "root" {
						rootWrites = append(rootWrites, c05Enclosing(idx, x.Pos())+": "+src(l)+" "+x.Tok.String()+" …")
					}
				}
			case *ast.IncDecStmt:
				if se, ok := x.X.(*ast.SelectorExpr); ok && se.Sel.Name == "root" {
					rootWrites = append(rootWrites, c05Enclosing(idx, x.Pos())+": "+src(x))
				}
			case *ast.UnaryExpr:
				if x.Op == token.AND {
					if se, ok := x.X.(*ast.SelectorExpr); ok && se.Sel.Name == "root" {
						rootWrites = append(rootWrites, c05Enclosing(idx, x.Pos())+": address taken "+src(x))
					}
				}
			}
			return true
		})
	}
	// method values: a watched name used as a selector that is not the Fun of a call
	methodValues := 0
	for _, fnm := range fileNames {
		calls := map[ast.Expr]bool{}
		ast.Inspect(idx.Files[fnm], func(m ast.Node) bool {
			if ce, ok := m.(*ast.CallExpr); ok {
				calls[ce.Fun] = true
			}
			return true
		})
		ast.Inspect(idx.Files[fnm], func(m ast.Node) bool {
			if se, ok := m.(*ast.SelectorExpr); ok && isWatched[se.Sel.Name] && !calls[se] {
				methodValues++
			}
			return true
		})
	}
	for _, n := range watched {
		cs := callers[n]
		sort.Strings(cs)
		f.d("package index", "callers of "+n, "["+strings.Join(cs, ", ")+"]")
	}
	f.d("package index", "go statements starting introducerLoop", "["+strings.Join(gos["introducerLoop"], ", ")+"]")
	f.d("package index", "watched functions used as method values", fmt.Sprint(methodValues))
	sort.Strings(rootWrites)
	f.d("package index", "writes to a .root field", "["+strings.Join(rootWrites, " ; ")+"]")

	// ---- replaceRoot
	{
		const fn = "replaceRoot"
		fd, lines := c01Skeleton(c, idx, "index/introducer.go", "Writer.replaceRoot", c01StatVars)
		f.addStmts(fn, lines)
		w := newWalker(fn)
		region := c05LockRegion(c, idx, fd, "s.rootLock.Lock", "s.rootLock.Unlock")
		f.d(fn, "rootLock.Lock region", c01Describe(idx, region, w))
		inRegion := func(pred func(string) bool) bool {
			for _, st := range region {
				hit := false
				ast.Inspect(st, func(m ast.Node) bool {
					if s, ok := m.(ast.Stmt); ok {
						if _, isBlock := s.(*ast.BlockStmt); !isBlock && pred(src(s)) {
							hit = true
						}
					}
					return true
				})
				if hit {
					return true
				}
			}
			return false
		}
		f.d(fn, "root swap and rootPersisted append in one critical section", fmt.Sprint(
			inRegion(func(s string) bool { return s == "s.root = newSnapshot" }) &&
				inRegion(func(s string) bool { return s == "s.rootPersisted = append(s.rootPersisted, persistedCh)" })))
	}

	// ---- currentSnapshot
	{
		const fn = "currentSnapshot"
		fd, lines := c01Skeleton(c, idx, "index/writer.go", "Writer.currentSnapshot", nil)
		f.addStmts(fn, lines)
		w := newWalker(fn)
		region := c05LockRegion(c, idx, fd, "s.rootLock.RLock", "s.rootLock.RUnlock")
		f.d(fn, "rootLock.RLock region", c01Describe(idx, region, w))
	}

	// ---- Writer.close: the last root swap happens after the background goroutines are gone
	{
		const fn = "close"
		fd, lines := c01Skeleton(c, idx, "index/writer.go", "Writer.close", append([]string{"startTime"}, c01StatVars...))
		f.addStmts(fn, lines)
		at := map[string]int{}
		for i, st := range fd.Body.List {
			if es, ok := st.(*ast.ExprStmt); ok {
				at[src(es.X)] = i + 1
			}
		}
		a, b, d := at["close(s.closeCh)"], at["s.asyncTasks.Wait()"], at["s.replaceRoot(nil, nil, nil)"]
		f.d(fn, "order", fmt.Sprintf("close(s.closeCh) < s.asyncTasks.Wait() < s.replaceRoot(nil, nil, nil): %v", a > 0 && a < b && b < d))
	}

	// ---- OpenWriter: roots installed by loadSnapshots precede the start of the introducer
	{
		const fn = "OpenWriter"
		fd := idx.Func("OpenWriter")
		if fd == nil {
			c.Refuse("index/writer.go: OpenWriter not found")
		}
		load, goIntro := token.NoPos, token.NoPos
		ast.Inspect(fd.Body, func(m ast.Node) bool {
			switch x := m.(type) {
			case *ast.CallExpr:
				if se, ok := x.Fun.(*ast.SelectorExpr); ok && se.Sel.Name == "loadSnapshots" && load == token.NoPos {
					load = x.Pos()
				}
			case *ast.GoStmt:
				if se, ok := x.Call.Fun.(*ast.SelectorExpr); ok && se.Sel.Name == "introducerLoop" {
					goIntro = x.Pos()
				}
			}
			return true
		})
		if load == token.NoPos || goIntro == token.NoPos {
			c.Refuse("OpenWriter: loadSnapshots call / go introducerLoop not found")
		}
		f.d(fn, "order", fmt.Sprintf("loadSnapshots() < go introducerLoop(…): %v", load < goIntro))
	}

	// ---- persisterLoop: the grab and the close loop
	{
		const fn = "persisterLoop"
		fd := idx.Func("Writer.persisterLoop")
		if fd == nil || fd.Body == nil {
			c.Refuse("index/persister.go: persisterLoop not found")
		}
		w := newWalker(fn)
		region := c05LockRegion(c, idx, fd, "s.rootLock.Lock", "s.rootLock.Unlock")
		f.d(fn, "rootLock.Lock region (the grab)", c01Describe(idx, region, w))
		// the loop closing the grabbed channels
		var loops []*ast.RangeStmt
		ast.Inspect(fd.Body, func(m ast.Node) bool {
			if rs, ok := m.(*ast.RangeStmt); ok && strings.Contains(src(rs.X), "ersisted") && !strings.Contains(src(rs.X), "Callbacks") {
				loops = append(loops, rs)
			}
			return true
		})
		if len(loops) != 1 {
			c.Refuse("persisterLoop: expected one loop over the grabbed persisted channels, found %d", len(loops))
		}
		f.d(fn, "ack loop", "for … range "+src(loops[0].X)+" { "+c01Describe(idx, loops[0].Body.List, w)+" }")
		// it follows the persistSnapshot call in the same block
		st, list, i := c01FindStmt(fd.Body, func(st ast.Stmt) bool { return st == ast.Stmt(loops[0]) })
		_ = st
		after := false
		for _, prev := range list[:i] {
			ast.Inspect(prev, func(m ast.Node) bool {
				if ce, ok := m.(*ast.CallExpr); ok {
					if se, ok := ce.Fun.(*ast.SelectorExpr); ok && se.Sel.Name == "persistSnapshot" {
						after = true
					}
				}
				return true
			})
		}
		f.d(fn, "ack loop follows persistSnapshot in the same block", fmt.Sprint(after))
		// every statement of the package that mentions the field rootPersisted
		var others []string
		for _, fnm := range fileNames {
			c01Blocks(idx.Files[fnm], func(list []ast.Stmt) {
				for _, st := range list {
					switch st.(type) {
					case *ast.AssignStmt, *ast.ExprStmt, *ast.SendStmt, *ast.IncDecStmt, *ast.ReturnStmt, *ast.DeferStmt, *ast.GoStmt:
						if strings.Contains(src(st), "rootPersisted") {
							others = append(others, c05Enclosing(idx, st.Pos())+": "+src(st))
						}
					}
				}
			})
		}
		sort.Strings(others)
		f.d("package index", "statements mentioning rootPersisted", "["+strings.Join(others, " ; ")+"]")
	}

	header := "/-! GENERATED by go/extract (c05.go) from index/writer.go, index/introducer.go, index/persister.go of the repository under\ncheck — do not edit; `./check C05` rewrites this file from the working tree on every run. -/\n"
	c.WriteLean("C05", c01LeanTables("BlugeGen.C05", header, f))
	c.Summary["statements"] = len(f.stmts)
	c.Summary["derived_facts"] = len(f.derived)
}

package main

// Gen layer of C08: the layout-sensitive code of /repo as it stands NOW.
//
//	index/optimize.go                 postingsIterator.Optimize (dispatch on the kind), the three Finish methods
//	index/unadorned.go, empty.go      the per-segment iterators the unadorned rewrites install (which of them is optimizable)
//	search/searcher/search_conjunction.go, search_disjunction.go
//	                                  when a rewrite is attempted, optimizeCompositeSearcher, the minSearcher wrapper
//	writer_offline.go, index/writer_offline.go
//	                                  OfflineWriter.Insert / Close, WriterOffline.Batch / doMerge / Close, mergeMax
//	index/snapshot.go, reader.go      Snapshot.Backup, Reader.Backup
//	index/writer.go                   OpenReader (which snapshot a reader opens), the offsets loadSnapshot computes
//
// Two kinds of tables are written to lean/BlugeGen/C08.lean:
//
//   - one `List String` per watched function: its STATEMENT SKELETON (the walker of c01.go: one entry per statement in
//     source order, control structure as `{` / `} else {` / `}` entries, whitespace-normalised; statistics counters, log
//     lines, the text of error messages and — in doMerge — the bookkeeping of the opened segment files are left out);
//   - `derived : List (String × String × String)`: CLASSIFIED facts the text alone does not give — that `roaring.And` /
//     `roaring.Or` / `HeapOr` / `New` are functions of the imported roaring package (their result is a FRESH bitmap) and
//     which bitmap the in-place `And` / `AddMany` are called on, in which loop the 1-hit state of the unadorned
//     conjunction is declared, which index the installed iterators are stored under, the operator of the offline
//     writer's flush test, where doMerge puts the merged segment, the order segments -> snapshot of Backup.
//
// BlugeProofs.C08.Gen obliges every table to equal the expected one of BlugeProofs/C08/Facts.lean (`rfl`), where each
// expected table names the definition of Bluge/Layout.lean it justifies. The walker REFUSES statement kinds it does not
// render; a derived fact refuses when its anchor statement is missing; a shape that is understood but different is
// REPORTED (the `rfl` fails) rather than refused.
//
// checks/c08.py: EXTRACT_DEPS = ("c01.go", "c07.go") — the statement walker, and genC07 (BlugeProofs.C08.ViaC07 imports
// BlugeProofs.C07, whose own regenerated layer lean/BlugeGen/C07.lean is brought up to date for the tree under check).

import (
	"fmt"
	"go/ast"
	"go/token"
	"regexp"
	"sort"
	"strings"
)

func init() { Register("C08", genC08) }

// ---------------------------------------------------------------------------------------------------------------
// skeletons

var c08ErrorfRe = regexp.MustCompile(`fmt\.Errorf\(.*\)`)

// c08Mentions: does n mention one of the identifiers?
func c08Mentions(n ast.Node, names map[string]bool) bool {
	found := false
	ast.Inspect(n, func(m ast.Node) bool {
		if id, ok := m.(*ast.Ident); ok && names[id.Name] {
			found = true
		}
		return true
	})
	return found
}

func c08IsLog(st ast.Stmt) bool {
	es, ok := st.(*ast.ExprStmt)
	if !ok {
		return false
	}
	ce, ok := es.X.(*ast.CallExpr)
	return ok && strings.HasPrefix(c01Sel(ce.Fun), "log.")
}

// c08Filter removes, at any depth, log lines and the simple statements (assignment, expression, declaration) that
// mention one of `drop`; an `if` whose condition mentions one of them and whose branches became empty goes as well.
func c08Filter(list []ast.Stmt, drop map[string]bool) []ast.Stmt {
	var out []ast.Stmt
	for _, st := range list {
		switch x := st.(type) {
		case *ast.AssignStmt, *ast.ExprStmt, *ast.DeclStmt, *ast.IncDecStmt:
			if c08IsLog(st) || (len(drop) > 0 && c08Mentions(st, drop)) {
				continue
			}
			out = append(out, st)
		case *ast.IfStmt:
			x.Body.List = c08Filter(x.Body.List, drop)
			empty := len(x.Body.List) == 0
			switch e := x.Else.(type) {
			case *ast.BlockStmt:
				e.List = c08Filter(e.List, drop)
				if len(e.List) == 0 {
					x.Else = nil
				} else {
					empty = false
				}
			case *ast.IfStmt:
				r := c08Filter([]ast.Stmt{e}, drop)
				if len(r) == 0 {
					x.Else = nil
				} else {
					empty = false
				}
			}
			if empty && len(drop) > 0 && c08Mentions(x.Cond, drop) {
				continue
			}
			out = append(out, st)
		case *ast.ForStmt:
			x.Body.List = c08Filter(x.Body.List, drop)
			out = append(out, st)
		case *ast.RangeStmt:
			x.Body.List = c08Filter(x.Body.List, drop)
			out = append(out, st)
		case *ast.BlockStmt:
			x.List = c08Filter(x.List, drop)
			out = append(out, st)
		case *ast.LabeledStmt:
			r := c08Filter([]ast.Stmt{x.Stmt}, drop)
			if len(r) == 1 {
				x.Stmt = r[0]
			}
			out = append(out, st)
		default:
			out = append(out, st)
		}
	}
	return out
}

// c08Skel renders the body of `name` with the walker of c01.go.
func c08Skel(c *Ctx, p *Pkg, where, name string, ignoreVars, dropNames []string) (*ast.FuncDecl, []string) {
	fd := p.Func(name)
	if fd == nil || fd.Body == nil {
		c.Refuse("%s: %s not found", where, name)
	}
	drop := map[string]bool{}
	for _, n := range dropNames {
		drop[n] = true
	}
	fd.Body.List = c08Filter(fd.Body.List, drop)
	w := &c01Walker{c: c, p: p, fn: where + " " + name, ignoreVars: map[string]bool{}, litSkip: map[string]bool{"creator": true, "parent": true}}
	for _, v := range ignoreVars {
		w.ignoreVars[v] = true
	}
	w.block(fd.Body)
	for i, l := range w.lines {
		w.lines[i] = c08ErrorfRe.ReplaceAllString(l, "fmt.Errorf(…)")
	}
	return fd, w.lines
}

// ---------------------------------------------------------------------------------------------------------------
// helpers of the derived facts

type c08Facts struct {
	c       *Ctx
	derived [][3]string
}

func (f *c08Facts) d(fn, key, val string) { f.derived = append(f.derived, [3]string{fn, key, val}) }

// c08Loops: the chain of for/range statements enclosing pos inside fd, outermost first.
func c08Loops(fd *ast.FuncDecl, pos token.Pos) []ast.Stmt {
	var chain []ast.Stmt
	ast.Inspect(fd.Body, func(n ast.Node) bool {
		if n == nil {
			return false
		}
		if !(n.Pos() <= pos && pos < n.End()) {
			return false
		}
		switch n.(type) {
		case *ast.ForStmt, *ast.RangeStmt:
			chain = append(chain, n.(ast.Stmt))
		}
		return true
	})
	return chain
}

// c08SegmentLoop: the first `for i := range o.snapshot.segment` of fd whose body satisfies pred (nil = any).
func c08SegmentLoops(p *Pkg, fd *ast.FuncDecl) []*ast.RangeStmt {
	var out []*ast.RangeStmt
	ast.Inspect(fd.Body, func(n ast.Node) bool {
		if rs, ok := n.(*ast.RangeStmt); ok && c01Norm(p.Src(rs.X)) == "o.snapshot.segment" {
			out = append(out, rs)
		}
		return true
	})
	return out
}

// c08DeclPos: where `name` is declared in fd (var statement or :=), token.NoPos if nowhere.
func c08DeclPos(fd *ast.FuncDecl, name string) token.Pos {
	pos := token.NoPos
	ast.Inspect(fd.Body, func(n ast.Node) bool {
		switch x := n.(type) {
		case *ast.ValueSpec:
			for _, id := range x.Names {
				if id.Name == name && pos == token.NoPos {
					pos = id.Pos()
				}
			}
		case *ast.AssignStmt:
			if x.Tok == token.DEFINE {
				for _, l := range x.Lhs {
					if id, ok := l.(*ast.Ident); ok && id.Name == name && pos == token.NoPos {
						pos = id.Pos()
					}
				}
			}
		}
		return true
	})
	return pos
}

// c08Scope classifies where a variable of a Finish method lives relative to the per-segment loop `seg`:
// "per-segment" (declared in the body of the segment loop, outside any inner loop), "per-term" (inside an inner loop),
// or "per-call" (outside the segment loop; then the plain assignments to it that stand at the top level of the segment
// loop's body BEFORE the first inner loop are listed: they are its resets).
func c08Scope(p *Pkg, fd *ast.FuncDecl, seg *ast.RangeStmt, name string) string {
	pos := c08DeclPos(fd, name)
	if pos == token.NoPos {
		return "not declared"
	}
	chain := c08Loops(fd, pos)
	inSeg := false
	depthAfter := 0
	for _, l := range chain {
		if l == ast.Stmt(seg) {
			inSeg = true
			continue
		}
		if inSeg {
			depthAfter++
		}
	}
	switch {
	case inSeg && depthAfter == 0:
		// before the first inner loop?
		for _, st := range seg.Body.List {
			switch st.(type) {
			case *ast.ForStmt, *ast.RangeStmt:
				if st.Pos() < pos {
					return "per-segment (declared after an inner loop)"
				}
			}
		}
		return "per-segment"
	case inSeg:
		return "per-term"
	}
	var resets []string
	for _, st := range seg.Body.List {
		if _, ok := st.(*ast.RangeStmt); ok {
			break
		}
		if _, ok := st.(*ast.ForStmt); ok {
			break
		}
		if as, ok := st.(*ast.AssignStmt); ok && as.Tok == token.ASSIGN {
			for _, l := range as.Lhs {
				if id, ok := l.(*ast.Ident); ok && id.Name == name {
					resets = append(resets, c01Norm(p.Src(as)))
				}
			}
		}
	}
	if len(resets) == 0 {
		return "per-call, never reset in the segment loop"
	}
	return "per-call, reset at the top of the segment loop by " + strings.Join(resets, "; ")
}

// c08Fresh classifies an expression that yields a bitmap: is the value a bitmap nobody else holds?
func c08Fresh(p *Pkg, file *ast.File, fd *ast.FuncDecl, e ast.Expr) string {
	ce, ok := e.(*ast.CallExpr)
	if !ok {
		return "SHARED " + c01Norm(p.Src(e))
	}
	se, ok := ce.Fun.(*ast.SelectorExpr)
	if !ok {
		return "UNKNOWN " + c01Norm(p.Src(e))
	}
	var args []string
	for _, a := range ce.Args {
		s := c01Norm(p.Src(a))
		if ce.Ellipsis != token.NoPos && a == ce.Args[len(ce.Args)-1] {
			s += "..."
		}
		args = append(args, s)
	}
	if id, ok := se.X.(*ast.Ident); ok {
		rn := c01ImportName(file, "roaring")
		if rn != "" && id.Name == rn && !c01DeclaredIn(fd, rn) {
			switch se.Sel.Name {
			case "And", "Or", "HeapOr", "FastOr", "ParOr", "AndNot", "Xor", "New", "NewBitmap":
				return "fresh: package function roaring." + se.Sel.Name + "(" + strings.Join(args, ", ") + ")"
			}
			return "UNKNOWN package function roaring." + se.Sel.Name
		}
	}
	if se.Sel.Name == "Clone" && len(ce.Args) == 0 {
		return "fresh: " + c01Norm(p.Src(se.X)) + ".Clone()"
	}
	return "UNKNOWN " + c01Norm(p.Src(e))
}

// c08InPlace lists the in-place roaring calls `<recv>.<Mutator>(args)` inside n, in source order.
func c08InPlace(p *Pkg, n ast.Node) []string {
	type it struct {
		pos token.Pos
		s   string
	}
	var items []it
	ast.Inspect(n, func(m ast.Node) bool {
		es, ok := m.(*ast.ExprStmt)
		if !ok {
			return true
		}
		ce, ok := es.X.(*ast.CallExpr)
		if !ok {
			return true
		}
		se, ok := ce.Fun.(*ast.SelectorExpr)
		if !ok || !c01Mutators[se.Sel.Name] {
			return true
		}
		items = append(items, it{es.Pos(), c01Norm(p.Src(ce))})
		return true
	})
	sort.Slice(items, func(i, j int) bool { return items[i].pos < items[j].pos })
	var out []string
	for _, x := range items {
		out = append(out, x.s)
	}
	return out
}

// c08Assigns lists, in source order, `lhs <tok> rhs` of the assignments inside n whose (single) left side satisfies pred.
func c08Assigns(p *Pkg, n ast.Node, pred func(lhs string) bool) [][2]string {
	type it struct {
		pos token.Pos
		l   string
		r   string
	}
	var items []it
	ast.Inspect(n, func(m ast.Node) bool {
		as, ok := m.(*ast.AssignStmt)
		if !ok || len(as.Lhs) != 1 || len(as.Rhs) != 1 {
			return true
		}
		l := c01Norm(p.Src(as.Lhs[0]))
		if pred(l) {
			items = append(items, it{as.Pos(), l, c01Norm(p.Src(as.Rhs[0]))})
		}
		return true
	})
	sort.Slice(items, func(i, j int) bool { return items[i].pos < items[j].pos })
	var out [][2]string
	for _, x := range items {
		out = append(out, [2]string{x.l, x.r})
	}
	return out
}

func c08FileOf(c *Ctx, p *Pkg, fd *ast.FuncDecl) *ast.File {
	f := c01FileOf(p, fd)
	if f == nil {
		c.Refuse("no file holds %s", fd.Name.Name)
	}
	return f
}

// c08Methods: the sorted method names declared on type `recv` in package p.
func c08Methods(p *Pkg, recv string) []string {
	var out []string
	for _, f := range p.Files {
		for _, d := range f.Decls {
			fd, ok := d.(*ast.FuncDecl)
			if !ok || fd.Recv == nil || len(fd.Recv.List) != 1 {
				continue
			}
			t := fd.Recv.List[0].Type
			if s, ok := t.(*ast.StarExpr); ok {
				t = s.X
			}
			if id, ok := t.(*ast.Ident); ok && id.Name == recv {
				out = append(out, fd.Name.Name)
			}
		}
	}
	sort.Strings(out)
	return out
}

// c08SingleReturn: the source of the results of a body that is exactly one `return …`.
func c08SingleReturn(c *Ctx, p *Pkg, name string) string {
	fd := p.Func(name)
	if fd == nil || fd.Body == nil {
		c.Refuse("%s not found", name)
	}
	if len(fd.Body.List) != 1 {
		return "NOT A SINGLE RETURN: " + c01Norm(p.Src(fd.Body))
	}
	rs, ok := fd.Body.List[0].(*ast.ReturnStmt)
	if !ok {
		return "NOT A SINGLE RETURN: " + c01Norm(p.Src(fd.Body))
	}
	var rr []string
	for _, r := range rs.Results {
		rr = append(rr, c01Norm(p.Src(r)))
	}
	return strings.Join(rr, ", ")
}

func c08Const(c *Ctx, p *Pkg, name string) string {
	for _, f := range p.Files {
		for _, d := range f.Decls {
			gd, ok := d.(*ast.GenDecl)
			if !ok || (gd.Tok != token.CONST && gd.Tok != token.VAR) {
				continue
			}
			for _, sp := range gd.Specs {
				vs := sp.(*ast.ValueSpec)
				for i, id := range vs.Names {
					if id.Name == name && i < len(vs.Values) {
						return c01Norm(p.Src(vs.Values[i]))
					}
				}
			}
		}
	}
	c.Refuse("constant %s not found", name)
	return ""
}

// c08Conjuncts flattens a chain of && into its operands.
func c08Conjuncts(p *Pkg, e ast.Expr) []string {
	if pe, ok := e.(*ast.ParenExpr); ok {
		return c08Conjuncts(p, pe.X)
	}
	if b, ok := e.(*ast.BinaryExpr); ok && b.Op == token.LAND {
		return append(c08Conjuncts(p, b.X), c08Conjuncts(p, b.Y)...)
	}
	return []string{c01Norm(p.Src(e))}
}

// c08CallsKind: the `if` statements of fd, in source order, whose body calls optimizeCompositeSearcher("<kind>", …).
func c08RewriteAttempts(p *Pkg, fd *ast.FuncDecl) [][2]string {
	var out [][2]string
	for _, st := range fd.Body.List {
		is, ok := st.(*ast.IfStmt)
		if !ok {
			continue
		}
		kind := ""
		ast.Inspect(is.Body, func(n ast.Node) bool {
			ce, ok := n.(*ast.CallExpr)
			if !ok || len(ce.Args) == 0 {
				return true
			}
			if id, ok := ce.Fun.(*ast.Ident); ok && id.Name == "optimizeCompositeSearcher" {
				if bl, ok := ce.Args[0].(*ast.BasicLit); ok && kind == "" {
					kind = strings.Trim(bl.Value, "\"")
				}
			}
			return true
		})
		if kind != "" {
			out = append(out, [2]string{kind, strings.Join(c08Conjuncts(p, is.Cond), " && ")})
		}
	}
	return out
}

// ---------------------------------------------------------------------------------------------------------------

func c08LeanList(name, doc string, xs []string) string {
	var b strings.Builder
	fmt.Fprintf(&b, "/-- %s -/\ndef %s : List String := [\n", doc, name)
	for i, x := range xs {
		sep := ","
		if i == len(xs)-1 {
			sep = ""
		}
		fmt.Fprintf(&b, "  %s%s\n", LeanStr(x), sep)
	}
	b.WriteString("]\n\n")
	return b.String()
}

func genC08(c *Ctx) {
	idx := c.ParseDir("index")
	sp := c.ParseDir("search/searcher")
	root := c.ParseDir("")
	f := &c08Facts{c: c}
	var out strings.Builder
	out.WriteString("/-! GENERATED by /verif/go/extract (c08.go) from index/{optimize,unadorned,empty,writer_offline,snapshot,writer}.go,\nsearch/searcher/{search_conjunction,search_disjunction}.go, writer_offline.go and reader.go of the repository under check.\nDo not edit: `./check C08` rewrites this file from the working tree on every run. -/\nnamespace BlugeGen.C08\n\n")
	nstm := 0
	skel := func(p *Pkg, where, fn, lean, doc string, ignore, drop []string) *ast.FuncDecl {
		fd, lines := c08Skel(c, p, where, fn, ignore, drop)
		out.WriteString(c08LeanList(lean, doc, lines))
		nstm += len(lines)
		return fd
	}

	// ------------------------------------------------------------------------------------------- index/optimize.go
	opt := skel(idx, "index", "postingsIterator.Optimize", "optimizeDispatch", "`postingsIterator.Optimize` (index/optimize.go)", nil, nil)
	pd := skel(idx, "index", "optimizeConjunction.Finish", "pushdownFinish", "`optimizeConjunction.Finish` (the conjunction push-down)", nil, nil)
	cu := skel(idx, "index", "optimizeConjunctionUnadorned.Finish", "conjUnadornedFinish", "`optimizeConjunctionUnadorned.Finish`", nil, nil)
	du := skel(idx, "index", "optimizeDisjunctionUnadorned.Finish", "disjUnadornedFinish", "`optimizeDisjunctionUnadorned.Finish` (the cardinality pre-pass only feeds the unused `cMax`: its `!ok` exit is kept)", nil, nil)
	for _, t := range []string{"optimizeConjunction", "optimizeConjunctionUnadorned", "optimizeDisjunctionUnadorned"} {
		skel(idx, "index", "postingsIterator."+t, t+"Collect", "`postingsIterator."+t+"` (collects the term field readers of one snapshot)", nil, nil)
	}

	// dispatch: `if <cfg switch> && kind == "<lit>" { return i.<method>(octx) }`
	{
		var rows []string
		for _, st := range opt.Body.List {
			is, ok := st.(*ast.IfStmt)
			if !ok {
				continue
			}
			cj := c08Conjuncts(idx, is.Cond)
			ret := "?"
			if len(is.Body.List) == 1 {
				if rs, ok := is.Body.List[0].(*ast.ReturnStmt); ok && len(rs.Results) == 1 {
					ret = c01Norm(idx.Src(rs.Results[0]))
				}
			}
			rows = append(rows, strings.Join(cj, " && ")+" -> "+ret)
		}
		last := "?"
		if n := len(opt.Body.List); n > 0 {
			if rs, ok := opt.Body.List[n-1].(*ast.ReturnStmt); ok {
				last = c01Norm(idx.Src(rs))
			}
		}
		f.d("Optimize", "dispatch", strings.Join(rows, " | "))
		f.d("Optimize", "otherwise", last)
	}

	// the unadorned conjunction
	{
		file := c08FileOf(c, idx, cu)
		segs := c08SegmentLoops(idx, cu)
		if len(segs) != 1 {
			c.Refuse("optimizeConjunctionUnadorned.Finish: expected ONE loop over o.snapshot.segment, found %d", len(segs))
		}
		seg := segs[0]
		key := "_"
		if seg.Key != nil {
			key = idx.Src(seg.Key)
		}
		f.d("conjUnadorned", "segment loop", "for "+key+" := range o.snapshot.segment")
		for _, v := range []string{"docNum1HitLast", "docNum1HitLastOk"} {
			f.d("conjUnadorned", "1-hit state "+v, c08Scope(idx, cu, seg, v))
		}
		f.d("conjUnadorned", "collected bitmaps actualBMs", c08Scope(idx, cu, seg, "actualBMs"))
		var inner []string
		for _, st := range seg.Body.List {
			if rs, ok := st.(*ast.RangeStmt); ok {
				inner = append(inner, "range "+c01Norm(idx.Src(rs.X)))
			}
			if _, ok := st.(*ast.ForStmt); ok {
				inner = append(inner, "for")
			}
		}
		f.d("conjUnadorned", "loops of the segment loop's body", strings.Join(inner, "; "))
		bms := c08Assigns(idx, seg, func(l string) bool { return l == "bm" })
		if len(bms) == 0 {
			c.Refuse("optimizeConjunctionUnadorned.Finish: no assignment to `bm` in the segment loop")
		}
		var bs []string
		for _, a := range bms {
			bs = append(bs, c08Fresh(idx, file, cu, c08ExprOfAssign(cu, a[0], a[1], idx)))
		}
		f.d("conjUnadorned", "combined bitmap bm", strings.Join(bs, " | "))
		f.d("conjUnadorned", "in-place bitmap calls", strings.Join(c08InPlace(idx, cu), " | "))
		var ins []string
		for _, a := range c08Assigns(idx, cu, func(l string) bool { return strings.HasPrefix(l, "oTFR.iterators[") }) {
			ins = append(ins, a[0]+" = "+a[1])
		}
		f.d("conjUnadorned", "installs", strings.Join(ins, " | "))
		for _, a := range c08Assigns(idx, cu, func(l string) bool { return l == "oTFR" }) {
			f.d("conjUnadorned", "oTFR", strings.SplitN(a[1], "(", 2)[0])
		}
	}

	// the unadorned disjunction
	{
		file := c08FileOf(c, idx, du)
		segs := c08SegmentLoops(idx, du)
		if len(segs) != 2 {
			c.Refuse("optimizeDisjunctionUnadorned.Finish: expected TWO loops over o.snapshot.segment (pre-pass, build), found %d", len(segs))
		}
		seg := segs[1]
		for _, v := range []string{"docNums", "actualBMs"} {
			f.d("disjUnadorned", "collected "+v, c08Scope(idx, du, seg, v))
		}
		f.d("disjUnadorned", "bm", c08Scope(idx, du, seg, "bm"))
		var bs []string
		for _, a := range c08Assigns(idx, seg, func(l string) bool { return l == "bm" }) {
			bs = append(bs, c08Fresh(idx, file, du, c08ExprOfAssign(du, a[0], a[1], idx)))
		}
		f.d("disjUnadorned", "combined bitmap bm", strings.Join(bs, " | "))
		f.d("disjUnadorned", "preferHeapOr", c08Const(c, idx, "preferHeapOr"))
		f.d("disjUnadorned", "in-place bitmap calls", strings.Join(c08InPlace(idx, du), " | "))
		var ins []string
		for _, a := range c08Assigns(idx, du, func(l string) bool { return strings.HasPrefix(l, "oTFR.iterators[") }) {
			ins = append(ins, a[0]+" = "+a[1])
		}
		f.d("disjUnadorned", "installs", strings.Join(ins, " | "))
		for _, a := range c08Assigns(idx, du, func(l string) bool { return l == "oTFR" }) {
			f.d("disjUnadorned", "oTFR", strings.SplitN(a[1], "(", 2)[0])
		}
	}

	// the push-down
	{
		file := c08FileOf(c, idx, pd)
		segs := c08SegmentLoops(idx, pd)
		if len(segs) != 1 {
			c.Refuse("optimizeConjunction.Finish: expected ONE loop over o.snapshot.segment, found %d", len(segs))
		}
		var bs []string
		for _, a := range c08Assigns(idx, segs[0], func(l string) bool { return l == "bm" }) {
			bs = append(bs, c08Fresh(idx, file, pd, c08ExprOfAssign(pd, a[0], a[1], idx)))
		}
		f.d("pushdown", "combined bitmap bm", strings.Join(bs, " | "))
		f.d("pushdown", "bm", c08Scope(idx, pd, segs[0], "bm"))
		f.d("pushdown", "in-place bitmap calls", strings.Join(c08InPlace(idx, pd), " | "))
	}

	// ------------------------------------------------------------------------------------------- index/unadorned.go, empty.go
	for _, m := range [][3]string{
		{"newUnadornedPostingsIteratorFromBitmap", "newFromBitmap", "`newUnadornedPostingsIteratorFromBitmap`"},
		{"newUnadornedPostingsIteratorFrom1Hit", "newFrom1Hit", "`newUnadornedPostingsIteratorFrom1Hit`"},
		{"unadornedPostingsIteratorBitmap.nextDocNumAtOrAfter", "bitmapNextDocNumAtOrAfter", "`unadornedPostingsIteratorBitmap.nextDocNumAtOrAfter` (local numbers: the offset is added by `postingsIterator`)"},
		{"unadornedPostingsIterator1Hit.nextDocNumAtOrAfter", "oneHitNextDocNumAtOrAfter", "`unadornedPostingsIterator1Hit.nextDocNumAtOrAfter`"},
		{"unadornedPostingsIteratorBitmap.ReplaceActual", "bitmapReplaceActual", "`unadornedPostingsIteratorBitmap.ReplaceActual`"},
		{"Snapshot.unadornedPostingsIterator", "snapshotUnadornedPostingsIterator", "`Snapshot.unadornedPostingsIterator`: the multi-segment iterator the installed per-segment iterators live in"},
	} {
		skel(idx, "index", m[0], m[1], m[2], nil, nil)
	}
	f.d("unadorned", "methods of unadornedPostingsIteratorBitmap", strings.Join(c08Methods(idx, "unadornedPostingsIteratorBitmap"), ","))
	f.d("unadorned", "methods of unadornedPostingsIterator1Hit", strings.Join(c08Methods(idx, "unadornedPostingsIterator1Hit"), ","))
	f.d("unadorned", "methods of emptyPostingsIterator", strings.Join(c08Methods(idx, "emptyPostingsIterator"), ","))
	f.d("unadorned", "unadornedPostingsIteratorBitmap.Empty", c08SingleReturn(c, idx, "unadornedPostingsIteratorBitmap.Empty"))
	f.d("unadorned", "unadornedPostingsIterator1Hit.Empty", c08SingleReturn(c, idx, "unadornedPostingsIterator1Hit.Empty"))
	f.d("unadorned", "emptyPostingsIterator.Empty", c08SingleReturn(c, idx, "emptyPostingsIterator.Empty"))
	f.d("unadorned", "unadornedPostingsIteratorBitmap.DocNum1Hit", c08SingleReturn(c, idx, "unadornedPostingsIteratorBitmap.DocNum1Hit"))
	f.d("unadorned", "unadornedPostingsIteratorBitmap.ActualBitmap", c08SingleReturn(c, idx, "unadornedPostingsIteratorBitmap.ActualBitmap"))
	f.d("unadorned", "anEmptyPostingsIterator", c08Const(c, idx, "anEmptyPostingsIterator"))
	// the global number of a posting
	{
		n := 0
		for _, fn := range []string{"postingsIterator.Next", "postingsIterator.Advance"} {
			fd := idx.Func(fn)
			if fd == nil {
				c.Refuse("index: %s not found", fn)
			}
			for _, a := range c08Assigns(idx, fd, func(l string) bool { return l == "rvNumber" }) {
				f.d("offsets", fn+" rvNumber", a[1])
				n++
			}
		}
		if n == 0 {
			c.Refuse("postingsIterator.Next/Advance: no assignment to rvNumber")
		}
		ls := idx.Func("Writer.loadSnapshot")
		if ls == nil {
			c.Refuse("index: Writer.loadSnapshot not found")
		}
		var st []string
		ast.Inspect(ls.Body, func(m ast.Node) bool {
			switch x := m.(type) {
			case *ast.AssignStmt:
				s := c01Norm(idx.Src(x))
				if strings.Contains(s, "offsets") || strings.HasPrefix(s, "running ") {
					st = append(st, s)
				}
			}
			return true
		})
		f.d("offsets", "Writer.loadSnapshot", strings.Join(st, " | "))
	}

	// ------------------------------------------------------------------------------------------- search/searcher
	nc := skel(sp, "search/searcher", "NewConjunctionSearcher", "newConjunctionSearcher", "`NewConjunctionSearcher`", nil, nil)
	nd := skel(sp, "search/searcher", "newDisjunctionSearcher", "newDisjunctionSearcher", "`newDisjunctionSearcher`", nil, nil)
	skel(sp, "search/searcher", "optimizeCompositeSearcher", "optimizeCompositeSearcher", "`optimizeCompositeSearcher`", nil, nil)
	skel(sp, "search/searcher", "optionsDisjunctionOptimizable", "optionsDisjunctionOptimizable", "`optionsDisjunctionOptimizable`", nil, nil)
	{
		var rows []string
		for _, a := range c08RewriteAttempts(sp, nc) {
			rows = append(rows, a[0]+" when "+a[1])
		}
		f.d("NewConjunctionSearcher", "rewrites attempted, in order", strings.Join(rows, " | "))
		rows = nil
		for _, a := range c08RewriteAttempts(sp, nd) {
			rows = append(rows, a[0]+" when "+a[1])
		}
		f.d("newDisjunctionSearcher", "rewrites attempted, in order", strings.Join(rows, " | "))
		f.d("searcher", "optionScoringNone", c08Const(c, sp, "optionScoringNone"))
		// the minSearcher wrap
		wrapGuard, wrapExpr := "none", "none"
		ast.Inspect(nd.Body, func(n ast.Node) bool {
			is, ok := n.(*ast.IfStmt)
			if !ok {
				return true
			}
			for _, st := range is.Body.List {
				as, ok := st.(*ast.AssignStmt)
				if !ok || len(as.Rhs) != 1 {
					continue
				}
				if strings.Contains(sp.Src(as.Rhs[0]), "minSearcher{") {
					wrapGuard = strings.Join(c08Conjuncts(sp, is.Cond), " && ")
					wrapExpr = c01Norm(sp.Src(as))
				}
			}
			return true
		})
		f.d("newDisjunctionSearcher", "minSearcher wrap", wrapExpr+" when "+wrapGuard)
		f.d("minSearcher", "Min", c08SingleReturn(c, sp, "minSearcher.Min"))
		f.d("minSearcher", "methods", strings.Join(c08Methods(sp, "minSearcher"), ","))
		// the struct: embeds search.Searcher
		fields := "?"
		for _, fl := range sp.Files {
			for _, d := range fl.Decls {
				gd, ok := d.(*ast.GenDecl)
				if !ok || gd.Tok != token.TYPE {
					continue
				}
				for _, s := range gd.Specs {
					ts := s.(*ast.TypeSpec)
					if st, ok := ts.Type.(*ast.StructType); ok && ts.Name.Name == "minSearcher" {
						var fs []string
						for _, fd := range st.Fields.List {
							if len(fd.Names) == 0 {
								fs = append(fs, "embedded "+c01Norm(sp.Src(fd.Type)))
							}
							for _, n := range fd.Names {
								fs = append(fs, n.Name+" "+c01Norm(sp.Src(fd.Type)))
							}
						}
						fields = strings.Join(fs, "; ")
					}
				}
			}
		}
		f.d("minSearcher", "fields", fields)
	}

	// ------------------------------------------------------------------------------------------- the offline writer
	ins := skel(root, "bluge", "OfflineWriter.Insert", "offlineInsert", "`OfflineWriter.Insert` (writer_offline.go)", nil, nil)
	skel(root, "bluge", "OfflineWriter.Close", "offlineClose", "`OfflineWriter.Close` (writer_offline.go)", nil, nil)
	skel(idx, "index", "WriterOffline.Batch", "writerOfflineBatch", "`WriterOffline.Batch` (index/writer_offline.go)", nil, nil)
	dm := skel(idx, "index", "WriterOffline.doMerge", "writerOfflineDoMerge",
		"`WriterOffline.doMerge` without the bookkeeping of the opened segment files (`closers`, `closeOpenedSegs`)", nil, []string{"closers", "closeOpenedSegs"})
	skel(idx, "index", "WriterOffline.Close", "writerOfflineClose", "`WriterOffline.Close`", nil, nil)
	{
		// the flush test
		flush := "?"
		for _, st := range ins.Body.List {
			if is, ok := st.(*ast.IfStmt); ok {
				if be, ok := is.Cond.(*ast.BinaryExpr); ok {
					flush = c01Norm(root.Src(be.X)) + " " + be.Op.String() + " " + c01Norm(root.Src(be.Y))
				}
			}
		}
		f.d("OfflineWriter.Insert", "flush when", flush)
		// mergeMax
		ow := idx.Func("OpenOfflineWriter")
		if ow == nil {
			c.Refuse("index: OpenOfflineWriter not found")
		}
		mm := "?"
		ast.Inspect(ow.Body, func(n ast.Node) bool {
			if kv, ok := n.(*ast.KeyValueExpr); ok {
				if k, ok := kv.Key.(*ast.Ident); ok && k.Name == "mergeMax" {
					mm = c01Norm(idx.Src(kv.Value))
				}
			}
			return true
		})
		f.d("OpenOfflineWriter", "mergeMax", mm)
		var writes []string
		for _, fl := range append(append([]*ast.File{}, c08Files(idx)...), c08Files(root)...) {
			ast.Inspect(fl, func(n ast.Node) bool {
				if as, ok := n.(*ast.AssignStmt); ok {
					for _, l := range as.Lhs {
						if se, ok := l.(*ast.SelectorExpr); ok && se.Sel.Name == "mergeMax" {
							writes = append(writes, c01Norm(idx.Src(as)))
						}
					}
				}
				return true
			})
		}
		sort.Strings(writes)
		f.d("OpenOfflineWriter", "other writes of mergeMax", strings.Join(writes, " | "))
		// doMerge: the queue
		var loop *ast.ForStmt
		for _, st := range dm.Body.List {
			if fs, ok := st.(*ast.ForStmt); ok && loop == nil {
				loop = fs
			}
		}
		if loop == nil || loop.Cond == nil {
			c.Refuse("WriterOffline.doMerge: the `for len(s.segIDs) > 1` loop was not found")
		}
		f.d("doMerge", "while", c01Norm(idx.Src(loop.Cond)))
		var q []string
		for _, a := range c08Assigns(idx, loop, func(l string) bool {
			return l == "s.segIDs" || l == "mergeIDs" || l == "mergeCount" || l == "drops"
		}) {
			q = append(q, a[0]+" <- "+a[1])
		}
		f.d("doMerge", "queue", strings.Join(q, " | "))
	}

	// ------------------------------------------------------------------------------------------- Backup, OpenReader
	bk := skel(idx, "index", "Snapshot.Backup", "snapshotBackup", "`Snapshot.Backup` (index/snapshot.go)", nil, nil)
	skel(root, "bluge", "Reader.Backup", "readerBackup", "`Reader.Backup` (reader.go)", nil, nil)
	skel(idx, "index", "OpenReader", "openReader", "`index.OpenReader` (log lines left out)", nil, nil)
	{
		// order of the Persist calls of Backup, with the loop they stand in
		type it struct {
			pos token.Pos
			s   string
		}
		var items []it
		ast.Inspect(bk.Body, func(n ast.Node) bool {
			ce, ok := n.(*ast.CallExpr)
			if !ok {
				return true
			}
			se, ok := ce.Fun.(*ast.SelectorExpr)
			if !ok || se.Sel.Name != "Persist" || len(ce.Args) < 1 {
				return true
			}
			where := "once"
			if ch := c08Loops(bk, ce.Pos()); len(ch) > 0 {
				if rs, ok := ch[len(ch)-1].(*ast.RangeStmt); ok {
					where = "for each of " + c01Norm(idx.Src(rs.X))
				} else {
					where = "in a loop"
				}
			}
			items = append(items, it{ce.Pos(), c01Norm(idx.Src(ce.Args[0])) + " " + where})
			return true
		})
		sort.Slice(items, func(i, j int) bool { return items[i].pos < items[j].pos })
		var ss []string
		for _, x := range items {
			ss = append(ss, x.s)
		}
		f.d("Backup", "persists, in order", strings.Join(ss, " | "))
	}

	// ------------------------------------------------------------------------------------------- write
	out.WriteString("/-- classified facts (function, key, value) -/\ndef derived : List (String × String × String) := [\n")
	for i, d := range f.derived {
		sep := ","
		if i == len(f.derived)-1 {
			sep = ""
		}
		fmt.Fprintf(&out, "  (%s, %s, %s)%s\n", LeanStr(d[0]), LeanStr(d[1]), LeanStr(d[2]), sep)
	}
	out.WriteString("]\n\nend BlugeGen.C08\n")
	c.WriteLean("C08", out.String())
	c.Summary["statements"] = nstm
	c.Summary["derived"] = len(f.derived)

	// BlugeProofs.C08.ViaC07 imports BlugeProofs.C07, which imports ITS regenerated layer: bring it up to date for this tree
	c7 := &Ctx{Repo: c.Repo, Out: c.Out, Prop: "C07", Summary: map[string]interface{}{}}
	genC07(c7)
}

func c08Files(p *Pkg) []*ast.File {
	var names []string
	for n := range p.Files {
		names = append(names, n)
	}
	sort.Strings(names)
	var out []*ast.File
	for _, n := range names {
		out = append(out, p.Files[n])
	}
	return out
}

// c08ExprOfAssign finds the right-hand side EXPRESSION of the assignment `lhs … rhs` (by its rendered text) inside fd.
func c08ExprOfAssign(fd *ast.FuncDecl, lhs, rhs string, p *Pkg) ast.Expr {
	var e ast.Expr
	ast.Inspect(fd.Body, func(n ast.Node) bool {
		as, ok := n.(*ast.AssignStmt)
		if !ok || len(as.Lhs) != 1 || len(as.Rhs) != 1 || e != nil {
			return true
		}
		if c01Norm(p.Src(as.Lhs[0])) == lhs && c01Norm(p.Src(as.Rhs[0])) == rhs {
			e = as.Rhs[0]
		}
		return true
	})
	return e
}

package main

// A small translator from a restricted subset of Go (integer / byte-slice kernels: straight-line
// code, if/else, for loops with break, range-over-slice, indexing, append, multiple results,
// error results, panics) to Lean 4 definitions over BitVec. It REFUSES anything outside the subset.
//
// Go int64/uint64/int/uint  -> BitVec 64 (wrap-around; signedness decides slt/ult, sshiftRight/>>>)
// byte/uint8                -> BitVec 8        bool -> Bool       float64 -> BitVec 64 (bit pattern)
// []byte and named []byte   -> List (BitVec 8) []T  -> List T     struct  -> generated structure
// error                     -> Bool (true = non-nil) as a local; an error RESULT makes the function
//                              monadic: Bluge.Go.Res (ok | err | crash)
// loops                     -> an auxiliary def by structural recursion on explicit fuel (a Nat; the
//                              fuel expression per function comes from the caller's table) or on the
//                              list for `range`; fuel exhaustion = Res.crash
//
// A function is emitted as a pure def when it has no loop, indexing, slicing, panic, error result
// or call to a monadic function; otherwise it returns Res.

import (
	"fmt"
	"go/ast"
	"go/constant"
	"go/importer"
	"go/token"
	"go/types"
	"sort"
	"strings"
)

type lty struct {
	lean   string // Lean type
	width  int    // 8 / 64 for ints, 0 otherwise
	signed bool
	kind   string // int, bool, float, list, struct, error, other
	elem   *lty
	zero   string
	str    bool // a Go string (rendered as its UTF-8 bytes)
}

type fnSig struct {
	lean    string
	monadic bool
	results []*lty // without a trailing error
	hasErr  bool
	params  []*lty
	extra   string       // extra leading arguments at every call (" uc": the unicode tables)
	mutates map[int]bool // parameter positions whose backing array the function writes (trans_runes.go)
}

type Translator struct {
	c       *Ctx
	pkg     *Pkg
	info    *types.Info
	sigs    map[string]*fnSig // Go name ("F" or "T.M", optionally "pkg.F") -> signature
	structs map[string][]string
	fuel    map[string]string // Go func name -> Lean Nat expression for loop fuel
	out     []string
	cur     *fnCtx
	globals map[string]*ast.CompositeLit
	emitted map[string]bool // package-level literals emitted as Lean defs (trans_runes.go)
	runeSubset bool         // set by c18s.go
	gprefix    string       // prefix of the Lean names of package-level literals
}

type fnCtx struct {
	name    string
	monadic bool
	sig     *fnSig
	results []*ast.Field
	named   []string
	loopN   int
	aux     []string
	tmpN    int
	opt     FuncOpt
}

type fakeImporter struct{ std types.Importer }

func (f fakeImporter) Import(path string) (*types.Package, error) {
	if !strings.Contains(path, ".") { // standard library
		if p, err := f.std.Import(path); err == nil {
			return p, nil
		}
	}
	name := path[strings.LastIndex(path, "/")+1:]
	p := types.NewPackage(path, name)
	p.MarkComplete()
	return p, nil
}

func NewTranslator(c *Ctx, pkg *Pkg) *Translator {
	t := &Translator{c: c, pkg: pkg, sigs: map[string]*fnSig{}, structs: map[string][]string{}, fuel: map[string]string{}, globals: map[string]*ast.CompositeLit{}}
	t.info = &types.Info{Types: map[ast.Expr]types.TypeAndValue{}, Defs: map[*ast.Ident]types.Object{}, Uses: map[*ast.Ident]types.Object{}}
	var files []*ast.File
	var names []string
	for n := range pkg.Files {
		names = append(names, n)
	}
	sort.Strings(names)
	for _, n := range names {
		files = append(files, pkg.Files[n])
	}
	conf := types.Config{Importer: fakeImporter{importer.ForCompiler(pkg.Fset, "source", nil)}, Error: func(error) {}}
	_, _ = conf.Check("p", pkg.Fset, files, t.info)
	for _, f := range files {
		for _, d := range f.Decls {
			if gd, ok := d.(*ast.GenDecl); ok && gd.Tok == token.VAR {
				for _, s := range gd.Specs {
					vs := s.(*ast.ValueSpec)
					for i, n := range vs.Names {
						if i < len(vs.Values) {
							if cl, ok := vs.Values[i].(*ast.CompositeLit); ok {
								t.globals[n.Name] = cl
							}
						}
					}
				}
			}
		}
	}
	return t
}

func (t *Translator) refuse(n ast.Node, format string, a ...interface{}) {
	pos := ""
	if n != nil {
		pos = t.pkg.Fset.Position(n.Pos()).String() + ": "
	}
	t.c.Refuse("%s%s", pos, fmt.Sprintf(format, a...))
}

func (t *Translator) ltype(ty types.Type, n ast.Node) *lty {
	if ty == nil {
		t.refuse(n, "no type information")
	}
	switch u := ty.Underlying().(type) {
	case *types.Basic:
		switch u.Kind() {
		case types.Int64, types.Int, types.UntypedInt:
			return &lty{lean: "BitVec 64", width: 64, signed: true, kind: "int", zero: "0#64"}
		case types.Uint64, types.Uint:
			return &lty{lean: "BitVec 64", width: 64, kind: "int", zero: "0#64"}
		case types.Uint8:
			return &lty{lean: "BitVec 8", width: 8, kind: "int", zero: "0#8"}
		case types.Int32, types.UntypedRune:
			return &lty{lean: "BitVec 32", width: 32, signed: true, kind: "int", zero: "0#32"}
		case types.String, types.UntypedString:
			return &lty{lean: "List (BitVec 8)", kind: "list", elem: &lty{lean: "BitVec 8", width: 8, kind: "int", zero: "0#8"}, zero: "[]", str: true}
		case types.Bool, types.UntypedBool:
			return &lty{lean: "Bool", kind: "bool", zero: "false"}
		case types.Float64, types.UntypedFloat:
			return &lty{lean: "BitVec 64", width: 64, kind: "float", zero: "0#64"}
		}
	case *types.Slice:
		e := t.ltype(u.Elem(), n)
		return &lty{lean: "List (" + e.lean + ")", kind: "list", elem: e, zero: "[]"}
	case *types.Pointer:
		return t.ltype(u.Elem(), n)
	case *types.Struct:
		if nt, ok := ty.(*types.Named); ok {
			name := nt.Obj().Name()
			if _, seen := t.structs[name]; !seen {
				var fs []string
				for i := 0; i < u.NumFields(); i++ {
					f := u.Field(i)
					fs = append(fs, fmt.Sprintf("  %s : %s", f.Name(), t.ltype(f.Type(), n).lean))
				}
				t.structs[name] = fs
			}
			return &lty{lean: name, kind: "struct", zero: "default"}
		}
	case *types.Interface:
		if ty.String() == "error" {
			return &lty{lean: "Bool", kind: "error", zero: "false"}
		}
	}
	t.refuse(n, "type %s is outside the translated subset", ty.String())
	return nil
}

func (t *Translator) supported(ty types.Type) bool {
	if ty == nil || ty == types.Typ[types.Invalid] {
		return false
	}
	switch u := ty.Underlying().(type) {
	case *types.Basic:
		switch u.Kind() {
		case types.Int64, types.Int, types.Uint64, types.Uint, types.Uint8, types.Bool, types.Float64:
			return true
		case types.Int32, types.String:
			return t.runeSubset
		}
		return false
	case *types.Slice:
		return t.supported(u.Elem())
	}
	return false
}

func (t *Translator) typeOf(e ast.Expr) *lty {
	tv, ok := t.info.Types[e]
	if !ok || tv.Type == nil || tv.Type == types.Typ[types.Invalid] {
		// calls into a package that was translated separately are typed by the callee's signature
		if c, isCall := e.(*ast.CallExpr); isCall {
			if sig, ok := t.sigs[t.calleeName(c.Fun)]; ok && len(sig.results) == 1 {
				return sig.results[0]
			}
		}
		if p, isParen := e.(*ast.ParenExpr); isParen {
			return t.typeOf(p.X)
		}
		t.refuse(e, "cannot type expression %s", t.pkg.Src(e))
	}
	return t.ltype(tv.Type, e)
}

func lit(v constant.Value, ty *lty, t *Translator, n ast.Node) string {
	if ty.kind == "bool" {
		if constant.BoolVal(v) {
			return "true"
		}
		return "false"
	}
	if ty.kind != "int" {
		t.refuse(n, "constant of kind %s", ty.kind)
	}
	iv := constant.ToInt(v)
	if iv.Kind() != constant.Int {
		t.refuse(n, "non-integer constant")
	}
	s := iv.ExactString()
	if strings.HasPrefix(s, "-") {
		return fmt.Sprintf("(BitVec.ofInt %d (%s))", ty.width, s)
	}
	return fmt.Sprintf("%s#%d", s, ty.width)
}

// ---------------------------------------------------------------- expressions

type ex struct {
	pre []string // monadic prelude lines ("let x ← …")
	s   string
}

func (t *Translator) tmp() string {
	t.cur.tmpN++
	return fmt.Sprintf("t%d_", t.cur.tmpN)
}

func (t *Translator) needMonad(n ast.Node, why string) {
	if !t.cur.monadic {
		t.refuse(n, "internal: %s in a function classified as pure", why)
	}
}

func (t *Translator) expr(e ast.Expr) ex {
	if tv, ok := t.info.Types[e]; ok && tv.Value != nil && tv.Type != nil && tv.Type != types.Typ[types.Invalid] {
		if b, ok := tv.Type.Underlying().(*types.Basic); ok && b.Info()&(types.IsInteger|types.IsBoolean) != 0 {
			return ex{s: lit(tv.Value, t.ltype(tv.Type, e), t, e)}
		}
	}
	if r, ok := t.exprRunes(e); ok {
		return r
	}
	switch x := e.(type) {
	case *ast.ParenExpr:
		r := t.expr(x.X)
		return ex{r.pre, "(" + r.s + ")"}
	case *ast.Ident:
		switch x.Name {
		case "true", "false":
			return ex{s: x.Name}
		case "nil":
			return ex{s: "[]"}
		}
		return ex{s: leanIdent(x.Name)}
	case *ast.UnaryExpr:
		a := t.expr(x.X)
		switch x.Op {
		case token.NOT:
			return ex{a.pre, "(!" + a.s + ")"}
		case token.SUB:
			return ex{a.pre, "(-" + a.s + ")"}
		case token.XOR:
			return ex{a.pre, "(~~~" + a.s + ")"}
		case token.AND:
			return a // &T{…}: pointers to immutable values are values
		}
	case *ast.BinaryExpr:
		return t.binary(x)
	case *ast.CallExpr:
		return t.call(x)
	case *ast.IndexExpr:
		if id, ok := x.X.(*ast.Ident); ok {
			if cl, ok := t.globals[id.Name]; ok { // constant index into a package-level literal
				if tv, ok := t.info.Types[x.Index]; ok && tv.Value != nil {
					i, _ := constant.Int64Val(constant.ToInt(tv.Value))
					if int(i) < len(cl.Elts) {
						return t.expr(cl.Elts[i])
					}
				}
				t.refuse(x, "non-constant index into package-level literal %s", id.Name)
			}
		}
		t.needMonad(x, "indexing")
		a, i := t.expr(x.X), t.expr(x.Index)
		v := t.tmp()
		pre := append(append(a.pre, i.pre...), fmt.Sprintf("let %s ← Go.getIdx %s %s", v, a.s, t.widen(i.s, x.Index)))
		return ex{pre, v}
	case *ast.SliceExpr:
		t.needMonad(x, "slicing")
		a := t.expr(x.X)
		pre := a.pre
		lo, hi := "0#64", "(Go.len "+a.s+")"
		if x.Low != nil {
			l := t.expr(x.Low)
			pre = append(pre, l.pre...)
			lo = t.widen(l.s, x.Low)
		}
		if x.High != nil {
			h := t.expr(x.High)
			pre = append(pre, h.pre...)
			hi = t.widen(h.s, x.High)
		}
		v := t.tmp()
		pre = append(pre, fmt.Sprintf("let %s ← Go.slice %s %s %s", v, a.s, lo, hi))
		return ex{pre, v}
	case *ast.CompositeLit:
		ty := t.typeOf(x)
		if ty.kind == "struct" {
			var pre, fs []string
			for _, el := range x.Elts {
				kv, ok := el.(*ast.KeyValueExpr)
				if !ok {
					t.refuse(x, "positional struct literal")
				}
				v := t.expr(kv.Value)
				pre = append(pre, v.pre...)
				fs = append(fs, fmt.Sprintf("%s := %s", kv.Key.(*ast.Ident).Name, v.s))
			}
			return ex{pre, "({ " + strings.Join(fs, ", ") + " } : " + ty.lean + ")"}
		}
		if ty.kind == "list" {
			var pre, es []string
			for _, el := range x.Elts {
				v := t.expr(el)
				pre = append(pre, v.pre...)
				es = append(es, v.s)
			}
			return ex{pre, "[" + strings.Join(es, ", ") + "]"}
		}
	case *ast.SelectorExpr:
		if id, ok := x.X.(*ast.Ident); ok && id.Name == "math" {
			switch x.Sel.Name {
			case "MaxInt64":
				return ex{s: "0x7fffffffffffffff#64"}
			case "MinInt64":
				return ex{s: "0x8000000000000000#64"}
			}
		}
		a := t.expr(x.X)
		return ex{a.pre, a.s + "." + x.Sel.Name}
	}
	t.refuse(e, "expression %s is outside the translated subset", t.pkg.Src(e))
	return ex{}
}

// widen an index/length expression to BitVec 64
func (t *Translator) widen(s string, e ast.Expr) string {
	ty := t.typeOf(e)
	if ty.width == 8 {
		return "(" + s + ".setWidth 64)"
	}
	if ty.width == 32 {
		return "(" + s + ".signExtend 64)"
	}
	return s
}

func leanIdent(n string) string {
	switch n {
	case "in", "at", "do", "then", "else", "from", "to", "end", "fun", "let", "have", "show", "open", "by", "with", "max", "min",
		"prefix", "infix", "infixl", "infixr", "postfix", "notation", "local", "section", "namespace", "where", "instance", "class",
		"structure", "theorem", "def", "match", "if", "Type", "Prop", "Sort", "universe", "variable", "macro", "syntax", "deriving",
		"mutual", "private", "protected", "noncomputable", "partial", "unsafe", "abbrev", "axiom", "example", "inductive", "extends",
		"using", "calc", "suffices", "obtain", "some", "none", "pure", "bind", "fuel", "rest_", "xs_", "v_":
		return n + "_"
	case "_":
		return "_"
	}
	return n
}

func (t *Translator) binary(x *ast.BinaryExpr) ex {
	a, b := t.expr(x.X), t.expr(x.Y)
	pre := append(a.pre, b.pre...)
	if x.Op == token.LAND || x.Op == token.LOR {
		if len(b.pre) > 0 {
			// the right operand has effects (may crash): evaluate it only when Go would
			t.needMonad(x, "short-circuit operand with effects")
			v := t.tmp()
			short := "false"
			cond := a.s
			if x.Op == token.LOR {
				short = "true"
			} else {
				cond = "(!" + a.s + ")"
			}
			line := fmt.Sprintf("let %s ← (if %s then pure %s else do { %s; pure %s })", v, cond, short, strings.Join(b.pre, "; "), b.s)
			return ex{append(a.pre, line), v}
		}
		op := "&&"
		if x.Op == token.LOR {
			op = "||"
		}
		return ex{pre, "(" + a.s + " " + op + " " + b.s + ")"}
	}
	lt := t.typeOf(x.X)
	switch x.Op {
	case token.EQL, token.NEQ:
		op := "=="
		if x.Op == token.NEQ {
			op = "!="
		}
		if lt.kind == "error" {
			// err != nil / err == nil
			if x.Op == token.NEQ {
				return ex{pre, a.s}
			}
			return ex{pre, "(!" + a.s + ")"}
		}
		return ex{pre, "(" + a.s + " " + op + " " + b.s + ")"}
	case token.LSS, token.GTR, token.LEQ, token.GEQ:
		if lt.kind != "int" {
			t.refuse(x, "ordering on non-integers")
		}
		l, r := a.s, b.s
		if x.Op == token.GTR || x.Op == token.GEQ {
			l, r = r, l
		}
		strict := x.Op == token.LSS || x.Op == token.GTR
		fn := map[bool]map[bool]string{true: {true: "BitVec.slt", false: "BitVec.sle"}, false: {true: "BitVec.ult", false: "BitVec.ule"}}[lt.signed][strict]
		return ex{pre, "(" + fn + " " + l + " " + r + ")"}
	case token.SHL, token.SHR:
		sh := t.widen(b.s, x.Y)
		if x.Op == token.SHL {
			return ex{pre, "(" + a.s + " <<< " + sh + ")"}
		}
		if lt.signed {
			return ex{pre, "(BitVec.sshiftRight' " + a.s + " " + sh + ")"}
		}
		return ex{pre, "(" + a.s + " >>> " + sh + ")"}
	}
	if lt.kind != "int" {
		t.refuse(x, "arithmetic on %s (kind %s) is outside the translated subset", t.pkg.Src(x.X), lt.kind)
	}
	switch x.Op {
	case token.ADD:
		return ex{pre, "(" + a.s + " + " + b.s + ")"}
	case token.SUB:
		return ex{pre, "(" + a.s + " - " + b.s + ")"}
	case token.MUL:
		return ex{pre, "(" + a.s + " * " + b.s + ")"}
	case token.AND:
		return ex{pre, "(" + a.s + " &&& " + b.s + ")"}
	case token.OR:
		return ex{pre, "(" + a.s + " ||| " + b.s + ")"}
	case token.XOR:
		return ex{pre, "(" + a.s + " ^^^ " + b.s + ")"}
	case token.AND_NOT:
		return ex{pre, "(" + a.s + " &&& ~~~" + b.s + ")"}
	case token.QUO:
		if lt.signed {
			return ex{pre, "(BitVec.sdiv " + a.s + " " + b.s + ")"}
		}
		return ex{pre, "(" + a.s + " / " + b.s + ")"}
	case token.REM:
		if lt.signed {
			return ex{pre, "(BitVec.srem " + a.s + " " + b.s + ")"}
		}
		return ex{pre, "(" + a.s + " % " + b.s + ")"}
	}
	t.refuse(x, "operator %s", x.Op)
	return ex{}
}

func (t *Translator) calleeName(f ast.Expr) string {
	switch x := f.(type) {
	case *ast.Ident:
		return x.Name
	case *ast.SelectorExpr:
		if id, ok := x.X.(*ast.Ident); ok {
			if _, isPkg := t.info.Uses[id].(*types.PkgName); isPkg {
				return id.Name + "." + x.Sel.Name
			}
		}
		return "." + x.Sel.Name // method
	}
	return ""
}

func (t *Translator) call(x *ast.CallExpr) ex {
	// conversions
	if tv, ok := t.info.Types[x.Fun]; ok && tv.IsType() && len(x.Args) == 1 {
		to := t.ltype(tv.Type, x)
		a := t.expr(x.Args[0])
		from := t.typeOf(x.Args[0])
		if to.kind == "list" && from.kind == "list" && to.elem.width == 32 && from.str {
			return ex{a.pre, "(GoStd.runes " + a.s + ")"} // []rune(s)
		}
		if to.kind == "list" && from.kind == "list" && to.elem.width != from.elem.width {
			t.refuse(x, "conversion %s", t.pkg.Src(x))
		}
		if to.kind == "list" || from.kind == "list" {
			return a
		}
		if (to.kind == "int" || to.kind == "float") && (from.kind == "int" || from.kind == "float") {
			if to.kind == "float" != (from.kind == "float") {
				t.refuse(x, "numeric float<->int conversion (only math.Float64bits/frombits are translated)")
			}
			if to.width == from.width {
				return a
			}
			if to.width < from.width || !from.signed {
				return ex{a.pre, fmt.Sprintf("(%s.setWidth %d)", a.s, to.width)}
			}
			return ex{a.pre, fmt.Sprintf("(%s.signExtend %d)", a.s, to.width)}
		}
		t.refuse(x, "conversion %s", t.pkg.Src(x))
	}
	name := t.calleeName(x.Fun)
	if r, ok := t.callRunes(name, x); ok {
		return r
	}
	var args []ex
	for i, a := range x.Args {
		if i == 0 && name == "make" {
			args = append(args, ex{})
			continue
		}
		args = append(args, t.expr(a))
	}
	var pre []string
	for _, a := range args {
		pre = append(pre, a.pre...)
	}
	arg := func(i int) string { return args[i].s }
	switch name {
	case "math.Float64bits", "math.Float64frombits":
		return ex{pre, arg(0)}
	case "math.IsInf":
		tv := t.info.Types[x.Args[1]]
		if tv.Value == nil {
			t.refuse(x, "math.IsInf with a non-constant sign")
		}
		s, _ := constant.Int64Val(constant.ToInt(tv.Value))
		switch {
		case s > 0:
			return ex{pre, "(" + arg(0) + " == 0x7ff0000000000000#64)"}
		case s < 0:
			return ex{pre, "(" + arg(0) + " == 0xfff0000000000000#64)"}
		}
		return ex{pre, "(" + arg(0) + " == 0x7ff0000000000000#64 || " + arg(0) + " == 0xfff0000000000000#64)"}
	case "len":
		return ex{pre, "(Go.len " + arg(0) + ")"}
	case "make":
		ty := t.typeOf(x)
		if len(x.Args) < 2 {
			t.refuse(x, "make without length")
		}
		if t.runeSubset { // a negative length panics (trans_runes.go, Go.makeSlice)
			t.needMonad(x, "make")
			v := t.tmp()
			pre = append(pre, fmt.Sprintf("let %s ← Go.makeSlice %s %s", v, ty.elem.zero, t.widen(arg(1), x.Args[1])))
			return ex{pre, v}
		}
		if len(x.Args) == 3 {
			return ex{pre, "(Go.make " + ty.elem.zero + " " + t.widen(arg(1), x.Args[1]) + ")"}
		}
		return ex{pre, "(Go.make " + ty.elem.zero + " " + t.widen(arg(1), x.Args[1]) + ")"}
	case "append":
		if x.Ellipsis.IsValid() {
			return ex{pre, "(" + arg(0) + " ++ " + arg(1) + ")"}
		}
		var es []string
		for i := 1; i < len(args); i++ {
			es = append(es, arg(i))
		}
		return ex{pre, "(" + arg(0) + " ++ [" + strings.Join(es, ", ") + "])"}
	}
	// user functions / methods
	var sig *fnSig
	var recv string
	if strings.HasPrefix(name, ".") {
		sel := x.Fun.(*ast.SelectorExpr)
		for k, s := range t.sigs {
			if strings.HasSuffix(k, name) {
				sig = s
			}
		}
		r := t.expr(sel.X)
		pre = append(r.pre, pre...)
		recv = r.s
	} else if s, ok := t.sigs[name]; ok {
		sig = s
	}
	if sig == nil {
		t.refuse(x, "call of %s: callee is not translated", t.pkg.Src(x.Fun))
	}
	app := sig.lean + sig.extra
	if recv != "" {
		app += " " + recv
	}
	for i := range args {
		app += " " + arg(i)
	}
	if !sig.monadic {
		return ex{pre, "(" + app + ")"}
	}
	t.needMonad(x, "call of monadic "+name)
	v := t.tmp()
	if sig.hasErr {
		// value context: only reachable through assign2 (x, err := f()); a bare use propagates err
		pre = append(pre, fmt.Sprintf("let %s ← %s", v, app))
		return ex{pre, v}
	}
	pre = append(pre, fmt.Sprintf("let %s ← %s", v, app))
	return ex{pre, v}
}

// ---------------------------------------------------------------- statements

type scope struct {
	vars []string
	ty   map[string]*lty
}

func (s *scope) clone() *scope {
	n := &scope{vars: append([]string{}, s.vars...), ty: map[string]*lty{}}
	for k, v := range s.ty {
		n.ty[k] = v
	}
	return n
}
func (s *scope) add(name string, ty *lty) {
	if name == "_" {
		return
	}
	if _, ok := s.ty[name]; !ok {
		s.vars = append(s.vars, name)
	}
	s.ty[name] = ty
}

// terminator: what "falling off the end" of a statement list means
type term struct {
	kind  string   // "ret" (function end), "yield" (tuple of vars), "loop" (post + recurse)
	vars  []string // yield vars / loop state vars
	loop  string   // loop def application prefix, e.g. "f.loop1 fuel"
	post  ast.Stmt
	brk   []string // state vars for break
	inLoop bool
	retLoop bool // the loop body contains `return`: the loop yields (Option result × state) (trans_runes.go)
}

func tuple(vs []string) string {
	if len(vs) == 0 {
		return "()"
	}
	if len(vs) == 1 {
		return leanIdent(vs[0])
	}
	var l []string
	for _, v := range vs {
		l = append(l, leanIdent(v))
	}
	return "(" + strings.Join(l, ", ") + ")"
}

func (t *Translator) pureWrap(s string) string {
	if t.cur.monadic {
		return "pure " + s
	}
	return s
}

func ind(n int) string { return strings.Repeat("  ", n) }

func endsInJump(stmts []ast.Stmt) bool {
	if len(stmts) == 0 {
		return false
	}
	switch s := stmts[len(stmts)-1].(type) {
	case *ast.ReturnStmt:
		return true
	case *ast.BranchStmt:
		return s.Tok == token.BREAK || s.Tok == token.CONTINUE
	case *ast.ExprStmt:
		if c, ok := s.X.(*ast.CallExpr); ok {
			if id, ok := c.Fun.(*ast.Ident); ok && id.Name == "panic" {
				return true
			}
		}
	case *ast.IfStmt:
		if s.Else == nil {
			return false
		}
		eb, ok := s.Else.(*ast.BlockStmt)
		if !ok {
			return endsInJump([]ast.Stmt{s.Else}) && endsInJump(s.Body.List)
		}
		return endsInJump(s.Body.List) && endsInJump(eb.List)
	}
	return false
}

func containsJump(n ast.Node) bool {
	found := false
	ast.Inspect(n, func(m ast.Node) bool {
		switch s := m.(type) {
		case *ast.ReturnStmt:
			found = true
		case *ast.BranchStmt:
			found = true
		case *ast.ForStmt, *ast.RangeStmt:
			if hasReturn(s) { // trans_runes.go: a returning loop leaves the enclosing branch as well
				found = true
			}
			return false // break/continue inside a nested loop belong to it
		case *ast.CallExpr:
			if id, ok := s.Fun.(*ast.Ident); ok && id.Name == "panic" {
				found = true
			}
		}
		return true
	})
	return found
}

func declaredIn(stmts []ast.Stmt) []string {
	var out []string
	for _, st := range stmts {
		ast.Inspect(st, func(m ast.Node) bool {
			switch s := m.(type) {
			case *ast.AssignStmt:
				if s.Tok == token.DEFINE {
					for _, l := range s.Lhs {
						if id, ok := l.(*ast.Ident); ok {
							out = append(out, id.Name)
						}
					}
				}
			case *ast.DeclStmt:
				if gd, ok := s.Decl.(*ast.GenDecl); ok {
					for _, sp := range gd.Specs {
						if vs, ok := sp.(*ast.ValueSpec); ok {
							for _, n := range vs.Names {
								out = append(out, n.Name)
							}
						}
					}
				}
			}
			return true
		})
	}
	return out
}

// assigned collects outer-scope variables assigned in stmts
func assigned(stmts []ast.Stmt, sc *scope) []string {
	set := map[string]bool{}
	declared := map[string]bool{}
	var walk func(n ast.Node)
	walk = func(n ast.Node) {
		ast.Inspect(n, func(m ast.Node) bool {
			switch s := m.(type) {
			case *ast.AssignStmt:
				for _, l := range s.Lhs {
					var id *ast.Ident
					switch lx := l.(type) {
					case *ast.Ident:
						id = lx
					case *ast.IndexExpr:
						id, _ = lx.X.(*ast.Ident)
					}
					if id == nil {
						continue
					}
					if s.Tok == token.DEFINE {
						if _, outer := sc.ty[id.Name]; !outer {
							declared[id.Name] = true
						}
						// `x, err := …` may re-assign an outer err; treated as a fresh shadow in our subset
						continue
					}
					if !declared[id.Name] {
						set[id.Name] = true
					}
				}
			case *ast.IncDecStmt:
				switch lx := s.X.(type) {
				case *ast.Ident:
					if !declared[lx.Name] {
						set[lx.Name] = true
					}
				case *ast.IndexExpr:
					if id, ok := lx.X.(*ast.Ident); ok && !declared[id.Name] {
						set[id.Name] = true
					}
				}
			case *ast.DeclStmt:
				if gd, ok := s.Decl.(*ast.GenDecl); ok {
					for _, sp := range gd.Specs {
						for _, n := range sp.(*ast.ValueSpec).Names {
							declared[n.Name] = true
						}
					}
				}
			case *ast.ExprStmt:
				if c, ok := s.X.(*ast.CallExpr); ok {
					if id, ok := c.Fun.(*ast.Ident); ok && id.Name == "copy" {
						if d, ok := c.Args[0].(*ast.Ident); ok {
							set[d.Name] = true
						}
					}
				}
			case *ast.CallExpr:
				// trans_runes.go: copy(x[a:b], …) and utf8.EncodeRune(x[a:], r) rebind x
				if writesFirstArg(s) && len(s.Args) > 0 {
					if n := rootIdent(s.Args[0]); n != "" && !declared[n] {
						set[n] = true
					}
				}
			}
			return true
		})
	}
	for _, s := range stmts {
		walk(s)
	}
	var out []string
	for _, v := range sc.vars {
		if set[v] {
			out = append(out, v)
		}
	}
	return out
}

func (t *Translator) bindLine(lhs, rhs string, monadicRhs bool) string {
	if monadicRhs {
		return "let " + lhs + " ← " + rhs
	}
	return "let " + lhs + " := " + rhs
}

// stmts translates a statement list into lines (each at indentation `d`), ending with the terminator.
func (t *Translator) stmts(list []ast.Stmt, sc *scope, tm term, d int) []string {
	var out []string
	emit := func(s string) { out = append(out, ind(d)+s) }
	emitPre := func(e ex) {
		for _, p := range e.pre {
			emit(p)
		}
	}
	for i, st := range list {
		rest := list[i+1:]
		switch s := st.(type) {
		case *ast.DeclStmt:
			gd := s.Decl.(*ast.GenDecl)
			if gd.Tok != token.VAR {
				t.refuse(s, "declaration %s", gd.Tok)
			}
			for _, sp := range gd.Specs {
				vs := sp.(*ast.ValueSpec)
				for j, n := range vs.Names {
					var ty *lty
					if vs.Type != nil {
						ty = t.ltype(t.info.Types[vs.Type].Type, vs)
					}
					if j < len(vs.Values) {
						v := t.expr(vs.Values[j])
						emitPre(v)
						if ty == nil {
							ty = t.typeOf(vs.Values[j])
						}
						emit(fmt.Sprintf("let %s : %s := %s", leanIdent(n.Name), ty.lean, v.s))
					} else {
						emit(fmt.Sprintf("let %s : %s := %s", leanIdent(n.Name), ty.lean, ty.zero))
					}
					sc.add(n.Name, ty)
				}
			}
		case *ast.AssignStmt:
			t.assign(s, sc, emit, emitPre)
		case *ast.IncDecStmt:
			one := &ast.BasicLit{Kind: token.INT, Value: "1"}
			op := token.ADD_ASSIGN
			if s.Tok == token.DEC {
				op = token.SUB_ASSIGN
			}
			_ = one
			t.opAssign(s.X, op, nil, sc, emit, emitPre, s)
		case *ast.ExprStmt:
			c, ok := s.X.(*ast.CallExpr)
			if !ok {
				t.refuse(s, "expression statement")
			}
			if id, ok := c.Fun.(*ast.Ident); ok && id.Name == "panic" {
				t.needMonad(s, "panic")
				emit("Go.Res.crash")
				return out
			}
			if t.exprStmtRunes(c, emit, emitPre) {
				continue
			}
			if id, ok := c.Fun.(*ast.Ident); ok && id.Name == "copy" {
				dst, ok := c.Args[0].(*ast.Ident)
				if !ok {
					t.refuse(s, "copy into a non-variable")
				}
				src := t.expr(c.Args[1])
				emitPre(src)
				emit(fmt.Sprintf("let %s := Go.copy %s %s", leanIdent(dst.Name), leanIdent(dst.Name), src.s))
				continue
			}
			t.refuse(s, "call statement %s", t.pkg.Src(s))
		case *ast.ReturnStmt:
			if tm.inLoop {
				if !tm.retLoop {
					t.refuse(s, "return inside a loop")
				}
				out = append(out, t.retInLoop(s, tm, d)...)
				return out
			}
			out = append(out, t.ret(s, sc, d)...)
			return out
		case *ast.BranchStmt:
			if !tm.inLoop || s.Label != nil {
				t.refuse(s, "branch statement")
			}
			if s.Tok == token.BREAK {
				if tm.retLoop {
					emit("pure " + retTuple("none", tm.brk))
					return out
				}
				emit(t.pureWrap(tuple(tm.brk)))
				return out
			}
			if s.Tok == token.CONTINUE {
				out = append(out, t.fallOff(sc, tm, d)...)
				return out
			}
			t.refuse(s, "branch %s", s.Tok)
		case *ast.IfStmt:
			if s.Init != nil {
				t.refuse(s, "if with init statement")
			}
			cond := t.expr(s.Cond)
			emitPre(cond)
			var elseList []ast.Stmt
			hasElse := s.Else != nil
			if hasElse {
				if eb, ok := s.Else.(*ast.BlockStmt); ok {
					elseList = eb.List
				} else {
					elseList = []ast.Stmt{s.Else}
				}
			}
			thenJ, elseJ := containsJump(s.Body), hasElse && containsJump(s.Else)
			if !thenJ && !elseJ {
				// merge assigned variables
				av := assigned(append(append([]ast.Stmt{}, s.Body.List...), elseList...), sc)
				ytm := term{kind: "yield", vars: av, inLoop: tm.inLoop, brk: tm.brk, retLoop: tm.retLoop}
				thenL := t.stmts(s.Body.List, sc.clone(), ytm, d+2)
				elseL := t.stmts(elseList, sc.clone(), ytm, d+2)
				if len(av) == 0 && !t.cur.monadic {
					continue // no effect
				}
				arrow := ":="
				doKw := ""
				if t.cur.monadic {
					arrow = "←"
					doKw = " do"
				}
				if t.runeSubset && t.cur.monadic {
					// a parenthesised TERM: Lean's `do` elaborator then builds `(if … ) >>= fun x => rest` instead of a
					// join point that every arm calls (the shape the rules of BlugeProofs/C18/StemLib.lean match)
					emit(fmt.Sprintf("let %s %s", tuple(av), arrow))
					emit(fmt.Sprintf("  (if %s then%s", cond.s, doKw))
					out = append(out, thenL...)
					emit("  else" + doKw)
					out = append(out, elseL...)
					out[len(out)-1] += ")"
					continue
				}
				emit(fmt.Sprintf("let %s %s", tuple(av), arrow))
				emit(fmt.Sprintf("  if %s then%s", cond.s, doKw))
				out = append(out, thenL...)
				emit("  else" + doKw)
				out = append(out, elseL...)
				continue
			}
			if endsInJump(s.Body.List) && (!hasElse || endsInJump(elseList)) || (hasElse && endsInJump(elseList)) || endsInJump(s.Body.List) {
				// a branch that ends in a jump needs no join: the other branch continues with the rest
				doKw := ""
				if t.cur.monadic {
					doKw = " do"
				}
				emit(fmt.Sprintf("if %s then%s", cond.s, doKw))
				if endsInJump(s.Body.List) {
					out = append(out, t.stmts(s.Body.List, sc.clone(), tm, d+1)...)
					emit("else" + doKw)
					out = append(out, t.stmts(append(append([]ast.Stmt{}, elseList...), rest...), sc.clone(), tm, d+1)...)
				} else {
					out = append(out, t.stmts(append(append([]ast.Stmt{}, s.Body.List...), rest...), sc.clone(), tm, d+1)...)
					emit("else" + doKw)
					out = append(out, t.stmts(elseList, sc.clone(), tm, d+1)...)
				}
				return out
			}
			// general case: a jump somewhere inside a branch — continue each branch with a copy of the rest
			// (sound when the branch declares no name that the rest could capture)
			for _, n := range declaredIn(append(append([]ast.Stmt{}, s.Body.List...), elseList...)) {
				if _, clash := sc.ty[n]; clash {
					t.refuse(s, "if statement with an inner jump whose branch re-declares outer variable %s", n)
				}
			}
			doKw := ""
			if t.cur.monadic {
				doKw = " do"
			}
			emit(fmt.Sprintf("if %s then%s", cond.s, doKw))
			out = append(out, t.stmts(append(append([]ast.Stmt{}, s.Body.List...), rest...), sc.clone(), tm, d+1)...)
			emit("else" + doKw)
			out = append(out, t.stmts(append(append([]ast.Stmt{}, elseList...), rest...), sc.clone(), tm, d+1)...)
			return out
		case *ast.ForStmt:
			if hasReturn(s.Body) {
				out = append(out, t.retLoopStmt(s, rest, sc, tm, d)...)
				return out
			}
			out = append(out, t.forLoop(s, sc, d)...)
		case *ast.RangeStmt:
			if hasReturn(s.Body) || rangeNeedsRunes(s) {
				if done, lines := t.rangeLoopRunes(s, rest, sc, tm, d); done {
					out = append(out, lines...)
					return out
				} else {
					out = append(out, lines...)
					continue
				}
			}
			out = append(out, t.rangeLoop(s, sc, d)...)
		case *ast.SwitchStmt:
			out = append(out, t.stmts(append(t.desugarSwitch(s), rest...), sc, tm, d)...)
			return out
		case *ast.BlockStmt:
			t.refuse(s, "nested block")
		default:
			t.refuse(st, "statement %T is outside the translated subset", st)
		}
	}
	out = append(out, t.fallOff(sc, tm, d)...)
	return out
}

func (t *Translator) fallOff(sc *scope, tm term, d int) []string {
	switch tm.kind {
	case "yield":
		return []string{ind(d) + t.pureWrap(tuple(tm.vars))}
	case "loop":
		var out []string
		if tm.post != nil {
			out = append(out, t.stmts([]ast.Stmt{tm.post}, sc, term{kind: "none", inLoop: true, brk: tm.brk}, d)...)
		}
		var args []string
		for _, v := range tm.vars {
			args = append(args, leanIdent(v))
		}
		out = append(out, ind(d)+tm.loop+" "+strings.Join(args, " "))
		return out
	case "none":
		return nil
	case "ret":
		if len(t.cur.named) > 0 {
			return []string{ind(d) + t.pureWrap(tuple(t.cur.named))}
		}
		return []string{ind(d) + t.pureWrap("()")}
	}
	return nil
}

func (t *Translator) ret(s *ast.ReturnStmt, sc *scope, d int) []string {
	var out []string
	sig := t.cur.sig
	res := s.Results
	if len(res) == 0 {
		return []string{ind(d) + t.pureWrap(tuple(t.cur.named))}
	}
	if sig.hasErr {
		errE := res[len(res)-1]
		res = res[:len(res)-1]
		if id, ok := errE.(*ast.Ident); ok && id.Name == "nil" {
			// success
		} else if _, isCall := errE.(*ast.CallExpr); isCall {
			return []string{ind(d) + "Go.Res.err"}
		} else if id, ok := errE.(*ast.Ident); ok {
			// return …, err   with err a variable
			var vals []string
			for _, r := range res {
				v := t.expr(r)
				for _, p := range v.pre {
					out = append(out, ind(d)+p)
				}
				vals = append(vals, v.s)
			}
			out = append(out, ind(d)+fmt.Sprintf("if %s then Go.Res.err else pure %s", leanIdent(id.Name), tupleS(vals)))
			return out
		} else {
			t.refuse(s, "error result %s", t.pkg.Src(errE))
		}
	}
	var vals []string
	for _, r := range res {
		v := t.expr(r)
		for _, p := range v.pre {
			out = append(out, ind(d)+p)
		}
		vals = append(vals, v.s)
	}
	out = append(out, ind(d)+t.pureWrap(tupleS(vals)))
	return out
}

func tupleS(vs []string) string {
	if len(vs) == 0 {
		return "()"
	}
	if len(vs) == 1 {
		return vs[0]
	}
	return "(" + strings.Join(vs, ", ") + ")"
}

func (t *Translator) assign(s *ast.AssignStmt, sc *scope, emit func(string), emitPre func(ex)) {
	if s.Tok != token.ASSIGN && s.Tok != token.DEFINE {
		if len(s.Lhs) != 1 {
			t.refuse(s, "compound assignment with several targets")
		}
		t.opAssign(s.Lhs[0], s.Tok, s.Rhs[0], sc, emit, emitPre, s)
		return
	}
	if len(s.Rhs) == 1 && len(s.Lhs) > 1 {
		// x, y[, err] := f(...)
		c, ok := s.Rhs[0].(*ast.CallExpr)
		if !ok {
			t.refuse(s, "multi-value assignment from a non-call")
		}
		name := t.calleeName(c.Fun)
		var sig *fnSig
		if strings.HasPrefix(name, ".") {
			for k, sg := range t.sigs {
				if strings.HasSuffix(k, name) {
					sig = sg
				}
			}
		} else {
			sig = t.sigs[name]
		}
		if sig == nil {
			t.refuse(s, "call of %s: callee is not translated", name)
		}
		var lhs []string
		for j, l := range s.Lhs {
			id, ok := l.(*ast.Ident)
			if !ok {
				t.refuse(s, "assignment target")
			}
			lhs = append(lhs, leanIdent(id.Name))
			if j < len(sig.results) {
				sc.add(id.Name, sig.results[j])
			} else {
				sc.add(id.Name, &lty{lean: "Bool", kind: "error", zero: "false"})
			}
		}
		// rebuild the application through call(), then patch the final bind
		e := t.call(c)
		if !sig.monadic {
			for _, p := range e.pre {
				emit(p)
			}
			emit(fmt.Sprintf("let %s := %s", tupleS(lhs), e.s))
			return
		}
		last := e.pre[len(e.pre)-1]
		for _, p := range e.pre[:len(e.pre)-1] {
			emit(p)
		}
		app := last[strings.Index(last, "← ")+len("← "):]
		if sig.hasErr {
			vals := tupleS(lhs[:len(lhs)-1])
			emit(fmt.Sprintf("let (%s, %s) ← Go.try_ (%s)", vals, lhs[len(lhs)-1], app))
		} else {
			emit(fmt.Sprintf("let %s ← %s", tupleS(lhs), app))
		}
		return
	}
	if len(s.Lhs) != len(s.Rhs) {
		t.refuse(s, "assignment shape")
	}
	// evaluate all right-hand sides first (Go semantics for parallel assignment)
	var vals []ex
	for _, r := range s.Rhs {
		vals = append(vals, t.expr(r))
	}
	for _, v := range vals {
		emitPre(v)
	}
	if len(s.Lhs) > 1 {
		var tmps []string
		for j := range s.Lhs {
			tv := t.tmp()
			emit(fmt.Sprintf("let %s := %s", tv, vals[j].s))
			tmps = append(tmps, tv)
		}
		for j := range vals {
			vals[j].s = tmps[j]
		}
	}
	for j, l := range s.Lhs {
		switch lx := l.(type) {
		case *ast.Ident:
			ty := t.typeOf(s.Rhs[j])
			if s.Tok == token.ASSIGN {
				if old, ok := sc.ty[lx.Name]; ok {
					ty = old
				}
			}
			if lx.Name != "_" {
				emit(fmt.Sprintf("let %s : %s := %s", leanIdent(lx.Name), ty.lean, vals[j].s))
				sc.add(lx.Name, ty)
			}
		case *ast.IndexExpr:
			t.needMonad(s, "indexed store")
			arr, ok := lx.X.(*ast.Ident)
			if !ok {
				t.refuse(s, "indexed store into a non-variable")
			}
			ix := t.expr(lx.Index)
			emitPre(ix)
			emit(fmt.Sprintf("let %s ← Go.setIdx %s %s %s", leanIdent(arr.Name), leanIdent(arr.Name), t.widen(ix.s, lx.Index), vals[j].s))
		default:
			t.refuse(s, "assignment target %s", t.pkg.Src(l))
		}
	}
}

var opOf = map[token.Token]token.Token{
	token.ADD_ASSIGN: token.ADD, token.SUB_ASSIGN: token.SUB, token.MUL_ASSIGN: token.MUL, token.AND_ASSIGN: token.AND,
	token.OR_ASSIGN: token.OR, token.XOR_ASSIGN: token.XOR, token.SHL_ASSIGN: token.SHL, token.SHR_ASSIGN: token.SHR,
	token.AND_NOT_ASSIGN: token.AND_NOT, token.QUO_ASSIGN: token.QUO, token.REM_ASSIGN: token.REM,
}

// x op= rhs   (rhs == nil means ++/--)
func (t *Translator) opAssign(lhs ast.Expr, tok token.Token, rhs ast.Expr, sc *scope, emit func(string), emitPre func(ex), at ast.Node) {
	op, ok := opOf[tok]
	if !ok {
		t.refuse(at, "assignment operator %s", tok)
	}
	lt := t.typeOf(lhs)
	var r ex
	if rhs == nil {
		r = ex{s: fmt.Sprintf("1#%d", lt.width)}
	} else {
		r = t.expr(rhs)
		emitPre(r)
	}
	compute := func(cur string) string {
		// reuse binary() by building a synthetic string
		switch op {
		case token.ADD:
			return "(" + cur + " + " + r.s + ")"
		case token.SUB:
			return "(" + cur + " - " + r.s + ")"
		case token.MUL:
			return "(" + cur + " * " + r.s + ")"
		case token.AND:
			return "(" + cur + " &&& " + r.s + ")"
		case token.OR:
			return "(" + cur + " ||| " + r.s + ")"
		case token.XOR:
			return "(" + cur + " ^^^ " + r.s + ")"
		case token.AND_NOT:
			return "(" + cur + " &&& ~~~" + r.s + ")"
		case token.SHL:
			return "(" + cur + " <<< " + t.widen(r.s, rhs) + ")"
		case token.SHR:
			if lt.signed {
				return "(BitVec.sshiftRight' " + cur + " " + t.widen(r.s, rhs) + ")"
			}
			return "(" + cur + " >>> " + t.widen(r.s, rhs) + ")"
		case token.QUO:
			if lt.signed {
				return "(BitVec.sdiv " + cur + " " + r.s + ")"
			}
			return "(" + cur + " / " + r.s + ")"
		}
		t.refuse(at, "operator %s", op)
		return ""
	}
	switch lx := lhs.(type) {
	case *ast.Ident:
		emit(fmt.Sprintf("let %s : %s := %s", leanIdent(lx.Name), lt.lean, compute(leanIdent(lx.Name))))
	case *ast.IndexExpr:
		t.needMonad(at, "indexed update")
		arr, ok := lx.X.(*ast.Ident)
		if !ok {
			t.refuse(at, "indexed update of a non-variable")
		}
		ix := t.expr(lx.Index)
		emitPre(ix)
		cur := t.tmp()
		i := t.widen(ix.s, lx.Index)
		emit(fmt.Sprintf("let %s ← Go.getIdx %s %s", cur, leanIdent(arr.Name), i))
		emit(fmt.Sprintf("let %s ← Go.setIdx %s %s %s", leanIdent(arr.Name), leanIdent(arr.Name), i, compute(cur)))
	default:
		t.refuse(at, "update target")
	}
}

func (t *Translator) stateDecl(sc *scope) (params string, args []string, tupTy string) {
	var ps, tys []string
	for _, v := range sc.vars {
		ps = append(ps, fmt.Sprintf("(%s : %s)", leanIdent(v), sc.ty[v].lean))
		tys = append(tys, sc.ty[v].lean)
		args = append(args, leanIdent(v))
	}
	tupTy = strings.Join(tys, " × ")
	if len(tys) == 0 {
		tupTy = "Unit"
	}
	return strings.Join(ps, " "), args, tupTy
}

func (t *Translator) forLoop(s *ast.ForStmt, sc *scope, d int) []string {
	t.needMonad(s, "loop")
	var out []string
	if s.Init != nil {
		out = append(out, t.stmts([]ast.Stmt{s.Init}, sc, term{kind: "none"}, d)...)
	}
	t.cur.loopN++
	name := fmt.Sprintf("%s.loop%d", t.cur.sig.lean, t.cur.loopN)
	state := append([]string{}, sc.vars...)
	params, args, tupTy := t.stateDecl(sc)
	body := sc.clone()
	tm := term{kind: "loop", vars: state, loop: name + " fuel", post: s.Post, brk: state, inLoop: true}
	var lines []string
	lines = append(lines, fmt.Sprintf("def %s (fuel : Nat) %s : Go.Res (%s) :=", name, params, tupTy))
	lines = append(lines, "  match fuel with")
	lines = append(lines, "  | 0 => Go.Res.crash")
	lines = append(lines, "  | fuel + 1 => do")
	if s.Cond != nil {
		c := t.expr(s.Cond)
		for _, p := range c.pre {
			lines = append(lines, ind(2)+p)
		}
		lines = append(lines, ind(2)+"if "+c.s+" then do")
		lines = append(lines, t.stmts(s.Body.List, body, tm, 3)...)
		lines = append(lines, ind(2)+"else")
		lines = append(lines, ind(3)+"pure "+tuple(state))
	} else {
		lines = append(lines, t.stmts(s.Body.List, body, tm, 2)...)
	}
	t.cur.aux = append(t.cur.aux, strings.Join(lines, "\n"))
	fuel, ok := t.fuel[t.cur.name]
	if !ok {
		t.refuse(s, "no loop fuel registered for %s", t.cur.name)
	}
	out = append(out, fmt.Sprintf("%slet %s ← %s (%s) %s", ind(d), tuple(state), name, fuel, strings.Join(args, " ")))
	return out
}

func (t *Translator) rangeLoop(s *ast.RangeStmt, sc *scope, d int) []string {
	t.needMonad(s, "loop")
	if k, ok := s.Key.(*ast.Ident); !ok || k.Name != "_" || s.Value == nil || s.Tok != token.DEFINE {
		t.refuse(s, "only `for _, x := range xs` is translated")
	}
	val := s.Value.(*ast.Ident).Name
	var out []string
	xs := t.expr(s.X)
	for _, p := range xs.pre {
		out = append(out, ind(d)+p)
	}
	et := t.typeOf(s.X).elem
	t.cur.loopN++
	name := fmt.Sprintf("%s.loop%d", t.cur.sig.lean, t.cur.loopN)
	state := append([]string{}, sc.vars...)
	params, args, tupTy := t.stateDecl(sc)
	body := sc.clone()
	body.add(val, et)
	body.vars = body.vars[:len(body.vars)-1] // the element is not loop state
	tm := term{kind: "loop", vars: state, loop: name + " rest_", brk: state, inLoop: true}
	var lines []string
	lines = append(lines, fmt.Sprintf("def %s (xs_ : List (%s)) %s : Go.Res (%s) :=", name, et.lean, params, tupTy))
	lines = append(lines, "  match xs_ with")
	lines = append(lines, "  | [] => pure "+tuple(state))
	lines = append(lines, fmt.Sprintf("  | %s :: rest_ => do", leanIdent(val)))
	lines = append(lines, t.stmts(s.Body.List, body, tm, 2)...)
	t.cur.aux = append(t.cur.aux, strings.Join(lines, "\n"))
	out = append(out, fmt.Sprintf("%slet %s ← %s %s %s", ind(d), tuple(state), name, xs.s, strings.Join(args, " ")))
	return out
}

// ---------------------------------------------------------------- functions

func needsMonad(fd *ast.FuncDecl, t *Translator) bool {
	m := false
	ast.Inspect(fd.Body, func(n ast.Node) bool {
		switch x := n.(type) {
		case *ast.ForStmt, *ast.RangeStmt, *ast.SliceExpr:
			m = true
		case *ast.IndexExpr:
			if id, ok := x.X.(*ast.Ident); ok {
				if _, g := t.globals[id.Name]; g {
					return true
				}
			}
			m = true
		case *ast.CallExpr:
			name := t.calleeName(x.Fun)
			if name == "panic" || (name == "make" && t.runeSubset) {
				m = true
			}
			if strings.HasPrefix(name, ".") {
				for k, s := range t.sigs {
					if strings.HasSuffix(k, name) && s.monadic {
						m = true
					}
				}
			} else if s, ok := t.sigs[name]; ok && s.monadic {
				m = true
			}
		}
		return true
	})
	return m
}

// Func translates one function or method ("F" or "T.M"); leanName is the emitted def name.
// Option stopBefore/yield translate only a prefix of the body (up to the first statement whose
// source contains stopBefore) and return the named variables.
type FuncOpt struct {
	LeanName   string
	Fuel       string
	StopBefore string
	Yield      []string
	Register   []string // additional Go names under which callers refer to it (e.g. "numeric.F")
	Unicode    bool     // the function (or a callee) consults Go's unicode tables: extra first parameter `uc : GoStd.Unicode`
	Runes      bool     // rune-slice subset (trans_runes.go): alpha-rename shadowing locals, alias discipline check
	AliasOK    string   // reviewed waiver of the alias discipline check (reason), recorded in the summary
}

func (t *Translator) Func(goName string, o FuncOpt) {
	fd := t.pkg.Func(goName)
	if fd == nil || fd.Body == nil {
		t.c.Refuse("function %s not found in %s", goName, t.pkg.Dir)
	}
	if o.LeanName == "" {
		o.LeanName = strings.ReplaceAll(goName, ".", "_")
	}
	if o.Fuel != "" {
		t.fuel[goName] = o.Fuel
	}
	sig := &fnSig{lean: o.LeanName}
	sc := &scope{ty: map[string]*lty{}}
	var params []string
	if o.Runes {
		t.prepareRunes(goName, fd, o, sig)
	}
	if o.Unicode {
		sig.extra = " uc"
		sc.add("uc", &lty{lean: "GoStd.Unicode", kind: "other", zero: "default"})
		params = append(params, "(uc : GoStd.Unicode)")
	}
	addParam := func(name string, ty ast.Expr) {
		if o.StopBefore != "" && !t.supported(t.info.Types[ty].Type) {
			return // a prefix translation ignores parameters of untranslatable types (using one refuses later)
		}
		lt := t.ltype(t.info.Types[ty].Type, ty)
		sc.add(name, lt)
		sig.params = append(sig.params, lt)
		params = append(params, fmt.Sprintf("(%s : %s)", leanIdent(name), lt.lean))
	}
	if fd.Recv != nil {
		r := fd.Recv.List[0]
		addParam(r.Names[0].Name, r.Type)
	}
	for _, f := range fd.Type.Params.List {
		if _, isFunc := f.Type.(*ast.FuncType); isFunc {
			t.refuse(f, "function-typed parameter")
		}
		for _, n := range f.Names {
			addParam(n.Name, f.Type)
		}
	}
	fc := &fnCtx{name: goName, sig: sig, opt: o}
	var resTys []string
	if fd.Type.Results != nil && o.StopBefore == "" {
		for _, f := range fd.Type.Results.List {
			lt := t.ltype(t.info.Types[f.Type].Type, f.Type)
			cnt := len(f.Names)
			if cnt == 0 {
				cnt = 1
			}
			for k := 0; k < cnt; k++ {
				if lt.kind == "error" {
					sig.hasErr = true
					continue
				}
				sig.results = append(sig.results, lt)
				resTys = append(resTys, lt.lean)
			}
			for _, n := range f.Names {
				if lt.kind != "error" {
					fc.named = append(fc.named, n.Name)
				}
			}
		}
	}
	if o.StopBefore != "" {
		sig.results = nil
		resTys = nil
		sig.hasErr = false
		fc.named = nil
	}
	t.cur = fc
	sig.monadic = sig.hasErr || needsMonad(fd, t)
	fc.monadic = sig.monadic
	// named results are pre-declared with zero values
	var head []string
	if fd.Type.Results != nil && o.StopBefore == "" {
		for _, f := range fd.Type.Results.List {
			lt := t.ltype(t.info.Types[f.Type].Type, f.Type)
			for _, n := range f.Names {
				if lt.kind == "error" {
					head = append(head, fmt.Sprintf("  let %s : Bool := false", leanIdent(n.Name)))
				} else {
					head = append(head, fmt.Sprintf("  let %s : %s := %s", leanIdent(n.Name), lt.lean, lt.zero))
				}
				sc.add(n.Name, lt)
			}
		}
	}
	list := fd.Body.List
	tm := term{kind: "ret"}
	if o.StopBefore != "" {
		cut := -1
		for i, s := range list {
			if strings.Contains(t.pkg.Src(s), o.StopBefore) {
				cut = i
				break
			}
		}
		if cut < 0 {
			t.c.Refuse("marker %q not found in %s", o.StopBefore, goName)
		}
		list = list[:cut]
		tm = term{kind: "yield", vars: o.Yield}
	}
	body := t.stmts(list, sc, tm, 1)
	if o.StopBefore != "" {
		for _, y := range o.Yield {
			lt, ok := sc.ty[y]
			if !ok {
				t.c.Refuse("yield variable %s not in scope of %s", y, goName)
			}
			sig.results = append(sig.results, lt)
			resTys = append(resTys, lt.lean)
		}
	}
	rt := strings.Join(resTys, " × ")
	if rt == "" {
		rt = "Unit"
	}
	if sig.monadic {
		rt = "Go.Res (" + rt + ")"
	}
	for _, a := range fc.aux {
		t.out = append(t.out, a, "")
	}
	doKw := ""
	if sig.monadic {
		doKw = " do"
	}
	t.out = append(t.out, fmt.Sprintf("/-- translated from `%s` (%s) -/", goName, relPath(t.c.Repo, t.pkg.Fset.Position(fd.Pos()).Filename)))
	t.out = append(t.out, fmt.Sprintf("def %s %s : %s :=%s", o.LeanName, strings.Join(params, " "), rt, doKw))
	t.out = append(t.out, head...)
	t.out = append(t.out, body...)
	t.out = append(t.out, "")
	t.sigs[goName] = sig
	for _, r := range o.Register {
		t.sigs[r] = sig
	}
}

func relPath(root, p string) string {
	if strings.HasPrefix(p, root) {
		return strings.TrimPrefix(strings.TrimPrefix(p, root), "/")
	}
	return p
}

// Share lets a second translator (another package) call what this one translated.
func (t *Translator) Share(to *Translator, prefix string) {
	for k, s := range t.sigs {
		if !strings.Contains(k, ".") || strings.Count(k, ".") == 1 && !strings.HasPrefix(k, prefix) {
			to.sigs[prefix+"."+k] = s
			if strings.Contains(k, ".") { // methods are found by suffix
				to.sigs[k] = s
			}
		}
	}
}

// Emit returns the Lean source of everything translated so far (structures first).
func (t *Translator) Emit() string {
	var b strings.Builder
	var names []string
	for n := range t.structs {
		names = append(names, n)
	}
	sort.Strings(names)
	for _, n := range names {
		fmt.Fprintf(&b, "structure %s where\n%s\nderiving Repr, DecidableEq, Inhabited\n\n", n, strings.Join(t.structs[n], "\n"))
	}
	b.WriteString(strings.Join(t.out, "\n"))
	return b.String()
}

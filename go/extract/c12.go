package main

// Gen for C12: which of the three repairs of the snapshot decoder / loader /repo's source contains.
// The hand-written model Bluge.Codec has a configuration `Cfg` (boundedReads, uintLoop, crcCopy);
// this generator reads the facts off index/snapshot.go and index/writer.go and writes them as
// BlugeGen.C12, so that the model the correspondence run and `snapshot_roundtrip_current` use is the
// one that matches the working tree. Facts are coarse and syntactic; a shape that is neither the pinned
// one nor the repaired one is REFUSED (reported as a broken obligation, never as a pass).

import (
	"fmt"
	"go/ast"
	"strings"
)

func init() { Register("C12", genC12) }

func genC12(c *Ctx) {
	pkg := c.ParseDir("index")
	need := func(name string) *ast.FuncDecl {
		fd := pkg.Func(name)
		if fd == nil || fd.Body == nil {
			c.Refuse("function %s not found in index/", name)
		}
		return fd
	}
	norm := func(n ast.Node) string { return strings.Join(strings.Fields(pkg.Src(n)), " ") }
	// calls(fd) = normalised source of every call expression in fd
	calls := func(fd *ast.FuncDecl) []string {
		var out []string
		ast.Inspect(fd.Body, func(n ast.Node) bool {
			if ce, ok := n.(*ast.CallExpr); ok {
				out = append(out, norm(ce))
			}
			return true
		})
		return out
	}
	has := func(list []string, pred func(string) bool) bool {
		for _, s := range list {
			if pred(s) {
				return true
			}
		}
		return false
	}
	prefix := func(p string) func(string) bool { return func(s string) bool { return strings.HasPrefix(s, p) } }
	exact := func(p string) func(string) bool { return func(s string) bool { return s == p } }

	// ---- readVarLenString: how the string bytes are obtained, and whether Peek's io.EOF is an error
	rvs := need("readVarLenString")
	rvsCalls := calls(rvs)
	strMake := has(rvsCalls, prefix("make([]byte, strLen")) && has(rvsCalls, prefix("r.Read(strBytes"))
	strReadN := has(rvsCalls, prefix("readN(r, strLen"))
	peekStrict, peekTolerant := false, false
	ast.Inspect(rvs.Body, func(n ast.Node) bool {
		if is, ok := n.(*ast.IfStmt); ok {
			switch norm(is.Cond) {
			case "err != nil":
				// only the first such test guards the Peek
				if !peekStrict && !peekTolerant {
					peekStrict = true
				}
			case "err != nil && err != io.EOF":
				if !peekStrict && !peekTolerant {
					peekTolerant = true
				}
			}
		}
		return true
	})
	// ---- readSegmentSnapshot: version bytes and deleted bytes
	rss := need("Snapshot.readSegmentSnapshot")
	rssCalls := calls(rss)
	verRead := has(rssCalls, exact("br.Read(verBuf)"))
	verFull := has(rssCalls, exact("io.ReadFull(br, verBuf)"))
	delMake := has(rssCalls, exact("make([]byte, int(delLen))")) && has(rssCalls, exact("io.ReadFull(br, deletedBytes)"))
	delReadN := has(rssCalls, exact("readN(br, delLen)"))
	// ---- readN, if used: a loop of io.ReadFull over steps bounded by a constant 4096
	if strReadN || delReadN {
		rn := pkg.Func("readN")
		if rn == nil {
			c.Refuse("readN is called but not defined in index/")
		}
		src := norm(rn.Body)
		if !strings.Contains(src, "io.ReadFull(r, rv[start:])") || !strings.Contains(src, "step > readNChunk") {
			c.Refuse("readN does not have the shape the model knows (loop of io.ReadFull over steps of at most readNChunk): %s", src)
		}
		chunkOK := false
		for _, f := range pkg.Files {
			for _, d := range f.Decls {
				if gd, ok := d.(*ast.GenDecl); ok {
					for _, sp := range gd.Specs {
						if vs, ok := sp.(*ast.ValueSpec); ok && len(vs.Names) == 1 && vs.Names[0].Name == "readNChunk" && len(vs.Values) == 1 {
							if norm(vs.Values[0]) == "4096" {
								chunkOK = true
							}
						}
					}
				}
			}
		}
		if !chunkOK {
			c.Refuse("readNChunk is not the constant 4096 the model assumes")
		}
	}
	var bounded bool
	switch {
	case strMake && !strReadN && peekStrict && verRead && !verFull && delMake && !delReadN:
		bounded = false
	case strReadN && !strMake && peekTolerant && verFull && !verRead && delReadN && !delMake:
		bounded = true
	default:
		c.Refuse("decoder reads are neither the pinned shape (make+Read / strict Peek / br.Read(verBuf) / make+ReadFull) nor the repaired one (readN / tolerant Peek / io.ReadFull(br, verBuf) / readN): strMake=%v strReadN=%v peekStrict=%v peekTolerant=%v verRead=%v verFull=%v delMake=%v delReadN=%v",
			strMake, strReadN, peekStrict, peekTolerant, verRead, verFull, delMake, delReadN)
	}
	// ---- readFromVersion1: the segment loop
	rv1 := need("Snapshot.readFromVersion1")
	var uintLoop, loopSeen bool
	ast.Inspect(rv1.Body, func(n ast.Node) bool {
		if fs, ok := n.(*ast.ForStmt); ok && fs.Cond != nil && fs.Init != nil {
			loopSeen = true
			switch norm(fs.Init) + " ; " + norm(fs.Cond) {
			case "j := 0 ; j < int(numSegments)":
				uintLoop = false
			case "j := uint64(0) ; j < numSegments":
				uintLoop = true
			default:
				c.Refuse("segment loop header not understood: for %s; %s", norm(fs.Init), norm(fs.Cond))
			}
		}
		return true
	})
	if !loopSeen {
		c.Refuse("no segment loop in readFromVersion1")
	}
	// ---- loadSnapshot: are the CRC bytes copied before the item is closed
	ls := need("Writer.loadSnapshot")
	crcCopy := false
	readsCRC := false
	ast.Inspect(ls.Body, func(n ast.Node) bool {
		if as, ok := n.(*ast.AssignStmt); ok && len(as.Lhs) >= 1 && len(as.Rhs) == 1 {
			lhs, rhs := norm(as.Lhs[0]), norm(as.Rhs[0])
			if lhs == "fileCRCBytes" && strings.HasPrefix(rhs, "data.Read(") {
				readsCRC = true
			}
			if lhs == "fileCRCBytes" && strings.HasPrefix(rhs, "append(") && strings.HasSuffix(rhs, "fileCRCBytes...)") {
				crcCopy = true
			}
		}
		if ce, ok := n.(*ast.CallExpr); ok {
			s := norm(ce)
			if strings.HasPrefix(s, "copy(") && strings.Contains(s, "fileCRCBytes") {
				crcCopy = true
			}
		}
		return true
	})
	if !readsCRC {
		c.Refuse("loadSnapshot no longer reads fileCRCBytes with data.Read(...)")
	}
	b := func(v bool) string {
		if v {
			return "true"
		}
		return "false"
	}
	src := "/-! GENERATED by go/extract (c12.go) from /repo's working tree: index/snapshot.go (readVarLenString,\nreadSegmentSnapshot, readFromVersion1, readN) and index/writer.go (loadSnapshot). Do not edit. -/\nnamespace BlugeGen.C12\n\n" +
		"/-- length-prefixed fields are read by `readN` (bounded steps, full reads), the version by `io.ReadFull`,\n`readVarLenString` tolerates `io.EOF` from `Peek` -/\ndef boundedReads : Bool := " + b(bounded) + "\n\n" +
		"/-- the segment loop counts in `uint64` (not `int(numSegments)`) -/\ndef uintLoop : Bool := " + b(uintLoop) + "\n\n" +
		"/-- `loadSnapshot` copies the CRC bytes before it closes the item -/\ndef crcCopy : Bool := " + b(crcCopy) + "\n\nend BlugeGen.C12\n"
	c.WriteLean("C12", src)
	c.Summary["facts"] = fmt.Sprintf("boundedReads=%v uintLoop=%v crcCopy=%v", bounded, uintLoop, crcCopy)
}

package main

// Gen for C12: which of the three repairs of the snapshot decoder / loader /repo's source contains.
// The hand-written model Bluge.Codec has a configuration `Cfg` (boundedReads, uintLoop, crcCopy);
// this generator reads the facts off index/snapshot.go and index/writer.go and writes them as
// BlugeGen.C12, so that the model the correspondence run and `snapshot_roundtrip_current` use is the
// one that matches the working tree. Facts are coarse and syntactic; a shape that is neither the pinned
// one nor the repaired one is REFUSED (reported as a broken obligation, never as a pass).

import (
	"fmt"
	"go/ast"
	"go/token"
	"strings"
)

func init() { Register("C12", genC12) }

func genC12(c *Ctx) {
	pkg := c.ParseDir("index")
	need := func(name string) *ast.FuncDecl {
		fd := pkg.Func(name)
		if fd == nil || fd.Body == nil {
			c.Refuse("function %s not found in index/", name)
		}
		return fd
	}
	norm := func(n ast.Node) string { return strings.Join(strings.Fields(pkg.Src(n)), " ") }
	// calls(fd) = normalised source of every call expression in fd
	calls := func(fd *ast.FuncDecl) []string {
		var out []string
		ast.Inspect(fd.Body, func(n ast.Node) bool {
			if ce, ok := n.(*ast.CallExpr); ok {
				out = append(out, norm(ce))
			}
			return true
		})
		return out
	}
	has := func(list []string, pred func(string) bool) bool {
		for _, s := range list {
			if pred(s) {
				return true
			}
		}
		return false
	}
	prefix := func(p string) func(string) bool { return func(s string) bool { return strings.HasPrefix(s, p) } }
	exact := func(p string) func(string) bool { return func(s string) bool { return s == p } }

	// ---- readVarLenString: how the string bytes are obtained, and whether Peek's io.EOF is an error
	rvs := need("readVarLenString")
	rvsCalls := calls(rvs)
	strMake := has(rvsCalls, prefix("make([]byte, strLen")) && has(rvsCalls, prefix("r.Read(strBytes"))
	strReadN := has(rvsCalls, prefix("readN(r, strLen"))
	peekStrict, peekTolerant := false, false
	ast.Inspect(rvs.Body, func(n ast.Node) bool {
		if is, ok := n.(*ast.IfStmt); ok {
			switch norm(is.Cond) {
			case "err != nil":
				// only the first such test guards the Peek
				if !peekStrict && !peekTolerant {
					peekStrict = true
				}
			case "err != nil && err != io.EOF":
				if !peekStrict && !peekTolerant {
					peekTolerant = true
				}
			}
		}
		return true
	})
	// ---- readSegmentSnapshot: version bytes and deleted bytes
	rss := need("Snapshot.readSegmentSnapshot")
	rssCalls := calls(rss)
	verRead := has(rssCalls, exact("br.Read(verBuf)"))
	verFull := has(rssCalls, exact("io.ReadFull(br, verBuf)"))
	delMake := has(rssCalls, exact("make([]byte, int(delLen))")) && has(rssCalls, exact("io.ReadFull(br, deletedBytes)"))
	delReadN := has(rssCalls, exact("readN(br, delLen)"))
	// ---- readN, if used: a loop of io.ReadFull over steps bounded by a constant 4096
	if strReadN || delReadN {
		rn := pkg.Func("readN")
		if rn == nil {
			c.Refuse("readN is called but not defined in index/")
		}
		src := norm(rn.Body)
		if !strings.Contains(src, "io.ReadFull(r, rv[start:])") || !strings.Contains(src, "step > readNChunk") {
			c.Refuse("readN does not have the shape the model knows (loop of io.ReadFull over steps of at most readNChunk): %s", src)
		}
		chunkOK := false
		for _, f := range pkg.Files {
			for _, d := range f.Decls {
				if gd, ok := d.(*ast.GenDecl); ok {
					for _, sp := range gd.Specs {
						if vs, ok := sp.(*ast.ValueSpec); ok && len(vs.Names) == 1 && vs.Names[0].Name == "readNChunk" && len(vs.Values) == 1 {
							if norm(vs.Values[0]) == "4096" {
								chunkOK = true
							}
						}
					}
				}
			}
		}
		if !chunkOK {
			c.Refuse("readNChunk is not the constant 4096 the model assumes")
		}
	}
	var bounded bool
	switch {
	case strMake && !strReadN && peekStrict && verRead && !verFull && delMake && !delReadN:
		bounded = false
	case strReadN && !strMake && peekTolerant && verFull && !verRead && delReadN && !delMake:
		bounded = true
	default:
		c.Refuse("decoder reads are neither the pinned shape (make+Read / strict Peek / br.Read(verBuf) / make+ReadFull) nor the repaired one (readN / tolerant Peek / io.ReadFull(br, verBuf) / readN): strMake=%v strReadN=%v peekStrict=%v peekTolerant=%v verRead=%v verFull=%v delMake=%v delReadN=%v",
			strMake, strReadN, peekStrict, peekTolerant, verRead, verFull, delMake, delReadN)
	}
	// ---- readFromVersion1: the segment loop
	rv1 := need("Snapshot.readFromVersion1")
	var uintLoop, loopSeen bool
	ast.Inspect(rv1.Body, func(n ast.Node) bool {
		if fs, ok := n.(*ast.ForStmt); ok && fs.Cond != nil && fs.Init != nil {
			loopSeen = true
			switch norm(fs.Init) + " ; " + norm(fs.Cond) {
			case "j := 0 ; j < int(numSegments)":
				uintLoop = false
			case "j := uint64(0) ; j < numSegments":
				uintLoop = true
			default:
				c.Refuse("segment loop header not understood: for %s; %s", norm(fs.Init), norm(fs.Cond))
			}
		}
		return true
	})
	if !loopSeen {
		c.Refuse("no segment loop in readFromVersion1")
	}
	// ---- loadSnapshot: are the CRC bytes copied before the item is closed
	ls := need("Writer.loadSnapshot")
	crcCopy := false
	readsCRC := false
	ast.Inspect(ls.Body, func(n ast.Node) bool {
		if as, ok := n.(*ast.AssignStmt); ok && len(as.Lhs) >= 1 && len(as.Rhs) == 1 {
			lhs, rhs := norm(as.Lhs[0]), norm(as.Rhs[0])
			if lhs == "fileCRCBytes" && strings.HasPrefix(rhs, "data.Read(") {
				readsCRC = true
			}
			if lhs == "fileCRCBytes" && strings.HasPrefix(rhs, "append(") && strings.HasSuffix(rhs, "fileCRCBytes...)") {
				crcCopy = true
			}
		}
		if ce, ok := n.(*ast.CallExpr); ok {
			s := norm(ce)
			if strings.HasPrefix(s, "copy(") && strings.Contains(s, "fileCRCBytes") {
				crcCopy = true
			}
		}
		return true
	})
	if !readsCRC {
		c.Refuse("loadSnapshot no longer reads fileCRCBytes with data.Read(...)")
	}
	b := func(v bool) string {
		if v {
			return "true"
		}
		return "false"
	}
	scriptSrc, scripts := c12Scripts(c, pkg)
	lengthChecked := c12LengthChecked(c, scripts)
	src := "/-! GENERATED by go/extract (c12.go) from /repo's working tree: index/snapshot.go (WriteTo, recordSegment,\nwriteVarLenString, ReadFrom, readFromVersion1, readSegmentSnapshot, readVarLenString, readN), index/count.go\n(countHashWriter.Write, countHashReader.Read) and index/writer.go (loadSnapshot, loadSnapshots). Do not edit. -/\nnamespace BlugeGen.C12\n\n" +
		"/-- length-prefixed fields are read by `readN` (bounded steps, full reads), the version by `io.ReadFull`,\n`readVarLenString` tolerates `io.EOF` from `Peek` -/\ndef boundedReads : Bool := " + b(bounded) + "\n\n" +
		"/-- the segment loop counts in `uint64` (not `int(numSegments)`) -/\ndef uintLoop : Bool := " + b(uintLoop) + "\n\n" +
		"/-- `loadSnapshot` copies the CRC bytes before it closes the item -/\ndef crcCopy : Bool := " + b(crcCopy) + "\n\n" +
		"/-- every `binary.Uvarint` result is checked for `n <= 0`, and `loadSnapshot` compares the byte count\n`ReadFrom` returns with `data.Len() - crcWidth` -/\ndef lengthChecked : Bool := " + b(lengthChecked) + "\n\n" +
		scriptSrc + "end BlugeGen.C12\n"
	c.WriteLean("C12", src)
	c.Summary["facts"] = fmt.Sprintf("boundedReads=%v uintLoop=%v crcCopy=%v lengthChecked=%v", bounded, uintLoop, crcCopy, lengthChecked)
}

// ---------------------------------------------------------------------------------------------------------
// Call scripts. Every statement of the codec functions, in source order, as one normalised line:
//   * `:=` and `=` are both written `=`; `var x T` without a value is dropped; whitespace is normalised;
//   * package-level integer constants of package index are replaced by their value
//     (blugeSnapshotFormatVersion -> 1, crcWidth -> 4, readNChunk -> 4096);
//   * `fmt.Errorf(...)` is written `error`;
//   * `if err != nil { return …err… }` after the statement that set err is folded into the suffix ` ?` of that
//     statement (` ?eof-ok` for `err != nil && err != io.EOF`); statements of the branch in front of the
//     return are kept: ` ?[stmt; stmt]`;
//   * blocks are written `for … {` / `if … {` / `} else {` / `}` on lines of their own.
// A statement or expression form outside this list makes the generator REFUSE.

type c12n struct {
	c      *Ctx
	pkg    *Pkg
	fn     string
	consts map[string]string
	lines  []string
}

func (x *c12n) refuse(n ast.Node, why string) {
	x.c.Refuse("%s: %s: `%s`", x.fn, why, strings.Join(strings.Fields(x.pkg.Src(n)), " "))
}

func c12Consts(pkg *Pkg) map[string]string {
	raw := map[string]ast.Expr{}
	for _, f := range pkg.Files {
		for _, d := range f.Decls {
			gd, ok := d.(*ast.GenDecl)
			if !ok || gd.Tok != token.CONST {
				continue
			}
			for _, sp := range gd.Specs {
				vs, ok := sp.(*ast.ValueSpec)
				if !ok || len(vs.Names) != len(vs.Values) {
					continue // iota groups and the like: not resolved
				}
				for i, n := range vs.Names {
					raw[n.Name] = vs.Values[i]
				}
			}
		}
	}
	out := map[string]string{}
	var resolve func(name string, depth int) (string, bool)
	resolve = func(name string, depth int) (string, bool) {
		e, ok := raw[name]
		if !ok || depth > 8 {
			return "", false
		}
		switch v := e.(type) {
		case *ast.BasicLit:
			if v.Kind == token.INT {
				return v.Value, true
			}
		case *ast.Ident:
			return resolve(v.Name, depth+1)
		}
		return "", false
	}
	for n := range raw {
		if v, ok := resolve(n, 0); ok {
			out[n] = v
		}
	}
	return out
}

func (x *c12n) exprs(es []ast.Expr) string {
	var s []string
	for _, e := range es {
		s = append(s, x.expr(e))
	}
	return strings.Join(s, ", ")
}

func (x *c12n) expr(e ast.Expr) string {
	switch v := e.(type) {
	case *ast.Ident:
		if c, ok := x.consts[v.Name]; ok && v.Obj == nil {
			return c
		}
		if c, ok := x.consts[v.Name]; ok && v.Obj != nil && v.Obj.Kind == ast.Con {
			return c
		}
		return v.Name
	case *ast.BasicLit:
		return v.Value
	case *ast.ParenExpr:
		return "(" + x.expr(v.X) + ")"
	case *ast.SelectorExpr:
		return x.expr(v.X) + "." + v.Sel.Name
	case *ast.StarExpr:
		return "*" + x.expr(v.X)
	case *ast.UnaryExpr:
		if cl, ok := v.X.(*ast.CompositeLit); ok && v.Op == token.AND {
			return "&" + x.composite(cl)
		}
		return v.Op.String() + x.expr(v.X)
	case *ast.BinaryExpr:
		return x.expr(v.X) + " " + v.Op.String() + " " + x.expr(v.Y)
	case *ast.IndexExpr:
		return x.expr(v.X) + "[" + x.expr(v.Index) + "]"
	case *ast.SliceExpr:
		if v.Slice3 {
			x.refuse(e, "3-index slice")
		}
		lo, hi := "", ""
		if v.Low != nil {
			lo = x.expr(v.Low)
		}
		if v.High != nil {
			hi = x.expr(v.High)
		}
		return x.expr(v.X) + "[" + lo + ":" + hi + "]"
	case *ast.ArrayType:
		if v.Len != nil {
			x.refuse(e, "array type")
		}
		return "[]" + x.expr(v.Elt)
	case *ast.CompositeLit:
		return x.composite(v)
	case *ast.CallExpr:
		if s, ok := v.Fun.(*ast.SelectorExpr); ok {
			if id, ok := s.X.(*ast.Ident); ok && id.Name == "fmt" && s.Sel.Name == "Errorf" {
				return "error"
			}
		}
		args := x.exprs(v.Args)
		if v.Ellipsis.IsValid() {
			args += "..."
		}
		return x.expr(v.Fun) + "(" + args + ")"
	}
	x.refuse(e, "expression form not understood")
	return ""
}

func (x *c12n) composite(cl *ast.CompositeLit) string {
	var elts []string
	for _, el := range cl.Elts {
		if kv, ok := el.(*ast.KeyValueExpr); ok {
			elts = append(elts, x.expr(kv.Key)+": "+x.expr(kv.Value))
		} else {
			elts = append(elts, x.expr(el))
		}
	}
	t := ""
	if cl.Type != nil {
		t = x.expr(cl.Type)
	}
	return t + "{" + strings.Join(elts, ", ") + "}"
}

// simple renders a statement that fits on one line (assignment, call, inc/dec, declaration); ok=false: not one.
func (x *c12n) simple(st ast.Stmt) (string, bool, bool) {
	switch v := st.(type) {
	case *ast.AssignStmt:
		op := v.Tok.String()
		if v.Tok == token.DEFINE {
			op = "="
		}
		return x.exprs(v.Lhs) + " " + op + " " + x.exprs(v.Rhs), true, true
	case *ast.ExprStmt:
		return x.expr(v.X), true, true
	case *ast.IncDecStmt:
		return x.expr(v.X) + v.Tok.String(), true, true
	case *ast.DeclStmt:
		gd, ok := v.Decl.(*ast.GenDecl)
		if !ok || gd.Tok != token.VAR {
			x.refuse(st, "declaration that is not a var")
		}
		var parts []string
		for _, sp := range gd.Specs {
			vs := sp.(*ast.ValueSpec)
			if len(vs.Values) == 0 {
				continue
			}
			var ns []ast.Expr
			for _, n := range vs.Names {
				ns = append(ns, n)
			}
			parts = append(parts, x.exprs(ns)+" = "+x.exprs(vs.Values))
		}
		if len(parts) == 0 {
			return "", false, true // dropped
		}
		return strings.Join(parts, "; "), true, true
	}
	return "", false, false
}

// errCond recognises `e != nil` and `e != nil && e != io.EOF`; returns the variable and the suffix.
func (x *c12n) errCond(e ast.Expr) (string, string, bool) {
	neNil := func(e ast.Expr) (string, bool) {
		b, ok := e.(*ast.BinaryExpr)
		if !ok || b.Op != token.NEQ {
			return "", false
		}
		id, ok := b.X.(*ast.Ident)
		r, ok2 := b.Y.(*ast.Ident)
		if !ok || !ok2 || r.Name != "nil" || !strings.HasPrefix(id.Name, "err") {
			return "", false
		}
		return id.Name, true
	}
	if v, ok := neNil(e); ok {
		return v, " ?", true
	}
	if b, ok := e.(*ast.BinaryExpr); ok && b.Op == token.LAND {
		if v, ok := neNil(b.X); ok {
			if c, ok := b.Y.(*ast.BinaryExpr); ok && c.Op == token.NEQ && x.expr(c.X) == v && x.expr(c.Y) == "io.EOF" {
				return v, " ?eof-ok", true
			}
		}
	}
	return "", "", false
}

func (x *c12n) mentions(n ast.Node, name string) bool {
	found := false
	ast.Inspect(n, func(m ast.Node) bool {
		if id, ok := m.(*ast.Ident); ok && id.Name == name {
			found = true
		}
		return true
	})
	return found
}

func (x *c12n) emit(depth int, s string) {
	x.lines = append(x.lines, strings.Repeat("  ", depth)+s)
}

func (x *c12n) block(list []ast.Stmt, depth int) {
	lastSet := -1  // index in x.lines of the last simple statement
	lastVars := "" // its left-hand side
	for _, st := range list {
		// name := func() { … }: a local closure (its statements are rendered like a block)
		if a, ok := st.(*ast.AssignStmt); ok && len(a.Lhs) == 1 && len(a.Rhs) == 1 {
			if fl, ok := a.Rhs[0].(*ast.FuncLit); ok {
				if len(fl.Type.Params.List) != 0 || (fl.Type.Results != nil && len(fl.Type.Results.List) != 0) {
					x.refuse(st, "closure with parameters or results")
				}
				x.emit(depth, x.expr(a.Lhs[0])+" = func() {")
				x.block(fl.Body.List, depth+1)
				x.emit(depth, "}")
				lastSet = -1
				continue
			}
		}
		if s, emitIt, ok := x.simple(st); ok {
			if emitIt {
				x.emit(depth, s)
				lastSet = len(x.lines) - 1
				lastVars = s
				if i := strings.Index(s, " = "); i >= 0 {
					lastVars = s[:i]
				}
			}
			continue
		}
		switch v := st.(type) {
		case *ast.IfStmt:
			if ev, suffix, ok := x.errCond(v.Cond); ok && v.Else == nil {
				if v.Init != nil {
					s, _, ok := x.simple(v.Init)
					if !ok {
						x.refuse(v.Init, "if-initialiser")
					}
					x.emit(depth, s)
					lastSet = len(x.lines) - 1
					lastVars = s
					if i := strings.Index(s, " = "); i >= 0 {
						lastVars = s[:i]
					}
				}
				n := len(v.Body.List)
				var ret *ast.ReturnStmt
				if n > 0 {
					ret, _ = v.Body.List[n-1].(*ast.ReturnStmt)
				}
				setsErr := false
				for _, w := range strings.Split(lastVars, ", ") {
					if w == ev {
						setsErr = true
					}
				}
				if ret != nil && lastSet == len(x.lines)-1 && setsErr {
					carries := false
					for _, r := range ret.Results {
						if x.mentions(r, ev) {
							carries = true
						}
					}
					if !carries {
						x.refuse(ret, "error branch does not return the error")
					}
					extra := ""
					if n > 1 {
						sub := &c12n{c: x.c, pkg: x.pkg, fn: x.fn, consts: x.consts}
						sub.block(v.Body.List[:n-1], 0)
						var parts []string
						for _, l := range sub.lines {
							parts = append(parts, strings.TrimSpace(l))
						}
						extra = strings.Join(parts, "; ")
						extra = strings.ReplaceAll(strings.ReplaceAll(extra, "{; ", "{ "), "; }", " }")
						extra = "[" + extra + "]"
					}
					x.lines[lastSet] += suffix + extra
					lastSet = -1
					continue
				}
			}
			if v.Init != nil {
				x.refuse(st, "if with an initialiser that is not an error check")
			}
			x.emit(depth, "if "+x.expr(v.Cond)+" {")
			x.block(v.Body.List, depth+1)
			switch el := v.Else.(type) {
			case nil:
			case *ast.BlockStmt:
				x.emit(depth, "} else {")
				x.block(el.List, depth+1)
			default:
				x.refuse(st, "else-if chain")
			}
			x.emit(depth, "}")
			lastSet = -1
		case *ast.ForStmt:
			h := "for "
			if v.Init != nil || v.Post != nil {
				i, p := "", ""
				if v.Init != nil {
					s, _, ok := x.simple(v.Init)
					if !ok {
						x.refuse(v.Init, "loop initialiser")
					}
					i = s
				}
				if v.Post != nil {
					s, _, ok := x.simple(v.Post)
					if !ok {
						x.refuse(v.Post, "loop post statement")
					}
					p = s
				}
				c := ""
				if v.Cond != nil {
					c = x.expr(v.Cond)
				}
				h += i + "; " + c + "; " + p + " "
			} else if v.Cond != nil {
				h += x.expr(v.Cond) + " "
			}
			x.emit(depth, h+"{")
			x.block(v.Body.List, depth+1)
			x.emit(depth, "}")
			lastSet = -1
		case *ast.RangeStmt:
			k, val := "_", "_"
			if v.Key != nil {
				k = x.expr(v.Key)
			}
			if v.Value != nil {
				val = x.expr(v.Value)
			}
			x.emit(depth, "for "+k+", "+val+" = range "+x.expr(v.X)+" {")
			x.block(v.Body.List, depth+1)
			x.emit(depth, "}")
			lastSet = -1
		case *ast.ReturnStmt:
			x.emit(depth, strings.TrimSpace("return "+x.exprs(v.Results)))
			lastSet = -1
		case *ast.BranchStmt:
			b := v.Tok.String()
			if v.Label != nil {
				b += " " + v.Label.Name
			}
			x.emit(depth, b)
			lastSet = -1
		default:
			x.refuse(st, "statement form not understood")
		}
	}
}

func c12Script(c *Ctx, pkg *Pkg, consts map[string]string, name string, optional bool) []string {
	fd := pkg.Func(name)
	if fd == nil || fd.Body == nil {
		if optional {
			return nil
		}
		c.Refuse("function %s not found in index/", name)
	}
	x := &c12n{c: c, pkg: pkg, fn: name, consts: consts}
	// signature: parameter and result names/types matter for the reading of the body
	sig := strings.Join(strings.Fields(pkg.Src(fd.Type)), " ")
	x.emit(0, strings.Replace(sig, "func", "func "+name, 1))
	x.block(fd.Body.List, 0)
	return x.lines
}

func c12Scripts(c *Ctx, pkg *Pkg) (string, map[string][]string) {
	consts := c12Consts(pkg)
	var b strings.Builder
	all := map[string][]string{}
	def := func(lean, goName, doc string, optional bool) {
		lines := c12Script(c, pkg, consts, goName, optional)
		all[lean] = lines
		b.WriteString("/-- " + doc + " -/\ndef " + lean + " : List String := [")
		for i, l := range lines {
			if i > 0 {
				b.WriteString(",")
			}
			b.WriteString("\n  " + LeanStr(l))
		}
		b.WriteString("]\n\n")
		c.Summary["script_"+lean] = len(lines)
	}
	def("writeTo", "Snapshot.WriteTo", "call script of `(*Snapshot).WriteTo`", false)
	def("recordSegment", "recordSegment", "call script of `recordSegment`", false)
	def("writeVarLenString", "writeVarLenString", "call script of `writeVarLenString`", false)
	def("readFrom", "Snapshot.ReadFrom", "call script of `(*Snapshot).ReadFrom`", false)
	def("readFromVersion1", "Snapshot.readFromVersion1", "call script of `readFromVersion1`", false)
	def("readSegmentSnapshot", "Snapshot.readSegmentSnapshot", "call script of `readSegmentSnapshot`", false)
	def("readVarLenString", "readVarLenString", "call script of `readVarLenString`", false)
	def("readN", "readN", "call script of `readN` (`[]` when the function does not exist)", true)
	def("countHashWriterWrite", "countHashWriter.Write", "`(*countHashWriter).Write`", false)
	def("countHashReaderRead", "countHashReader.Read", "`(*countHashReader).Read`", false)
	def("loadSnapshot", "Writer.loadSnapshot", "call script of `(*Writer).loadSnapshot`", false)
	def("loadSnapshots", "Writer.loadSnapshots", "call script of `(*Writer).loadSnapshots` (the writer's walk over the snapshot files)", false)
	return b.String(), all
}

// c12LengthChecked: is every binary.Uvarint result followed by `if n <= 0 { return …error }`, and does
// loadSnapshot compare the byte count ReadFrom returns with data.Len()-crcWidth? All six or none; else refuse.
func c12LengthChecked(c *Ctx, scripts map[string][]string) bool {
	uv, guarded := 0, 0
	for _, fn := range []string{"readFrom", "readFromVersion1", "readSegmentSnapshot", "readVarLenString"} {
		ls := scripts[fn]
		for i, l := range ls {
			t := strings.TrimSpace(l)
			if !strings.Contains(t, " = binary.Uvarint(") {
				continue
			}
			uv++
			// the second result of Uvarint
			lhs := strings.Split(t[:strings.Index(t, " = ")], ", ")
			nvar := lhs[len(lhs)-1]
			if i+2 < len(ls) && strings.TrimSpace(ls[i+1]) == "if "+nvar+" <= 0 {" &&
				strings.HasPrefix(strings.TrimSpace(ls[i+2]), "return ") && strings.HasSuffix(strings.TrimSpace(ls[i+2]), "error") {
				guarded++
			}
		}
	}
	if uv != 5 {
		c.Refuse("expected 5 binary.Uvarint sites in the decoder, found %d", uv)
	}
	ld := scripts["loadSnapshot"]
	cnt, cmp := false, false
	for i, l := range ld {
		t := strings.TrimSpace(l)
		if strings.HasPrefix(t, "bytesRead, err = snapshot.ReadFrom(dataReader) ?") {
			cnt = true
			if i+1 < len(ld) && strings.TrimSpace(ld[i+1]) == "if bytesRead != int64(data.Len() - 4) {" {
				// the branch must end in `return nil, error`
				for j := i + 2; j < len(ld); j++ {
					u := strings.TrimSpace(ld[j])
					if u == "}" && !strings.HasPrefix(ld[j], "  ") {
						break
					}
					if u == "return nil, error" {
						cmp = true
					}
				}
			}
		}
	}
	switch {
	case guarded == 5 && cnt && cmp:
		return true
	case guarded == 0 && !cnt && !cmp:
		return false
	}
	c.Refuse("length checks are neither all present nor all absent: %d of 5 Uvarint results checked for n <= 0, loadSnapshot keeps the byte count=%v compares it with the body length=%v", guarded, cnt, cmp)
	return false
}

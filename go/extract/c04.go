package main

// Gen layer of C04 (a Reader is an immutable point-in-time view).
//
// What no execution can observe directly — "nothing reachable from a published snapshot is written
// after publication" — is extracted as coarse fact tables from package index (non-test files):
//
//	mutators      every call of an in-place mutating roaring.Bitmap method, with the provenance class of
//	              its receiver (fresh local | param | field:<name> | alias | unknown)
//	fieldWrites   every assignment (=, op=, ++, --, also through an index expression) to a field of
//	              Snapshot / segmentSnapshot outside composite literals, with the class of the base
//	              expression (recv | fresh | param | range(..) | local | path(..))
//	viewMethodCalls  every call of a Snapshot/segmentSnapshot method that (transitively) writes a *view*
//	              field of its receiver (everything except the lock-protected refs / fieldTFRs)
//	refCalls      the AddRef/DecRef/addRef/decRef call sites per function (the transcribed protocol)
//	refTakes         every addRef/AddRef: origin of the pointer and, for a pointer read from shared state, whether
//	                 the read and the addRef share a lock region
//	snapshotCloses   every Close() of a *Snapshot with the chain of enclosing conditions (release sites, one per path)
//	closeThenReuse   methods of postingsIterator that Close() their receiver and then overwrite and keep it
//	poolAccess, recycleCalls, iterSnapshotSets   the facts that keep a recycled postings iterator inside
//	              the snapshot that built it
//
// The proof module BlugeProofs.C04 states `decide` obligations `… ⊆ allowed` over these tables.
// Types are resolved by a small syntactic inference (declared types, := from constructors, struct
// fields, range variables); a receiver whose type cannot be resolved is reported with class
// "unknown"/type "?" when its method or field NAME is one we care about, which breaks the obligation
// (never a silent pass).

import (
	"fmt"
	"go/ast"
	"go/token"
	"sort"
	"strings"
)

func init() { Register("C04", genC04) }

// in-place mutators of *roaring.Bitmap (methods that modify their receiver)
var c04RoaringMutators = map[string]bool{
	"Or": true, "And": true, "AndNot": true, "Xor": true, "Add": true, "AddMany": true, "AddRange": true,
	"AddInt": true, "Remove": true, "RemoveRange": true, "Flip": true, "FlipInt": true, "Clear": true,
	"RunOptimize": true, "RemoveRunCompression": true, "CheckedAdd": true, "CheckedRemove": true,
	"ReadFrom": true, "FromBuffer": true, "FromUnsafeBytes": true, "FromBase64": true, "FromDense": true,
	"UnmarshalBinary": true, "SetCopyOnWrite": true, "AddOffset": true, "FrozenView": true,
	"OrCardinality": false,
}

const c04BitmapT = "*roaring.Bitmap"

type c04fn struct {
	name   string // "Recv.Name" or "Name"
	decl   *ast.FuncDecl
	recv   string            // receiver identifier ("" if none)
	params map[string]bool   // parameter identifiers (incl. closure parameters)
	types  map[string]string // identifier -> type string ("" unknown, "!" conflicting)
	// every value assigned to a local identifier (nil entry = declared without value)
	assigned map[string][]ast.Expr
	ranged   map[string]ast.Expr // range variable -> ranged expression
}

type c04 struct {
	ctx     *Ctx
	pkg     *Pkg
	structs map[string]map[string]string // struct name -> field -> type string
	funcs   map[string]*ast.FuncDecl     // "Recv.Name"/"Name" -> decl
	imports map[string]bool              // imported package identifiers
}

func c04TypeStr(p *Pkg, e ast.Expr) string {
	if e == nil {
		return ""
	}
	return strings.ReplaceAll(p.Src(e), " ", "")
}

func c04StripPtr(t string) string { return strings.TrimPrefix(t, "*") }

func (g *c04) collect() {
	g.structs = map[string]map[string]string{}
	g.funcs = map[string]*ast.FuncDecl{}
	g.imports = map[string]bool{}
	for _, f := range g.pkg.Files {
		for _, im := range f.Imports {
			path := strings.Trim(im.Path.Value, "\"")
			name := path[strings.LastIndex(path, "/")+1:]
			if im.Name != nil {
				name = im.Name.Name
			}
			g.imports[name] = true
		}
		for _, d := range f.Decls {
			switch d := d.(type) {
			case *ast.GenDecl:
				for _, sp := range d.Specs {
					ts, ok := sp.(*ast.TypeSpec)
					if !ok {
						continue
					}
					st, ok := ts.Type.(*ast.StructType)
					if !ok {
						continue
					}
					fs := map[string]string{}
					for _, fl := range st.Fields.List {
						t := c04TypeStr(g.pkg, fl.Type)
						if len(fl.Names) == 0 { // embedded
							n := c04StripPtr(t)
							if i := strings.LastIndex(n, "."); i >= 0 {
								n = n[i+1:]
							}
							fs[n] = t
						}
						for _, n := range fl.Names {
							fs[n.Name] = t
						}
					}
					g.structs[ts.Name.Name] = fs
				}
			case *ast.FuncDecl:
				g.funcs[c04FuncName(d)] = d
			}
		}
	}
}

func c04FuncName(fd *ast.FuncDecl) string {
	if fd.Recv != nil && len(fd.Recv.List) == 1 {
		t := fd.Recv.List[0].Type
		if s, ok := t.(*ast.StarExpr); ok {
			t = s.X
		}
		if id, ok := t.(*ast.Ident); ok {
			return id.Name + "." + fd.Name.Name
		}
	}
	return fd.Name.Name
}

func (g *c04) setType(fn *c04fn, name, t string) {
	if name == "_" || name == "" {
		return
	}
	old, ok := fn.types[name]
	switch {
	case !ok || old == "":
		fn.types[name] = t
	case t == "" || t == old:
	default:
		fn.types[name] = "!"
	}
}

// c04ElemType of a slice/array/map type string
func c04ElemType(t string) (key, elem string) {
	switch {
	case strings.HasPrefix(t, "[]"):
		return "int", t[2:]
	case strings.HasPrefix(t, "map["):
		depth := 0
		for i := 3; i < len(t); i++ {
			switch t[i] {
			case '[':
				depth++
			case ']':
				depth--
				if depth == 0 {
					return t[4:i], t[i+1:]
				}
			}
		}
	case strings.HasPrefix(t, "["):
		if i := strings.Index(t, "]"); i >= 0 {
			return "int", t[i+1:]
		}
	}
	return "", ""
}

// typeOf infers the static type of an expression as a string; "" when unknown.
func (g *c04) typeOf(fn *c04fn, e ast.Expr) string {
	switch e := e.(type) {
	case *ast.ParenExpr:
		return g.typeOf(fn, e.X)
	case *ast.Ident:
		if t, ok := fn.types[e.Name]; ok && t != "!" {
			return t
		}
		return ""
	case *ast.StarExpr:
		return c04StripPtr(g.typeOf(fn, e.X))
	case *ast.UnaryExpr:
		if e.Op == token.AND {
			if t := g.typeOf(fn, e.X); t != "" {
				return "*" + t
			}
		}
		if e.Op == token.ARROW { // receive from a channel
			t := g.typeOf(fn, e.X)
			for _, pre := range []string{"<-chan", "chan<-", "chan"} {
				if strings.HasPrefix(t, pre) {
					return strings.TrimPrefix(t, pre)
				}
			}
		}
		return ""
	case *ast.CompositeLit:
		return c04TypeStr(g.pkg, e.Type)
	case *ast.SelectorExpr:
		if id, ok := e.X.(*ast.Ident); ok && g.imports[id.Name] {
			if _, shadow := fn.types[id.Name]; !shadow {
				return "" // a package-level name of another package
			}
		}
		bt := c04StripPtr(g.typeOf(fn, e.X))
		if fs, ok := g.structs[bt]; ok {
			if t, ok := fs[e.Sel.Name]; ok {
				return t
			}
			// promoted through an embedded struct of this package
			for en, et := range fs {
				if sub, ok := g.structs[c04StripPtr(et)]; ok && en == c04StripPtr(et) {
					if t, ok := sub[e.Sel.Name]; ok {
						return t
					}
				}
			}
		}
		return ""
	case *ast.IndexExpr:
		_, el := c04ElemType(g.typeOf(fn, e.X))
		return el
	case *ast.SliceExpr:
		return g.typeOf(fn, e.X)
	case *ast.CallExpr:
		switch f := e.Fun.(type) {
		case *ast.Ident:
			switch f.Name {
			case "make":
				if len(e.Args) > 0 {
					return c04TypeStr(g.pkg, e.Args[0])
				}
			case "new":
				if len(e.Args) > 0 {
					return "*" + c04TypeStr(g.pkg, e.Args[0])
				}
			case "append":
				if len(e.Args) > 0 {
					return g.typeOf(fn, e.Args[0])
				}
			}
			if fd, ok := g.funcs[f.Name]; ok {
				return c04FirstResult(g.pkg, fd)
			}
		case *ast.SelectorExpr:
			if id, ok := f.X.(*ast.Ident); ok && id.Name == "roaring" && g.imports["roaring"] {
				return c04BitmapT // every roaring.<Func> used here returns a new *roaring.Bitmap
			}
			rt := c04StripPtr(g.typeOf(fn, f.X))
			if rt == "roaring.Bitmap" && f.Sel.Name == "Clone" {
				return c04BitmapT
			}
			if fd, ok := g.funcs[rt+"."+f.Sel.Name]; ok {
				return c04FirstResult(g.pkg, fd)
			}
		}
	}
	return ""
}

func c04FirstResult(p *Pkg, fd *ast.FuncDecl) string {
	if fd.Type.Results == nil || len(fd.Type.Results.List) == 0 {
		return ""
	}
	return c04TypeStr(p, fd.Type.Results.List[0].Type)
}

func (g *c04) resultTypes(fn *c04fn, e ast.Expr) []string {
	if c, ok := e.(*ast.CallExpr); ok {
		var fd *ast.FuncDecl
		switch f := c.Fun.(type) {
		case *ast.Ident:
			fd = g.funcs[f.Name]
		case *ast.SelectorExpr:
			fd = g.funcs[c04StripPtr(g.typeOf(fn, f.X))+"."+f.Sel.Name]
		}
		if fd != nil && fd.Type.Results != nil {
			var out []string
			for _, r := range fd.Type.Results.List {
				n := len(r.Names)
				if n == 0 {
					n = 1
				}
				for i := 0; i < n; i++ {
					out = append(out, c04TypeStr(g.pkg, r.Type))
				}
			}
			return out
		}
	}
	return nil
}

func (g *c04) addFields(fn *c04fn, fl *ast.FieldList, isParam bool) {
	if fl == nil {
		return
	}
	for _, f := range fl.List {
		for _, n := range f.Names {
			g.setType(fn, n.Name, c04TypeStr(g.pkg, f.Type))
			if isParam {
				fn.params[n.Name] = true
			}
		}
	}
}

// analyse builds the flat environment of one function (closures included; shadowing with a
// different type makes the name "conflicting" = unknown). Two passes so that uses before the
// textual position of a later := still resolve.
func (g *c04) analyse(fd *ast.FuncDecl) *c04fn {
	fn := &c04fn{name: c04FuncName(fd), decl: fd, params: map[string]bool{}, types: map[string]string{},
		assigned: map[string][]ast.Expr{}, ranged: map[string]ast.Expr{}}
	if fd.Recv != nil && len(fd.Recv.List) == 1 && len(fd.Recv.List[0].Names) == 1 {
		fn.recv = fd.Recv.List[0].Names[0].Name
		g.setType(fn, fn.recv, c04TypeStr(g.pkg, fd.Recv.List[0].Type))
	}
	g.addFields(fn, fd.Type.Params, true)
	g.addFields(fn, fd.Type.Results, false)
	if fd.Body == nil {
		return fn
	}
	for pass := 0; pass < 2; pass++ {
		ast.Inspect(fd.Body, func(n ast.Node) bool {
			switch n := n.(type) {
			case *ast.FuncLit:
				g.addFields(fn, n.Type.Params, true)
			case *ast.DeclStmt:
				if gd, ok := n.Decl.(*ast.GenDecl); ok && gd.Tok == token.VAR {
					for _, sp := range gd.Specs {
						vs := sp.(*ast.ValueSpec)
						for i, nm := range vs.Names {
							t := c04TypeStr(g.pkg, vs.Type)
							var val ast.Expr
							if i < len(vs.Values) {
								val = vs.Values[i]
								if t == "" {
									t = g.typeOf(fn, val)
								}
							}
							g.setType(fn, nm.Name, t)
							if pass == 0 {
								fn.assigned[nm.Name] = append(fn.assigned[nm.Name], val)
							}
						}
					}
				}
			case *ast.AssignStmt:
				var multi []string
				if len(n.Rhs) == 1 && len(n.Lhs) > 1 {
					multi = g.resultTypes(fn, n.Rhs[0])
				}
				for i, l := range n.Lhs {
					id, ok := l.(*ast.Ident)
					if !ok {
						continue
					}
					var t string
					var val ast.Expr
					switch {
					case len(n.Rhs) == len(n.Lhs):
						val = n.Rhs[i]
						t = g.typeOf(fn, val)
					case multi != nil && i < len(multi):
						t = multi[i]
						val = n.Rhs[0]
					default:
						val = n.Rhs[0]
					}
					if n.Tok == token.DEFINE || fn.types[id.Name] == "" {
						g.setType(fn, id.Name, t)
					}
					if pass == 0 {
						fn.assigned[id.Name] = append(fn.assigned[id.Name], val)
					}
				}
			case *ast.RangeStmt:
				k, el := c04ElemType(g.typeOf(fn, n.X))
				if id, ok := n.Key.(*ast.Ident); ok && n.Tok == token.DEFINE {
					g.setType(fn, id.Name, k)
					fn.ranged[id.Name] = n.X
				}
				if id, ok := n.Value.(*ast.Ident); ok && n.Tok == token.DEFINE {
					g.setType(fn, id.Name, el)
					fn.ranged[id.Name] = n.X
				}
			}
			return true
		})
	}
	return fn
}

func c04RootIdent(e ast.Expr) *ast.Ident {
	for {
		switch x := e.(type) {
		case *ast.Ident:
			return x
		case *ast.SelectorExpr:
			e = x.X
		case *ast.IndexExpr:
			e = x.X
		case *ast.SliceExpr:
			e = x.X
		case *ast.ParenExpr:
			e = x.X
		case *ast.StarExpr:
			e = x.X
		case *ast.CallExpr:
			e = x.Fun
		default:
			return nil
		}
	}
}

// freshBitmapExpr: an expression that yields a bitmap nobody else can see yet
func (g *c04) freshBitmapExpr(fn *c04fn, e ast.Expr) bool {
	if e == nil {
		return true // declared without a value (nil until assigned)
	}
	if id, ok := e.(*ast.Ident); ok && id.Name == "nil" {
		return true
	}
	c, ok := e.(*ast.CallExpr)
	if !ok {
		return false
	}
	if s, ok := c.Fun.(*ast.SelectorExpr); ok {
		if id, ok := s.X.(*ast.Ident); ok && id.Name == "roaring" && g.imports["roaring"] {
			return true
		}
		if s.Sel.Name == "Clone" && c04StripPtr(g.typeOf(fn, s.X)) == "roaring.Bitmap" {
			return true
		}
	}
	return false
}

func c04FreshStructExpr(e ast.Expr) bool {
	switch x := e.(type) {
	case *ast.UnaryExpr:
		_, ok := x.X.(*ast.CompositeLit)
		return ok && x.Op == token.AND
	case *ast.CompositeLit:
		return true
	case *ast.CallExpr:
		if id, ok := x.Fun.(*ast.Ident); ok && id.Name == "new" {
			return true
		}
	}
	return false
}

// bitmapClass: provenance of the receiver of a mutator call
func (g *c04) bitmapClass(fn *c04fn, e ast.Expr) string {
	switch x := e.(type) {
	case *ast.ParenExpr:
		return g.bitmapClass(fn, x.X)
	case *ast.Ident:
		if fn.params[x.Name] || x.Name == fn.recv {
			return "param"
		}
		vals, ok := fn.assigned[x.Name]
		if !ok {
			return "unknown"
		}
		for _, v := range vals {
			if !g.freshBitmapExpr(fn, v) {
				return "alias"
			}
		}
		return "fresh"
	case *ast.SelectorExpr:
		return "field:" + x.Sel.Name
	case *ast.IndexExpr:
		return "elem:" + g.bitmapClass(fn, x.X)
	case *ast.CallExpr:
		if g.freshBitmapExpr(fn, x) {
			return "fresh"
		}
		return "call"
	}
	return "unknown"
}

// baseClass: provenance of the object whose field is assigned / whose method is called
func (g *c04) baseClass(fn *c04fn, e ast.Expr) string {
	switch x := e.(type) {
	case *ast.ParenExpr:
		return g.baseClass(fn, x.X)
	case *ast.StarExpr:
		return g.baseClass(fn, x.X)
	case *ast.Ident:
		if x.Name == fn.recv {
			return "recv"
		}
		if fn.params[x.Name] {
			return "param"
		}
		if r, ok := fn.ranged[x.Name]; ok {
			if id := c04RootIdent(r); id != nil {
				return "range(" + g.baseClass(fn, id) + ")"
			}
			return "range(?)"
		}
		vals, ok := fn.assigned[x.Name]
		if !ok || len(vals) == 0 {
			return "local"
		}
		for _, v := range vals {
			if v == nil || !c04FreshStructExpr(v) {
				return "local"
			}
		}
		return "fresh"
	default:
		if id := c04RootIdent(e); id != nil {
			return "path(" + g.baseClass(fn, id) + ")"
		}
	}
	return "path(?)"
}

var c04ViewTypes = map[string]bool{"Snapshot": true, "segmentSnapshot": true}

// fields that are mutable by design and lock-protected (Snapshot.m / Snapshot.m2)
var c04ProtectedFields = map[string]bool{"refs": true, "fieldTFRs": true, "m": true, "m2": true}

func c04StripIndex(e ast.Expr) ast.Expr {
	for {
		switch x := e.(type) {
		case *ast.IndexExpr:
			e = x.X
		case *ast.ParenExpr:
			e = x.X
		case *ast.SliceExpr:
			e = x.X
		default:
			return e
		}
	}
}

type c04Row []string

func c04DedupSort(rows []c04Row) []c04Row {
	seen := map[string]bool{}
	var out []c04Row
	for _, r := range rows {
		k := strings.Join(r, "\x00")
		if !seen[k] {
			seen[k] = true
			out = append(out, r)
		}
	}
	sort.Slice(out, func(i, j int) bool { return strings.Join(out[i], "\x00") < strings.Join(out[j], "\x00") })
	return out
}

func c04LeanTable(name, doc string, arity int, rows []c04Row) string {
	var b strings.Builder
	ty := strings.Repeat("String × ", arity-1) + "String"
	fmt.Fprintf(&b, "/-- %s -/\ndef %s : List (%s) := [", doc, name, ty)
	for i, r := range rows {
		if i > 0 {
			b.WriteString(",")
		}
		b.WriteString("\n  (")
		for j, c := range r {
			if j > 0 {
				b.WriteString(", ")
			}
			b.WriteString(LeanStr(c))
		}
		b.WriteString(")")
	}
	b.WriteString("]\n\n")
	return b.String()
}

func genC04(ctx *Ctx) {
	g := &c04{ctx: ctx, pkg: ctx.ParseDir("index")}
	g.collect()
	for _, need := range []string{"Snapshot", "segmentSnapshot", "postingsIterator"} {
		if _, ok := g.structs[need]; !ok {
			ctx.Refuse("struct %s not found in package index", need)
		}
	}
	if g.structs["segmentSnapshot"]["deleted"] != c04BitmapT {
		ctx.Refuse("segmentSnapshot.deleted is %q, expected %s", g.structs["segmentSnapshot"]["deleted"], c04BitmapT)
	}
	if !g.imports["roaring"] {
		ctx.Refuse("package index no longer imports roaring under that name")
	}
	for _, need := range []string{"Snapshot.allocPostingsIterator", "Snapshot.recyclePostingsIterator", "postingsIterator.Close",
		"Snapshot.PostingsIterator", "Writer.introduceSegment", "Writer.introduceMerge", "Writer.introducePersist", "Writer.replaceRoot"} {
		if _, ok := g.funcs[need]; !ok {
			ctx.Refuse("function %s not found", need)
		}
	}
	viewFieldNames := map[string]bool{}
	for t := range c04ViewTypes {
		for f := range g.structs[t] {
			viewFieldNames[f] = true
		}
	}

	var names []string
	for n := range g.funcs {
		names = append(names, n)
	}
	sort.Strings(names)
	fns := map[string]*c04fn{}
	for _, n := range names {
		fns[n] = g.analyse(g.funcs[n])
	}

	var mutators, mutatorSites, fieldWrites, poolAccess, recycleCalls, iterSets []c04Row
	refCount := map[string]int{} // "function\x00method" -> number of call sites of AddRef/DecRef/addRef/decRef
	// methods of Snapshot/segmentSnapshot that write a view field of their receiver (seed of the closure)
	viewWriters := map[string]bool{}

	fieldWrite := func(fn *c04fn, lhs ast.Expr) {
		sel, ok := c04StripIndex(lhs).(*ast.SelectorExpr)
		if !ok {
			return
		}
		bt := c04StripPtr(g.typeOf(fn, sel.X))
		if bt == "postingsIterator" && sel.Sel.Name == "snapshot" {
			return // handled by iterSnapshotSets
		}
		switch {
		case c04ViewTypes[bt]:
		case bt == "" && viewFieldNames[sel.Sel.Name]:
			// could be a Snapshot/segmentSnapshot reached through an expression we cannot type
			if id, ok := sel.X.(*ast.Ident); ok && g.imports[id.Name] {
				return
			}
			bt = "?"
		default:
			return
		}
		cls := g.baseClass(fn, sel.X)
		fieldWrites = append(fieldWrites, c04Row{fn.name, bt, sel.Sel.Name, cls})
		if cls == "recv" && !c04ProtectedFields[sel.Sel.Name] {
			viewWriters[fn.name] = true
		}
	}

	for _, n := range names {
		fn := fns[n]
		if fn.decl.Body == nil {
			continue
		}
		ast.Inspect(fn.decl.Body, func(nd ast.Node) bool {
			switch x := nd.(type) {
			case *ast.AssignStmt:
				for _, l := range x.Lhs {
					fieldWrite(fn, l)
					if sel, ok := l.(*ast.SelectorExpr); ok && sel.Sel.Name == "snapshot" &&
						c04StripPtr(g.typeOf(fn, sel.X)) == "postingsIterator" && len(x.Rhs) == len(x.Lhs) {
						for i := range x.Lhs {
							if x.Lhs[i] == l {
								iterSets = append(iterSets, c04Row{fn.name, g.baseClass(fn, x.Rhs[i])})
							}
						}
					}
				}
			case *ast.IncDecStmt:
				fieldWrite(fn, x.X)
			case *ast.CompositeLit:
				// composite literal of a postingsIterator: snapshot: <expr>
				if c04TypeStr(g.pkg, x.Type) == "postingsIterator" {
					for _, el := range x.Elts {
						kv, ok := el.(*ast.KeyValueExpr)
						if !ok {
							ctx.Refuse("positional postingsIterator literal in %s", fn.name)
						}
						if id, ok := kv.Key.(*ast.Ident); ok && id.Name == "snapshot" {
							iterSets = append(iterSets, c04Row{fn.name, g.baseClass(fn, kv.Value)})
						}
					}
				}
			case *ast.SelectorExpr:
				if x.Sel.Name == "fieldTFRs" {
					poolAccess = append(poolAccess, c04Row{fn.name, g.baseClass(fn, x.X)})
				}
			case *ast.CallExpr:
				sel, ok := x.Fun.(*ast.SelectorExpr)
				if !ok {
					return true
				}
				switch sel.Sel.Name {
				case "AddRef", "DecRef", "addRef", "decRef":
					refCount[fn.name+"\x00"+sel.Sel.Name]++
				}
				if sel.Sel.Name == "recyclePostingsIterator" && len(x.Args) == 1 {
					recycleCalls = append(recycleCalls, c04Row{fn.name, g.pkg.Src(sel.X), g.pkg.Src(x.Args[0])})
				}
				if want, known := c04RoaringMutators[sel.Sel.Name]; known && want {
					if id, ok := sel.X.(*ast.Ident); ok && g.imports[id.Name] {
						if _, shadow := fn.types[id.Name]; !shadow {
							return true // package function (roaring.Or, os.Remove …): not a method call
						}
					}
					rt := g.typeOf(fn, sel.X)
					switch {
					case c04StripPtr(rt) == "roaring.Bitmap":
						cls := g.bitmapClass(fn, sel.X)
						mutators = append(mutators, c04Row{fn.name, sel.Sel.Name, cls})
						mutatorSites = append(mutatorSites, c04Row{fn.name, sel.Sel.Name, g.pkg.Src(sel.X), cls})
					case rt == "":
						mutators = append(mutators, c04Row{fn.name, sel.Sel.Name, "unknown"})
						mutatorSites = append(mutatorSites, c04Row{fn.name, sel.Sel.Name, g.pkg.Src(sel.X), "unknown"})
					}
				}
			}
			return true
		})
	}

	// close-then-reuse: a method that calls Close() on its own receiver and also overwrites `*recv` keeps
	// using an object it has handed to the recycling pool (postingsIterator.Advance, backward seek)
	var closeReuse []c04Row
	for _, n := range names {
		fn := fns[n]
		if fn.decl.Body == nil || fn.recv == "" {
			continue
		}
		closes, overwrites := false, false
		ast.Inspect(fn.decl.Body, func(nd ast.Node) bool {
			switch x := nd.(type) {
			case *ast.CallExpr:
				if sel, ok := x.Fun.(*ast.SelectorExpr); ok && sel.Sel.Name == "Close" {
					if id, ok := sel.X.(*ast.Ident); ok && id.Name == fn.recv {
						closes = true
					}
				}
			case *ast.AssignStmt:
				for _, l := range x.Lhs {
					if st, ok := l.(*ast.StarExpr); ok {
						if id, ok := st.X.(*ast.Ident); ok && id.Name == fn.recv {
							overwrites = true
						}
					}
				}
			}
			return true
		})
		if closes && overwrites && c04StripPtr(fn.types[fn.recv]) == "postingsIterator" {
			closeReuse = append(closeReuse, c04Row{fn.name, fn.recv})
		}
	}
	closeReuse = c04DedupSort(closeReuse)

	// every place where a reference is TAKEN (addRef / AddRef): where does the pointer come from, and — when it is
	// read from shared state (a field path rooted at the receiver or a parameter, e.g. s.root) — does the
	// addRef lie inside the same Lock/RLock … Unlock/RUnlock region as that read? (position based: a region runs
	// from a Lock call to the next non-deferred Unlock of the same mutex expression, or to the end of the
	// function when the Unlock is deferred.) This is what makes "read root + addRef" one atomic event.
	var refTakes []c04Row
	for _, n := range names {
		fn := fns[n]
		if fn.decl.Body == nil {
			continue
		}
		type lk struct {
			key      string
			pos      token.Pos
			deferred bool
		}
		var locks, unlocks []lk
		type asg struct {
			pos token.Pos
			rhs ast.Expr
		}
		assigns := map[string][]asg{}
		type take struct {
			pos  token.Pos
			sel  *ast.SelectorExpr
			meth string
		}
		var takes []take
		var stack []ast.Node
		ast.Inspect(fn.decl.Body, func(nd ast.Node) bool {
			if nd == nil {
				stack = stack[:len(stack)-1]
				return true
			}
			stack = append(stack, nd)
			switch x := nd.(type) {
			case *ast.AssignStmt:
				if len(x.Lhs) == len(x.Rhs) {
					for i, l := range x.Lhs {
						if id, ok := l.(*ast.Ident); ok {
							assigns[id.Name] = append(assigns[id.Name], asg{x.Pos(), x.Rhs[i]})
						}
					}
				} else if len(x.Rhs) == 1 {
					for _, l := range x.Lhs {
						if id, ok := l.(*ast.Ident); ok {
							assigns[id.Name] = append(assigns[id.Name], asg{x.Pos(), x.Rhs[0]})
						}
					}
				}
			case *ast.ValueSpec:
				for i, nm := range x.Names {
					if i < len(x.Values) {
						assigns[nm.Name] = append(assigns[nm.Name], asg{x.Pos(), x.Values[i]})
					}
				}
			case *ast.CallExpr:
				sel, ok := x.Fun.(*ast.SelectorExpr)
				if !ok {
					return true
				}
				deferred := false
				for _, a := range stack {
					if _, ok := a.(*ast.DeferStmt); ok {
						deferred = true
					}
				}
				switch sel.Sel.Name {
				case "Lock", "RLock":
					locks = append(locks, lk{g.pkg.Src(sel.X), x.Pos(), deferred})
				case "Unlock", "RUnlock":
					unlocks = append(unlocks, lk{g.pkg.Src(sel.X), x.Pos(), deferred})
				case "addRef", "AddRef":
					takes = append(takes, take{x.Pos(), sel, sel.Sel.Name})
				}
			}
			return true
		})
		region := func(a, b token.Pos) string { // the mutex whose region contains both positions, "" if none
			for _, l := range locks {
				if l.deferred || l.pos > a || l.pos > b {
					continue
				}
				end := token.Pos(0)
				for _, u := range unlocks {
					if u.key != l.key || u.pos < l.pos {
						continue
					}
					if u.deferred {
						end = fn.decl.End()
						break
					}
					if end == 0 || u.pos < end {
						end = u.pos
					}
				}
				if end != 0 && a < end && b < end {
					return l.key
				}
			}
			return ""
		}
		sharedPath := func(e ast.Expr) bool { // a field path (no call) rooted at the receiver or a parameter
			switch e.(type) {
			case *ast.SelectorExpr, *ast.IndexExpr:
			default:
				return false
			}
			isCall := false
			ast.Inspect(e, func(n ast.Node) bool {
				if _, ok := n.(*ast.CallExpr); ok {
					isCall = true
				}
				return true
			})
			id := c04RootIdent(e)
			return !isCall && id != nil && (id.Name == fn.recv || fn.params[id.Name])
		}
		for _, t := range takes {
			src, status := "", "-"
			readPos := t.pos
			switch x := t.sel.X.(type) {
			case *ast.Ident:
				var last *asg
				for i := range assigns[x.Name] {
					a := &assigns[x.Name][i]
					if a.pos < t.pos && (last == nil || a.pos > last.pos) {
						last = a
					}
				}
				switch {
				case last == nil:
					src = "param-or-unassigned"
				case sharedPath(last.rhs):
					src = "shared:" + g.pkg.Src(last.rhs)
					readPos = last.pos
				case c04FreshStructExpr(last.rhs):
					src = "fresh"
				default:
					if c, ok := last.rhs.(*ast.CallExpr); ok {
						src = "call:" + g.pkg.Src(c.Fun)
					} else {
						src = "other"
					}
				}
			default:
				if sharedPath(t.sel.X) {
					src = "shared:" + g.pkg.Src(t.sel.X)
				} else {
					src = g.baseClass(fn, t.sel.X)
				}
			}
			if strings.HasPrefix(src, "shared:") {
				if k := region(readPos, t.pos); k != "" {
					status = "locked:" + k
				} else {
					status = "UNLOCKED"
				}
			}
			refTakes = append(refTakes, c04Row{fn.name, t.meth, g.pkg.Src(t.sel.X), src, status})
		}
	}
	sort.SliceStable(refTakes, func(i, j int) bool { return refTakes[i][0] < refTakes[j][0] })

	// every Close() of a *Snapshot held by a local variable, with the chain of enclosing conditions: the
	// release sites of the temporary references (events `release`), one per path
	var snapCloses []c04Row
	for _, n := range names {
		fn := fns[n]
		if fn.decl.Body == nil {
			continue
		}
		var stack []ast.Node
		ast.Inspect(fn.decl.Body, func(nd ast.Node) bool {
			if nd == nil {
				stack = stack[:len(stack)-1]
				return true
			}
			stack = append(stack, nd)
			call, ok := nd.(*ast.CallExpr)
			if !ok {
				return true
			}
			sel, ok := call.Fun.(*ast.SelectorExpr)
			if !ok || sel.Sel.Name != "Close" || len(call.Args) != 0 || c04StripPtr(g.typeOf(fn, sel.X)) != "Snapshot" {
				return true
			}
			var chain []string
			for k := 0; k+1 < len(stack); k++ {
				switch a := stack[k].(type) {
				case *ast.IfStmt:
					c := strings.ReplaceAll(g.pkg.Src(a.Cond), " ", "")
					if stack[k+1] == ast.Node(a.Body) {
						chain = append(chain, c)
					} else if a.Else != nil && stack[k+1] == a.Else {
						chain = append(chain, "!("+c+")")
					}
				case *ast.CaseClause:
					if len(a.List) > 0 {
						chain = append(chain, "case:"+strings.ReplaceAll(g.pkg.Src(a.List[0]), " ", ""))
					} else {
						chain = append(chain, "default")
					}
				case *ast.CommClause:
					if a.Comm != nil {
						chain = append(chain, "select:"+strings.ReplaceAll(g.pkg.Src(a.Comm), " ", ""))
					} else {
						chain = append(chain, "select:default")
					}
				case *ast.DeferStmt:
					chain = append(chain, "defer")
				}
			}
			snapCloses = append(snapCloses, c04Row{fn.name, g.pkg.Src(sel.X), strings.Join(chain, " > ")})
			return true
		})
	}
	sort.SliceStable(snapCloses, func(i, j int) bool { return snapCloses[i][0] < snapCloses[j][0] })

	// closure: a method that calls a view-writing method on its own receiver is view-writing too
	for changed := true; changed; {
		changed = false
		for _, n := range names {
			fn := fns[n]
			if viewWriters[n] || fn.decl.Body == nil || fn.recv == "" {
				continue
			}
			rt := c04StripPtr(fn.types[fn.recv])
			ast.Inspect(fn.decl.Body, func(nd ast.Node) bool {
				if c, ok := nd.(*ast.CallExpr); ok {
					if sel, ok := c.Fun.(*ast.SelectorExpr); ok {
						if id, ok := sel.X.(*ast.Ident); ok && id.Name == fn.recv && viewWriters[rt+"."+sel.Sel.Name] {
							viewWriters[n] = true
							changed = true
						}
					}
				}
				return true
			})
		}
	}
	var viewCalls []c04Row
	for _, n := range names {
		fn := fns[n]
		if fn.decl.Body == nil {
			continue
		}
		ast.Inspect(fn.decl.Body, func(nd ast.Node) bool {
			c, ok := nd.(*ast.CallExpr)
			if !ok {
				return true
			}
			sel, ok := c.Fun.(*ast.SelectorExpr)
			if !ok {
				return true
			}
			rt := c04StripPtr(g.typeOf(fn, sel.X))
			switch {
			case c04ViewTypes[rt] && viewWriters[rt+"."+sel.Sel.Name]:
				viewCalls = append(viewCalls, c04Row{fn.name, rt + "." + sel.Sel.Name, g.baseClass(fn, sel.X)})
			case rt == "":
				for t := range c04ViewTypes {
					if viewWriters[t+"."+sel.Sel.Name] {
						if id, ok := sel.X.(*ast.Ident); ok && g.imports[id.Name] {
							if _, shadow := fn.types[id.Name]; !shadow {
								continue
							}
						}
						viewCalls = append(viewCalls, c04Row{fn.name, "?." + sel.Sel.Name, g.baseClass(fn, sel.X)})
					}
				}
			}
			return true
		})
	}

	var refCalls []c04Row
	for k, n := range refCount {
		f := strings.SplitN(k, "\x00", 2)
		refCalls = append(refCalls, c04Row{f[0], f[1], fmt.Sprint(n)})
	}
	refCalls = c04DedupSort(refCalls)
	mutators = c04DedupSort(mutators)
	mutatorSites = c04DedupSort(mutatorSites)
	fieldWrites = c04DedupSort(fieldWrites)
	viewCalls = c04DedupSort(viewCalls)
	poolAccess = c04DedupSort(poolAccess)
	recycleCalls = c04DedupSort(recycleCalls)
	iterSets = c04DedupSort(iterSets)
	if len(mutators) == 0 || len(fieldWrites) == 0 || len(poolAccess) == 0 || len(recycleCalls) == 0 {
		ctx.Refuse("an expected table is empty (mutators=%d fieldWrites=%d poolAccess=%d recycleCalls=%d): the anchors moved",
			len(mutators), len(fieldWrites), len(poolAccess), len(recycleCalls))
	}

	var b strings.Builder
	b.WriteString("/-! GENERATED by verif/go/extract (c04.go) from /repo/index — do not edit.\n")
	b.WriteString("Fact tables for C04: in-place bitmap mutators, writes to Snapshot/segmentSnapshot fields,\n")
	b.WriteString("calls of receiver-mutating view methods, postings-iterator pool accesses. -/\n")
	b.WriteString("namespace BlugeGen.C04\n\n")
	b.WriteString(c04LeanTable("mutators", "(function, mutating roaring method, provenance class of the receiver)", 3, mutators))
	b.WriteString(c04LeanTable("mutatorSites", "the same with the receiver expression (information only)", 4, mutatorSites))
	b.WriteString(c04LeanTable("fieldWrites", "(function, struct, field, class of the base object) — assignments outside composite literals", 4, fieldWrites))
	b.WriteString(c04LeanTable("viewMethodCalls", "(caller, method that writes view fields of its receiver, class of the receiver at the call)", 3, viewCalls))
	b.WriteString(c04LeanTable("refCalls", "(function, reference-count method, number of call sites) for AddRef/DecRef (wrappers) and addRef/decRef (snapshots)", 3, refCalls))
	b.WriteString(c04LeanTable("refTakes", "(function, addRef/AddRef, receiver, where the pointer comes from, lock region shared by the read of a shared pointer and the addRef)", 5, refTakes))
	b.WriteString(c04LeanTable("snapshotCloses", "(function, snapshot expression, chain of enclosing conditions) for every Close() of a *Snapshot, in source order per function", 3, snapCloses))
	b.WriteString(c04LeanTable("poolAccess", "(function, class of X) for every expression X.fieldTFRs", 2, poolAccess))
	b.WriteString(c04LeanTable("recycleCalls", "(function, receiver expression, argument) of every call of recyclePostingsIterator", 3, recycleCalls))
	b.WriteString(c04LeanTable("closeThenReuse", "(method of postingsIterator, receiver) that calls recv.Close() and overwrites *recv: the object is recycled while its user goes on using it", 2, closeReuse))
	b.WriteString(c04LeanTable("iterSnapshotSets", "(function, class of the value) for every write of postingsIterator.snapshot", 2, iterSets))
	b.WriteString("end BlugeGen.C04\n")
	ctx.WriteLean("C04", b.String())
	ctx.Summary["mutators"] = len(mutators)
	ctx.Summary["fieldWrites"] = len(fieldWrites)
	ctx.Summary["viewMethodCalls"] = len(viewCalls)
	ctx.Summary["poolAccess"] = len(poolAccess)
	ctx.Summary["refCalls"] = len(refCalls)
	ctx.Summary["snapshotCloses"] = len(snapCloses)
	ctx.Summary["refTakes"] = len(refTakes)
	ctx.Summary["closeThenReuse"] = len(closeReuse)
	ctx.Summary["recycleCalls"] = len(recycleCalls)
	ctx.Summary["functions_scanned"] = len(names)
}

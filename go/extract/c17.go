package main

// C17 — Gen: translation of the scoring code of /repo/search/similarity into Lean.
//
// Translated (function by function, statement by statement, into `let` chains):
//   bm25.go       consts defaultB/defaultK1/noBoost, BM25Similarity, NewBM25Similarity(BK1), ComputeNorm (shape
//                 check only), Idf, IdfExplainTerm, AverageFieldLength, Scorer, BM25Scorer, NewBM25Scorer, Score,
//                 explainTf, Explain
//   composite.go  CompositeSumScorer, its constructors, ScoreComposite, ExplainComposite
//   constant.go   ConstantScorer and its four methods
// Every definition is polymorphic in `Bluge.BM25.ScoreField α` (+ - * / log float64(·) == and decimal
// literals), so that BlugeProofs.C17 instantiates the SAME text at ℝ and Drv.C17 at Float.
//
// In addition every message string handed to search.NewExplanation is parsed ("<name>, computed as
// <formula> from:", "computed as <formula>", "sum of:") into the same expression language and emitted as
// `msgFormula_<kind>`, with a table that tells the driver which variable names a node's formula expects of
// its children; and the six `buildDocumentMatch` sites of package searcher are reduced to one fact each
// ("the explained branch sets Score from the explanation of the same call as the plain branch").
//
// The generator REFUSES any statement, expression or type outside the subset below.

import (
	"fmt"
	"go/ast"
	"go/token"
	"regexp"
	"sort"
	"strconv"
	"strings"
)

func init() { Register("C17", genC17) }

// ---------------------------------------------------------------------------------------------- types

type c17ty struct {
	k    string // float nat normbits expl expls match matches string bool collstats termstats struct
	name string // struct name for k == struct
	u64  bool   // nat that is a Go uint64 (subtraction wraps)
}

func (t c17ty) lean() string {
	switch t.k {
	case "float":
		return "α"
	case "nat", "normbits":
		return "Nat"
	case "expl":
		return "Expl α"
	case "expls":
		return "List (Expl α)"
	case "match":
		return "Match α"
	case "matches":
		return "List (Match α)"
	case "string":
		return "String"
	case "bool":
		return "Bool"
	case "collstats":
		return "Option CollStats"
	case "termstats":
		return "TermStats"
	case "struct":
		return t.name + " α"
	}
	return "?"
}

type c17field struct {
	name string
	ty   c17ty
}

type c17func struct {
	leanName string // e.g. BM25Scorer.score or newBM25Scorer
	recvType string
	decl     *ast.FuncDecl
	file     string
	result   c17ty
	params   []c17field // without blank ones
	done     bool
	busy     bool
	src      string
	order    int
}

type c17gen struct {
	c        *Ctx
	pkg      *Pkg
	structs  map[string][]c17field // Go struct name -> fields
	namedFlt map[string]bool       // named float64 types (ConstantScorer)
	consts   map[string]string     // const name -> lean expr
	funcs    map[string]*c17func   // key: "Recv.Name" or "Name"
	emitted  []string              // lean source chunks in dependency order
	emitSeen map[string]bool
	msgs     []c17msg
	defaults map[string]string // variable name -> lean expr of the value it has when the child is absent
	curFn    string
	litSeen  map[string]bool
}

type c17msg struct {
	fn     string // Go function it occurs in
	text   string // with %d where a Sprintf verb stood
	leaf   bool
	kind   string
	vars   []string
	expr   string // lean
	isSum  bool
	source string
}

var c17keywords = map[string]bool{"at": true, "from": true, "end": true, "fun": true, "let": true, "in": true, "then": true, "else": true, "if": true,
	"do": true, "match": true, "with": true, "have": true, "show": true, "by": true, "def": true, "theorem": true, "open": true, "namespace": true,
	"instance": true, "class": true, "structure": true, "where": true, "variable": true, "import": true, "for": true, "return": true, "mut": true,
	"Type": true, "Prop": true, "Sort": true, "section": true, "local": true, "private": true, "protected": true, "example": true, "abbrev": true,
	"deriving": true, "extends": true, "inductive": true, "universe": true, "macro": true, "syntax": true, "notation": true, "infix": true, "prefix": true,
	"postfix": true, "attribute": true, "export": true, "using": true, "calc": true, "nomatch": true, "try": true, "catch": true, "finally": true, "unless": true,
	"break": true, "continue": true, "set_option": true, "mutual": true, "noncomputable": true, "partial": true, "unsafe": true, "axiom": true, "opaque": true,
	"log": true, "lit": true, "ofNat": true, "beq": true, "α": true}

func c17id(s string) string {
	if c17keywords[s] {
		return s + "'"
	}
	return s
}

func lowerFirst(s string) string {
	if s == "" {
		return s
	}
	// NewBM25Scorer -> newBM25Scorer ; Idf -> idf ; explainTf -> explainTf
	return strings.ToLower(s[:1]) + s[1:]
}

// ---------------------------------------------------------------------------------------------- entry

func genC17(c *Ctx) {
	g := &c17gen{c: c, structs: map[string][]c17field{}, namedFlt: map[string]bool{}, consts: map[string]string{}, funcs: map[string]*c17func{},
		emitSeen: map[string]bool{}, defaults: map[string]string{}, litSeen: map[string]bool{}}
	g.pkg = c.ParseDir("search/similarity")
	files := []string{"bm25.go", "composite.go", "constant.go"}
	for _, f := range files {
		if g.pkg.Files[f] == nil {
			c.Refuse("search/similarity/%s is missing", f)
		}
	}
	// pass 1: declarations
	order := 0
	var constOrder []string
	var structOrder []string
	for _, fn := range files {
		for _, d := range g.pkg.Files[fn].Decls {
			switch d := d.(type) {
			case *ast.GenDecl:
				switch d.Tok {
				case token.CONST:
					for _, s := range d.Specs {
						vs := s.(*ast.ValueSpec)
						if len(vs.Names) != 1 || len(vs.Values) != 1 {
							c.Refuse("%s: const declaration shape not understood: %s", fn, g.pkg.Src(vs))
						}
						lit, ok := vs.Values[0].(*ast.BasicLit)
						if !ok || (lit.Kind != token.FLOAT && lit.Kind != token.INT) {
							c.Refuse("%s: const %s is not a numeric literal", fn, vs.Names[0].Name)
						}
						g.consts[vs.Names[0].Name] = g.literal(lit.Value)
						constOrder = append(constOrder, vs.Names[0].Name)
					}
				case token.TYPE:
					for _, s := range d.Specs {
						ts := s.(*ast.TypeSpec)
						switch t := ts.Type.(type) {
						case *ast.StructType:
							var fs []c17field
							for _, f := range t.Fields.List {
								ty := g.goType(f.Type, fn)
								for _, n := range f.Names {
									fs = append(fs, c17field{n.Name, ty})
								}
								if len(f.Names) == 0 {
									c.Refuse("%s: embedded field in %s", fn, ts.Name.Name)
								}
							}
							g.structs[ts.Name.Name] = fs
							structOrder = append(structOrder, ts.Name.Name)
						case *ast.Ident:
							if t.Name != "float64" {
								c.Refuse("%s: named type %s over %s not understood", fn, ts.Name.Name, t.Name)
							}
							g.namedFlt[ts.Name.Name] = true
							structOrder = append(structOrder, ts.Name.Name)
						default:
							c.Refuse("%s: type %s not understood", fn, ts.Name.Name)
						}
					}
				case token.IMPORT:
				case token.VAR:
					c.Refuse("%s: package-level var not understood: %s", fn, g.pkg.Src(d))
				}
			case *ast.FuncDecl:
				key := d.Name.Name
				recv := ""
				if d.Recv != nil {
					t := d.Recv.List[0].Type
					if s, ok := t.(*ast.StarExpr); ok {
						t = s.X
					}
					recv = t.(*ast.Ident).Name
					key = recv + "." + d.Name.Name
				}
				ln := lowerFirst(d.Name.Name)
				if recv != "" {
					ln = recv + "." + ln
				}
				g.funcs[key] = &c17func{leanName: ln, recvType: recv, decl: d, file: fn, order: order}
				order++
			}
		}
	}
	// header
	var hdr strings.Builder
	hdr.WriteString("import Bluge.BM25\n")
	hdr.WriteString("/-! GENERATED by /verif/go/extract/c17.go from /repo/search/similarity/{bm25,composite,constant}.go and\n")
	hdr.WriteString("/repo/search/searcher/search_*.go — DO NOT EDIT; regenerated from the working tree on every `./check C17`.\n\n")
	hdr.WriteString("Each Go function is rendered statement by statement (`:=`, `=`, `+=`, `append`, `if`, `for range`, `return`)\n")
	hdr.WriteString("into a `let` chain over `ScoreField α`; Go's own operator precedence is made explicit by full parenthesisation. -/\n")
	hdr.WriteString("set_option linter.unusedVariables false\n")
	hdr.WriteString("namespace BlugeGen.C17\nopen Bluge Bluge.BM25 Bluge.BM25.ScoreField\nvariable {α : Type} [ScoreField α]\n\n")
	g.emitted = append(g.emitted, hdr.String())
	// consts
	for _, n := range constOrder {
		g.emitted = append(g.emitted, fmt.Sprintf("/-- `const %s` -/\ndef %s : α := %s\n\n", n, c17id(n), g.consts[n]))
	}
	// structs
	for _, n := range structOrder {
		if g.namedFlt[n] {
			g.emitted = append(g.emitted, fmt.Sprintf("/-- `type %s float64` -/\nabbrev %s (α : Type) := α\n\n", n, n))
			continue
		}
		var b strings.Builder
		fmt.Fprintf(&b, "/-- `type %s struct` -/\nstructure %s (α : Type) where\n", n, n)
		for _, f := range g.structs[n] {
			fmt.Fprintf(&b, "  %s : %s\n", c17id(f.name), f.ty.lean())
		}
		b.WriteString("\n")
		g.emitted = append(g.emitted, b.String())
	}
	// pass 2: translate every function (dependencies first)
	keys := make([]string, 0, len(g.funcs))
	for k := range g.funcs {
		keys = append(keys, k)
	}
	sort.Slice(keys, func(i, j int) bool { return g.funcs[keys[i]].order < g.funcs[keys[j]].order })
	for _, k := range keys {
		g.need(k)
	}
	// messages
	g.emitMessages()
	// sites
	g.emitSites()
	// where the statistics and the field length of a real search come from (phase 2)
	g.emitStatsFacts()
	g.emitLengthFacts()
	g.emitFuzzyFacts()
	g.emitted = append(g.emitted, "end BlugeGen.C17\n")
	c.WriteLean("C17", strings.Join(g.emitted, ""))
	names := []string{}
	for _, k := range keys {
		names = append(names, g.funcs[k].leanName)
	}
	c.Summary["translated_functions"] = names
	ms := []string{}
	for _, m := range g.msgs {
		if !m.leaf {
			ms = append(ms, m.text)
		}
	}
	c.Summary["parsed_messages"] = ms
	lits := []string{}
	for l := range g.litSeen {
		lits = append(lits, l)
	}
	sort.Strings(lits)
	c.Summary["literals"] = lits
}

func (g *c17gen) refuse(n ast.Node, why string) {
	g.c.Refuse("%s: %s: `%s`", g.curFn, why, g.pkg.Src(n))
}

// ---------------------------------------------------------------------------------------------- types of Go syntax

func (g *c17gen) goType(e ast.Expr, where string) c17ty {
	switch t := e.(type) {
	case *ast.Ident:
		switch t.Name {
		case "float64":
			return c17ty{k: "float"}
		case "uint64":
			return c17ty{k: "nat", u64: true}
		case "int", "uint32":
			return c17ty{k: "nat"}
		case "string":
			return c17ty{k: "string"}
		}
		if g.namedFlt[t.Name] {
			return c17ty{k: "float"}
		}
		if _, ok := g.structs[t.Name]; ok {
			return c17ty{k: "struct", name: t.Name}
		}
		// forward reference to a struct declared later in the package
		for _, f := range g.pkg.Files {
			for _, d := range f.Decls {
				if gd, ok := d.(*ast.GenDecl); ok && gd.Tok == token.TYPE {
					for _, s := range gd.Specs {
						ts := s.(*ast.TypeSpec)
						if ts.Name.Name == t.Name {
							if _, ok := ts.Type.(*ast.StructType); ok {
								return c17ty{k: "struct", name: t.Name}
							}
							if id, ok := ts.Type.(*ast.Ident); ok && id.Name == "float64" {
								return c17ty{k: "float"}
							}
						}
					}
				}
			}
		}
	case *ast.StarExpr:
		if s, ok := t.X.(*ast.SelectorExpr); ok {
			if x, ok := s.X.(*ast.Ident); ok && x.Name == "search" && s.Sel.Name == "Explanation" {
				return c17ty{k: "expl"}
			}
			if x, ok := s.X.(*ast.Ident); ok && x.Name == "search" && s.Sel.Name == "DocumentMatch" {
				return c17ty{k: "match"}
			}
		}
		if id, ok := t.X.(*ast.Ident); ok {
			return g.goType(id, where)
		}
	case *ast.ArrayType:
		if t.Len == nil {
			el := g.goType(t.Elt, where)
			if el.k == "expl" {
				return c17ty{k: "expls"}
			}
			if el.k == "match" {
				return c17ty{k: "matches"}
			}
		}
	case *ast.SelectorExpr:
		if x, ok := t.X.(*ast.Ident); ok && x.Name == "segment" {
			switch t.Sel.Name {
			case "CollectionStats":
				return c17ty{k: "collstats"}
			case "TermStats":
				return c17ty{k: "termstats"}
			}
		}
		if x, ok := t.X.(*ast.Ident); ok && x.Name == "search" && t.Sel.Name == "Scorer" {
			return c17ty{k: "iface-scorer"}
		}
	}
	g.c.Refuse("%s: Go type not understood: %s", where, g.pkg.Src(e))
	return c17ty{}
}

// decimal literal -> `(lit m e : α)`
func (g *c17gen) literal(s string) string {
	g.litSeen[s] = true
	if strings.ContainsAny(s, "eExXpP_") {
		g.c.Refuse("%s: numeric literal form not understood: %s", g.curFn, s)
	}
	ip, fp := s, ""
	if i := strings.Index(s, "."); i >= 0 {
		ip, fp = s[:i], s[i+1:]
	}
	fp = strings.TrimRight(fp, "0")
	digits := strings.TrimLeft(ip+fp, "0")
	if digits == "" {
		digits = "0"
	}
	if _, err := strconv.ParseUint(digits, 10, 63); err != nil {
		g.c.Refuse("%s: numeric literal too long: %s", g.curFn, s)
	}
	return fmt.Sprintf("(lit %s %d : α)", digits, len(fp))
}

// ---------------------------------------------------------------------------------------------- functions

type c17env struct {
	vars map[string]c17ty
}

func (e *c17env) clone() *c17env {
	n := &c17env{vars: map[string]c17ty{}}
	for k, v := range e.vars {
		n.vars[k] = v
	}
	return n
}

func (g *c17gen) need(key string) *c17func {
	f := g.funcs[key]
	if f == nil {
		g.c.Refuse("%s: call of a function that is not part of the translated files: %s", g.curFn, key)
	}
	if f.done {
		return f
	}
	if f.busy {
		g.c.Refuse("recursion through %s is outside the translated subset", key)
	}
	f.busy = true
	saved := g.curFn
	g.curFn = f.file + " " + key
	g.translate(key, f)
	g.curFn = saved
	f.busy = false
	f.done = true
	g.emitted = append(g.emitted, f.src)
	return f
}

// normCoded reports whether float64 parameter p is used only as math.Float32bits(float32(p)).
func normCoded(body *ast.BlockStmt, p string) bool {
	total, coded := 0, 0
	ast.Inspect(body, func(n ast.Node) bool {
		switch x := n.(type) {
		case *ast.Ident:
			if x.Name == p {
				total++
			}
		case *ast.CallExpr:
			// handed on unchanged to another method (whose parameter must then be norm-coded too: checked at the call)
			if sel, ok := x.Fun.(*ast.SelectorExpr); ok {
				if pk, ok := sel.X.(*ast.Ident); !ok || (pk.Name != "math" && pk.Name != "fmt" && pk.Name != "search") {
					for _, a := range x.Args {
						if id, ok := a.(*ast.Ident); ok && id.Name == p {
							coded++
						}
					}
				}
			}
			if isSel(x.Fun, "math", "Float32bits") && len(x.Args) == 1 {
				if in, ok := x.Args[0].(*ast.CallExpr); ok && len(in.Args) == 1 {
					if id, ok := in.Fun.(*ast.Ident); ok && id.Name == "float32" {
						if a, ok := in.Args[0].(*ast.Ident); ok && a.Name == p {
							coded++
						}
					}
				}
			}
		}
		return true
	})
	return total > 0 && total == coded
}

func isSel(e ast.Expr, pkg, name string) bool {
	s, ok := e.(*ast.SelectorExpr)
	if !ok {
		return false
	}
	x, ok := s.X.(*ast.Ident)
	return ok && x.Name == pkg && s.Sel.Name == name
}

func (g *c17gen) translate(key string, f *c17func) {
	d := f.decl
	env := &c17env{vars: map[string]c17ty{}}
	var sig strings.Builder
	if d.Recv != nil {
		rn := "_recv"
		if len(d.Recv.List[0].Names) == 1 {
			rn = d.Recv.List[0].Names[0].Name
		}
		rt := c17ty{k: "struct", name: f.recvType}
		if g.namedFlt[f.recvType] {
			rt = c17ty{k: "float"}
			fmt.Fprintf(&sig, " (%s : %s α)", c17id(rn), f.recvType)
		} else {
			fmt.Fprintf(&sig, " (%s : %s)", c17id(rn), rt.lean())
		}
		env.vars[rn] = rt
		f.params = append(f.params, c17field{rn, rt})
	}
	blank := 0
	for _, p := range d.Type.Params.List {
		ty := g.goType(p.Type, key)
		for _, n := range p.Names {
			if n.Name == "_" {
				blank++
				continue // a blank parameter cannot influence the result: dropped from the Lean signature
			}
			t := ty
			if ty.k == "float" && d.Body != nil && normCoded(d.Body, n.Name) {
				t = c17ty{k: "normbits"}
			}
			env.vars[n.Name] = t
			f.params = append(f.params, c17field{n.Name, t})
			fmt.Fprintf(&sig, " (%s : %s)", c17id(n.Name), t.lean())
		}
		if len(p.Names) == 0 {
			g.c.Refuse("%s: unnamed parameter", key)
		}
	}
	if d.Type.Results == nil || len(d.Type.Results.List) != 1 || len(d.Type.Results.List[0].Names) > 1 {
		g.c.Refuse("%s: exactly one result expected", key)
	}
	// ComputeNorm: the one function that goes through float32; its shape is checked, its meaning is the identity on bit patterns
	if key == "BM25Similarity.ComputeNorm" {
		ok := false
		if len(d.Body.List) == 1 {
			if r, isRet := d.Body.List[0].(*ast.ReturnStmt); isRet && len(r.Results) == 1 {
				if call, isCall := r.Results[0].(*ast.CallExpr); isCall && isSel(call.Fun, "math", "Float32frombits") && len(call.Args) == 1 {
					if in, isCall := call.Args[0].(*ast.CallExpr); isCall && len(in.Args) == 1 {
						if id, isId := in.Fun.(*ast.Ident); isId && id.Name == "uint32" {
							if a, isId := in.Args[0].(*ast.Ident); isId && a.Name == f.params[1].name {
								ok = true
							}
						}
					}
				}
			}
		}
		if !ok {
			g.c.Refuse("ComputeNorm is no longer `return math.Float32frombits(uint32(numTerms))`: %s", g.pkg.Src(d.Body))
		}
		f.result = c17ty{k: "normbits"}
		f.src = fmt.Sprintf("/-- `%s`: `math.Float32frombits(uint32(numTerms))` — the norm IS the field length, carried as a float32 bit\npattern; `Score`/`Explain` read it back with `math.Float32bits(float32(norm))`. In this translation a norm is that `Nat`. -/\ndef %s%s : Nat := %s\n\n",
			g.sigText(d), f.leanName, sig.String(), c17id(f.params[1].name))
		return
	}
	body, ty := g.block(d.Body.List, env, "  ")
	declared := d.Type.Results.List[0].Type
	dt := g.goType(declared, key)
	if dt.k != "iface-scorer" && dt.k != ty.k && !(dt.k == "float" && ty.k == "float") {
		g.c.Refuse("%s: result type %s but body has %s", key, dt.k, ty.k)
	}
	f.result = ty
	f.src = fmt.Sprintf("/-- `%s` (%s) -/\ndef %s%s : %s :=\n%s\n\n", g.sigText(d), f.file, f.leanName, sig.String(), ty.lean(), body)
}

func (g *c17gen) sigText(d *ast.FuncDecl) string {
	cp := *d
	cp.Body = nil
	cp.Doc = nil
	return strings.ReplaceAll(g.pkg.Src(&cp), "\n", " ")
}

// block renders statements as a let chain ending in the returned expression.
func (g *c17gen) block(stmts []ast.Stmt, env *c17env, ind string) (string, c17ty) {
	var b strings.Builder
	for i, s := range stmts {
		switch st := s.(type) {
		case *ast.ReturnStmt:
			if len(st.Results) != 1 {
				g.refuse(st, "return with other than one value")
			}
			if i != len(stmts)-1 {
				g.refuse(st, "statements after return")
			}
			e, ty := g.expr(st.Results[0], env)
			b.WriteString(ind + e)
			return b.String(), ty
		case *ast.AssignStmt:
			b.WriteString(g.assign(st, env, ind))
		case *ast.DeclStmt:
			gd, ok := st.Decl.(*ast.GenDecl)
			if !ok || gd.Tok != token.VAR {
				g.refuse(st, "declaration not understood")
			}
			for _, sp := range gd.Specs {
				vs := sp.(*ast.ValueSpec)
				if len(vs.Names) != 1 {
					g.refuse(st, "multi-name var")
				}
				n := vs.Names[0].Name
				if len(vs.Values) == 1 {
					e, ty := g.expr(vs.Values[0], env)
					env.vars[n] = ty
					fmt.Fprintf(&b, "%slet %s : %s := %s\n", ind, c17id(n), ty.lean(), e)
				} else if len(vs.Values) == 0 && vs.Type != nil {
					ty := g.goType(vs.Type, g.curFn)
					env.vars[n] = ty
					fmt.Fprintf(&b, "%slet %s : %s := %s\n", ind, c17id(n), ty.lean(), g.zero(ty, st))
				} else {
					g.refuse(st, "var form not understood")
				}
			}
		case *ast.IfStmt:
			if st.Init != nil || st.Else != nil {
				g.refuse(st, "if with init or else")
			}
			cond, cty := g.expr(st.Cond, env)
			if cty.k != "bool" {
				g.refuse(st.Cond, "condition is not a comparison")
			}
			if n := len(st.Body.List); n > 0 {
				if _, isRet := st.Body.List[n-1].(*ast.ReturnStmt); isRet {
					thenSrc, tty := g.block(st.Body.List, env.clone(), ind+"  ")
					elseSrc, ety := g.block(stmts[i+1:], env, ind+"  ")
					if tty.k != ety.k {
						g.refuse(st, "branches return different types")
					}
					fmt.Fprintf(&b, "%sif %s then\n%s\n%selse\n%s", ind, cond, thenSrc, ind, elseSrc)
					return b.String(), tty
				}
			}
			// body: assignments to distinct, already declared variables
			assigned := map[string]bool{}
			for _, bs := range st.Body.List {
				as, ok := bs.(*ast.AssignStmt)
				if !ok || len(as.Lhs) != 1 || len(as.Rhs) != 1 || as.Tok == token.DEFINE {
					g.refuse(bs, "statement inside if not understood")
				}
				id, ok := as.Lhs[0].(*ast.Ident)
				if !ok {
					g.refuse(bs, "assignment target inside if")
				}
				if _, known := env.vars[id.Name]; !known || assigned[id.Name] {
					g.refuse(bs, "assignment inside if to an unknown or repeated variable")
				}
				for v := range assigned {
					if mentions(as.Rhs[0], v) {
						g.refuse(bs, "assignment inside if depends on an earlier one")
					}
				}
				g.noteDefault(st.Cond, as, env)
				rhs := g.assignRhs(as, env)
				fmt.Fprintf(&b, "%slet %s := if %s then %s else %s\n", ind, c17id(id.Name), cond, rhs, c17id(id.Name))
				assigned[id.Name] = true
			}
		case *ast.RangeStmt:
			b.WriteString(g.rangeStmt(st, env, ind))
		default:
			g.refuse(s, "statement outside the translated subset")
		}
	}
	g.c.Refuse("%s: function body does not end in return", g.curFn)
	return "", c17ty{}
}

func mentions(e ast.Node, name string) bool {
	found := false
	ast.Inspect(e, func(n ast.Node) bool {
		if id, ok := n.(*ast.Ident); ok && id.Name == name {
			found = true
		}
		return true
	})
	return found
}

func (g *c17gen) zero(ty c17ty, at ast.Node) string {
	switch ty.k {
	case "float":
		return "(lit 0 0 : α)"
	case "nat":
		return "0"
	case "expls":
		return "[]"
	}
	g.refuse(at, "zero value of this type")
	return ""
}

// assignRhs gives the new value of the single assigned variable for = and op=.
func (g *c17gen) assignRhs(as *ast.AssignStmt, env *c17env) string {
	id := as.Lhs[0].(*ast.Ident)
	lt := env.vars[id.Name]
	e, ty := g.expr(as.Rhs[0], env)
	if ty.k != lt.k {
		g.refuse(as, fmt.Sprintf("assignment changes the type (%s := %s)", lt.k, ty.k))
	}
	switch as.Tok {
	case token.ASSIGN:
		return e
	case token.ADD_ASSIGN, token.SUB_ASSIGN, token.MUL_ASSIGN, token.QUO_ASSIGN:
		if lt.k != "float" {
			g.refuse(as, "op= on a non-float")
		}
		op := map[token.Token]string{token.ADD_ASSIGN: "+", token.SUB_ASSIGN: "-", token.MUL_ASSIGN: "*", token.QUO_ASSIGN: "/"}[as.Tok]
		return fmt.Sprintf("(%s %s %s)", c17id(id.Name), op, e)
	}
	g.refuse(as, "assignment operator")
	return ""
}

func (g *c17gen) assign(as *ast.AssignStmt, env *c17env, ind string) string {
	if len(as.Lhs) != 1 || len(as.Rhs) != 1 {
		g.refuse(as, "multi-assignment")
	}
	id, ok := as.Lhs[0].(*ast.Ident)
	if !ok {
		g.refuse(as, "assignment target")
	}
	if as.Tok == token.DEFINE {
		e, ty := g.expr(as.Rhs[0], env)
		env.vars[id.Name] = ty
		return fmt.Sprintf("%slet %s : %s := %s\n", ind, c17id(id.Name), ty.lean(), e)
	}
	if _, known := env.vars[id.Name]; !known {
		g.refuse(as, "assignment to an unknown variable")
	}
	return fmt.Sprintf("%slet %s := %s\n", ind, c17id(id.Name), g.assignRhs(as, env))
}

// for _, x := range xs { acc op= f(acc, x) … } -> one foldl per accumulator
func (g *c17gen) rangeStmt(st *ast.RangeStmt, env *c17env, ind string) string {
	if st.Tok != token.DEFINE || st.Value == nil {
		g.refuse(st, "range form")
	}
	if k, ok := st.Key.(*ast.Ident); !ok || k.Name != "_" {
		g.refuse(st, "range with an index variable")
	}
	v, ok := st.Value.(*ast.Ident)
	if !ok {
		g.refuse(st, "range value")
	}
	xs, xty := g.expr(st.X, env)
	if xty.k != "matches" {
		g.refuse(st.X, "range over something that is not []*search.DocumentMatch")
	}
	inner := env.clone()
	inner.vars[v.Name] = c17ty{k: "match"}
	var b strings.Builder
	accs := map[string]bool{}
	for _, bs := range st.Body.List {
		as, ok := bs.(*ast.AssignStmt)
		if !ok || len(as.Lhs) != 1 || len(as.Rhs) != 1 || as.Tok == token.DEFINE {
			g.refuse(bs, "statement inside range not understood")
		}
		id, ok := as.Lhs[0].(*ast.Ident)
		if !ok {
			g.refuse(bs, "assignment target inside range")
		}
		if _, known := env.vars[id.Name]; !known || accs[id.Name] {
			g.refuse(bs, "accumulator unknown or assigned twice in one iteration")
		}
		accs[id.Name] = true
	}
	for _, bs := range st.Body.List {
		as := bs.(*ast.AssignStmt)
		id := as.Lhs[0].(*ast.Ident)
		for a := range accs {
			if a != id.Name && mentions(as.Rhs[0], a) {
				g.refuse(bs, "accumulators of one loop depend on each other")
			}
		}
		rhs := g.assignRhs(as, inner)
		fmt.Fprintf(&b, "%slet %s := %s.foldl (fun %s %s => %s) %s\n", ind, c17id(id.Name), xs, c17id(id.Name), c17id(v.Name), rhs, c17id(id.Name))
	}
	return b.String()
}

// noteDefault: `if X != C { children = append(children, search.NewExplanation(X, "name")) }` means that a formula
// variable `name` without a child node has the value C.
func (g *c17gen) noteDefault(cond ast.Expr, as *ast.AssignStmt, env *c17env) {
	be, ok := cond.(*ast.BinaryExpr)
	if !ok || be.Op != token.NEQ {
		return
	}
	call, ok := as.Rhs[0].(*ast.CallExpr)
	if !ok {
		return
	}
	if id, ok := call.Fun.(*ast.Ident); !ok || id.Name != "append" || len(call.Args) != 2 {
		return
	}
	ne, ok := call.Args[1].(*ast.CallExpr)
	if !ok || !isSel(ne.Fun, "search", "NewExplanation") || len(ne.Args) != 2 {
		return
	}
	if g.pkg.Src(ne.Args[0]) != g.pkg.Src(be.X) {
		return
	}
	lit, ok := ne.Args[1].(*ast.BasicLit)
	if !ok || lit.Kind != token.STRING {
		return
	}
	name, _ := strconv.Unquote(lit.Value)
	c, cty := g.expr(be.Y, env)
	if cty.k == "float" {
		g.defaults[c17leadName(name)] = c
	}
}

// ---------------------------------------------------------------------------------------------- expressions

func (g *c17gen) expr(e ast.Expr, env *c17env) (string, c17ty) {
	switch x := e.(type) {
	case *ast.ParenExpr:
		return g.expr(x.X, env)
	case *ast.BasicLit:
		switch x.Kind {
		case token.INT, token.FLOAT:
			return g.literal(x.Value), c17ty{k: "float"}
		case token.STRING:
			s, err := strconv.Unquote(x.Value)
			if err != nil {
				g.refuse(x, "string literal")
			}
			return LeanStr(s), c17ty{k: "string"}
		}
	case *ast.Ident:
		if ty, ok := env.vars[x.Name]; ok {
			return c17id(x.Name), ty
		}
		if _, ok := g.consts[x.Name]; ok {
			return "(" + c17id(x.Name) + " : α)", c17ty{k: "float"}
		}
		g.refuse(x, "identifier is neither a local nor a translated constant")
	case *ast.BinaryExpr:
		switch x.Op {
		case token.ADD, token.SUB, token.MUL, token.QUO:
			_, lIsLit := stripParen(x.X).(*ast.BasicLit)
			_, rIsLit := stripParen(x.Y).(*ast.BasicLit)
			if lIsLit && rIsLit {
				g.refuse(x, "arithmetic on two constants (Go folds it exactly; not translated)")
			}
			l, lt := g.expr(x.X, env)
			r, rt := g.expr(x.Y, env)
			if lt.k == "float" && rt.k == "float" {
				return fmt.Sprintf("(%s %s %s)", l, x.Op.String(), r), c17ty{k: "float"}
			}
			if lt.k == "nat" && rt.k == "nat" && x.Op == token.SUB && lt.u64 && rt.u64 {
				return fmt.Sprintf("(u64sub %s %s)", l, r), c17ty{k: "nat", u64: true}
			}
			g.refuse(x, "arithmetic on these operand types")
		case token.EQL, token.NEQ:
			if id, ok := x.Y.(*ast.Ident); ok && id.Name == "nil" {
				l, lt := g.expr(x.X, env)
				if lt.k != "collstats" {
					g.refuse(x, "nil comparison of something that is not a CollectionStats")
				}
				if x.Op == token.NEQ {
					return l + ".isSome", c17ty{k: "bool"}
				}
				return l + ".isNone", c17ty{k: "bool"}
			}
			l, lt := g.expr(x.X, env)
			r, rt := g.expr(x.Y, env)
			if lt.k != "float" || rt.k != "float" {
				g.refuse(x, "comparison of non-floats")
			}
			if x.Op == token.EQL {
				return fmt.Sprintf("(beq %s %s)", l, r), c17ty{k: "bool"}
			}
			return fmt.Sprintf("(!(beq %s %s))", l, r), c17ty{k: "bool"}
		}
	case *ast.SelectorExpr:
		l, lt := g.expr(x.X, env)
		switch lt.k {
		case "struct":
			for _, f := range g.structs[lt.name] {
				if f.name == x.Sel.Name {
					return l + "." + c17id(f.name), f.ty
				}
			}
		case "expl":
			if x.Sel.Name == "Value" {
				return l + ".value", c17ty{k: "float"}
			}
		case "match":
			if x.Sel.Name == "Score" {
				return l + ".score", c17ty{k: "float"}
			}
			if x.Sel.Name == "Explanation" {
				return l + ".explanation", c17ty{k: "expl"}
			}
		}
		g.refuse(x, "field selection not understood")
	case *ast.UnaryExpr:
		if x.Op == token.AND {
			if cl, ok := x.X.(*ast.CompositeLit); ok {
				return g.expr(cl, env)
			}
		}
		g.refuse(x, "unary operator")
	case *ast.CompositeLit:
		ty := g.goType(x.Type, g.curFn)
		switch ty.k {
		case "struct":
			fields := g.structs[ty.name]
			seen := map[string]string{}
			for _, el := range x.Elts {
				kv, ok := el.(*ast.KeyValueExpr)
				if !ok {
					g.refuse(x, "positional struct literal")
				}
				k := kv.Key.(*ast.Ident).Name
				var ft *c17ty
				for i := range fields {
					if fields[i].name == k {
						ft = &fields[i].ty
					}
				}
				if ft == nil {
					g.refuse(kv, "unknown field")
				}
				v, vt := g.expr(kv.Value, env)
				if vt.k != ft.k {
					g.refuse(kv, "field value of the wrong type")
				}
				seen[k] = v
			}
			parts := []string{}
			for _, f := range fields {
				v, ok := seen[f.name]
				if !ok {
					v = g.zero(f.ty, x)
				}
				parts = append(parts, fmt.Sprintf("%s := %s", c17id(f.name), v))
			}
			return "{ " + strings.Join(parts, ", ") + " }", ty
		case "expls":
			parts := []string{}
			for _, el := range x.Elts {
				v, vt := g.expr(el, env)
				if vt.k != "expl" {
					g.refuse(el, "element is not an explanation")
				}
				parts = append(parts, v)
			}
			return "[" + strings.Join(parts, ", ") + "]", ty
		}
		g.refuse(x, "composite literal")
	case *ast.CallExpr:
		return g.call(x, env)
	}
	g.refuse(e, "expression outside the translated subset")
	return "", c17ty{}
}

func stripParen(e ast.Expr) ast.Expr {
	for {
		p, ok := e.(*ast.ParenExpr)
		if !ok {
			return e
		}
		e = p.X
	}
}

func (g *c17gen) call(x *ast.CallExpr, env *c17env) (string, c17ty) {
	// conversions and builtins
	if id, ok := x.Fun.(*ast.Ident); ok {
		switch id.Name {
		case "float64":
			if len(x.Args) != 1 {
				g.refuse(x, "conversion arity")
			}
			a, at := g.expr(x.Args[0], env)
			switch at.k {
			case "nat", "normbits":
				return fmt.Sprintf("(ofNat %s : α)", a), c17ty{k: "float"}
			case "float":
				return a, at
			}
			g.refuse(x, "float64() of this operand")
		case "append":
			if len(x.Args) < 2 || x.Ellipsis.IsValid() {
				g.refuse(x, "append form")
			}
			l, lt := g.expr(x.Args[0], env)
			if lt.k != "expls" {
				g.refuse(x, "append to something that is not []*search.Explanation")
			}
			parts := []string{}
			for _, a := range x.Args[1:] {
				v, vt := g.expr(a, env)
				if vt.k != "expl" {
					g.refuse(a, "appended element is not an explanation")
				}
				parts = append(parts, v)
			}
			return fmt.Sprintf("(%s ++ [%s])", l, strings.Join(parts, ", ")), lt
		}
		if g.namedFlt[id.Name] && len(x.Args) == 1 { // ConstantScorer(x)
			a, at := g.expr(x.Args[0], env)
			if at.k == "float" {
				return a, at
			}
		}
		if f, ok := g.funcs[id.Name]; ok {
			g.need(id.Name)
			return g.apply(f, "", x, env)
		}
		g.refuse(x, "call of an unknown function")
	}
	if isSel(x.Fun, "math", "Log") && len(x.Args) == 1 {
		a, at := g.expr(x.Args[0], env)
		if at.k != "float" {
			g.refuse(x, "math.Log of a non-float")
		}
		return fmt.Sprintf("(log %s)", a), at
	}
	if isSel(x.Fun, "math", "Float32bits") && len(x.Args) == 1 {
		if in, ok := x.Args[0].(*ast.CallExpr); ok && len(in.Args) == 1 {
			if id, ok := in.Fun.(*ast.Ident); ok && id.Name == "float32" {
				a, at := g.expr(in.Args[0], env)
				if at.k == "normbits" {
					return a, c17ty{k: "nat"}
				}
			}
		}
		g.refuse(x, "math.Float32bits of something that is not float32(<norm parameter>)")
	}
	if isSel(x.Fun, "search", "NewExplanation") {
		if len(x.Args) < 2 {
			g.refuse(x, "NewExplanation arity")
		}
		v, vt := g.expr(x.Args[0], env)
		if vt.k != "float" {
			g.refuse(x.Args[0], "explanation value is not a float")
		}
		m, mt := g.expr(x.Args[1], env)
		if mt.k != "string" {
			g.refuse(x.Args[1], "explanation message is not a string")
		}
		g.noteMessage(x.Args[1])
		kids := "[]"
		if x.Ellipsis.IsValid() {
			if len(x.Args) != 3 {
				g.refuse(x, "NewExplanation(..., list...) form")
			}
			k, kt := g.expr(x.Args[2], env)
			if kt.k != "expls" {
				g.refuse(x.Args[2], "spread argument is not []*search.Explanation")
			}
			kids = k
		} else if len(x.Args) > 2 {
			parts := []string{}
			for _, a := range x.Args[2:] {
				k, kt := g.expr(a, env)
				if kt.k != "expl" {
					g.refuse(a, "child is not an explanation")
				}
				parts = append(parts, k)
			}
			kids = "[" + strings.Join(parts, ", ") + "]"
		}
		return fmt.Sprintf("(Expl.node %s %s %s)", v, m, kids), c17ty{k: "expl"}
	}
	if isSel(x.Fun, "fmt", "Sprintf") {
		if len(x.Args) < 1 {
			g.refuse(x, "Sprintf arity")
		}
		fl, ok := x.Args[0].(*ast.BasicLit)
		if !ok || fl.Kind != token.STRING {
			g.refuse(x, "Sprintf format is not a literal")
		}
		format, _ := strconv.Unquote(fl.Value)
		pieces := strings.Split(format, "%d")
		if strings.Contains(strings.Join(pieces, ""), "%") || len(pieces) != len(x.Args) {
			g.refuse(x, "Sprintf with verbs other than %d")
		}
		parts := []string{LeanStr(pieces[0])}
		for i, a := range x.Args[1:] {
			v, vt := g.expr(a, env)
			if vt.k != "nat" {
				g.refuse(a, "%d argument is not an integer")
			}
			parts = append(parts, "fmtD "+v, LeanStr(pieces[i+1]))
		}
		return "(" + strings.Join(parts, " ++ ") + ")", c17ty{k: "string"}
	}
	// method calls
	if sel, ok := x.Fun.(*ast.SelectorExpr); ok {
		r, rt := g.expr(sel.X, env)
		switch rt.k {
		case "struct":
			key := rt.name + "." + sel.Sel.Name
			if f, ok := g.funcs[key]; ok {
				g.need(key)
				return g.apply(f, r, x, env)
			}
		case "termstats":
			if sel.Sel.Name == "DocumentFrequency" && len(x.Args) == 0 {
				return r + ".documentFrequency", c17ty{k: "nat", u64: true}
			}
		case "collstats":
			if len(x.Args) == 0 {
				switch sel.Sel.Name {
				case "DocumentCount":
					return "(" + r + ".getD default).documentCount", c17ty{k: "nat", u64: true}
				case "SumTotalTermFrequency":
					return "(" + r + ".getD default).sumTotalTermFrequency", c17ty{k: "nat", u64: true}
				}
			}
		}
	}
	g.refuse(x, "call outside the translated subset")
	return "", c17ty{}
}

func (g *c17gen) apply(f *c17func, recv string, x *ast.CallExpr, env *c17env) (string, c17ty) {
	params := f.params
	parts := []string{f.leanName}
	if f.recvType != "" {
		parts = append(parts, recv)
		params = params[1:]
	}
	// blank parameters were dropped: map Go argument positions to kept parameters
	var kept []bool
	for _, p := range f.decl.Type.Params.List {
		for _, n := range p.Names {
			kept = append(kept, n.Name != "_")
		}
	}
	if len(kept) != len(x.Args) {
		g.refuse(x, "argument count")
	}
	pi := 0
	for i, a := range x.Args {
		if !kept[i] {
			continue
		}
		v, vt := g.expr(a, env)
		want := params[pi].ty
		if vt.k != want.k && !(want.k == "normbits" && vt.k == "normbits") {
			g.refuse(a, fmt.Sprintf("argument type %s where %s is expected", vt.k, want.k))
		}
		parts = append(parts, v)
		pi++
	}
	return "(" + strings.Join(parts, " ") + ")", f.result
}

// ---------------------------------------------------------------------------------------------- messages

var c17reComputed = regexp.MustCompile(`^(?:(.*?), )?computed as (.*?)( from:)?$`)

func c17leadName(msg string) string {
	i := 0
	for i < len(msg) && (msg[i] == '_' || msg[i] >= '0' && msg[i] <= '9' || msg[i] >= 'a' && msg[i] <= 'z' || msg[i] >= 'A' && msg[i] <= 'Z') {
		i++
	}
	return msg[:i]
}

func (g *c17gen) noteMessage(e ast.Expr) {
	text := ""
	switch x := e.(type) {
	case *ast.BasicLit:
		text, _ = strconv.Unquote(x.Value)
	case *ast.CallExpr:
		fl := x.Args[0].(*ast.BasicLit)
		text, _ = strconv.Unquote(fl.Value)
	default:
		g.refuse(e, "explanation message is neither a literal nor a Sprintf")
	}
	for _, m := range g.msgs {
		if m.text == text {
			return
		}
	}
	m := c17msg{fn: g.curFn, text: text, source: g.pkg.Src(e)}
	if strings.ContainsAny(text, "{};\\\n") {
		g.refuse(e, "message contains a character reserved by the canonical tree syntax")
	}
	if text == "sum of:" {
		m.kind, m.isSum = "sum", true
	} else if sm := c17reComputed.FindStringSubmatch(text); sm != nil {
		p := &c17parser{src: sm[2], g: g, at: e}
		m.expr = p.parseExpr()
		p.skip()
		if p.pos != len(p.src) {
			g.refuse(e, fmt.Sprintf("formula in message not understood at offset %d of %q", p.pos, p.src))
		}
		m.vars = p.vars
		m.kind = c17leadName(sm[1])
		if m.kind == "" {
			m.kind = strings.Join(p.vars, "_")
		}
	} else if strings.Contains(text, "computed") || strings.Contains(text, "sum") {
		g.refuse(e, "message looks like a formula but does not parse")
	} else {
		m.leaf = true
		m.kind = c17leadName(text)
	}
	g.msgs = append(g.msgs, m)
}

// formula grammar: expr := term (('+'|'-') term)* ; term := factor (('*'|'/') factor)* ;
// factor := number | ident | 'log' '(' expr ')' | '(' expr ')'
type c17parser struct {
	src  string
	pos  int
	vars []string
	g    *c17gen
	at   ast.Node
}

func (p *c17parser) skip() {
	for p.pos < len(p.src) && p.src[p.pos] == ' ' {
		p.pos++
	}
}
func (p *c17parser) peek() byte {
	p.skip()
	if p.pos < len(p.src) {
		return p.src[p.pos]
	}
	return 0
}
func (p *c17parser) parseExpr() string {
	l := p.parseTerm()
	for {
		c := p.peek()
		if c != '+' && c != '-' {
			return l
		}
		p.pos++
		r := p.parseTerm()
		l = fmt.Sprintf("(%s %c %s)", l, c, r)
	}
}
func (p *c17parser) parseTerm() string {
	l := p.parseFactor()
	for {
		c := p.peek()
		if c != '*' && c != '/' {
			return l
		}
		p.pos++
		r := p.parseFactor()
		l = fmt.Sprintf("(%s %c %s)", l, c, r)
	}
}
func (p *c17parser) parseFactor() string {
	c := p.peek()
	switch {
	case c == '(':
		p.pos++
		e := p.parseExpr()
		if p.peek() != ')' {
			p.g.refuse(p.at, "unbalanced parenthesis in message formula")
		}
		p.pos++
		return e
	case c >= '0' && c <= '9':
		s := p.pos
		for p.pos < len(p.src) && (p.src[p.pos] >= '0' && p.src[p.pos] <= '9' || p.src[p.pos] == '.') {
			p.pos++
		}
		return p.g.literal(p.src[s:p.pos])
	case c == '_' || c >= 'a' && c <= 'z' || c >= 'A' && c <= 'Z':
		name := c17leadName(p.src[p.pos:])
		p.pos += len(name)
		if name == "log" {
			if p.peek() != '(' {
				p.g.refuse(p.at, "log without argument in message formula")
			}
			p.pos++
			e := p.parseExpr()
			if p.peek() != ')' {
				p.g.refuse(p.at, "unbalanced parenthesis in message formula")
			}
			p.pos++
			return "(log " + e + ")"
		}
		if p.peek() == '(' {
			p.g.refuse(p.at, "unknown function "+name+" in message formula")
		}
		known := false
		for _, v := range p.vars {
			if v == name {
				known = true
			}
		}
		if !known {
			p.vars = append(p.vars, name)
		}
		return c17id(name)
	}
	p.g.refuse(p.at, fmt.Sprintf("message formula not understood at offset %d of %q", p.pos, p.src))
	return ""
}

func (g *c17gen) emitMessages() {
	var b strings.Builder
	b.WriteString("/-! ## the formulas stated in the explanation messages, parsed into the same expression language -/\n\n")
	for _, m := range g.msgs {
		if m.leaf {
			continue
		}
		if m.isSum {
			fmt.Fprintf(&b, "/-- message %s (%s): the sum of the children, left to right from 0 -/\ndef msgFormula_sum (children : List α) : α := children.foldl (fun acc x => (acc + x)) (lit 0 0 : α)\n\n", LeanStr(m.text), m.fn)
			continue
		}
		args := ""
		for _, v := range m.vars {
			args += " " + c17id(v)
		}
		fmt.Fprintf(&b, "/-- message %s (%s) -/\ndef msgFormula_%s (%s : α) : α := %s\n\n", LeanStr(m.text), m.fn, m.kind, strings.TrimSpace(args), m.expr)
	}
	b.WriteString("/-- every message handed to `search.NewExplanation`: (text before a `%d`, text after it, has `%d`, kind, formula variables);\nkind \"\" = a leaf whose message states no formula -/\n")
	b.WriteString("def msgTable : List (String × String × Bool × String × List String) := [\n")
	for i, m := range g.msgs {
		pre, post, has := m.text, "", false
		if j := strings.Index(m.text, "%d"); j >= 0 {
			pre, post, has = m.text[:j], m.text[j+2:], true
		}
		kind := m.kind
		if m.leaf {
			kind = ""
		}
		vs := []string{}
		for _, v := range m.vars {
			vs = append(vs, LeanStr(v))
		}
		sep := ","
		if i == len(g.msgs)-1 {
			sep = ""
		}
		fmt.Fprintf(&b, "  (%s, %s, %v, %s, [%s])%s\n", LeanStr(pre), LeanStr(post), has, LeanStr(kind), strings.Join(vs, ", "), sep)
	}
	b.WriteString("]\n\n")
	b.WriteString("/-- apply the formula of a node kind to the values of its variables (in the order of `msgTable`) -/\n")
	b.WriteString("def evalMsgFormula (kind : String) (args : List α) : Option α :=\n  match kind, args with\n")
	for _, m := range g.msgs {
		if m.leaf || m.isSum {
			continue
		}
		vs := []string{}
		for _, v := range m.vars {
			vs = append(vs, c17id(v))
		}
		fmt.Fprintf(&b, "  | %s, [%s] => some (msgFormula_%s %s)\n", LeanStr(m.kind), strings.Join(vs, ", "), m.kind, strings.Join(vs, " "))
	}
	b.WriteString("  | _, _ => none\n\n")
	b.WriteString("/-- the value a formula variable has when the code omits its child node (`if x != c { append child }`) -/\n")
	b.WriteString("def msgDefault (v : String) : Option α :=\n  match v with\n")
	ds := []string{}
	for v := range g.defaults {
		ds = append(ds, v)
	}
	sort.Strings(ds)
	for _, v := range ds {
		fmt.Fprintf(&b, "  | %s => some %s\n", LeanStr(v), g.defaults[v])
	}
	b.WriteString("  | _ => none\n\n")
	g.emitted = append(g.emitted, b.String())
}

// ---------------------------------------------------------------------------------------------- buildDocumentMatch sites

// Every searcher that scores builds its match with
//
//	if s.options.Explain { rv.Explanation = s.scorer.<Explain…>(args); rv.Score = rv.Explanation.Value }
//	else                 { rv.Score = s.scorer.<Score…>(args) }
//
// The fact emitted per site: the pair of methods is (Explain,Score) or (ExplainComposite,ScoreComposite), the
// arguments are textually the same, and the explained branch takes Score from the explanation's Value.
func (g *c17gen) emitSites() {
	sp := g.c.ParseDir("search/searcher")
	type site struct {
		file, pair string
		ok         bool
	}
	var sites []site
	names := []string{}
	for n := range sp.Files {
		names = append(names, n)
	}
	sort.Strings(names)
	for _, n := range names {
		for _, d := range sp.Files[n].Decls {
			fd, ok := d.(*ast.FuncDecl)
			if !ok || fd.Body == nil {
				continue
			}
			ast.Inspect(fd.Body, func(nd ast.Node) bool {
				is, ok := nd.(*ast.IfStmt)
				if !ok || !strings.HasSuffix(sp.Src(is.Cond), "options.Explain") {
					return true
				}
				s := site{file: n + ":" + fd.Name.Name}
				els, _ := is.Else.(*ast.BlockStmt)
				if len(is.Body.List) == 2 && els != nil && len(els.List) == 1 {
					a1, ok1 := is.Body.List[0].(*ast.AssignStmt)
					a2, ok2 := is.Body.List[1].(*ast.AssignStmt)
					a3, ok3 := els.List[0].(*ast.AssignStmt)
					if ok1 && ok2 && ok3 && len(a1.Rhs) == 1 && len(a3.Rhs) == 1 {
						c1, okc1 := a1.Rhs[0].(*ast.CallExpr)
						c3, okc3 := a3.Rhs[0].(*ast.CallExpr)
						if okc1 && okc3 {
							f1, f3 := sp.Src(c1.Fun), sp.Src(c3.Fun)
							args1, args3 := []string{}, []string{}
							for _, a := range c1.Args {
								args1 = append(args1, sp.Src(a))
							}
							for _, a := range c3.Args {
								args3 = append(args3, sp.Src(a))
							}
							m1 := f1[strings.LastIndex(f1, ".")+1:]
							m3 := f3[strings.LastIndex(f3, ".")+1:]
							s.pair = m1 + "/" + m3
							recvSame := f1[:strings.LastIndex(f1, ".")+1] == f3[:strings.LastIndex(f3, ".")+1]
							s.ok = recvSame && strings.Join(args1, ",") == strings.Join(args3, ",") &&
								(s.pair == "Explain/Score" || s.pair == "ExplainComposite/ScoreComposite") &&
								strings.HasSuffix(sp.Src(a1.Lhs[0]), ".Explanation") && strings.HasSuffix(sp.Src(a2.Lhs[0]), ".Score") &&
								strings.HasSuffix(sp.Src(a3.Lhs[0]), ".Score") && sp.Src(a2.Rhs[0]) == sp.Src(a1.Lhs[0])+".Value"
						}
					}
				}
				sites = append(sites, s)
				return true
			})
		}
	}
	if len(sites) == 0 {
		g.c.Refuse("no `if …options.Explain` site found in search/searcher (anchor moved)")
	}
	var b strings.Builder
	b.WriteString("/-- the scoring sites of package searcher: (file:function, explain/score method pair, the explained branch scores by the\nexplanation of the same call with the same arguments) -/\n")
	b.WriteString("def explainSites : List (String × String × Bool) := [\n")
	for i, s := range sites {
		sep := ","
		if i == len(sites)-1 {
			sep = ""
		}
		fmt.Fprintf(&b, "  (%s, %s, %v)%s\n", LeanStr(s.file), LeanStr(s.pair), s.ok, sep)
	}
	b.WriteString("]\n\n")
	g.emitted = append(g.emitted, b.String())
	g.c.Summary["explain_sites"] = len(sites)
}

// ---------------------------------------------------------------------------------------------- phase 2 facts
//
// The theorems `n_le_N_of_segments` / `real_hit_score_pos_bounded` model the statistics of a term searcher as sums over
// one list of segments. The facts below are what that model reads off the source; each is a coarse, whitespace-normalised
// shape test of a few statements (so that a harmless rewrite rarely trips it, and a change of the summing structure —
// a skipped segment, a different reader, a missing deleted bitmap — does).

var c17reSpace = regexp.MustCompile(`\s+`)

// flat renders a node on one line with single spaces.
func c17flat(p *Pkg, n ast.Node) string {
	return strings.TrimSpace(c17reSpace.ReplaceAllString(p.Src(n), " "))
}

type c17fact struct {
	name string
	ok   bool
}

func (g *c17gen) writeFacts(defName, doc string, facts []c17fact) {
	var b strings.Builder
	fmt.Fprintf(&b, "/-- %s -/\ndef %s : List (String × Bool) := [\n", doc, defName)
	for i, f := range facts {
		sep := ","
		if i == len(facts)-1 {
			sep = ""
		}
		fmt.Fprintf(&b, "  (%s, %v)%s\n", LeanStr(f.name), f.ok, sep)
	}
	b.WriteString("]\n\n")
	g.emitted = append(g.emitted, b.String())
	m := map[string]bool{}
	for _, f := range facts {
		m[f.name] = f.ok
	}
	g.c.Summary[defName] = m
}

// rangeLoops returns the `for … range <over>` statements of a function body (flat text of the ranged expression).
func c17rangeLoops(p *Pkg, body *ast.BlockStmt, over string) []*ast.RangeStmt {
	var out []*ast.RangeStmt
	ast.Inspect(body, func(n ast.Node) bool {
		if r, ok := n.(*ast.RangeStmt); ok && c17flat(p, r.X) == over {
			out = append(out, r)
		}
		return true
	})
	return out
}

// hasBranch reports a break/continue/goto/return-free loop body? -> true when the body contains break, continue or goto.
func c17hasJump(body *ast.BlockStmt) bool {
	found := false
	ast.Inspect(body, func(n ast.Node) bool {
		if b, ok := n.(*ast.BranchStmt); ok && (b.Tok == token.BREAK || b.Tok == token.CONTINUE || b.Tok == token.GOTO) {
			found = true
		}
		return true
	})
	return found
}

// stmtTexts lists the flat text of every statement directly inside a block.
func c17stmtTexts(p *Pkg, b *ast.BlockStmt) []string {
	var out []string
	for _, s := range b.List {
		out = append(out, c17flat(p, s))
	}
	return out
}

func c17contains(xs []string, want string) bool {
	for _, x := range xs {
		if x == want {
			return true
		}
	}
	return false
}

func c17recvName(fd *ast.FuncDecl) string {
	if fd == nil || fd.Recv == nil || len(fd.Recv.List) != 1 || len(fd.Recv.List[0].Names) != 1 {
		return "_"
	}
	return fd.Recv.List[0].Names[0].Name
}

func (g *c17gen) emitStatsFacts() {
	ip := g.c.ParseDir("index")
	sp := g.c.ParseDir("search/searcher")
	var facts []c17fact
	add := func(name string, ok bool) { facts = append(facts, c17fact{name, ok}) }

	// (1) Snapshot.CollectionStats: after the virtual-field branch, ONE loop over every segment of the snapshot folds Merge
	cs := ip.Func("Snapshot.CollectionStats")
	if cs == nil || cs.Body == nil {
		g.c.Refuse("index: Snapshot.CollectionStats not found (anchor moved)")
	}
	r := c17recvName(cs)
	ok1 := false
	loops := c17rangeLoops(ip, cs.Body, r+".segment")
	if len(loops) == 1 && !c17hasJump(loops[0].Body) && loops[0].Key != nil && c17flat(ip, loops[0].Key) == "_" && loops[0].Value != nil {
		seg := c17flat(ip, loops[0].Value)
		st := c17stmtTexts(ip, loops[0].Body)
		ok1 = len(st) == 3 &&
			st[0] == "segStats, err := "+seg+".segment.CollectionStats(field)" &&
			st[1] == "if err != nil { return nil, err }" &&
			st[2] == "if rv == nil { rv = segStats } else { rv.Merge(segStats) }"
		// the loop is a top-level statement of the function and is followed by `return rv, nil`
		top := c17stmtTexts(ip, cs.Body)
		ok1 = ok1 && len(top) >= 3 && top[len(top)-1] == "return rv, nil" && top[len(top)-2] == c17flat(ip, loops[0]) &&
			strings.HasSuffix(top[len(top)-3], "var rv segment.CollectionStats") // (a comment may precede the declaration)
	}
	add("CollectionStats-folds-Merge-over-every-segment", ok1)

	// (2) the index's own collectionStats.Merge adds the three counters (the virtual-field statistics; the plugin's Merge
	// is dependency code and is validated by the correspondence run: N leaf = sum of the per-segment counts)
	mg := ip.Func("collectionStats.Merge")
	ok2 := false
	if mg != nil && mg.Body != nil {
		c := c17recvName(mg)
		st := c17stmtTexts(ip, mg.Body)
		ok2 = len(st) == 3 && c17contains(st, c+".docCount += other.DocumentCount()") &&
			c17contains(st, c+".sumTotalTermFreq += other.SumTotalTermFrequency()") &&
			c17contains(st, c+".totalDocCount += other.TotalDocumentCount()")
	}
	add("index-collectionStats-Merge-adds-counts", ok2)

	// (3) postingsIterator.Count sums Count() of every postings list
	pc := ip.Func("postingsIterator.Count")
	ok3 := false
	if pc != nil && pc.Body != nil {
		i := c17recvName(pc)
		st := c17stmtTexts(ip, pc.Body)
		ok3 = len(st) == 3 && st[0] == "var rv uint64" &&
			st[1] == "for _, posting := range "+i+".postings { rv += posting.Count() }" && st[2] == "return rv"
	}
	add("postingsIterator-Count-sums-every-list", ok3)

	// (4,5) Snapshot.PostingsIterator: one dictionary and one postings list per segment, the list built with the segment's
	// deleted bitmap as `except`
	pi := ip.Func("Snapshot.PostingsIterator")
	if pi == nil || pi.Body == nil {
		g.c.Refuse("index: Snapshot.PostingsIterator not found (anchor moved)")
	}
	ri := c17recvName(pi)
	ok4, ok5 := false, false
	for _, l := range c17rangeLoops(ip, pi.Body, ri+".segment") {
		if l.Key == nil || l.Value == nil || c17hasJump(l.Body) {
			continue
		}
		k, seg := c17flat(ip, l.Key), c17flat(ip, l.Value)
		st := c17stmtTexts(ip, l.Body)
		if c17contains(st, "pl, err := rv.dicts["+k+"].PostingsList(term, "+seg+".deleted, rv.postings["+k+"])") &&
			c17contains(st, "rv.postings["+k+"] = pl") {
			// every other statement of the loop is an error check or the iterator construction
			rest := true
			for _, x := range st {
				if !(strings.HasPrefix(x, "pl, err := ") || x == "rv.postings["+k+"] = pl" || x == "if err != nil { return nil, err }" ||
					strings.HasPrefix(x, "rv.iterators["+k+"], err = pl.Iterator(")) {
					rest = false
				}
			}
			ok4 = rest
		}
		if c17contains(st, "dict, err := "+seg+".segment.Dictionary(field)") && c17contains(st, "rv.dicts["+k+"] = dict") {
			ok5 = true
		}
	}
	top := c17flat(ip, pi.Body)
	ok4 = ok4 && strings.Contains(top, "rv.postings = make([]segment.PostingsList, len("+ri+".segment))")
	ok5 = ok5 && strings.Contains(top, "rv.dicts = make([]segment.Dictionary, len("+ri+".segment))")
	add("PostingsIterator-one-list-per-segment-except-deleted", ok4)
	add("PostingsIterator-one-dictionary-per-segment", ok5)

	// (6,7) the term searcher: statistics and postings from the SAME reader for the SAME field; docFreq = reader.Count()
	nb := sp.Func("NewTermSearcherBytes")
	nf := sp.Func("newTermSearcherFromReader")
	if nb == nil || nf == nil || nb.Body == nil || nf.Body == nil {
		g.c.Refuse("search/searcher: NewTermSearcherBytes / newTermSearcherFromReader not found (anchor moved)")
	}
	nbT, nfT := c17flat(sp, nb.Body), c17flat(sp, nf.Body)
	ok6 := strings.Contains(nbT, "reader, err := indexReader.PostingsIterator(term, field, needFreqNorm, needFreqNorm, options.IncludeTermVectors)") &&
		strings.Contains(nbT, "return newTermSearcherFromReader(indexReader, reader, term, field, boost, scorer, options)") &&
		strings.Contains(nfT, "collStats, err := indexReader.CollectionStats(field)")
	// parameter order of newTermSearcherFromReader
	var pnames []string
	for _, p := range nf.Type.Params.List {
		for _, n := range p.Names {
			pnames = append(pnames, n.Name)
		}
	}
	ok6 = ok6 && strings.Join(pnames, ",") == "indexReader,reader,term,field,boost,scorer,options"
	add("term-searcher-stats-from-same-reader-and-field", ok6)
	dfm := sp.Func("termStatsWrapper.DocumentFrequency")
	ok7 := strings.Contains(nfT, "scorer = options.SimilarityForField(field).Scorer(boost, collStats, &termStatsWrapper{docFreq: reader.Count()})") &&
		dfm != nil && dfm.Body != nil && c17flat(sp, dfm.Body) == "{ return "+c17recvName(dfm)+".docFreq }"
	add("term-searcher-docFreq-is-reader-Count", ok7)

	// (8) the only call of Similarity.Scorer in package searcher (and none in the root package's query code)
	count := 0
	for _, f := range sp.Files {
		ast.Inspect(f, func(n ast.Node) bool {
			if c, ok := n.(*ast.CallExpr); ok {
				if s, ok := c.Fun.(*ast.SelectorExpr); ok && s.Sel.Name == "Scorer" && len(c.Args) == 3 {
					count++
				}
			}
			return true
		})
	}
	rp := g.c.ParseDir(".")
	for _, f := range rp.Files {
		ast.Inspect(f, func(n ast.Node) bool {
			if c, ok := n.(*ast.CallExpr); ok {
				if s, ok := c.Fun.(*ast.SelectorExpr); ok && s.Sel.Name == "Scorer" && len(c.Args) == 3 {
					count++
				}
			}
			return true
		})
	}
	add("single-similarity-Scorer-site", count == 1)

	// (9) frequencies and norms are loaded unless the score mode is "none" (then Score sees freq 0, norm 0: outside 1 <= f)
	add("freq-norm-loaded-unless-score-none", strings.Contains(nbT, `needFreqNorm := options.Score != "none"`))

	// the scorer a term searcher uses under score mode "none": the similarity's (pinned tree: Score(0, 0)) or, after the
	// candidate repair work/C17/fix-score-none-constant-scorer.diff, ConstantScorer(0); the driver's `nscore` model follows it
	constZero := strings.Contains(nbT, "if !needFreqNorm && scorer == nil { scorer = similarity.ConstantScorer(0) }")
	g.emitted = append(g.emitted, fmt.Sprintf("/-- under score mode \"none\" `NewTermSearcherBytes` replaces the similarity's scorer by `ConstantScorer(0)` -/\ndef scoreNoneConstantZero : Bool := %v\n\n", constZero))
	g.c.Summary["scoreNoneConstantZero"] = constZero

	g.writeFacts("statsFacts", "how package index and the term searcher obtain `N`, `sumTotalTermFreq` and `n` (index/snapshot.go, index/postings.go, search/searcher/search_term.go): (fact, holds)", facts)
}

func (g *c17gen) emitLengthFacts() {
	rp := g.c.ParseDir(".")
	ap := g.c.ParseDir("analysis")
	var facts []c17fact
	add := func(name string, ok bool) { facts = append(facts, c17fact{name, ok}) }

	// every write of a selector `.analyzedLength` in the root package
	type wr struct{ fn, text string }
	var writes []wr
	for _, f := range rp.Files {
		for _, d := range f.Decls {
			fd, ok := d.(*ast.FuncDecl)
			if !ok || fd.Body == nil {
				continue
			}
			name := fd.Name.Name
			if fd.Recv != nil && len(fd.Recv.List) == 1 {
				t := fd.Recv.List[0].Type
				if s, ok := t.(*ast.StarExpr); ok {
					t = s.X
				}
				if id, ok := t.(*ast.Ident); ok {
					name = id.Name + "." + name
				}
			}
			ast.Inspect(fd.Body, func(n ast.Node) bool {
				switch x := n.(type) {
				case *ast.AssignStmt:
					for _, l := range x.Lhs {
						if s, ok := l.(*ast.SelectorExpr); ok && s.Sel.Name == "analyzedLength" {
							writes = append(writes, wr{name, c17flat(rp, x)})
						}
					}
				case *ast.IncDecStmt:
					if s, ok := x.X.(*ast.SelectorExpr); ok && s.Sel.Name == "analyzedLength" {
						writes = append(writes, wr{name, c17flat(rp, x)})
					}
				case *ast.KeyValueExpr:
					if id, ok := x.Key.(*ast.Ident); ok && id.Name == "analyzedLength" {
						writes = append(writes, wr{name, c17flat(rp, x)})
					}
				}
				return true
			})
		}
	}
	sort.Slice(writes, func(i, j int) bool { return writes[i].fn < writes[j].fn })
	okW := len(writes) == 2 && writes[0].fn == "CompositeField.Consume" && writes[1].fn == "TermField.Analyze"
	add("analyzedLength-written-twice", okW)

	// TermField.Analyze: `b.analyzedLength = len(tokens)` immediately followed by the frequencies of the same `tokens`
	an := rp.Func("TermField.Analyze")
	okA := false
	if an != nil && an.Body != nil {
		b := c17recvName(an)
		st := c17stmtTexts(rp, an.Body)
		for i := 0; i+1 < len(st); i++ {
			if st[i] == b+".analyzedLength = len(tokens)" &&
				st[i+1] == b+".analyzedTokenFreqs, lastPos = analysis.TokenFrequency(tokens, "+b+".IncludeLocations(), startOffset)" {
				okA = true
			}
		}
	}
	add("Analyze-length-is-len-tokens-beside-TokenFrequency-of-tokens", okA)

	// CompositeField.Consume: length and frequencies of the consumed field are added together, under the same guard
	co := rp.Func("CompositeField.Consume")
	okC := false
	if co != nil && co.Body != nil && len(co.Body.List) == 1 {
		c := c17recvName(co)
		if is, ok := co.Body.List[0].(*ast.IfStmt); ok && is.Else == nil && is.Init == nil &&
			c17flat(rp, is.Cond) == c+".includesField(field.Name())" {
			st := c17stmtTexts(rp, is.Body)
			okC = len(st) == 2 && st[0] == c+".analyzedLength += field.Length()" &&
				st[1] == c+".analyzedTokenFreqs.MergeAll(field.Name(), field.AnalyzedTokenFrequencies())"
		}
	}
	add("Consume-adds-length-beside-MergeAll", okC)

	// Length() of both field kinds returns analyzedLength; AnalyzedTokenFrequencies/EachTerm read analyzedTokenFreqs
	okL := true
	for _, fn := range []string{"TermField.Length", "CompositeField.Length"} {
		fd := rp.Func(fn)
		if fd == nil || fd.Body == nil || c17flat(rp, fd.Body) != "{ return "+c17recvName(fd)+".analyzedLength }" {
			okL = false
		}
	}
	if fd := rp.Func("TermField.AnalyzedTokenFrequencies"); fd == nil || fd.Body == nil ||
		c17flat(rp, fd.Body) != "{ return "+c17recvName(fd)+".analyzedTokenFreqs }" {
		okL = false
	}
	for _, fn := range []string{"TermField.EachTerm", "CompositeField.EachTerm"} {
		fd := rp.Func(fn)
		if fd == nil || fd.Body == nil || c17flat(rp, fd.Body) != "{ for _, v := range "+c17recvName(fd)+".analyzedTokenFreqs { vt(v) } }" {
			okL = false
		}
	}
	add("Length-returns-analyzedLength", okL)

	// analysis.TokenFrequency: two loops over `tokens`; every write of `frequency` is `curr.frequency++` or `frequency: 1`
	tf := ap.Func("TokenFrequency")
	okT := false
	if tf != nil && tf.Body != nil {
		loops := c17rangeLoops(ap, tf.Body, "tokens")
		good, bad := 0, 0
		ast.Inspect(tf.Body, func(n ast.Node) bool {
			switch x := n.(type) {
			case *ast.IncDecStmt:
				if s, ok := x.X.(*ast.SelectorExpr); ok && s.Sel.Name == "frequency" {
					if x.Tok == token.INC {
						good++
					} else {
						bad++
					}
				}
			case *ast.AssignStmt:
				for _, l := range x.Lhs {
					if s, ok := l.(*ast.SelectorExpr); ok && s.Sel.Name == "frequency" {
						bad++
					}
				}
			case *ast.KeyValueExpr:
				if id, ok := x.Key.(*ast.Ident); ok && id.Name == "frequency" {
					if c17flat(ap, x.Value) == "1" {
						good++
					} else {
						bad++
					}
				}
			}
			return true
		})
		jump := false
		for _, l := range loops {
			if c17hasJump(l.Body) {
				jump = true
			}
		}
		okT = len(loops) == 2 && good == 4 && bad == 0 && !jump
	}
	add("TokenFrequency-adds-one-per-token", okT)

	// config.go: the norm calculator handed to the index is the similarity's ComputeNorm (per field or default)
	dc := rp.Func("defaultConfig")
	okN := false
	if dc != nil && dc.Body != nil {
		t := c17flat(rp, dc.Body)
		okN = strings.Contains(t, "indexConfig.WithNormCalc(func(field string, length int) float32 { if pfs, ok := rv.PerFieldSimilarity[field]; ok { return pfs.ComputeNorm(length) } return rv.DefaultSimilarity.ComputeNorm(length) })")
	}
	add("norm-calc-is-similarity-ComputeNorm", okN)

	g.writeFacts("lengthFacts", "how a field's length and term frequencies are produced (field.go, analysis/freq.go, config.go): (fact, holds)", facts)
}

// emitFuzzyFacts: the per-term boost of a fuzzy query (search/searcher/search_fuzzy.go boostFromDistance and its caller,
// search_multi_term.go makeBatchSearchers) — the statements `Bluge.BM25.boostFromDistance` / `fuzzyTermBoost` transcribe.
func (g *c17gen) emitFuzzyFacts() {
	sp := g.c.ParseDir("search/searcher")
	var facts []c17fact
	add := func(name string, ok bool) { facts = append(facts, c17fact{name, ok}) }
	bd := sp.Func("boostFromDistance")
	fc := sp.Func("findFuzzyCandidateTerms")
	mb := sp.Func("makeBatchSearchers")
	if bd == nil || fc == nil || mb == nil || bd.Body == nil || fc.Body == nil || mb.Body == nil {
		g.c.Refuse("search/searcher: boostFromDistance / findFuzzyCandidateTerms / makeBatchSearchers not found (anchor moved)")
	}
	st := c17stmtTexts(sp, bd.Body)
	var pn []string
	for _, p := range bd.Type.Params.List {
		for _, n := range p.Names {
			pn = append(pn, n.Name)
		}
	}
	sigOK := strings.Join(pn, ",") == "fuzziness,automatons,dictTerm,searchTermLen"
	add("boostFromDistance-is-one-minus-distance-over-min-length", sigOK && len(st) == 6 &&
		st[2] == "minTermLen := searchTermLen" && st[3] == "thisTermLen := utf8.RuneCountInString(dictTerm)" &&
		st[4] == "if thisTermLen < minTermLen { minTermLen = thisTermLen }" &&
		st[5] == "return 1.0 - (float64(termEditDistance) / float64(minTermLen))")
	add("distance-starts-at-fuzziness-and-drops-per-smaller-automaton", len(st) == 6 &&
		strings.HasPrefix(st[0], "termEditDistance := fuzziness") &&
		st[1] == "for i := 1; i < len(automatons); i++ { if vellum.AutomatonContains(automatons[i], []byte(dictTerm)) { termEditDistance-- } }")
	fcT := c17flat(sp, fc.Body)
	add("query-term-itself-gets-boost-one", strings.Contains(fcT, "boost := 1.0 if tfd.Term() != term { boost = boostFromDistance(fuzziness, automatons, tfd.Term(), termLen) } boosts = append(boosts, boost)") &&
		strings.Contains(fcT, "termLen := utf8.RuneCountInString(term)"))
	mbT := c17flat(sp, mb.Body)
	add("term-searcher-boost-is-boost-times-term-boost", strings.Contains(mbT, "if termBoosts != nil { qsearchers[i], err = NewTermSearcher(indexReader, term, field, boost*termBoosts[i], scorer, options) } else { qsearchers[i], err = NewTermSearcher(indexReader, term, field, boost, scorer, options) }"))
	g.writeFacts("fuzzyFacts", "the per-term boost of a fuzzy query (search/searcher/search_fuzzy.go, search_multi_term.go): (fact, holds)", facts)
}

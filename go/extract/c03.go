package main

// Gen layer of C03 and C14: facts about the recovery walk (loadSnapshots, OpenReader, the seed of
// nextSegmentID) and about the error branches of persisterLoop / mergerLoop. The hand-written model
// (Bluge.Persist.reopen / recover / stepPersistFail / stepAck, Bluge.Persist.observe) transcribes these
// lines; BlugeProofs.C03 / BlugeProofs.C14 hold one `decide` obligation per fact.
//
// The C03 theorems are stated over the models of C02 (Bluge.Persist, Gen facts BlugeGen.C02) and of
// C12 (Bluge.Codec, whose configuration `currentCfg` is BlugeGen.C12): this generator regenerates
// those two layers as well, so that `./check C03` re-checks its theorems against what the source
// says now.

import (
	"fmt"
	"go/ast"
	"go/token"
	"sort"
	"strings"
)

func init() { Register("C03", genC03) }

func regenDeps(c *Ctx, props ...string) {
	for _, p := range props {
		f, ok := registry[p]
		if !ok {
			c.Refuse("generator of %s (a dependency) is not registered", p)
		}
		sub := &Ctx{Repo: c.Repo, Out: c.Out, Prop: p, Summary: map[string]interface{}{}}
		f(sub)
		c.Summary["dep:"+p] = "regenerated"
	}
}

// errBranchOf: the `if err != nil { … }` statement that directly follows the statement at pos.
func errIf(st ast.Stmt) *ast.IfStmt {
	is, ok := st.(*ast.IfStmt)
	if !ok {
		return nil
	}
	be, ok := is.Cond.(*ast.BinaryExpr)
	if !ok || be.Op != token.NEQ || selName(be.X) != "err" || selName(be.Y) != "nil" {
		return nil
	}
	return is
}

func lastBranch(b *ast.BlockStmt) string {
	if n := len(b.List); n > 0 {
		switch x := b.List[n-1].(type) {
		case *ast.BranchStmt:
			s := strings.ToLower(x.Tok.String())
			if x.Label != nil {
				s += " " + x.Label.Name
			}
			return s
		case *ast.ReturnStmt:
			return "return"
		}
	}
	return "fallthrough"
}

type c03facts struct {
	loadWalk        string // "oldest-first" | "newest-first" | "?"
	loadOnErr       string // continue | return | …
	loadFailCond    string
	loadNextEpoch   string
	loadLastEpoch   string
	loadCommits     bool
	loadReplaces    bool
	readerWalk      string
	readerOnErr     string
	readerOnOk      string
	readerNilErrors bool
	listDescending  bool
	segSeedList     string // the kind listed for the seed
	segSeedExpr     string // what nextSegmentID is assigned from
	segSeedInc      bool
	segIDsByAdd     int // sites that take a new id by atomic.AddUint64(&s.nextSegmentID, 1)
	segIDsOther     []string
	listSegErrRet   bool // OpenWriter: `…, err := directory.List(ItemKindSegment)` is directly followed by `if err != nil { … return }`
	skippedMergeNil bool // mergeSegmentBases: on the skipped branch the post-merge snapshot is closed and `newSnapshot = nil`
}

func extractC03(c *Ctx) c03facts {
	var f c03facts
	idx := c.ParseDir("index")

	// ---- loadSnapshots
	ls := idx.Func("Writer.loadSnapshots")
	if ls == nil {
		c.Refuse("index: (*Writer).loadSnapshots not found")
	}
	f.loadWalk, f.loadOnErr = "?", "?"
	nloops := 0
	ast.Inspect(ls.Body, func(m ast.Node) bool {
		fs, ok := m.(*ast.ForStmt)
		if !ok {
			return true
		}
		nloops++
		// for i := len(snapshotEpochs) - 1; i >= 0; i--   over the (descending) listing = oldest first
		if inc, ok := fs.Post.(*ast.IncDecStmt); ok && inc.Tok == token.DEC {
			if be, ok := fs.Cond.(*ast.BinaryExpr); ok && be.Op == token.GEQ {
				f.loadWalk = "oldest-first"
			}
		} else if inc, ok := fs.Post.(*ast.IncDecStmt); ok && inc.Tok == token.INC {
			f.loadWalk = "newest-first"
		}
		for _, st := range fs.Body.List {
			if is := errIf(st); is != nil && f.loadOnErr == "?" {
				f.loadOnErr = lastBranch(is.Body)
			}
			if as, ok := st.(*ast.AssignStmt); ok && len(as.Lhs) == 1 && len(as.Rhs) == 1 {
				switch selName(as.Lhs[0]) {
				case "nextSnapshotEpoch":
					f.loadNextEpoch = idx.Src(as.Rhs[0])
				case "lastPersistedEpoch":
					f.loadLastEpoch = idx.Src(as.Rhs[0])
				}
			}
		}
		for _, x := range callsIn(fs.Body) {
			if strings.HasSuffix(x.name, ".deletionPolicy.Commit") {
				f.loadCommits = true
			}
			if strings.HasSuffix(x.name, ".replaceRoot") {
				f.loadReplaces = true
			}
		}
		return false
	})
	if nloops != 1 {
		c.Refuse("loadSnapshots: %d loops (expected the one walk over the snapshot epochs)", nloops)
	}
	for _, st := range ls.Body.List {
		if is, ok := st.(*ast.IfStmt); ok {
			if _, ret := is.Body.List[len(is.Body.List)-1].(*ast.ReturnStmt); ret && strings.Contains(idx.Src(is.Cond), "snapshot") {
				f.loadFailCond = idx.Src(is.Cond)
			}
		}
	}
	// the range loop may be written `for range` in a rewrite: refuse what is not understood
	if f.loadWalk == "?" {
		c.Refuse("loadSnapshots: the walk over the snapshot epochs is not an index loop")
	}

	// ---- OpenReader
	or := idx.Func("OpenReader")
	if or == nil {
		c.Refuse("index: OpenReader not found")
	}
	f.readerWalk, f.readerOnErr, f.readerOnOk = "?", "?", "?"
	ast.Inspect(or.Body, func(m ast.Node) bool {
		rs, ok := m.(*ast.RangeStmt)
		if !ok {
			return true
		}
		if selName(rs.X) == "snapshotEpochs" {
			f.readerWalk = "newest-first" // the listing is descending, ranged over forwards
		}
		for _, st := range rs.Body.List {
			if is := errIf(st); is != nil {
				f.readerOnErr = lastBranch(is.Body)
			}
		}
		f.readerOnOk = lastBranch(rs.Body)
		return false
	})
	for _, st := range or.Body.List {
		if is, ok := st.(*ast.IfStmt); ok {
			if be, ok := is.Cond.(*ast.BinaryExpr); ok && be.Op == token.EQL && selName(be.X) == "indexSnapshot" && selName(be.Y) == "nil" {
				_, f.readerNilErrors = is.Body.List[len(is.Body.List)-1].(*ast.ReturnStmt)
			}
		}
	}

	// ---- FileSystemDirectory.List sorts descending
	li := idx.Func("FileSystemDirectory.List")
	if li == nil {
		c.Refuse("index: (*FileSystemDirectory).List not found")
	}
	for _, x := range callsIn(li.Body) {
		if x.name == "sort.Sort" && len(x.call.Args) == 1 {
			if in, ok := x.call.Args[0].(*ast.CallExpr); ok && selName(in.Fun) == "sort.Reverse" {
				f.listDescending = true
			}
		}
	}

	// ---- OpenWriter: nextSegmentID from List(ItemKindSegment)[0], then ++
	ow := idx.Func("OpenWriter")
	if ow == nil {
		c.Refuse("index: OpenWriter not found")
	}
	listVar := map[string]string{} // variable -> kind listed
	ast.Inspect(ow.Body, func(m ast.Node) bool {
		switch x := m.(type) {
		case *ast.AssignStmt:
			if len(x.Rhs) == 1 {
				if call, ok := x.Rhs[0].(*ast.CallExpr); ok && strings.HasSuffix(selName(call.Fun), ".directory.List") && len(call.Args) == 1 && len(x.Lhs) >= 1 {
					listVar[selName(x.Lhs[0])] = selName(call.Args[0])
					if selName(call.Args[0]) == "ItemKindSegment" {
						f.listSegErrRet = isErrCheckReturning(stmtAfter(ow.Body, call.Pos()))
					}
				}
			}
			if len(x.Lhs) == 1 && strings.HasSuffix(selName(x.Lhs[0]), ".nextSegmentID") && len(x.Rhs) == 1 {
				f.segSeedExpr = idx.Src(x.Rhs[0])
				if ie, ok := x.Rhs[0].(*ast.IndexExpr); ok {
					if k, ok := listVar[selName(ie.X)]; ok {
						f.segSeedList = k
						f.segSeedExpr = "LISTED[" + idx.Src(ie.Index) + "]"
					}
				}
			}
		case *ast.IncDecStmt:
			if strings.HasSuffix(selName(x.X), ".nextSegmentID") && x.Tok == token.INC {
				f.segSeedInc = true
			}
		}
		return true
	})
	// every other use of nextSegmentID in the package is atomic.AddUint64(&s.nextSegmentID, 1)
	var allFuncs []*ast.FuncDecl
	for _, file := range idx.Files {
		for _, d := range file.Decls {
			if fd, ok := d.(*ast.FuncDecl); ok {
				allFuncs = append(allFuncs, fd)
			}
		}
	}
	for _, fd := range allFuncs {
		if fd.Body == nil {
			continue
		}
		name := fd.Name.Name
		ast.Inspect(fd.Body, func(m ast.Node) bool {
			se, ok := m.(*ast.SelectorExpr)
			if !ok || se.Sel.Name != "nextSegmentID" {
				return true
			}
			if name == "OpenWriter" {
				return true
			}
			f.segIDsOther = append(f.segIDsOther, name)
			return true
		})
		for _, x := range callsIn(fd.Body) {
			if x.name == "atomic.AddUint64" && len(x.call.Args) == 2 {
				if u, ok := x.call.Args[0].(*ast.UnaryExpr); ok && u.Op == token.AND && strings.HasSuffix(selName(u.X), ".nextSegmentID") && idx.Src(x.call.Args[1]) == "1" {
					f.segIDsByAdd++
					// remove one "other" mark for this function: the use is the Add
					for i, n := range f.segIDsOther {
						if n == name {
							f.segIDsOther = append(f.segIDsOther[:i], f.segIDsOther[i+1:]...)
							break
						}
					}
				}
			}
		}
	}
	// mergeSegmentBases: `if mergeTaskIntroStatus.skipped { _ = newSnapshot.Close(); …; newSnapshot = nil }`
	if mb := idx.Func("Writer.mergeSegmentBases"); mb != nil {
		ast.Inspect(mb.Body, func(m ast.Node) bool {
			is, ok := m.(*ast.IfStmt)
			if !ok || !strings.HasSuffix(selName(is.Cond), ".skipped") {
				return true
			}
			closes, nils := false, false
			for _, st := range is.Body.List {
				if as, ok := st.(*ast.AssignStmt); ok && len(as.Lhs) == 1 && len(as.Rhs) == 1 {
					if selName(as.Lhs[0]) == "newSnapshot" && selName(as.Rhs[0]) == "nil" {
						nils = true
					}
					if call, ok := as.Rhs[0].(*ast.CallExpr); ok && selName(call.Fun) == "newSnapshot.Close" {
						closes = true
					}
				}
			}
			f.skippedMergeNil = closes && nils
			return false
		})
	} else {
		c.Refuse("index: mergeSegmentBases not found")
	}
	sort.Strings(f.segIDsOther)
	return f
}

type c14facts struct {
	errBranchOrder []string // what the persister does when persistSnapshot failed, in order
	okPrepends     bool     // success: ourPersistedCallbacks = append(unpersistedCallbacks, ourPersistedCallbacks...)
	okResets       bool     // … unpersistedCallbacks = nil
	okInvokesAll   bool     // … for i := range ourPersistedCallbacks { ourPersistedCallbacks[i](err) }
	mergerBranch   []string
	cleanupErrKept []string // cleanupSnapshots / cleanupSegments: what happens to an item whose Remove failed
	mmHandling     []string // persistSnapshot: the tests on the (done, err) result of persistSnapshotMaybeMerge, in order
	mmTrueReturns  []string // persistSnapshotMaybeMerge: the return statements that say "persisted"
	mmEquivChecked bool     // … the error of persistSnapshotDirect(equiv) is tested and returned as (false, err)
}

func extractC14(c *Ctx) c14facts {
	var f c14facts
	idx := c.ParseDir("index")
	pl := idx.Func("Writer.persisterLoop")
	if pl == nil {
		c.Refuse("index: persisterLoop not found")
	}
	cs := callsIn(pl.Body)
	ps, ok := firstCall(cs, "s.persistSnapshot", nil)
	if !ok {
		c.Refuse("persisterLoop: call of persistSnapshot not found")
	}
	// the error branch that ends in `continue OUTER`, after persistSnapshot
	var errBr *ast.IfStmt
	ast.Inspect(pl.Body, func(m ast.Node) bool {
		if is, ok := m.(*ast.IfStmt); ok && is.Pos() > ps.end && errBr == nil {
			if e := errIf(is); e != nil && strings.HasPrefix(lastBranch(e.Body), "continue") {
				errBr = e
			}
		}
		return true
	})
	if errBr == nil {
		c.Refuse("persisterLoop: no `if err != nil { … continue OUTER }` after persistSnapshot")
	}
	var walk func(list []ast.Stmt)
	walk = func(list []ast.Stmt) {
		for _, st := range list {
			switch x := st.(type) {
			case *ast.IfStmt:
				if strings.Contains(idx.Src(x.Cond), "ErrClosed") {
					f.errBranchOrder = append(f.errBranchOrder, "if-closed:"+lastBranch(x.Body))
					continue
				}
				f.errBranchOrder = append(f.errBranchOrder, "if:"+idx.Src(x.Cond))
			case *ast.AssignStmt:
				if len(x.Lhs) == 1 && selName(x.Lhs[0]) == "unpersistedCallbacks" && len(x.Rhs) == 1 {
					src := strings.ReplaceAll(idx.Src(x.Rhs[0]), " ", "")
					if src == "append(unpersistedCallbacks,ourPersistedCallbacks...)" {
						f.errBranchOrder = append(f.errBranchOrder, "park-callbacks")
					} else {
						f.errBranchOrder = append(f.errBranchOrder, "unpersistedCallbacks="+src)
					}
				}
			case *ast.ExprStmt:
				if call, ok := x.X.(*ast.CallExpr); ok {
					switch n := selName(call.Fun); {
					case strings.HasSuffix(n, ".fireAsyncError"):
						f.errBranchOrder = append(f.errBranchOrder, "fire-async-error")
					case strings.HasPrefix(n, "atomic."):
					default:
						_ = n
					}
				}
			case *ast.BranchStmt:
				f.errBranchOrder = append(f.errBranchOrder, lastBranch(&ast.BlockStmt{List: []ast.Stmt{x}}))
			}
		}
	}
	walk(errBr.Body.List)
	// success path
	ast.Inspect(pl.Body, func(m ast.Node) bool {
		switch x := m.(type) {
		case *ast.AssignStmt:
			if x.Pos() > errBr.End() && len(x.Lhs) == 1 && len(x.Rhs) == 1 {
				l, r := selName(x.Lhs[0]), strings.ReplaceAll(idx.Src(x.Rhs[0]), " ", "")
				if l == "ourPersistedCallbacks" && r == "append(unpersistedCallbacks,ourPersistedCallbacks...)" {
					f.okPrepends = true
				}
				if l == "unpersistedCallbacks" && r == "nil" {
					f.okResets = true
				}
			}
		case *ast.RangeStmt:
			if x.Pos() > errBr.End() && selName(x.X) == "ourPersistedCallbacks" {
				for _, cc := range callsIn(x.Body) {
					if ie, ok := cc.call.Fun.(*ast.IndexExpr); ok && selName(ie.X) == "ourPersistedCallbacks" {
						f.okInvokesAll = true
					}
				}
			}
		}
		return true
	})

	// mergerLoop: error of planMergeAtSnapshot
	ml := idx.Func("Writer.mergerLoop")
	if ml == nil {
		c.Refuse("index: mergerLoop not found")
	}
	pm, ok := firstCall(callsIn(ml.Body), "s.planMergeAtSnapshot", nil)
	if !ok {
		c.Refuse("mergerLoop: call of planMergeAtSnapshot not found")
	}
	var mBr *ast.IfStmt
	ast.Inspect(ml.Body, func(m ast.Node) bool {
		if is, ok := m.(*ast.IfStmt); ok && is.Pos() > pm.end && mBr == nil {
			if e := errIf(is); e != nil {
				mBr = e
			}
		}
		return true
	})
	if mBr == nil {
		c.Refuse("mergerLoop: no error branch after planMergeAtSnapshot")
	}
	for _, st := range mBr.Body.List {
		switch x := st.(type) {
		case *ast.IfStmt:
			if strings.Contains(idx.Src(x.Cond), "ErrClosed") {
				f.mergerBranch = append(f.mergerBranch, "if-closed:"+lastBranch(x.Body))
			}
		case *ast.ExprStmt:
			if call, ok := x.X.(*ast.CallExpr); ok && strings.HasSuffix(selName(call.Fun), ".fireAsyncError") {
				f.mergerBranch = append(f.mergerBranch, "fire-async-error")
			}
		case *ast.BranchStmt:
			f.mergerBranch = append(f.mergerBranch, lastBranch(&ast.BlockStmt{List: []ast.Stmt{x}}))
		}
	}

	// persistSnapshot: how the (done, err) pair of persistSnapshotMaybeMerge is consumed
	psn := idx.Func("Writer.persistSnapshot")
	pmm := idx.Func("Writer.persistSnapshotMaybeMerge")
	if psn == nil || pmm == nil {
		c.Refuse("index: persistSnapshot / persistSnapshotMaybeMerge not found")
	}
	retSrc := func(r *ast.ReturnStmt) string {
		var parts []string
		for _, e := range r.Results {
			parts = append(parts, strings.Join(strings.Fields(idx.Src(e)), " "))
		}
		return strings.Join(parts, ", ")
	}
	found := false
	ast.Inspect(psn.Body, func(m ast.Node) bool {
		blk, ok := m.(*ast.BlockStmt)
		if !ok {
			return true
		}
		for i, st := range blk.List {
			as, ok := st.(*ast.AssignStmt)
			if !ok || len(as.Rhs) != 1 || len(as.Lhs) != 2 {
				continue
			}
			call, ok := as.Rhs[0].(*ast.CallExpr)
			if !ok || !strings.HasSuffix(selName(call.Fun), ".persistSnapshotMaybeMerge") {
				continue
			}
			found = true
			done, errName := selName(as.Lhs[0]), selName(as.Lhs[1])
			for _, nx := range blk.List[i+1:] {
				is, ok := nx.(*ast.IfStmt)
				if !ok {
					f.mmHandling = append(f.mmHandling, "other")
					continue
				}
				what := "if-other:" + idx.Src(is.Cond)
				if be, ok := is.Cond.(*ast.BinaryExpr); ok && be.Op == token.NEQ && selName(be.X) == errName && selName(be.Y) == "nil" {
					what = "if-err"
				} else if selName(is.Cond) == done {
					what = "if-done"
				}
				if n := len(is.Body.List); n > 0 {
					if r, ok := is.Body.List[n-1].(*ast.ReturnStmt); ok {
						r0 := retSrc(r)
						if r0 == errName {
							r0 = "err"
						}
						what += ":return " + r0
					}
				}
				f.mmHandling = append(f.mmHandling, what)
			}
		}
		return true
	})
	if !found {
		c.Refuse("persistSnapshot: `done, err := persistSnapshotMaybeMerge(…)` not found")
	}
	var walkRet func(n ast.Node)
	walkRet = func(n ast.Node) {
		ast.Inspect(n, func(m ast.Node) bool {
			switch x := m.(type) {
			case *ast.FuncLit:
				return false
			case *ast.ReturnStmt:
				if len(x.Results) == 2 && selName(x.Results[0]) == "true" {
					f.mmTrueReturns = append(f.mmTrueReturns, retSrc(x))
				}
			}
			return true
		})
	}
	walkRet(pmm.Body)
	for _, x := range callsIn(pmm.Body) {
		if strings.HasSuffix(x.name, ".persistSnapshotDirect") {
			nx := stmtAfter(pmm.Body, x.pos)
			if is := errIf(nx); is != nil && len(is.Body.List) > 0 {
				if r, ok := is.Body.List[len(is.Body.List)-1].(*ast.ReturnStmt); ok && retSrc(r) == "false, err" {
					f.mmEquivChecked = true
				}
			}
		}
	}

	// deletion policy: an item whose Remove failed stays listed
	for _, fn := range []string{"KeepNLatestDeletionPolicy.cleanupSnapshots", "KeepNLatestDeletionPolicy.cleanupSegments"} {
		fd := idx.Func(fn)
		if fd == nil {
			c.Refuse("index: %s not found", fn)
		}
		kept := "?"
		ast.Inspect(fd.Body, func(m ast.Node) bool {
			if is, ok := m.(*ast.IfStmt); ok {
				if e := errIf(is); e != nil {
					src := strings.ReplaceAll(idx.Src(e.Body), " ", "")
					switch {
					case strings.Contains(src, "remainingEpochs=append(remainingEpochs,deletableEpoch)"):
						kept = "kept-in-remaining"
					case lastBranch(e.Body) == "continue" && !strings.Contains(src, "delete("):
						kept = "continue-before-delete"
					default:
						kept = "other:" + src
					}
				}
			}
			return true
		})
		f.cleanupErrKept = append(f.cleanupErrKept, kept)
	}
	return f
}

func genC03(c *Ctx) {
	regenDeps(c, "C02", "C12")
	f := extractC03(c)
	g := extractC14(c)
	var b strings.Builder
	b.WriteString("/-! GENERATED by go/extract (c03.go) from /repo's working tree: index/writer.go (loadSnapshots, OpenReader, OpenWriter),\nindex/directory_fs.go (List), index/persister.go, index/merge.go, index/deletion.go. Do not edit. -/\n")
	b.WriteString("namespace BlugeGen.C03\n\n")
	fmt.Fprintf(&b, "/-- loadSnapshots: direction of the walk over the snapshot epochs -/\ndef loadWalk : String := %s\n", LeanStr(f.loadWalk))
	fmt.Fprintf(&b, "/-- … what the loop does when loadSnapshot returns an error -/\ndef loadOnErr : String := %s\n", LeanStr(f.loadOnErr))
	fmt.Fprintf(&b, "/-- … the condition under which loadSnapshots itself fails -/\ndef loadFailCond : String := %s\n", LeanStr(f.loadFailCond))
	fmt.Fprintf(&b, "def loadNextEpoch : String := %s\ndef loadLastEpoch : String := %s\n", LeanStr(f.loadNextEpoch), LeanStr(f.loadLastEpoch))
	fmt.Fprintf(&b, "def loadCommits : Bool := %s\ndef loadReplacesRoot : Bool := %s\n", leanBool(f.loadCommits), leanBool(f.loadReplaces))
	fmt.Fprintf(&b, "/-- OpenReader: direction of the walk, what happens on error / on success, nil ⇒ error -/\ndef readerWalk : String := %s\ndef readerOnErr : String := %s\ndef readerOnOk : String := %s\ndef readerNilErrors : Bool := %s\n",
		LeanStr(f.readerWalk), LeanStr(f.readerOnErr), LeanStr(f.readerOnOk), leanBool(f.readerNilErrors))
	fmt.Fprintf(&b, "/-- FileSystemDirectory.List sorts descending -/\ndef listDescending : Bool := %s\n", leanBool(f.listDescending))
	fmt.Fprintf(&b, "/-- OpenWriter: nextSegmentID is seeded from the listing of this kind, by this expression, then incremented -/\ndef segSeedList : String := %s\ndef segSeedExpr : String := %s\ndef segSeedInc : Bool := %s\n",
		LeanStr(f.segSeedList), LeanStr(f.segSeedExpr), leanBool(f.segSeedInc))
	fmt.Fprintf(&b, "/-- every other use of nextSegmentID is `atomic.AddUint64(&s.nextSegmentID, 1)` -/\ndef segIDsByAdd : Nat := %d\ndef segIDsOther : List String := %s\n", f.segIDsByAdd, leanStrs(f.segIDsOther))
	fmt.Fprintf(&b, "/-- mergeSegmentBases: when the introducer skipped the merge, the post-merge snapshot is closed and nil is returned -/\ndef skippedMergeReturnsNil : Bool := %s\n", leanBool(f.skippedMergeNil))
	fmt.Fprintf(&b, "/-- OpenWriter: the error of List(ItemKindSegment) is tested and returned before err is assigned again -/\ndef listSegmentsErrReturned : Bool := %s\n", leanBool(f.listSegErrRet))
	writeC14Defs(&b, g)
	b.WriteString("\nend BlugeGen.C03\n")
	c.WriteLean("C03", b.String())
	c.Summary["loadSnapshots"] = f.loadWalk + ", on error: " + f.loadOnErr + ", fails iff " + f.loadFailCond
	c.Summary["OpenReader"] = f.readerWalk + ", on error: " + f.readerOnErr
	c.Summary["nextSegmentID"] = f.segSeedList + " " + f.segSeedExpr
}

func writeC14Defs(b *strings.Builder, g c14facts) {
	fmt.Fprintf(b, "\n/-- persisterLoop, after persistSnapshot returned an error (the channels have been served before) -/\ndef persistErrBranch : List String := %s\n", leanStrs(g.errBranchOrder))
	fmt.Fprintf(b, "def okPrependsParked : Bool := %s\ndef okResetsParked : Bool := %s\ndef okInvokesAll : Bool := %s\n", leanBool(g.okPrepends), leanBool(g.okResets), leanBool(g.okInvokesAll))
	fmt.Fprintf(b, "/-- mergerLoop, after planMergeAtSnapshot returned an error -/\ndef mergeErrBranch : List String := %s\n", leanStrs(g.mergerBranch))
	fmt.Fprintf(b, "/-- cleanupSnapshots / cleanupSegments: an item whose Remove failed -/\ndef cleanupOnRemoveErr : List String := %s\n", leanStrs(g.cleanupErrKept))
	fmt.Fprintf(b, "/-- persistSnapshot: the tests that follow `done, err := persistSnapshotMaybeMerge(…)`, in statement order -/\ndef maybeMergeHandling : List String := %s\n", leanStrs(g.mmHandling))
	fmt.Fprintf(b, "/-- persistSnapshotMaybeMerge: its return statements whose first result is `true` -/\ndef maybeMergeTrueReturns : List String := %s\n", leanStrs(g.mmTrueReturns))
	fmt.Fprintf(b, "/-- … the error of persistSnapshotDirect(equiv) is tested and returned as (false, err) -/\ndef maybeMergeEquivErrReturned : Bool := %s\n", leanBool(g.mmEquivChecked))
}

func genC14(c *Ctx) {
	// C14's theorems import BlugeGen.C03 (one generated module for both properties) and the C02 layer
	genC03(c)
}

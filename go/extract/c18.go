package main

// Gen for C18: lean/BlugeGen/C18.lean = FilterFacts.
//
// For EVERY type in /repo/analysis/** that implements analysis.Tokenizer (Tokenize([]byte) TokenStream),
// analysis.TokenFilter (Filter(TokenStream) TokenStream) or analysis.CharFilter (Filter([]byte) []byte):
// every assignment to a `.Start`, `.End`, `.PositionIncr` selector and every construction of an
// analysis.Token (composite literal), in the method itself and in every function or method of the same
// package it reaches by name (transitively). A component with no such site can only assign
// Term/Type/KeyWord or drop/reorder tokens ("term-only"); the others are the "offset writers" that
// BlugeProofs.C18 requires to be modelled.
//
// Determinism facts: every `range` over a map, every use of package time / math/rand / crypto/rand,
// every `go` statement and every `select` in the analysis packages (a range whose operand cannot be
// classified syntactically is listed as "range?" so that it has to be looked at).

import (
	"fmt"
	"go/ast"
	"go/token"
	"os"
	"path/filepath"
	"sort"
	"strings"
)

func init() { Register("C18", genC18) }

type c18Write struct {
	File, Func, Kind, Field, How string
}

type c18Comp struct {
	Pkg, Name, Kind string
	Writes          []c18Write
}

type c18Site struct{ File, Func, What string }

func analysisDirs(c *Ctx) []string {
	var dirs []string
	root := filepath.Join(c.Repo, "analysis")
	err := filepath.Walk(root, func(p string, info os.FileInfo, err error) error {
		if err != nil {
			return err
		}
		if info.IsDir() {
			rel, _ := filepath.Rel(c.Repo, p)
			dirs = append(dirs, filepath.ToSlash(rel))
		}
		return nil
	})
	if err != nil {
		c.Refuse("cannot walk %s: %v", root, err)
	}
	sort.Strings(dirs)
	return dirs
}

func typeStr(e ast.Expr) string {
	switch t := e.(type) {
	case *ast.Ident:
		return t.Name
	case *ast.SelectorExpr:
		return typeStr(t.X) + "." + t.Sel.Name
	case *ast.StarExpr:
		return "*" + typeStr(t.X)
	case *ast.ArrayType:
		return "[]" + typeStr(t.Elt)
	case *ast.MapType:
		return "map[" + typeStr(t.Key) + "]" + typeStr(t.Value)
	case *ast.Ellipsis:
		return "..." + typeStr(t.Elt)
	case *ast.InterfaceType:
		return "interface"
	case *ast.FuncType:
		return "func"
	}
	return "?"
}

func recvName(fd *ast.FuncDecl) string {
	if fd.Recv == nil || len(fd.Recv.List) != 1 {
		return ""
	}
	t := fd.Recv.List[0].Type
	if s, ok := t.(*ast.StarExpr); ok {
		t = s.X
	}
	if id, ok := t.(*ast.Ident); ok {
		return id.Name
	}
	return ""
}

func funcKey(fd *ast.FuncDecl) string {
	if r := recvName(fd); r != "" {
		return r + "." + fd.Name.Name
	}
	return fd.Name.Name
}

// componentKind classifies a method declaration by its signature.
func componentKind(fd *ast.FuncDecl, inAnalysisPkg bool) string {
	if fd.Recv == nil || fd.Type.Params == nil || fd.Type.Results == nil {
		return ""
	}
	if len(fd.Type.Params.List) != 1 || len(fd.Type.Results.List) != 1 {
		return ""
	}
	p := typeStr(fd.Type.Params.List[0].Type)
	r := typeStr(fd.Type.Results.List[0].Type)
	ts := "analysis.TokenStream"
	if inAnalysisPkg {
		ts = "TokenStream"
	}
	switch {
	case fd.Name.Name == "Tokenize" && p == "[]byte" && r == ts:
		return "tokenizer"
	case fd.Name.Name == "Filter" && p == ts && r == ts:
		return "tokenfilter"
	case fd.Name.Name == "Filter" && p == "[]byte" && r == "[]byte":
		return "charfilter"
	}
	return ""
}

func offsetField(name string) bool { return name == "Start" || name == "End" || name == "PositionIncr" }

func howOf(field string, v ast.Expr) string {
	switch x := v.(type) {
	case *ast.BasicLit:
		return "const"
	case *ast.UnaryExpr:
		if _, ok := x.X.(*ast.BasicLit); ok {
			return "const"
		}
	case *ast.SelectorExpr:
		if x.Sel.Name == field {
			return "copy"
		}
	case *ast.ParenExpr:
		return howOf(field, x.X)
	}
	return "computed"
}

func isTokenType(e ast.Expr) bool {
	s := typeStr(e)
	return s == "analysis.Token" || s == "Token"
}

type c18Pkg struct {
	rel    string
	pkg    *Pkg
	funcs  map[string]*ast.FuncDecl   // by funcKey
	byName map[string][]*ast.FuncDecl // by bare name
	file   map[*ast.FuncDecl]string
}

// writesOf lists the offset writes and token constructions directly inside one function body.
func (p *c18Pkg) writesOf(fd *ast.FuncDecl) []c18Write {
	var ws []c18Write
	file, fn := p.rel+"/"+p.file[fd], funcKey(fd)
	if fd.Body == nil {
		return nil
	}
	ast.Inspect(fd.Body, func(n ast.Node) bool {
		switch s := n.(type) {
		case *ast.AssignStmt:
			for i, l := range s.Lhs {
				sel, ok := l.(*ast.SelectorExpr)
				if !ok || !offsetField(sel.Sel.Name) {
					continue
				}
				how := "computed"
				if s.Tok == token.ASSIGN && i < len(s.Rhs) && len(s.Lhs) == len(s.Rhs) {
					how = howOf(sel.Sel.Name, s.Rhs[i])
				}
				ws = append(ws, c18Write{file, fn, "assign", sel.Sel.Name, how})
			}
		case *ast.IncDecStmt:
			if sel, ok := s.X.(*ast.SelectorExpr); ok && offsetField(sel.Sel.Name) {
				ws = append(ws, c18Write{file, fn, "assign", sel.Sel.Name, "computed"})
			}
		case *ast.CompositeLit:
			if s.Type == nil || !isTokenType(s.Type) {
				return true
			}
			set := map[string]string{"Start": "zero", "End": "zero", "PositionIncr": "zero"}
			for _, el := range s.Elts {
				kv, ok := el.(*ast.KeyValueExpr)
				if !ok {
					set["Start"], set["End"], set["PositionIncr"] = "positional", "positional", "positional"
					continue
				}
				if k, ok := kv.Key.(*ast.Ident); ok && offsetField(k.Name) {
					set[k.Name] = howOf(k.Name, kv.Value)
				}
			}
			for _, f := range []string{"Start", "End", "PositionIncr"} {
				ws = append(ws, c18Write{file, fn, "construct", f, set[f]})
			}
		}
		return true
	})
	return ws
}

// callees: names called in the body that resolve to functions / methods declared in this package
func (p *c18Pkg) callees(fd *ast.FuncDecl) []*ast.FuncDecl {
	var out []*ast.FuncDecl
	if fd.Body == nil {
		return nil
	}
	ast.Inspect(fd.Body, func(n ast.Node) bool {
		call, ok := n.(*ast.CallExpr)
		if !ok {
			return true
		}
		switch f := call.Fun.(type) {
		case *ast.Ident:
			out = append(out, p.byName[f.Name]...)
		case *ast.SelectorExpr:
			// x.m(...): any method m of this package (coarse: by name); pkg.F(...) of another package is not followed
			for _, d := range p.byName[f.Sel.Name] {
				if d.Recv != nil {
					out = append(out, d)
				}
			}
		}
		return true
	})
	return out
}

func (p *c18Pkg) reach(fd *ast.FuncDecl) []*ast.FuncDecl {
	seen := map[*ast.FuncDecl]bool{fd: true}
	order := []*ast.FuncDecl{fd}
	for i := 0; i < len(order); i++ {
		for _, c := range p.callees(order[i]) {
			if !seen[c] {
				seen[c] = true
				order = append(order, c)
			}
		}
	}
	return order
}

// ---- determinism facts

type typeEnv struct {
	mapTypes   map[string]bool // named types (qualified as written in this package) whose underlying type is a map
	sliceTypes map[string]bool
	fields     map[string]string // struct field name -> "map" | "notmap"
	pkgVars    map[string]string
	funcRes    map[string]string // function/method name -> class of its first result
}

func (te *typeEnv) classType(e ast.Expr) string {
	switch t := e.(type) {
	case *ast.MapType:
		return "map"
	case *ast.ArrayType:
		return "notmap"
	case *ast.StarExpr:
		return te.classType(t.X)
	case *ast.Ident:
		switch t.Name {
		case "string", "int":
			return "notmap"
		}
		if te.mapTypes[t.Name] {
			return "map"
		}
		if te.sliceTypes[t.Name] {
			return "notmap"
		}
	case *ast.SelectorExpr:
		n := typeStr(t)
		if te.mapTypes[n] {
			return "map"
		}
		if te.sliceTypes[n] {
			return "notmap"
		}
	}
	return "unknown"
}

var knownSliceCalls = map[string]bool{"Runes": true, "FindAllIndex": true, "Fields": true, "Tokenize": true, "Split": true}

func (te *typeEnv) classExpr(e ast.Expr, locals map[string]string) string {
	switch x := e.(type) {
	case *ast.Ident:
		if c, ok := locals[x.Name]; ok {
			return c
		}
		if c, ok := te.pkgVars[x.Name]; ok {
			return c
		}
	case *ast.SelectorExpr:
		if c, ok := te.fields[x.Sel.Name]; ok {
			return c
		}
	case *ast.CompositeLit:
		if x.Type != nil {
			return te.classType(x.Type)
		}
	case *ast.CallExpr:
		switch f := x.Fun.(type) {
		case *ast.ArrayType:
			return "notmap" // conversion []rune(...)
		case *ast.Ident:
			if f.Name == "make" && len(x.Args) > 0 {
				return te.classType(x.Args[0])
			}
			if f.Name == "append" && len(x.Args) > 0 {
				return "notmap"
			}
			if c, ok := te.funcRes[f.Name]; ok {
				return c
			}
			return te.classType(f) // conversion to a named type
		case *ast.SelectorExpr:
			if knownSliceCalls[f.Sel.Name] {
				return "notmap"
			}
			if c, ok := te.funcRes[f.Sel.Name]; ok {
				return c
			}
		}
	case *ast.SliceExpr:
		return "notmap"
	case *ast.ParenExpr:
		return te.classExpr(x.X, locals)
	}
	return "unknown"
}

func genC18(c *Ctx) {
	dirs := analysisDirs(c)
	var comps []c18Comp
	var sites []c18Site
	var recvWrites []c18Site
	nFuncs, nRanges, nEntries := 0, 0, 0

	// named map / slice types of package analysis are visible everywhere as analysis.X
	global := &typeEnv{mapTypes: map[string]bool{}, sliceTypes: map[string]bool{}}
	parsed := map[string]*Pkg{}
	for _, d := range dirs {
		parsed[d] = c.ParseDir(d)
	}
	collectTypes := func(p *Pkg, prefix string, te *typeEnv) {
		for _, f := range p.Files {
			for _, d := range f.Decls {
				gd, ok := d.(*ast.GenDecl)
				if !ok || gd.Tok != token.TYPE {
					continue
				}
				for _, sp := range gd.Specs {
					ts := sp.(*ast.TypeSpec)
					switch ts.Type.(type) {
					case *ast.MapType:
						te.mapTypes[prefix+ts.Name.Name] = true
					case *ast.ArrayType:
						te.sliceTypes[prefix+ts.Name.Name] = true
					}
				}
			}
		}
	}
	collectTypes(parsed["analysis"], "analysis.", global)

	for _, d := range dirs {
		p := parsed[d]
		if len(p.Files) == 0 {
			continue
		}
		cp := &c18Pkg{rel: d, pkg: p, funcs: map[string]*ast.FuncDecl{}, byName: map[string][]*ast.FuncDecl{}, file: map[*ast.FuncDecl]string{}}
		te := &typeEnv{mapTypes: map[string]bool{}, sliceTypes: map[string]bool{}, fields: map[string]string{}, pkgVars: map[string]string{}, funcRes: map[string]string{}}
		for k := range global.mapTypes {
			te.mapTypes[k] = true
		}
		for k := range global.sliceTypes {
			te.sliceTypes[k] = true
		}
		collectTypes(p, "", te)
		fileNames := make([]string, 0, len(p.Files))
		for n := range p.Files {
			fileNames = append(fileNames, n)
		}
		sort.Strings(fileNames)
		for _, fnm := range fileNames {
			f := p.Files[fnm]
			for _, imp := range f.Imports {
				path := strings.Trim(imp.Path.Value, `"`)
				if path == "time" || path == "math/rand" || path == "crypto/rand" || path == "sync" || path == "sync/atomic" || path == "os" || path == "unsafe" {
					sites = append(sites, c18Site{d + "/" + fnm, "import", path})
				}
			}
			for _, dd := range f.Decls {
				switch x := dd.(type) {
				case *ast.FuncDecl:
					cp.funcs[funcKey(x)] = x
					cp.byName[x.Name.Name] = append(cp.byName[x.Name.Name], x)
					cp.file[x] = fnm
					if x.Type.Results != nil && len(x.Type.Results.List) > 0 {
						te.funcRes[x.Name.Name] = te.classType(x.Type.Results.List[0].Type)
					}
				case *ast.GenDecl:
					for _, sp := range x.Specs {
						switch s := sp.(type) {
						case *ast.TypeSpec:
							if st, ok := s.Type.(*ast.StructType); ok {
								for _, fl := range st.Fields.List {
									for _, nm := range fl.Names {
										te.fields[nm.Name] = te.classType(fl.Type)
									}
								}
							}
						case *ast.ValueSpec:
							for i, nm := range s.Names {
								cl := "unknown"
								if s.Type != nil {
									cl = te.classType(s.Type)
								} else if i < len(s.Values) {
									cl = te.classExpr(s.Values[i], nil)
								}
								te.pkgVars[nm.Name] = cl
							}
						}
					}
				}
			}
		}
		// struct fields of package analysis (Analyzer.TokenFilters, TokenFreq.Locations) are used through values
		if d != "analysis" {
			for _, f := range parsed["analysis"].Files {
				for _, dd := range f.Decls {
					if gd, ok := dd.(*ast.GenDecl); ok {
						for _, sp := range gd.Specs {
							if ts, ok := sp.(*ast.TypeSpec); ok {
								if st, ok := ts.Type.(*ast.StructType); ok {
									for _, fl := range st.Fields.List {
										for _, nm := range fl.Names {
											if _, dup := te.fields[nm.Name]; !dup {
												te.fields[nm.Name] = global.classType(fl.Type)
											}
										}
									}
								}
							}
						}
					}
				}
			}
		}

		// statelessness: writes that reach the receiver of a Tokenize / Filter / Analyze method (c18state.go)
		rw, ne := c18ReceiverWrites(cp, func(fd *ast.FuncDecl) bool {
			return componentKind(fd, d == "analysis") != "" || (fd.Recv != nil && fd.Name.Name == "Analyze")
		})
		recvWrites = append(recvWrites, rw...)
		nEntries += ne

		keys := make([]string, 0, len(cp.funcs))
		for k := range cp.funcs {
			keys = append(keys, k)
		}
		sort.Strings(keys)
		for _, k := range keys {
			fd := cp.funcs[k]
			nFuncs++
			// components
			if kind := componentKind(fd, d == "analysis"); kind != "" {
				comp := c18Comp{Pkg: strings.TrimPrefix(d, "analysis/"), Name: recvName(fd), Kind: kind}
				for _, r := range cp.reach(fd) {
					comp.Writes = append(comp.Writes, cp.writesOf(r)...)
				}
				comps = append(comps, comp)
			}
			// determinism sites
			if fd.Body == nil {
				continue
			}
			locals := map[string]string{}
			addField := func(fl *ast.FieldList) {
				if fl == nil {
					return
				}
				for _, f := range fl.List {
					for _, nm := range f.Names {
						locals[nm.Name] = te.classType(f.Type)
					}
				}
			}
			addField(fd.Recv)
			addField(fd.Type.Params)
			addField(fd.Type.Results)
			file := d + "/" + cp.file[fd]
			ast.Inspect(fd.Body, func(n ast.Node) bool {
				switch s := n.(type) {
				case *ast.AssignStmt:
					if s.Tok == token.DEFINE || s.Tok == token.ASSIGN {
						for i, l := range s.Lhs {
							id, ok := l.(*ast.Ident)
							if !ok || id.Name == "_" {
								continue
							}
							if len(s.Lhs) == len(s.Rhs) {
								cl := te.classExpr(s.Rhs[i], locals)
								if old, had := locals[id.Name]; !had || old == "unknown" || s.Tok == token.DEFINE {
									locals[id.Name] = cl
								}
							} else if len(s.Rhs) == 1 && i == 0 {
								if _, had := locals[id.Name]; !had {
									locals[id.Name] = te.classExpr(s.Rhs[0], locals)
								}
							}
						}
					}
				case *ast.DeclStmt:
					if gd, ok := s.Decl.(*ast.GenDecl); ok {
						for _, sp := range gd.Specs {
							if vs, ok := sp.(*ast.ValueSpec); ok {
								for i, nm := range vs.Names {
									if vs.Type != nil {
										locals[nm.Name] = te.classType(vs.Type)
									} else if i < len(vs.Values) {
										locals[nm.Name] = te.classExpr(vs.Values[i], locals)
									}
								}
							}
						}
					}
				case *ast.RangeStmt:
					nRanges++
					switch te.classExpr(s.X, locals) {
					case "map":
						sites = append(sites, c18Site{file, funcKey(fd), "range-map " + cp.pkg.Src(s.X)})
					case "unknown":
						sites = append(sites, c18Site{file, funcKey(fd), "range? " + cp.pkg.Src(s.X)})
					}
					// the loop variables of a range over a slice of slices are slices
					if v, ok := s.Value.(*ast.Ident); ok && s.Value != nil {
						if _, had := locals[v.Name]; !had {
							locals[v.Name] = "notmap-elem"
						}
					}
				case *ast.GoStmt:
					sites = append(sites, c18Site{file, funcKey(fd), "go"})
				case *ast.SelectStmt:
					sites = append(sites, c18Site{file, funcKey(fd), "select"})
				case *ast.SelectorExpr:
					if id, ok := s.X.(*ast.Ident); ok && (id.Name == "time" || id.Name == "rand") {
						sites = append(sites, c18Site{file, funcKey(fd), id.Name + "." + s.Sel.Name})
					}
				}
				return true
			})
		}
	}
	if len(comps) < 40 {
		c.Refuse("only %d analysis components found (anchor moved?)", len(comps))
	}
	sort.Slice(comps, func(i, j int) bool {
		if comps[i].Pkg != comps[j].Pkg {
			return comps[i].Pkg < comps[j].Pkg
		}
		return comps[i].Name < comps[j].Name
	})

	// index time and query time reach the analyzer through the same method
	var analyzeCalls []c18Site
	root := c.ParseDir(".")
	for _, anchor := range [][2]string{{"field.go", "TermField.Analyze"}, {"query.go", "MatchQuery.Searcher"}} {
		fd := root.Func(anchor[1])
		if fd == nil || fd.Body == nil {
			c.Refuse("anchor %s not found in the root package", anchor[1])
		}
		found := false
		ast.Inspect(fd.Body, func(n ast.Node) bool {
			if call, ok := n.(*ast.CallExpr); ok {
				if sel, ok := call.Fun.(*ast.SelectorExpr); ok && sel.Sel.Name == "Analyze" {
					analyzeCalls = append(analyzeCalls, c18Site{anchor[0], anchor[1], root.Src(sel.X)})
					found = true
				}
			}
			return true
		})
		if !found {
			c.Refuse("%s no longer calls an Analyze method", anchor[1])
		}
	}

	var b strings.Builder
	b.WriteString("/-! GENERATED by verif/go/extract (c18.go) from /repo/analysis/** — do not edit.\n")
	b.WriteString("FilterFacts: for every Tokenizer / TokenFilter / CharFilter implementation, every assignment to\n")
	b.WriteString("`.Start`, `.End`, `.PositionIncr` and every `analysis.Token{…}` construction it reaches inside its package\n")
	b.WriteString("(how = copy: from the same field of another token; const: literal; zero: field absent in the literal;\n")
	b.WriteString("computed: anything else). Determinism sites: map ranges, unclassified ranges, time/rand, go, select. -/\n")
	b.WriteString("namespace BlugeGen.C18\n\n")
	b.WriteString("structure OffsetWrite where\n  file : String\n  func : String\n  kind : String\n  field : String\n  how : String\nderiving Repr, DecidableEq\n\n")
	b.WriteString("structure Component where\n  pkg : String\n  name : String\n  kind : String\n  writes : List OffsetWrite\nderiving Repr\n\n")
	b.WriteString("def components : List Component := [\n")
	nWriters := 0
	for i, cm := range comps {
		fmt.Fprintf(&b, "  { pkg := %s, name := %s, kind := %s, writes := [", LeanStr(cm.Pkg), LeanStr(cm.Name), LeanStr(cm.Kind))
		for j, w := range cm.Writes {
			if j > 0 {
				b.WriteString(",")
			}
			fmt.Fprintf(&b, "\n      ⟨%s, %s, %s, %s, %s⟩", LeanStr(w.File), LeanStr(w.Func), LeanStr(w.Kind), LeanStr(w.Field), LeanStr(w.How))
		}
		b.WriteString("] }")
		if i+1 < len(comps) {
			b.WriteString(",")
		}
		b.WriteString("\n")
		if len(cm.Writes) > 0 {
			nWriters++
		}
	}
	b.WriteString("]\n\n")
	var writers, termOnly []string
	for _, cm := range comps {
		if len(cm.Writes) > 0 {
			writers = append(writers, cm.Pkg+"."+cm.Name)
		} else {
			termOnly = append(termOnly, cm.Pkg+"."+cm.Name)
		}
	}
	leanList := func(xs []string) string {
		qs := make([]string, len(xs))
		for i, x := range xs {
			qs[i] = LeanStr(x)
		}
		return "[" + strings.Join(qs, ",\n  ") + "]"
	}
	b.WriteString("/-- qualified names of the components that write an offset / increment or construct a token -/\n")
	b.WriteString("def offsetWriters : List String :=\n  " + leanList(writers) + "\n\n")
	b.WriteString("/-- the others: they can only assign Term / Type / KeyWord, or drop / reorder tokens -/\n")
	b.WriteString("def termOnly : List String :=\n  " + leanList(termOnly) + "\n\n")
	b.WriteString("/-- the two lists are the partition of `components` by `writes.isEmpty` (re-checked by `decide`) -/\n")
	b.WriteString("def offsetWritersComputed : List String := (components.filter fun c => !c.writes.isEmpty).map fun c => c.pkg ++ \".\" ++ c.name\n\n")
	b.WriteString("/-- (file, function, receiver expression) of every `.Analyze(` call in TermField.Analyze (index time) and\nMatchQuery.Searcher (query time) -/\n")
	b.WriteString("def analyzeCalls : List (String × String × String) := [\n")
	for i, s := range analyzeCalls {
		fmt.Fprintf(&b, "  (%s, %s, %s)", LeanStr(s.File), LeanStr(s.Func), LeanStr(s.What))
		if i+1 < len(analyzeCalls) {
			b.WriteString(",")
		}
		b.WriteString("\n")
	}
	b.WriteString("]\n\n")
	b.WriteString("/-- (file, function, what): every place where iteration order, time, randomness or concurrency could enter -/\n")
	b.WriteString("def nondeterminismSites : List (String × String × String) := [\n")
	for i, s := range sites {
		fmt.Fprintf(&b, "  (%s, %s, %s)", LeanStr(s.File), LeanStr(s.Func), LeanStr(s.What))
		if i+1 < len(sites) {
			b.WriteString(",")
		}
		b.WriteString("\n")
	}
	b.WriteString("]\n\n")
	b.WriteString("/-- (file, function, what): every write that can reach the receiver of a Tokenize / Filter / Analyze method,\ndirectly, through a local alias, or through a package function it is passed to (see go/extract/c18state.go) -/\n")
	b.WriteString("def receiverWrites : List (String × String × String) := [\n")
	for i, s := range recvWrites {
		fmt.Fprintf(&b, "  (%s, %s, %s)", LeanStr(s.File), LeanStr(s.Func), LeanStr(s.What))
		if i+1 < len(recvWrites) {
			b.WriteString(",")
		}
		b.WriteString("\n")
	}
	b.WriteString("]\n\n")
	fmt.Fprintf(&b, "/-- number of Tokenize / Filter / Analyze methods whose receiver was taken as shared state -/\ndef statefulEntryPoints : Nat := %d\n", nEntries)
	b.WriteString("\nend BlugeGen.C18\n")
	c.WriteLean("C18", b.String())
	c.Summary["components"] = len(comps)
	c.Summary["offset_writers"] = nWriters
	c.Summary["functions_scanned"] = nFuncs
	c.Summary["range_statements"] = nRanges
	c.Summary["nondeterminism_sites"] = len(sites)
	c.Summary["analyze_call_sites"] = len(analyzeCalls)
	c.Summary["receiver_writes"] = len(recvWrites)
	genC18S(c) // second output file: the translated stemmers (c18s.go)
	genC18I(c) // third output file: tables and shape facts of the Indic normaliser (c18in.go)
	c.Summary["stateless_entry_points"] = nEntries
}

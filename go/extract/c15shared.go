package main

// Gen for C15, Reader side: objects that are SHARED BETWEEN CONCURRENT SEARCHES by construction.
//
// A search request is put together from definition objects — value sources (search/source.go), aggregation
// definitions (search/aggregations; the package-level `standardAggs` of bluge puts the SAME definitions into
// every request that asks for the standard aggregations), sort orders, similarities, queries and the request
// itself — and any of them may be handed to several searches that run at the same time. What a search creates
// for itself (calculators, collectors, searchers, document matches) is not in this table.
//
// For the packages bluge (root), search, search/aggregations, search/similarity this generator lists
//
//	sharedWrites  every method of a DEFINITION TYPE whose body writes state reachable from its receiver:
//	              an assignment / inc-dec / delete / copy / known mutator call whose target is rooted at the
//	              receiver or at a local that aliases receiver state (`for _, oi := range o`, `x := r.f`).
//	              A definition type is a type with a method `Fields() []string` (sources, aggregation
//	              definitions, Sort, SortOrder), `Calculator()` (aggregation definitions), `Searcher(…)`
//	              (queries, requests), `Collector()` (requests), `Scorer(…)`/`Score(…)`/`ScoreComposite(…)`/
//	              `ComputeNorm(…)` (similarities), minus the types a `Calculator()` method returns.
//	              Each entry is tagged `builder` when the method ends in `return <receiver>` (a fluent setter:
//	              construction phase, before the object is shared).
//	pkgVarWrites  every write to a package-level variable outside init().
//
// BlugeProofs.C15 obliges every non-builder entry to be in a reviewed list (`shared_definitions_not_written`).
// Syntactic and per package: go/parser only, no type information.

import (
	"fmt"
	"go/ast"
	"go/token"
	"os"
	"path/filepath"
	"sort"
	"strings"
)

var c15DefMethods = map[string]bool{"Fields": true, "Calculator": true, "Searcher": true, "Collector": true, "Scorer": true,
	"Score": true, "ScoreComposite": true, "ComputeNorm": true}

var c15Mutators = map[string]bool{"Reset": true, "Write": true, "WriteByte": true, "WriteString": true, "Push": true, "Pop": true, "Set": true,
	"Store": true, "Add": true, "Insert": true, "Grow": true, "Truncate": true, "Swap": true, "Delete": true, "Clear": true, "Remove": true,
	"AddRange": true, "AddMany": true, "Or": true, "And": true, "AndNot": true}

type c15SharedWrite struct {
	pkg, method, target string
	builder             bool
}

func c15RootIdent(e ast.Expr) (*ast.Ident, int) {
	depth := 0
	for {
		switch x := e.(type) {
		case *ast.Ident:
			return x, depth
		case *ast.SelectorExpr:
			e = x.X
		case *ast.IndexExpr:
			e = x.X
		case *ast.SliceExpr:
			e = x.X
		case *ast.StarExpr:
			e = x.X
		case *ast.ParenExpr:
			e = x.X
			continue
		case *ast.TypeAssertExpr:
			e = x.X
		default:
			return nil, depth
		}
		depth++
	}
}

func genC15Shared(ctx *Ctx) string {
	pkgs := []struct{ rel, name string }{{"", "bluge"}, {"search", "search"}, {"search/aggregations", "aggregations"}, {"search/similarity", "similarity"}}
	var writes []c15SharedWrite
	var pkgVarWrites []string
	var defTypes []string
	for _, pk := range pkgs {
		p := ctx.ParseDir(pk.rel)
		// methods per type, package-level variables
		type meth struct {
			fd      *ast.FuncDecl
			byValue bool
		}
		methods := map[string][]meth{}
		pkgVars := map[string]bool{}
		var funcs []*ast.FuncDecl
		var fnames []string
		for n := range p.Files {
			fnames = append(fnames, n)
		}
		sort.Strings(fnames)
		for _, n := range fnames {
			for _, d := range p.Files[n].Decls {
				switch x := d.(type) {
				case *ast.GenDecl:
					if x.Tok == token.VAR {
						for _, sp := range x.Specs {
							for _, id := range sp.(*ast.ValueSpec).Names {
								pkgVars[id.Name] = true
							}
						}
					}
				case *ast.FuncDecl:
					if x.Body == nil {
						continue
					}
					funcs = append(funcs, x)
					if x.Recv != nil && len(x.Recv.List) == 1 {
						t := x.Recv.List[0].Type
						byValue := true
						if s, ok := t.(*ast.StarExpr); ok {
							t, byValue = s.X, false
						}
						if id, ok := t.(*ast.Ident); ok {
							methods[id.Name] = append(methods[id.Name], meth{x, byValue})
						}
					}
				}
			}
		}
		// per-search types: what a Calculator() method returns (composite literals in its body)
		perSearch := map[string]bool{}
		for _, ms := range methods {
			for _, m := range ms {
				if m.fd.Name.Name != "Calculator" {
					continue
				}
				ast.Inspect(m.fd.Body, func(n ast.Node) bool {
					if cl, ok := n.(*ast.CompositeLit); ok {
						if id, ok := cl.Type.(*ast.Ident); ok {
							perSearch[id.Name] = true
						}
					}
					return true
				})
			}
		}
		var tnames []string
		for t := range methods {
			tnames = append(tnames, t)
		}
		sort.Strings(tnames)
		for _, t := range tnames {
			isDef := false
			for _, m := range methods[t] {
				if c15DefMethods[m.fd.Name.Name] {
					isDef = true
				}
			}
			if !isDef || perSearch[t] {
				continue
			}
			defTypes = append(defTypes, pk.name+"."+t)
			for _, m := range methods[t] {
				rv := c15RecvVar(m.fd)
				if rv == "" || rv == "_" {
					continue
				}
				for _, tgt := range c15ReceiverWrites(p, m.fd, rv, m.byValue) {
					writes = append(writes, c15SharedWrite{pkg: pk.name, method: t + "." + m.fd.Name.Name, target: tgt, builder: c15ReturnsReceiver(m.fd, rv)})
				}
			}
		}
		pkgVarWrites = append(pkgVarWrites, c15PkgVarWrites(p, pk.name, pkgVars, funcs)...)
	}
	// …and in every other library package a search or a batch runs through
	extra := []string{"search/searcher", "search/collector", "search/highlight", "index", "index/mergeplan"}
	for _, root := range []string{"analysis", "numeric"} {
		_ = filepath.WalkDir(filepath.Join(ctx.Repo, root), func(path string, d os.DirEntry, err error) error {
			if err == nil && d.IsDir() {
				if rel, e := filepath.Rel(ctx.Repo, path); e == nil {
					extra = append(extra, filepath.ToSlash(rel))
				}
			}
			return nil
		})
	}
	sort.Strings(extra)
	var scanned []string
	for _, pk := range pkgs {
		scanned = append(scanned, pk.name)
	}
	for _, rel := range extra {
		p := ctx.ParseDir(rel)
		if len(p.Files) == 0 {
			continue
		}
		scanned = append(scanned, rel)
		pkgVars := map[string]bool{}
		var funcs []*ast.FuncDecl
		var fnames []string
		for n := range p.Files {
			fnames = append(fnames, n)
		}
		sort.Strings(fnames)
		for _, n := range fnames {
			if strings.HasSuffix(n, "_windows.go") {
				continue
			}
			for _, d := range p.Files[n].Decls {
				switch x := d.(type) {
				case *ast.GenDecl:
					if x.Tok == token.VAR {
						for _, sp := range x.Specs {
							for _, id := range sp.(*ast.ValueSpec).Names {
								pkgVars[id.Name] = true
							}
						}
					}
				case *ast.FuncDecl:
					if x.Body != nil {
						funcs = append(funcs, x)
					}
				}
			}
		}
		pkgVarWrites = append(pkgVarWrites, c15PkgVarWrites(p, rel, pkgVars, funcs)...)
	}
	sort.Slice(writes, func(i, j int) bool {
		a, b := writes[i], writes[j]
		if a.pkg != b.pkg {
			return a.pkg < b.pkg
		}
		if a.method != b.method {
			return a.method < b.method
		}
		return a.target < b.target
	})
	sort.Strings(pkgVarWrites)
	sort.Strings(defTypes)
	var b strings.Builder
	b.WriteString("/-! GENERATED by /verif/go/extract/c15shared.go from /repo (bluge, search, search/aggregations,\nsearch/similarity) — do not edit. Writes to objects that are shared between concurrent searches. -/\nnamespace BlugeGen.C15Shared\n\n")
	b.WriteString("/-- the definition types: objects a request is put together from and that several searches may share -/\ndef definitionTypes : List String := [")
	for i, s := range defTypes {
		fmt.Fprintf(&b, "%s%s", LeanStr(s), c15Comma(i, len(defTypes)))
	}
	b.WriteString("]\n\n/-- (package, Type.Method, written target, the method is a fluent setter ending in `return <receiver>`) -/\ndef sharedWrites : List (String × String × String × Bool) := [")
	nNon := 0
	for i, w := range writes {
		fmt.Fprintf(&b, "\n  (%s, %s, %s, %v)%s", LeanStr(w.pkg), LeanStr(w.method), LeanStr(w.target), w.builder, c15Comma(i, len(writes)))
		if !w.builder {
			nNon++
		}
	}
	b.WriteString("\n]\n\n/-- `package:function:target`: writes to package-level variables outside init() -/\ndef pkgVarWrites : List String := [")
	for i, s := range pkgVarWrites {
		fmt.Fprintf(&b, "%s%s", LeanStr(s), c15Comma(i, len(pkgVarWrites)))
	}
	b.WriteString("]\n\n/-- the packages scanned for `pkgVarWrites` -/\ndef pkgVarPackages : List String := [")
	for i, s := range scanned {
		fmt.Fprintf(&b, "%s%s", LeanStr(s), c15Comma(i, len(scanned)))
	}
	b.WriteString("]\n\nend BlugeGen.C15Shared\n")
	ctx.Summary["shared_definition_types"] = len(defTypes)
	ctx.Summary["shared_receiver_writes"] = len(writes)
	ctx.Summary["shared_receiver_writes_not_builder"] = nNon
	ctx.Summary["shared_pkgvar_writes"] = pkgVarWrites
	ctx.Summary["shared_pkgvar_packages"] = len(scanned)
	return b.String()
}

func c15RecvVar(fd *ast.FuncDecl) string {
	if fd.Recv == nil || len(fd.Recv.List) != 1 || len(fd.Recv.List[0].Names) != 1 {
		return ""
	}
	return fd.Recv.List[0].Names[0].Name
}

func c15ReturnsReceiver(fd *ast.FuncDecl, rv string) bool {
	if len(fd.Body.List) == 0 {
		return false
	}
	r, ok := fd.Body.List[len(fd.Body.List)-1].(*ast.ReturnStmt)
	if !ok || len(r.Results) != 1 {
		return false
	}
	id, ok := r.Results[0].(*ast.Ident)
	return ok && id.Name == rv
}

// c15ReceiverWrites: targets written in fd that are rooted at the receiver or at a local aliasing it.
func c15ReceiverWrites(p *Pkg, fd *ast.FuncDecl, rv string, byValue bool) []string {
	taint := map[string]bool{rv: true}
	rooted := func(e ast.Expr) bool {
		id, _ := c15RootIdent(e)
		return id != nil && taint[id.Name]
	}
	for changed := true; changed; {
		changed = false
		mark := func(e ast.Expr) {
			if id, ok := e.(*ast.Ident); ok && id.Name != "_" && !taint[id.Name] {
				taint[id.Name] = true
				changed = true
			}
		}
		ast.Inspect(fd.Body, func(n ast.Node) bool {
			switch x := n.(type) {
			case *ast.AssignStmt:
				if len(x.Lhs) == len(x.Rhs) {
					for i, r := range x.Rhs {
						if u, ok := r.(*ast.UnaryExpr); ok && u.Op == token.AND {
							r = u.X
						}
						if _, isIdent := x.Lhs[i].(*ast.Ident); isIdent && rooted(r) {
							mark(x.Lhs[i])
						}
					}
				} else if len(x.Rhs) == 1 && rooted(x.Rhs[0]) { // v, ok := r.f.(T) / r.m[k]
					mark(x.Lhs[0])
				}
			case *ast.RangeStmt:
				if rooted(x.X) {
					if x.Value != nil {
						mark(x.Value)
					}
				}
			}
			return true
		})
	}
	seen := map[string]bool{}
	var out []string
	add := func(e ast.Expr) {
		id, depth := c15RootIdent(e)
		if id == nil || !taint[id.Name] || depth == 0 {
			return // rebinding a local is not a write
		}
		if byValue && id.Name == rv && depth == 1 {
			if _, isSel := e.(*ast.SelectorExpr); isSel {
				return // `r.f = v` on a value receiver changes the callee's copy only
			}
		}
		s := strings.ReplaceAll(p.Src(e), " ", "")
		if !seen[s] {
			seen[s] = true
			out = append(out, s)
		}
	}
	ast.Inspect(fd.Body, func(n ast.Node) bool {
		switch x := n.(type) {
		case *ast.AssignStmt:
			if x.Tok == token.DEFINE {
				return true
			}
			for _, l := range x.Lhs {
				add(l)
			}
		case *ast.IncDecStmt:
			add(x.X)
		case *ast.CallExpr:
			if id, ok := x.Fun.(*ast.Ident); ok && (id.Name == "delete" || id.Name == "copy") && len(x.Args) > 0 {
				add(x.Args[0])
			}
			if s, ok := x.Fun.(*ast.SelectorExpr); ok && c15Mutators[s.Sel.Name] {
				if id, depth := c15RootIdent(s.X); id != nil && taint[id.Name] && depth > 0 {
					str := strings.ReplaceAll(p.Src(s.X), " ", "") + "." + s.Sel.Name + "()"
					if !seen[str] {
						seen[str] = true
						out = append(out, str)
					}
				}
			}
		}
		return true
	})
	sort.Strings(out)
	return out
}

// c15PkgVarWrites: `package:function:target` for every write to a package-level variable outside init():
// assignment (incl. `v = append(v, …)`, `v[k] = x`, `v.f = x`), inc/dec, delete(v, k), copy(v, …).
func c15PkgVarWrites(p *Pkg, pkgName string, pkgVars map[string]bool, funcs []*ast.FuncDecl) []string {
	var out []string
	for _, fd := range funcs {
		if fd.Recv == nil && fd.Name.Name == "init" {
			continue
		}
		name := fd.Name.Name
		if fd.Recv != nil && len(fd.Recv.List) == 1 {
			t := fd.Recv.List[0].Type
			if s, ok := t.(*ast.StarExpr); ok {
				t = s.X
			}
			if id, ok := t.(*ast.Ident); ok {
				name = id.Name + "." + name
			}
		}
		local := map[string]bool{}
		ast.Inspect(fd, func(n ast.Node) bool {
			switch x := n.(type) {
			case *ast.AssignStmt:
				if x.Tok == token.DEFINE {
					for _, l := range x.Lhs {
						if id, ok := l.(*ast.Ident); ok {
							local[id.Name] = true
						}
					}
				}
			case *ast.ValueSpec:
				for _, id := range x.Names {
					local[id.Name] = true
				}
			case *ast.Field:
				for _, id := range x.Names {
					local[id.Name] = true
				}
			case *ast.RangeStmt:
				if x.Tok == token.DEFINE {
					for _, e := range []ast.Expr{x.Key, x.Value} {
						if id, ok := e.(*ast.Ident); ok {
							local[id.Name] = true
						}
					}
				}
			}
			return true
		})
		hit := func(e ast.Expr) {
			if id, _ := c15RootIdent(e); id != nil && pkgVars[id.Name] && !local[id.Name] {
				out = append(out, pkgName+":"+name+":"+strings.ReplaceAll(p.Src(e), " ", ""))
			}
		}
		ast.Inspect(fd.Body, func(n ast.Node) bool {
			switch x := n.(type) {
			case *ast.AssignStmt:
				if x.Tok != token.DEFINE {
					for _, l := range x.Lhs {
						hit(l)
					}
				}
			case *ast.IncDecStmt:
				hit(x.X)
			case *ast.CallExpr:
				if id, ok := x.Fun.(*ast.Ident); ok && (id.Name == "delete" || id.Name == "copy") && len(x.Args) > 0 {
					hit(x.Args[0])
				}
			}
			return true
		})
	}
	return out
}

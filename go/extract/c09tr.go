package main

// A small Go -> Lean translator for the sort comparator of search/sort.go (C09):
//
//	SortOrder.Compare        -> def SortOrder_Compare (+ the loop as a recursion on fuel)
//	sortFirstLast.Value      -> def sortFirstLast_Value
//	SortOrder.Reverse        -> def SortOrder_Reverse_elem (what the loop does to ONE element) + a loop-shape fact
//	highTerm, lowTerm        -> defs
//
// It renders the function bodies TOKEN BY TOKEN (operators, operands, order of statements, which branch returns
// what): a `>` that becomes `>=`, a dropped tie-break, a swapped operand or a flipped branch gives a different
// Lean definition, and the bridge theorems of BlugeProofs/C09/Bridge.lean (translated Compare = the model's
// `cmpMatch`, for ALL inputs) stop checking.
//
// Subset (everything else is REFUSED):
//   statements   v := e | v = e (v declared in the same body) | if c {…} [else {…} | else if …] | continue | return e |
//                `for x := range o {…}` (index only, once, at the top level of the function; the body may not assign a
//                variable declared outside it — no loop-carried state)
//   expressions  integer literals, true/false, local variables, parameters, the package variables highTerm/lowTerm,
//                -e  !e  *p  e.f  a[i]  len(a)  bytes.Compare(a, b)  == != < <= > >=  && ||  p == nil  p != nil
//   types        by a fixed binding table (below): SortOrder -> List SortKey, *DocumentMatch -> Match (SortValue ->
//                keys, HitNumber -> hitNumber), int -> Int, uint64 -> Nat, []byte -> Bytes, *bool -> Option Bool
//
// Partiality: an index out of range and a nil dereference are Go panics; every translated function returns
// `Option R` with `none` = panic. `&&` / `||` keep their short-circuit (a partial right operand is evaluated only when
// the left one lets it).

import (
	"fmt"
	"go/ast"
	"go/token"
	"strconv"
	"strings"
)

type c09Kind string

const (
	c09Int       c09Kind = "Int"
	c09Nat       c09Kind = "Nat"
	c09Bool      c09Kind = "Bool"
	c09Bytes     c09Kind = "Bluge.TopN.Bytes"
	c09Keys      c09Kind = "List Bluge.TopN.Bytes"
	c09Order     c09Kind = "Bluge.TopN.SortOrder"
	c09Key       c09Kind = "Bluge.TopN.SortKey"
	c09Match     c09Kind = "Bluge.TopN.Match"
	c09PtrBool   c09Kind = "Option Bool"
	c09FirstLast c09Kind = "Bluge.TopN.FirstLast"
	c09Nil       c09Kind = "nil"
	c09Any       c09Kind = ""
)

// (receiver kind, Go field) -> (Lean field, kind)
var c09Fields = map[c09Kind]map[string][2]string{
	c09Match:     {"SortValue": {"keys", string(c09Keys)}, "HitNumber": {"hitNumber", string(c09Nat)}},
	c09Key:       {"desc": {"desc", string(c09Bool)}, "missingFirst": {"missingFirst", string(c09Bool)}},
	c09FirstLast: {"desc": {"desc", string(c09PtrBool)}, "first": {"first", string(c09PtrBool)}},
}

// element kind of an indexable kind
var c09Elem = map[c09Kind]c09Kind{c09Keys: c09Bytes, c09Order: c09Key}

type c09x struct {
	s       string
	partial bool // s : Option k
	k       c09Kind
}

type c09ctx struct {
	ret   func(v string) string // how `return v` is rendered
	fall  string                // what falling off the end of the statement list means ("" = refuse)
	cont  string                // what `continue` means ("" = not in a loop)
	local map[string]bool       // variables that may be assigned here
	rk    c09Kind               // kind of the returned value
}

type c09Tr struct {
	c      *Ctx
	p      *Pkg
	fn     string
	vars   map[string]c09Kind
	tmp    int
	aux    []string
	params string // Lean binders of the function under translation
	args   string
	loops  int
}

func (t *c09Tr) refuse(n ast.Node, format string, a ...interface{}) {
	t.c.Refuse("search/sort.go %s: %s\n  at: %s", t.fn, fmt.Sprintf(format, a...), c01Norm(t.p.Src(n)))
}

func (t *c09Tr) fresh() string { t.tmp++; return fmt.Sprintf("t%d", t.tmp) }

// lift applies f to the values of xs; partial operands are bound first, left to right.
func (t *c09Tr) lift(xs []c09x, k c09Kind, f func(a []string) string) c09x {
	anyP := false
	for _, x := range xs {
		anyP = anyP || x.partial
	}
	names := make([]string, len(xs))
	if !anyP {
		for i, x := range xs {
			names[i] = x.s
		}
		return c09x{s: f(names), k: k}
	}
	pre := ""
	for i, x := range xs {
		if x.partial {
			n := t.fresh()
			pre += "(" + x.s + ").bind fun " + n + " => "
			names[i] = n
		} else {
			names[i] = x.s
		}
	}
	return c09x{s: "(" + pre + "some (" + f(names) + "))", partial: true, k: k}
}

func (t *c09Tr) expr(e ast.Expr, want c09Kind) c09x {
	switch x := e.(type) {
	case *ast.ParenExpr:
		return t.expr(x.X, want)
	case *ast.BasicLit:
		if x.Kind != token.INT {
			t.refuse(e, "literal kind outside the subset")
		}
		v, err := strconv.ParseInt(x.Value, 0, 64)
		if err != nil {
			t.refuse(e, "integer literal")
		}
		if want == c09Nat {
			return c09x{s: fmt.Sprintf("(%d : Nat)", v), k: c09Nat}
		}
		return c09x{s: fmt.Sprintf("(%d : Int)", v), k: c09Int}
	case *ast.Ident:
		switch x.Name {
		case "true", "false":
			return c09x{s: x.Name, k: c09Bool}
		case "nil":
			return c09x{s: "nil", k: c09Nil}
		case "highTerm", "lowTerm":
			if _, shadow := t.vars[x.Name]; !shadow {
				return c09x{s: x.Name, k: c09Bytes}
			}
		}
		k, ok := t.vars[x.Name]
		if !ok {
			t.refuse(e, "identifier %q is not a parameter, a local variable or a translated package variable", x.Name)
		}
		return c09x{s: x.Name, k: k}
	case *ast.UnaryExpr:
		switch x.Op {
		case token.SUB:
			a := t.expr(x.X, c09Int)
			if a.k != c09Int {
				t.refuse(e, "unary minus on a non-int")
			}
			return t.lift([]c09x{a}, c09Int, func(s []string) string { return "(-" + s[0] + ")" })
		case token.NOT:
			a := t.expr(x.X, c09Bool)
			if a.k != c09Bool {
				t.refuse(e, "! on a non-bool")
			}
			return t.lift([]c09x{a}, c09Bool, func(s []string) string { return "(!" + s[0] + ")" })
		}
		t.refuse(e, "unary operator %s outside the subset", x.Op)
	case *ast.StarExpr:
		a := t.expr(x.X, c09PtrBool)
		if a.k != c09PtrBool || a.partial {
			t.refuse(e, "dereference of something that is not a *bool field")
		}
		return c09x{s: a.s, partial: true, k: c09Bool} // none = nil dereference
	case *ast.SelectorExpr:
		a := t.expr(x.X, c09Any)
		fs, ok := c09Fields[a.k]
		if !ok {
			t.refuse(e, "field selection on kind %q", a.k)
		}
		f, ok := fs[x.Sel.Name]
		if !ok {
			t.refuse(e, "field %s is not in the binding table of %s", x.Sel.Name, a.k)
		}
		return t.lift([]c09x{a}, c09Kind(f[1]), func(s []string) string { return s[0] + "." + f[0] })
	case *ast.IndexExpr:
		a := t.expr(x.X, c09Any)
		ek, ok := c09Elem[a.k]
		if !ok {
			t.refuse(e, "indexing kind %q", a.k)
		}
		i := t.expr(x.Index, c09Nat)
		if i.k != c09Nat {
			t.refuse(e, "index is not a Nat-kinded expression")
		}
		r := t.lift([]c09x{a, i}, ek, func(s []string) string { return s[0] + "[" + s[1] + "]?" })
		if r.partial { // Option (Option _) : join
			return c09x{s: "(" + r.s + ").bind id", partial: true, k: ek}
		}
		return c09x{s: "(" + r.s + ")", partial: true, k: ek}
	case *ast.CallExpr:
		name := c01Sel(x.Fun)
		switch {
		case name == "bytes.Compare" && len(x.Args) == 2:
			a, b := t.expr(x.Args[0], c09Bytes), t.expr(x.Args[1], c09Bytes)
			if a.k != c09Bytes || b.k != c09Bytes {
				t.refuse(e, "bytes.Compare on non-[]byte operands")
			}
			return t.lift([]c09x{a, b}, c09Int, func(s []string) string { return "(Bluge.TopN.bytesCompare " + s[0] + " " + s[1] + ")" })
		case name == "len" && len(x.Args) == 1:
			a := t.expr(x.Args[0], c09Any)
			if _, ok := c09Elem[a.k]; !ok && a.k != c09Bytes {
				t.refuse(e, "len of kind %q", a.k)
			}
			return t.lift([]c09x{a}, c09Nat, func(s []string) string { return s[0] + ".length" })
		}
		t.refuse(e, "call outside the subset")
	case *ast.BinaryExpr:
		switch x.Op {
		case token.LAND, token.LOR:
			a, b := t.expr(x.X, c09Bool), t.expr(x.Y, c09Bool)
			if a.k != c09Bool || b.k != c09Bool {
				t.refuse(e, "&& / || on non-bool operands")
			}
			op, short := "&&", "some false"
			if x.Op == token.LOR {
				op, short = "||", "some true"
			}
			if !b.partial {
				return t.lift([]c09x{a, b}, c09Bool, func(s []string) string { return "(" + s[0] + " " + op + " " + s[1] + ")" })
			}
			// short circuit: the right operand is evaluated only when the left one does not decide
			mk := func(l string) string {
				if x.Op == token.LAND {
					return "(if " + l + " then " + b.s + " else " + short + ")"
				}
				return "(if " + l + " then " + short + " else " + b.s + ")"
			}
			if !a.partial {
				return c09x{s: mk(a.s), partial: true, k: c09Bool}
			}
			n := t.fresh()
			return c09x{s: "((" + a.s + ").bind fun " + n + " => " + mk(n) + ")", partial: true, k: c09Bool}
		case token.EQL, token.NEQ, token.LSS, token.LEQ, token.GTR, token.GEQ:
			a := t.expr(x.X, c09Any)
			b := t.expr(x.Y, a.k)
			if a.k == c09Int && b.k == c09Nat || a.k == c09Nat && b.k == c09Int {
				// a literal on the left: re-translate it at the kind of the right operand
				a = t.expr(x.X, b.k)
			}
			if b.k == c09Nil || a.k == c09Nil {
				p := a
				if a.k == c09Nil {
					p = b
				}
				if p.k != c09PtrBool || p.partial || (x.Op != token.EQL && x.Op != token.NEQ) {
					t.refuse(e, "nil comparison outside the subset")
				}
				if x.Op == token.NEQ {
					return c09x{s: p.s + ".isSome", k: c09Bool}
				}
				return c09x{s: p.s + ".isNone", k: c09Bool}
			}
			if a.k != b.k || (a.k != c09Int && a.k != c09Nat && !(a.k == c09Bool && (x.Op == token.EQL || x.Op == token.NEQ))) {
				t.refuse(e, "comparison of kinds %q and %q", a.k, b.k)
			}
			op := map[token.Token]string{token.EQL: "=", token.NEQ: "≠", token.LSS: "<", token.LEQ: "≤", token.GTR: ">", token.GEQ: "≥"}[x.Op]
			return t.lift([]c09x{a, b}, c09Bool, func(s []string) string { return "(decide (" + s[0] + " " + op + " " + s[1] + "))" })
		}
		t.refuse(e, "binary operator %s outside the subset", x.Op)
	}
	t.refuse(e, "expression kind %T outside the subset", e)
	return c09x{}
}

func c09Indent(n int) string { return "\n" + strings.Repeat("  ", n) }

func (t *c09Tr) copyVars() map[string]c09Kind {
	m := map[string]c09Kind{}
	for k, v := range t.vars {
		m[k] = v
	}
	return m
}

// stmts renders a statement list as ONE Lean term (continuation style; the rest of the list is duplicated into both
// branches of an `if`).
func (t *c09Tr) stmts(list []ast.Stmt, ctx c09ctx, ind int) string {
	if len(list) == 0 {
		if ctx.fall == "" {
			t.c.Refuse("search/sort.go %s: control falls off the end of the function", t.fn)
		}
		return ctx.fall
	}
	st, rest := list[0], list[1:]
	nl := c09Indent(ind)
	switch x := st.(type) {
	case *ast.AssignStmt:
		if len(x.Lhs) != 1 || len(x.Rhs) != 1 || (x.Tok != token.DEFINE && x.Tok != token.ASSIGN) {
			t.refuse(st, "assignment form outside the subset")
		}
		id, ok := x.Lhs[0].(*ast.Ident)
		if !ok {
			t.refuse(st, "assignment to something that is not a local variable")
		}
		if id.Name == "fuel" {
			t.refuse(st, "a variable named fuel clashes with the loop translation")
		}
		want := c09Any
		if x.Tok == token.ASSIGN {
			if !ctx.local[id.Name] {
				t.refuse(st, "assignment to %q, which is not declared in the same body (loop-carried state / parameter write)", id.Name)
			}
			want = t.vars[id.Name]
		}
		v := t.expr(x.Rhs[0], want)
		if x.Tok == token.ASSIGN && v.k != want {
			t.refuse(st, "assignment changes the kind of %q", id.Name)
		}
		if v.k == c09Nil {
			t.refuse(st, "nil assigned to a local")
		}
		t.vars[id.Name] = v.k
		ctx.local[id.Name] = true
		if v.partial {
			return "(" + v.s + ").bind fun " + id.Name + " =>" + nl + t.stmts(rest, ctx, ind)
		}
		return "let " + id.Name + " : " + string(v.k) + " := " + v.s + ";" + nl + t.stmts(rest, ctx, ind)
	case *ast.IfStmt:
		if x.Init != nil {
			t.refuse(st, "if with an init statement")
		}
		c := t.expr(x.Cond, c09Bool)
		if c.k != c09Bool {
			t.refuse(st, "condition is not a bool")
		}
		var els []ast.Stmt
		switch e := x.Else.(type) {
		case nil:
		case *ast.BlockStmt:
			els = e.List
		case *ast.IfStmt:
			els = []ast.Stmt{e}
		default:
			t.refuse(st, "else form outside the subset")
		}
		saveV, saveL := t.copyVars(), map[string]bool{}
		for k, v := range ctx.local {
			saveL[k] = v
		}
		thenList := append(append([]ast.Stmt{}, x.Body.List...), rest...)
		th := t.stmts(thenList, ctx, ind+1)
		t.vars = saveV
		ctx.local = saveL
		elseList := append(append([]ast.Stmt{}, els...), rest...)
		el := t.stmts(elseList, ctx, ind+1)
		nl1 := c09Indent(ind + 1)
		if c.partial {
			n := t.fresh()
			return "(" + c.s + ").bind fun " + n + " =>" + nl + "if " + n + " then" + nl1 + th + nl + "else" + nl1 + el
		}
		return "if " + c.s + " then" + nl1 + th + nl + "else" + nl1 + el
	case *ast.BranchStmt:
		if x.Tok != token.CONTINUE || x.Label != nil || ctx.cont == "" {
			t.refuse(st, "jump outside the subset")
		}
		return ctx.cont
	case *ast.ReturnStmt:
		if len(x.Results) != 1 {
			t.refuse(st, "return with %d results", len(x.Results))
		}
		v := t.expr(x.Results[0], ctx.rk)
		if v.k != ctx.rk {
			t.refuse(st, "returned kind %q, expected %q", v.k, ctx.rk)
		}
		if v.partial {
			n := t.fresh()
			return "(" + v.s + ").bind fun " + n + " => " + ctx.ret(n)
		}
		return ctx.ret(v.s)
	case *ast.RangeStmt:
		if ctx.cont != "" || t.loops > 0 {
			t.refuse(st, "nested or second loop")
		}
		key, ok := x.Key.(*ast.Ident)
		if !ok || x.Value != nil || x.Tok != token.DEFINE {
			t.refuse(st, "only `for x := range o` (index only) is in the subset")
		}
		if key.Name == "fuel" {
			t.refuse(st, "a variable named fuel clashes with the loop translation")
		}
		o := t.expr(x.X, c09Any)
		if _, ok := c09Elem[o.k]; !ok || o.partial {
			t.refuse(st, "range over kind %q", o.k)
		}
		t.loops++
		name := t.fn + "_loop"
		call := name + " " + t.args
		saveV := t.copyVars()
		t.vars[key.Name] = c09Nat
		next := "(" + call + " fuel (" + key.Name + " + 1))"
		body := t.stmts(x.Body.List, c09ctx{
			ret: func(v string) string { return "some (some " + v + ")" }, fall: next, cont: next,
			local: map[string]bool{}, rk: ctx.rk}, 3)
		t.vars = saveV
		t.aux = append(t.aux, fmt.Sprintf(
			"/-- the loop `%s` of `%s`: `fuel` bounds the iterations (called with `length + 1`), `%s` is the index;\n`none` = panic, `some none` = the loop ran to its end, `some (some r)` = `return r` inside the loop -/\ndef %s %s : Nat → Nat → Option (Option %s)\n  | 0, _ => none\n  | fuel + 1, %s =>\n    if %s < %s.length then\n      %s\n    else some none\n",
			c01Norm(t.p.Src(x.Key)+" := range "+t.p.Src(x.X)), t.fn, key.Name, name, t.params, ctx.rk, key.Name, key.Name, o.s, body))
		r := t.fresh()
		v := t.fresh()
		after := t.stmts(rest, ctx, ind+2)
		return "(" + call + " (" + o.s + ".length + 1) 0).bind fun " + r + " =>" + nl + "match " + r + " with" + nl + "| some " + v + " => " + ctx.ret(v) + nl + "| none =>" + c09Indent(ind+2) + after
	}
	t.refuse(st, "statement kind %T outside the subset", st)
	return ""
}

// c09Func translates a function with ONE result of kind rk; binders: Go parameter name -> kind, in Lean binder order.
func c09Func(c *Ctx, p *Pkg, goName, leanName string, binders [][2]string, rk c09Kind) string {
	fd := p.Func(goName)
	if fd == nil || fd.Body == nil {
		c.Refuse("search/sort.go: %s not found", goName)
	}
	t := &c09Tr{c: c, p: p, fn: leanName, vars: map[string]c09Kind{}}
	// the Go parameter / receiver names must be the bound ones
	have := map[string]bool{}
	if fd.Recv != nil {
		for _, f := range fd.Recv.List {
			for _, n := range f.Names {
				have[n.Name] = true
			}
		}
	}
	for _, f := range fd.Type.Params.List {
		for _, n := range f.Names {
			have[n.Name] = true
		}
	}
	var bs, as []string
	for _, b := range binders {
		if !have[b[0]] && b[0] != "_" {
			c.Refuse("search/sort.go: %s has no receiver / parameter named %q any more", goName, b[0])
		}
		t.vars[b[0]] = c09Kind(b[1])
		bs = append(bs, "("+b[0]+" : "+b[1]+")")
		as = append(as, b[0])
	}
	delete(have, "_")
	if len(have) != len(binders) {
		c.Refuse("search/sort.go: %s: receiver / parameters %v do not match the binding table %v", goName, have, binders)
	}
	t.params, t.args = strings.Join(bs, " "), strings.Join(as, " ")
	body := t.stmts(fd.Body.List, c09ctx{ret: func(v string) string { return "some " + v }, local: map[string]bool{}, rk: rk}, 1)
	out := strings.Join(t.aux, "\n")
	if out != "" {
		out += "\n"
	}
	out += fmt.Sprintf("/-- `%s` of search/sort.go, translated; `none` = the Go code panics -/\ndef %s %s : Option %s :=\n  %s\n", goName, leanName, t.params, rk, body)
	return out
}

// c09ElemUpdate translates `for _, v := range o { v.f = e; … }` (the only statement of the method) into the function
// the loop applies to one element.
func c09ElemUpdate(c *Ctx, p *Pkg, goName, leanName string) (string, string) {
	fd := p.Func(goName)
	if fd == nil || fd.Body == nil {
		c.Refuse("search/sort.go: %s not found", goName)
	}
	if len(fd.Body.List) != 1 {
		c.Refuse("search/sort.go: %s is not a single loop:\n%s", goName, p.Src(fd))
	}
	rs, ok := fd.Body.List[0].(*ast.RangeStmt)
	recv := ""
	if fd.Recv != nil && len(fd.Recv.List) == 1 && len(fd.Recv.List[0].Names) == 1 {
		recv = fd.Recv.List[0].Names[0].Name
	}
	if !ok || rs.Value == nil || rs.Tok != token.DEFINE || c01Sel(rs.X) != recv || recv == "" {
		c.Refuse("search/sort.go: %s is not `for _, v := range <receiver> {…}`:\n%s", goName, p.Src(fd))
	}
	if k, ok := rs.Key.(*ast.Ident); rs.Key != nil && (!ok || k.Name != "_") {
		c.Refuse("search/sort.go: %s uses the loop index", goName)
	}
	v := rs.Value.(*ast.Ident).Name
	t := &c09Tr{c: c, p: p, fn: leanName, vars: map[string]c09Kind{v: c09Key}}
	var b strings.Builder
	for _, st := range rs.Body.List {
		as, ok := st.(*ast.AssignStmt)
		if !ok || as.Tok != token.ASSIGN || len(as.Lhs) != 1 || len(as.Rhs) != 1 {
			t.refuse(st, "the loop body holds something else than field assignments")
		}
		se, ok := as.Lhs[0].(*ast.SelectorExpr)
		if !ok || c01Sel(se.X) != v {
			t.refuse(st, "assignment to something that is not a field of the loop variable")
		}
		f, ok := c09Fields[c09Key][se.Sel.Name]
		if !ok {
			t.refuse(st, "field %s is not in the binding table", se.Sel.Name)
		}
		e := t.expr(as.Rhs[0], c09Kind(f[1]))
		if e.partial || string(e.k) != f[1] {
			t.refuse(st, "right-hand side outside the subset")
		}
		fmt.Fprintf(&b, "  let %s : %s := { %s with %s := %s };\n", v, c09Key, v, f[0], e.s)
	}
	def := fmt.Sprintf("/-- what the loop of `%s` does to ONE element (the loop visits every element: `%s`) -/\ndef %s (%s : %s) : %s :=\n%s  %s\n",
		goName, "for _, "+v+" := range "+recv, leanName, v, c09Key, c09Key, b.String(), v)
	return def, "for _, " + v + " := range " + recv
}

// c09BytesVar translates `var name = []byte{…}` / `bytes.Repeat([]byte{…}, n)`.
func c09BytesVar(c *Ctx, p *Pkg, name string) string {
	for _, f := range p.Files {
		for _, d := range f.Decls {
			gd, ok := d.(*ast.GenDecl)
			if !ok || gd.Tok != token.VAR {
				continue
			}
			for _, s := range gd.Specs {
				vs := s.(*ast.ValueSpec)
				for i, n := range vs.Names {
					if n.Name != name {
						continue
					}
					if i >= len(vs.Values) {
						c.Refuse("search/sort.go: var %s has no initialiser", name)
					}
					lit := func(e ast.Expr) string {
						cl, ok := e.(*ast.CompositeLit)
						if !ok || c01Norm(p.Src(cl.Type)) != "[]byte" {
							c.Refuse("search/sort.go: var %s: not a []byte literal: %s", name, p.Src(e))
						}
						var bs []string
						for _, el := range cl.Elts {
							bl, ok := el.(*ast.BasicLit)
							if !ok || bl.Kind != token.INT {
								c.Refuse("search/sort.go: var %s: element %s", name, p.Src(el))
							}
							v, err := strconv.ParseInt(bl.Value, 0, 64)
							if err != nil || v < 0 || v > 255 {
								c.Refuse("search/sort.go: var %s: element %s", name, p.Src(el))
							}
							bs = append(bs, fmt.Sprintf("0x%02x#8", v))
						}
						return "[" + strings.Join(bs, ", ") + "]"
					}
					var val string
					if ce, ok := vs.Values[i].(*ast.CallExpr); ok && c01Sel(ce.Fun) == "bytes.Repeat" && len(ce.Args) == 2 {
						bl, ok := ce.Args[1].(*ast.BasicLit)
						if !ok || bl.Kind != token.INT {
							c.Refuse("search/sort.go: var %s: repeat count %s", name, p.Src(ce.Args[1]))
						}
						val = "(List.replicate " + bl.Value + " " + lit(ce.Args[0]) + ").flatten"
					} else {
						val = lit(vs.Values[i])
					}
					return fmt.Sprintf("/-- `var %s` of search/sort.go -/\ndef %s : Bluge.TopN.Bytes := %s\n", name, name, val)
				}
			}
		}
	}
	c.Refuse("search/sort.go: package variable %s not found", name)
	return ""
}

package persistlib

// The `closetwice` scenario (C11): two goroutines close the same writer. The first Close is parked
// INSIDE close() — at the EventKindCloseStart event (Config.EventCallback), i.e. before the
// background loops are stopped, the root is dropped and the directory is unlocked. A second Close
// is issued from another goroutine and gets a bounded wait. On the unchanged code (sync.Once) it
// stays blocked until the first has finished. Whatever happens: for EVERY Close call that has
// returned, the state at that instant is recorded (`closeret who free|locked handles=l/c`): the pid
// file must be unlocked (probed with a non-blocking exclusive flock, nothing else is touched) and
// every Load closer must have been invoked. The driver enables a `closeret` only after the model's
// `closeWriter` event (`bad:close-returned-before-close-finished`).

import (
	"fmt"
	"os"
	"path/filepath"
	"time"

	"github.com/blugelabs/bluge/index"
	"github.com/blugelabs/bluge/index/lock"

	"verif/harness/hlib"
)

type closeStartGate struct {
	armed   bool
	entered chan struct{}
	release chan struct{}
}

// eventHook is the writer's Config.EventCallback.
func (c *caseRun) eventHook(e index.Event) {
	if e.Kind != index.EventKindCloseStart {
		return
	}
	c.mu.Lock()
	g := c.csGate
	if g == nil || !g.armed {
		c.mu.Unlock()
		return
	}
	g.armed = false
	c.mu.Unlock()
	close(g.entered)
	<-g.release
}

// pidLocked probes the directory lock without disturbing anything: is bluge.pid there and flocked by somebody?
func pidLocked(dir string) bool {
	p := filepath.Join(dir, "bluge.pid")
	if _, err := os.Stat(p); err != nil {
		return false
	}
	f, err := lock.OpenExclusive(p, os.O_RDWR, 0o600)
	if err != nil {
		return true
	}
	_ = f.Close()
	return false
}

// closeObs is what holds at the instant a Close call returned.
type closeObs struct {
	locked        bool
	loads, closes int
}

func (c *caseRun) observeClose() closeObs {
	o := closeObs{locked: pidLocked(c.dir)}
	c.mu.Lock()
	o.loads, o.closes = c.loads, c.closes
	c.mu.Unlock()
	return o
}

func (o closeObs) clean() bool { return !o.locked && o.loads == o.closes }

// closeRetLocked records that observation (c.mu held).
func (c *caseRun) closeRetLocked(who int, o closeObs, err error) {
	st := "free"
	if o.locked {
		st = "locked"
	}
	c.recordLocked(fmt.Sprintf("closeret %d %s handles=%d/%d err=%d", who, st, o.loads, o.closes, b2i(err != nil)))
}

func (c *caseRun) closeTwice(st *hlib.Stats) {
	if c.w == nil {
		return
	}
	for id, r := range c.readers {
		c.mu.Lock()
		delete(c.readers, id)
		c.recordLocked(fmt.Sprintf("rclose %d", id))
		c.mu.Unlock()
		_ = r.Close()
	}
	w := c.w
	g := &closeStartGate{armed: true, entered: make(chan struct{}), release: make(chan struct{})}
	c.mu.Lock()
	c.csGate = g
	c.closing = true
	c.mu.Unlock()
	done1 := make(chan error, 1)
	done2 := make(chan error, 1)
	closeRecorded := make(chan struct{})
	go func() {
		err := w.Close()
		o := c.observeClose()
		c.mu.Lock()
		// the close event of the model: close() has run to its end (loops stopped, root dropped, Unlock)
		c.closing = false
		c.rootSegs = nil
		c.recordLocked(fmt.Sprintf("close %d", b2i(err == nil)))
		c.closeRetLocked(1, o, err)
		c.mu.Unlock()
		close(closeRecorded)
		done1 <- err
	}()
	parked := false
	select {
	case <-g.entered:
		parked = true
		st.Count("closetwice:first-close-parked-inside-close")
	case <-time.After(2 * time.Second):
		st.Count("closetwice:not-parked")
	}
	go func() {
		err := w.Close()
		o := c.observeClose() // at the instant of the return
		if o.clean() {
			// unlocked and every handle released: close() has finished; only the ORDER of the two records is fixed here
			select {
			case <-closeRecorded:
			case <-time.After(10 * time.Second):
			}
		}
		c.mu.Lock()
		c.closeRetLocked(2, o, err)
		c.mu.Unlock()
		done2 <- err
	}()
	second := false
	if parked {
		select {
		case err := <-done2:
			// the second Close came back while the first is still parked inside close()
			second = true
			done2 <- err
			st.Count("closetwice:second-returned-while-first-parked")
		case <-time.After(300 * time.Millisecond):
			st.Count("closetwice:second-blocked-while-first-parked")
			c.record("blocked close2")
		}
	}
	_ = second
	c.mu.Lock()
	if g.armed {
		g.armed = false
	} else {
		close(g.release)
	}
	c.csGate = nil
	c.mu.Unlock()
	for i, ch := range []chan error{done1, done2} {
		select {
		case <-ch:
		case <-time.After(10 * time.Second):
			st.Count("closetwice:close-hung")
			c.record(fmt.Sprintf("closehung %d", i+1))
		}
	}
	c.w = nil
	st.Count("closetwice:both-returned")
	c.open()
}

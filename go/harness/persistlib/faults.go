// Stream `faults` (C14) — I/O failures of the directory are reported, contained and recovered from.
//
// A fault-injecting Directory sits between the recording Directory of lib.go and the real
// FileSystemDirectory. The fault plan of a case names a category of directory operation
// (persist-snap, persist-seg, persist-mseg, load-snap, load-seg, list-snap, list-seg, remove-snap,
// remove-seg), the how-manieth operation of that category to hit, a placement for Persist (before any
// byte / after a partial write / after the full write) and how many consecutive operations of the
// category fail (1 = transient, more = sticky for a while). Everything else is the machinery of the
// stream `recover`: the records of the run are replayed through the model, the real directory is
// listed after every record, crash images of the faulted trace are opened in child processes.
//
// Observed in addition: the value every Batch call returns (`ackobs` / `nackobs`), every call of
// index.Config.AsyncError (`asyncerr`), what a fresh Reader of the writer shows (`rdobs`), and that
// no operation hangs (`hang`).
package persistlib

import (
	"errors"
	"fmt"
	"io"
	"sort"
	"strings"
	"sync"
	"time"

	"github.com/blugelabs/bluge/index"
	segment "github.com/blugelabs/bluge_segment_api"

	"verif/harness/hlib"
)

var errInjected = errors.New("verif: injected directory fault")

type faultSpec struct {
	op    string // category
	idx   int    // the idx-th operation of the category (1-based) is the first to fail
	place string // before | partial | after   (Persist only)
	count int    // consecutive operations of the category that fail
	hits  int
}

type faultPlan struct {
	mu           sync.Mutex
	specs        []*faultSpec
	seen         map[string]int
	c            *caseRun
	armed        bool // a fault has fired and has not been cleared yet
	pendingClear bool
	fired        int
	snapLists    int      // List(snapshot) calls so far (= opens)
	lastSnaps    []uint64 // the last listing of snapshot epochs, newest first

	// the in-memory-merge scenario (`memmerge`): the categories mm-mseg / mm-load / mm-snap hit the Persist of the merged
	// segment, its Load, and the snapshot Persist that FOLLOWS the merge of the root the held persister grabs
	mmArmed  bool
	mmMerged bool            // the merged segment of that grab has been written
	mmFired  map[string]bool // which mm- categories fired
}

const faultsRule = "a generated batch history (as in the stream `recover`, plus clean reopens and reader observations) run on a real index.Writer over a real FileSystemDirectory through a recording Directory with a fault injector underneath: one fault per case in the quick tier (two in the thorough tier) on the k-th operation of a category — Persist of a snapshot / a segment / a merged segment (before any byte, after a partial write, after the full write), Load of a snapshot / a segment, List of snapshots / segments, Remove of a snapshot / a segment — transient or repeated on the next operations of the category. Observed: every Batch return value, every AsyncError call, a fresh Reader's documents after every step, the directory listing after every record, no hang (time-outs), crash images of the faulted trace opened by the real OpenReader/OpenWriter in child processes, and that the acknowledgement following a failure covers everything applied before it. One evaluation = one record or one crash image; a case is non-trivial when its fault fired and distinct by fault plan + event-kind sequence"

func parseFaultPlan(f []string) *faultPlan {
	p := &faultPlan{seen: map[string]int{}, mmFired: map[string]bool{}}
	for _, pre := range []string{"f", "g"} {
		op := ""
		for _, w := range f {
			if strings.HasPrefix(w, pre+"op=") {
				op = strings.TrimPrefix(w, pre+"op=")
			}
		}
		if op == "" || op == "none" {
			continue
		}
		place := "before"
		for _, w := range f {
			if strings.HasPrefix(w, pre+"place=") {
				place = strings.TrimPrefix(w, pre+"place=")
			}
		}
		p.specs = append(p.specs, &faultSpec{op: op, idx: kvInt(f, pre+"idx", 1), place: place, count: kvInt(f, pre+"count", 1)})
	}
	return p
}

func (p *faultPlan) String() string {
	var s []string
	for _, x := range p.specs {
		s = append(s, fmt.Sprintf("%s#%d:%s*%d", x.op, x.idx, x.place, x.count))
	}
	return strings.Join(s, "+")
}

func (p *faultPlan) install(c *caseRun) {
	p.c = c
	c.wrapDir = func(inner index.Directory) index.Directory { return &faultDir{inner: inner, p: p} }
}

// clear ends the faults that have begun to fire (the script's `fclear`), or every fault (all: the end of a lifetime).
func (p *faultPlan) clear(all bool) {
	p.mu.Lock()
	for _, s := range p.specs {
		if all || s.hits > 0 {
			s.hits = s.count
		}
	}
	was := p.armed || p.pendingClear
	p.armed, p.pendingClear = false, false
	p.mu.Unlock()
	if was && p.c != nil {
		p.c.record("fclear")
	}
}

// check counts one operation of a category and says whether (and where) it fails. locked: the caller holds c.mu.
func (p *faultPlan) check(op string, locked bool) (bool, string) {
	rec := p.c.record
	if locked {
		rec = p.c.recordLocked
	}
	p.mu.Lock()
	if p.pendingClear {
		p.pendingClear, p.armed = false, false
		p.mu.Unlock()
		rec("fclear")
		p.mu.Lock()
	}
	p.seen[op]++
	n := p.seen[op]
	for _, s := range p.specs {
		if s.op == op && n >= s.idx && s.hits < s.count {
			s.hits++
			first := !p.armed
			p.armed = true
			p.fired++
			if s.hits >= s.count {
				p.pendingClear = true
			}
			place := s.place
			p.mu.Unlock()
			if first {
				rec(fmt.Sprintf("fstart %s:%s", op, place))
			}
			return true, place
		}
	}
	p.mu.Unlock()
	return false, ""
}

// mmCheck: the categories of the in-memory-merge scenario; they do not count operations, they are eligible while the
// scenario is armed (from the release of the held persister until its snapshot write has gone through).
func (p *faultPlan) mmCheck(op string) (bool, string) {
	p.mu.Lock()
	if !p.mmArmed {
		p.mu.Unlock()
		return false, ""
	}
	for _, s := range p.specs {
		if s.op == op && s.hits < s.count {
			s.hits++
			first := !p.armed
			p.armed = true
			p.fired++
			p.mmFired[op] = true
			if s.hits >= s.count {
				p.pendingClear = true
			}
			place := s.place
			p.mu.Unlock()
			if first {
				p.c.record(fmt.Sprintf("fstart %s:%s", op, place))
			}
			p.c.mu.Lock()
			p.c.jobErrInjected = true // the in-memory merge and what follows it are the persister's own job
			p.c.mu.Unlock()
			return true, place
		}
	}
	p.mu.Unlock()
	return false, ""
}

func (p *faultPlan) hasMM() bool {
	for _, s := range p.specs {
		if strings.HasPrefix(s.op, "mm-") {
			return true
		}
	}
	return false
}

// newestHit: category load-newest — during the idx-th open that lists snapshots, Load fails for the `count` newest epochs.
func (p *faultPlan) newestHit(id uint64) bool {
	p.mu.Lock()
	for _, s := range p.specs {
		if s.op != "load-newest" || p.snapLists != s.idx || s.hits >= s.count {
			continue
		}
		for i, e := range p.lastSnaps {
			if i < s.count && e == id {
				s.hits++
				first := !p.armed
				p.armed = true
				p.fired++
				if s.hits >= s.count {
					p.pendingClear = true
				}
				p.mu.Unlock()
				if first {
					p.c.record("fstart load-newest:before")
				}
				return true
			}
		}
	}
	p.mu.Unlock()
	return false
}

type faultDir struct {
	inner index.Directory
	p     *faultPlan
}

type cutWriterTo struct {
	b []byte
	n int
}

func (w cutWriterTo) WriteTo(out io.Writer, _ chan struct{}) (int64, error) {
	k, err := out.Write(w.b[:w.n])
	if err != nil {
		return int64(k), err
	}
	return int64(k), errInjected
}

func (d *faultDir) Setup(ro bool) error     { return d.inner.Setup(ro) }
func (d *faultDir) Stats() (uint64, uint64) { return d.inner.Stats() }
func (d *faultDir) Sync() error             { return d.inner.Sync() }
func (d *faultDir) Lock() error             { return d.inner.Lock() }
func (d *faultDir) Unlock() error           { return d.inner.Unlock() }

func (d *faultDir) List(kind string) ([]uint64, error) {
	op := "list-seg"
	if kind == index.ItemKindSnapshot {
		op = "list-snap"
	}
	if bad, _ := d.p.check(op, false); bad {
		return nil, errInjected
	}
	l, err := d.inner.List(kind)
	if kind == index.ItemKindSnapshot && err == nil {
		d.p.mu.Lock()
		d.p.snapLists++
		d.p.lastSnaps = append([]uint64(nil), l...)
		d.p.mu.Unlock()
	}
	return l, err
}

func (d *faultDir) Load(kind string, id uint64) (*segment.Data, io.Closer, error) {
	op := "load-seg"
	if kind == index.ItemKindSnapshot {
		op = "load-snap"
	}
	if kind == index.ItemKindSegment {
		// while OpenWriter loads the snapshots a failing segment Load would fail ONE of the snapshots naming it: not placed
		d.p.c.mu.Lock()
		opening := d.p.c.opening
		d.p.c.mu.Unlock()
		if opening {
			return d.inner.Load(kind, id)
		}
	}
	if kind == index.ItemKindSegment {
		d.p.c.mu.Lock()
		merged := d.p.c.mergeSeg[id]
		d.p.c.mu.Unlock()
		if merged {
			if bad, _ := d.p.mmCheck("mm-load"); bad {
				return nil, nil, errInjected
			}
		}
	}
	if kind == index.ItemKindSnapshot && d.p.newestHit(id) {
		d.p.c.record(fmt.Sprintf("loadfail %d", id))
		return nil, nil, errInjected
	}
	if bad, _ := d.p.check(op, false); bad {
		if kind == index.ItemKindSnapshot {
			d.p.c.record(fmt.Sprintf("loadfail %d", id))
		} else {
			d.p.c.mu.Lock()
			if !d.p.c.mergeSeg[id] { // a segment of the persister's own job (a merged segment may be the file merger's)
				d.p.c.jobErrInjected = true
			}
			d.p.c.mu.Unlock()
		}
		return nil, nil, errInjected
	}
	return d.inner.Load(kind, id)
}

func (d *faultDir) Remove(kind string, id uint64) error {
	op := "remove-seg"
	if kind == index.ItemKindSnapshot {
		op = "remove-snap"
	}
	// recDir.Remove holds c.mu across the call
	if bad, _ := d.p.check(op, true); bad {
		return errInjected
	}
	return d.inner.Remove(kind, id)
}

func (d *faultDir) Persist(kind string, id uint64, w index.WriterTo, closeCh chan struct{}) error {
	op := "persist-seg"
	if kind == index.ItemKindSnapshot {
		op = "persist-snap"
	} else {
		d.p.c.mu.Lock()
		if d.p.c.mergeSeg[id] {
			op = "persist-mseg"
		}
		d.p.c.mu.Unlock()
	}
	bad, place := false, ""
	switch op {
	case "persist-mseg":
		bad, place = d.p.mmCheck("mm-mseg")
		if !bad {
			d.p.mu.Lock()
			if d.p.mmArmed {
				d.p.mmMerged = true
			}
			d.p.mu.Unlock()
		}
	case "persist-snap":
		d.p.mu.Lock()
		after := d.p.mmArmed && d.p.mmMerged
		d.p.mu.Unlock()
		if after {
			bad, place = d.p.mmCheck("mm-snap")
			if !bad { // the snapshot that follows the in-memory merge goes through: the scenario is over
				d.p.mu.Lock()
				d.p.mmArmed = false
				d.p.mu.Unlock()
			}
		}
	}
	if !bad {
		bad, place = d.p.check(op, false)
	}
	if !bad {
		return d.inner.Persist(kind, id, w, closeCh)
	}
	if op != "persist-mseg" {
		d.p.c.mu.Lock()
		d.p.c.jobErrInjected = true
		d.p.c.mu.Unlock()
	}
	b, ok := w.(bytesWriterTo)
	switch {
	case place == "before" || !ok:
		return errInjected
	case place == "partial":
		return d.inner.Persist(kind, id, cutWriterTo{b, len(b) / 2}, closeCh)
	default:
		return d.inner.Persist(kind, id, cutWriterTo{b, len(b)}, closeCh)
	}
}

// ---------------------------------------------------------------- reader observation

// snapshotContent lists the live documents of a writer's reader as "m3:3,u1:7".
func snapshotContent(r *index.Snapshot) string {
	type d struct {
		kind, num int
		s         string
	}
	var ds []d
	for _, ss := range r.Segments() {
		x, ok := ss.(interface {
			FullSize() int64
			VisitDocument(uint64, segment.StoredFieldVisitor) error
		})
		if !ok {
			return "err:segment-api"
		}
		del := ss.Deleted()
		n := x.FullSize()
		for i := int64(0); i < n; i++ {
			if del != nil && del.Contains(uint32(i)) {
				continue
			}
			var id, tok string
			if err := x.VisitDocument(uint64(i), func(field string, value []byte) bool {
				switch field {
				case "_id":
					id = string(value)
				case "tok":
					tok = string(value)
				}
				return true
			}); err != nil {
				return "err:visit"
			}
			k, num, ok := docKey(id)
			if !ok {
				ds = append(ds, d{2, 0, "?" + id + ":" + tok})
				continue
			}
			ds = append(ds, d{k, num, id + ":" + tok})
		}
	}
	sort.Slice(ds, func(i, j int) bool {
		if ds[i].kind != ds[j].kind {
			return ds[i].kind < ds[j].kind
		}
		if ds[i].num != ds[j].num {
			return ds[i].num < ds[j].num
		}
		return ds[i].s < ds[j].s
	})
	if len(ds) == 0 {
		return "ok:-"
	}
	s := make([]string, len(ds))
	for i, x := range ds {
		s[i] = x.s
	}
	return "ok:" + strings.Join(s, ",")
}

func (c *caseRun) observeReader(tag string) {
	if c.w == nil {
		return
	}
	res := hlib.Catch(func() string {
		r, err := c.w.Reader()
		if err != nil || r == nil {
			return "err"
		}
		defer r.Close()
		return snapshotContent(r)
	})
	c.mu.Lock()
	c.log = append(c.log, rec{op: "rdobs " + tag, state: res})
	c.mu.Unlock()
}

// waitTimeout: did the batches return?
func waitTimeout(wg *sync.WaitGroup, d time.Duration) bool {
	done := make(chan struct{})
	go func() { wg.Wait(); close(done) }()
	select {
	case <-done:
		return true
	case <-time.After(d):
		return false
	}
}

// ---------------------------------------------------------------- generator, script operations

func (h *HR) genFaults(r *hlib.Rand, tier string, scale int, emit func(string)) {
	type fk struct {
		op     string
		maxIdx int
		places []string
	}
	kinds := []fk{
		{"persist-snap", 5, []string{"before", "partial", "after"}},
		{"persist-seg", 4, []string{"before", "partial", "after"}},
		{"persist-mseg", 2, []string{"before", "partial", "after"}},
		{"load-seg", 4, []string{"before"}},
		{"load-snap", 2, []string{"before"}},
		{"list-snap", 2, []string{"before"}},
		{"list-seg", 2, []string{"before"}},
		{"remove-snap", 3, []string{"before"}},
		{"remove-seg", 2, []string{"before"}},
	}
	rounds := 2 * scale
	if tier == "thorough" {
		rounds = 14 * scale
	}
	tok := 0
	ci := 0
	spec := func(pre string, k fk, round int) string {
		idx := 1 + (round+r.Intn(k.maxIdx))%k.maxIdx
		count := 1
		if r.Chance(35) {
			count = r.Range(2, 4)
		}
		return fmt.Sprintf("%sop=%s %sidx=%d %splace=%s %scount=%d", pre, k.op, pre, idx, pre, k.places[(round+r.Intn(3))%len(k.places)], pre, count)
	}
	for round := 0; round < rounds; round++ {
		// deliberate: Load fails on the two newest snapshot files while OpenWriter walks them (retention 3, no merges:
		// the files of the last batch). Does the writer come back without an acknowledged batch?
		{
			emit(fmt.Sprintf("case %d n=3 unsafe=0 merge=-1 jit=0 seed=%d fop=load-newest fidx=2 fplace=before fcount=2", ci, r.Intn(1<<30)))
			ci++
			for i := 0; i < 3; i++ {
				tok++
				emit("b " + batchSpec{tok: tok}.String())
				emit("rd")
			}
			emit("reopen")
			emit("rd")
			tok++
			emit("b " + batchSpec{tok: tok}.String())
			emit("rd")
			emit("end")
		}
		// deliberate: the in-memory-merge path of the persister (a root with >= 2 segments that are not persisted, forced by
		// holding the persister at the grab), with a fault on the merged segment's Persist, on its Load, and on the snapshot
		// Persist that FOLLOWS the merge; safe callers, unsafe callers with callbacks, and unsafe callers of which one has none
		{
			places := []string{"before", "partial", "after"}
			type mm struct{ op, place string }
			mms := []mm{{"mm-snap", "before"}, {"mm-snap", "partial"}, {"mm-snap", "after"}, {"mm-mseg", places[round%3]}, {"mm-load", "before"}}
			if tier == "thorough" {
				mms = append(mms, mm{"mm-mseg", places[(round+1)%3]}, mm{"mm-mseg", places[(round+2)%3]})
			}
			for mi, m := range mms {
				mode := (mi + round) % 3 // 0 safe, 1 unsafe with callbacks, 2 unsafe, one caller without a callback
				count := 1
				if (mi+round)%4 == 3 {
					count = 2
				}
				emit(fmt.Sprintf("case %d n=%d unsafe=%d merge=2 jit=%d seed=%d fop=%s fidx=1 fplace=%s fcount=%d", ci, 1+ci%3, b2i(mode != 0), r.Intn(2), r.Intn(1<<30), m.op, m.place, count))
				ci++
				nb := 2 + (mi+round)%2
				var ps []string
				for i := 0; i < nb; i++ {
					tok++
					sp := batchSpec{tok: tok, cb: mode == 1 || (mode == 2 && i > 0)}
					if i > 0 && r.Chance(50) {
						sp.keys = []int{r.Intn(3)}
					}
					ps = append(ps, sp.String())
				}
				emit("memmerge " + strings.Join(ps, " "))
				emit("rd")
				emit("wait")
				emit("rd")
				emit("fclear")
				tok++
				emit("b " + batchSpec{tok: tok, cb: mode != 0}.String())
				emit("rd")
				if mi%2 == 0 {
					tok++
					tok++
					emit("memmerge " + batchSpec{tok: tok - 1, cb: mode != 0}.String() + " " + batchSpec{tok: tok, cb: mode != 0, dels: []int{tok - 2}}.String())
					emit("rd")
				}
				emit("end")
			}
		}
		for ki, k := range kinds {
			n := 1 + (ci % 3)
			unsafe := (ci+round)%3 == 2
			merge := 2
			if k.op != "persist-mseg" && r.Chance(30) {
				merge = []int{0, 3}[r.Intn(2)]
			}
			line := fmt.Sprintf("case %d n=%d unsafe=%d merge=%d jit=%d seed=%d %s", ci, n, b2i(unsafe), merge, r.Intn(3), r.Intn(1<<30), spec("f", k, round))
			if tier == "thorough" && r.Chance(50) {
				line += " " + spec("g", kinds[(ki+1+r.Intn(len(kinds)-1))%len(kinds)], round+1)
			}
			emit(line)
			ci++
			var live []int
			mk := func() string {
				tok++
				sp := batchSpec{tok: tok, cb: unsafe || r.Chance(30)}
				for len(live) > 0 && r.Chance(30) {
					i := r.Intn(len(live))
					sp.dels = append(sp.dels, live[i])
					live = append(live[:i], live[i+1:]...)
				}
				seen := map[int]bool{}
				for r.Chance(35) {
					x := r.Intn(4)
					if !seen[x] {
						seen[x] = true
						sp.keys = append(sp.keys, x)
					}
				}
				live = append(live, tok)
				return sp.String()
			}
			steps := r.Range(6, 9)
			if tier == "thorough" {
				steps = r.Range(8, 16)
			}
			needReopen := k.op == "load-snap" || k.op == "list-snap" || k.op == "list-seg"
			for s := 0; s < steps; s++ {
				switch {
				case needReopen && s == steps/2:
					emit("reopen")
				case r.Chance(65):
					emit("b " + mk())
				case r.Chance(70):
					var ps []string
					for i := r.Range(2, 3); i > 0; i-- {
						ps = append(ps, mk())
					}
					emit("par " + strings.Join(ps, " "))
				case r.Chance(40):
					emit("reopen")
				default:
					emit("wait")
				}
				emit("rd")
			}
			emit("fclear")
			emit("b " + mk())
			emit("rd")
			if ci%3 == 0 {
				emit("reopen")
				emit("b " + mk())
			}
			emit("end")
			if ci%4 == 1 {
				emit(fmt.Sprintf("fork depth=1 kind=any sel=%d var=%d unsafe=0 merge=2 jit=0 nap=0 seed=%d", r.Intn(1000), r.Intn(1000), r.Intn(1<<30)))
				emit("b " + mk())
				emit("end")
			}
		}
	}
}

// memMerge forces the in-memory-merge path of the persister: it is held in Directory.Stats() (pausePersisterForMergerCatchUp,
// before the grab) until every batch of the line is in the root, so that the root it then grabs holds >= 2 segments that
// are not persisted (persistSnapshotMaybeMerge merges them, writes and loads the merged segment, then writes the snapshot).
func (c *caseRun) memMerge(specs []batchSpec, p *faultPlan, st *hlib.Stats) bool {
	if c.w == nil || len(specs) < 2 {
		return true
	}
	sg := &statsGate{armed: true, held: make(chan struct{}), release: make(chan struct{})}
	c.mu.Lock()
	c.sgate = sg
	base := c.applied
	c.mu.Unlock()
	release := func() {
		c.mu.Lock()
		if sg.armed {
			sg.armed = false
		} else {
			select {
			case <-sg.release:
			default:
				close(sg.release)
			}
		}
		c.sgate = nil
		c.mu.Unlock()
	}
	var wg sync.WaitGroup
	ok := true
	for i, sp := range specs {
		wg.Add(1)
		go c.runBatch(sp, &wg)
		ok = c.waitApplied(base+i+1, 2*time.Second) && ok
	}
	select {
	case <-sg.held:
	case <-time.After(2 * time.Second):
		ok = false
	}
	if ok {
		st.Count("memmerge:unpersisted-segments-behind-held-persister")
		if p != nil {
			p.mu.Lock()
			p.mmArmed, p.mmMerged = true, false
			p.mu.Unlock()
		}
	} else {
		st.Count("memmerge:not-set-up")
	}
	release()
	return waitTimeout(&wg, 60*time.Second)
}

func (h *HR) execFaultOp(lt *lifetime, f []string) {
	c := lt.c
	switch f[0] {
	case "memmerge":
		var specs []batchSpec
		for _, s := range f[1:] {
			specs = append(specs, parseSpec(s))
		}
		if !c.memMerge(specs, lt.faults, h.st) {
			c.mu.Lock()
			c.log = append(c.log, rec{op: "hang batch", state: "hang"})
			c.mu.Unlock()
		}
	case "rd":
		c.observeReader("step")
	case "fclear":
		if lt.faults != nil {
			lt.faults.clear(false)
		}
	}
}

package persistlib

import "verif/harness/hlib"

type faultPlan struct{}

func (p *faultPlan) clear()             {}
func (p *faultPlan) install(c *caseRun) {}
func parseFaultPlan(f []string) *faultPlan { return &faultPlan{} }

const faultsRule = ""

func (h *HR) genFaults(r *hlib.Rand, tier string, scale int, emit func(string)) {}
func (h *HR) execFaultOp(lt *lifetime, f []string)                          {}

package persistlib

// The `crashreopen` scenario family (C02, C11): the process "dies" while a snapshot Persist is in
// flight, so the NEWEST snapshot file of the crash image is torn (a prefix cut or zero-filled);
// a real writer is then opened on that image, its open-time Cleanup runs, and the case goes on
// in the new directory.
//
// The gate (closerace.go) holds the persister inside a snapshot Persist whose grab took NO waiting
// acknowledgement (the re-persist after introducePersist), so no caller is blocked at the crash
// point. Under the record lock the crash is declared: `crash` is recorded, the image (complete
// files + the torn variant of the snapshot in flight; segment files in flight are dropped) is
// written into a fresh directory, every recording object of the old writer is marked dead (it
// records nothing any more; the old writer is released and closed in the background on its old
// directory). The new writer's `open`, its open-time `rmsnap`/`rmseg` and `opened <commits>`
// follow in the record; each of them keeps its crash image (C02: opened by the real OpenReader in a
// child process — every batch acknowledged before the crash must be there), and the driver
// evaluates keepN on the real listing against the N newest snapshots that were LOADABLE at `open`.

import (
	"fmt"
	"os"
	"path/filepath"
	"strconv"
	"strings"
	"sync"
	"time"

	"github.com/blugelabs/bluge"
	"github.com/blugelabs/bluge/index"

	"verif/harness/hlib"
)

func (c *caseRun) addLive(o interface{}) {
	c.mu.Lock()
	c.live = append(c.live, o)
	c.mu.Unlock()
}

func (c *caseRun) deadLocked(o interface{}) bool { return c.dead != nil && c.dead[o] }

func (c *caseRun) isDead(o interface{}) bool {
	c.mu.Lock()
	defer c.mu.Unlock()
	return c.deadLocked(o)
}

// traceFrom is the trace hook's entry: events of writers abandoned by a simulated crash are dropped.
func (c *caseRun) traceFrom(w *index.Writer, kind string, snap *index.Snapshot, x uint64) {
	c.mu.Lock()
	defer c.mu.Unlock()
	if c.deadLocked(w) {
		return
	}
	c.traceLocked(kind, snap, x)
}

// runBatchGen is runBatch for a batch that may be overtaken by a simulated crash: once the
// generation changed nothing of it is recorded (the process that submitted it is gone).
func (c *caseRun) runBatchGen(sp batchSpec, wg *sync.WaitGroup) {
	defer wg.Done()
	c.mu.Lock()
	w, gen, sem := c.w, c.gen, c.introSem
	c.mu.Unlock()
	if w == nil {
		return
	}
	b := index.NewBatch()
	if sp.tok > 0 {
		b.Insert(bluge.NewDocument(marker(sp.tok)).AddField(bluge.NewKeywordField("tok", strconv.Itoa(sp.tok)).StoreValue()))
	}
	for _, t := range sp.dels {
		b.Delete(bluge.Identifier(marker(t)))
	}
	for _, k := range sp.keys {
		id := keyed(k)
		b.Update(bluge.Identifier(id), bluge.NewDocument(id).AddField(bluge.NewKeywordField("tok", strconv.Itoa(sp.tok)).StoreValue()))
	}
	ccReady := make(chan struct{})
	var myC int
	report := func(err error) {
		c.mu.Lock()
		if c.gen == gen && myC > 0 {
			if err == nil {
				c.acked[myC] = true
				c.recordLocked(fmt.Sprintf("ackobs %d", myC))
				c.relNotObs--
			} else {
				c.recordLocked(fmt.Sprintf("nackobs %d", myC))
			}
		}
		c.mu.Unlock()
	}
	if sp.cb {
		b.SetPersistedCallback(func(err error) {
			<-ccReady
			report(err)
		})
	}
	sem <- struct{}{}
	spc := sp
	intro := make(chan int, 1)
	c.mu.Lock()
	if c.gen == gen {
		c.curSpec, c.curIntro = &spc, intro
	} else {
		intro <- -1
	}
	c.mu.Unlock()
	go func() {
		myC = <-intro
		<-sem
		close(ccReady)
	}()
	var err error
	func() {
		// the writer of a generation that was overtaken by a simulated crash is closed in the background
		// ("the old process goes on unobserved"); a Batch that only now reaches it uses a closed writer,
		// which bluge answers with a nil dereference: API misuse by the harness, nothing to observe
		defer func() {
			if r := recover(); r != nil {
				c.mu.Lock()
				stale := c.gen != gen
				c.mu.Unlock()
				if !stale {
					panic(r)
				}
				err = fmt.Errorf("abandoned writer: %v", r)
			}
		}()
		err = w.Batch(b)
	}()
	c.mu.Lock()
	if c.curIntro == intro {
		c.curIntro, c.curSpec = nil, nil
		intro <- -1
	}
	c.mu.Unlock()
	select {
	case <-ccReady:
	case <-time.After(5 * time.Second):
		return
	}
	if !c.unsafe {
		report(err)
	}
}

// tornVariant cuts the full content of the snapshot file in flight.
func tornVariant(v string, full []byte) []byte {
	n := len(full)
	cut := func(k int) []byte {
		if k < 0 {
			k = 0
		}
		if k > n {
			k = n
		}
		return append([]byte{}, full[:k]...)
	}
	switch v {
	case "cut:0":
		return cut(0)
	case "cut:1":
		return cut(1)
	case "cut:half":
		return cut(n / 2)
	case "cut:crc":
		return cut(n - 4)
	case "cut:last":
		return cut(n - 1)
	case "zero":
		return make([]byte, n)
	}
	return cut(n / 2)
}

func (c *caseRun) crashReopen(variant string, sp batchSpec, st *hlib.Stats) {
	if c.w == nil {
		return
	}
	for id, r := range c.readers {
		c.mu.Lock()
		delete(c.readers, id)
		c.recordLocked(fmt.Sprintf("rclose %d", id))
		c.mu.Unlock()
		_ = r.Close()
	}
	g := &persistGate{kind: index.ItemKindSnapshot, armed: true, zeroAck: true, held: make(chan struct{}), release: make(chan struct{})}
	c.mu.Lock()
	c.gate = g
	c.mu.Unlock()
	var wg sync.WaitGroup
	wg.Add(1)
	go c.runBatchGen(sp, &wg)
	select {
	case <-g.held:
		st.Count("crashreopen:held")
	case <-time.After(3 * time.Second):
		// no acknowledgement-free snapshot Persist came by: no crash here
		st.Count("crashreopen:gate-not-reached")
		c.mu.Lock()
		g.armed = false
		c.gate = nil
		c.mu.Unlock()
		wg.Wait()
		return
	}
	// let the other goroutines of the writer finish what they are in the middle of recording; in particular every
	// acknowledgement the persister has released is observed by its caller before the process "dies"
	time.Sleep(2 * time.Millisecond)
	for i := 0; i < 3000; i++ {
		c.mu.Lock()
		n := c.relNotObs
		c.mu.Unlock()
		if n <= 0 {
			break
		}
		time.Sleep(100 * time.Microsecond)
	}

	// ---- the crash, atomically with respect to the record
	c.mu.Lock()
	var tornName string
	var tornFull []byte
	for n, b := range c.inflight {
		if filepath.Ext(n) == index.ItemKindSnapshot {
			tornName, tornFull = n, b
		}
	}
	image := map[string][]byte{}
	for n, b := range c.files {
		if _, fl := c.inflight[n]; !fl {
			image[n] = b
		}
	}
	old := c.w
	if c.dead == nil {
		c.dead = map[interface{}]bool{}
	}
	for _, o := range c.live {
		c.dead[o] = true
	}
	c.dead[old] = true
	c.live = nil
	c.gen++
	c.w = nil
	c.abandonHandlesLocked() // the abandoned writer releases its handles whenever it gets there: a new balance starts
	c.imgSeq++
	newDir := filepath.Join(c.work, fmt.Sprintf("idx_crash%d", c.gen))
	_ = os.RemoveAll(newDir)
	_ = os.MkdirAll(newDir, 0o755)
	for n, b := range image {
		_ = os.WriteFile(filepath.Join(newDir, n), b, 0o600)
	}
	if tornName != "" {
		_ = os.WriteFile(filepath.Join(newDir, tornName), tornVariant(variant, tornFull), 0o600)
		st.Count("crashreopen:torn-newest:" + strings.SplitN(variant, ":", 2)[0])
	}
	c.dir = newDir
	c.files = image
	c.inflight = map[string][]byte{}
	c.rootSegs = nil
	c.gate = nil
	c.curSpec, c.curIntro = nil, nil
	c.introSem = make(chan struct{}, 1)
	c.closing, c.opening = false, false
	c.relNotObs = 0
	c.forceImage = true
	c.recordLocked("crash") // listed (and imaged) as the crash image now in c.dir
	c.mu.Unlock()

	// the old process goes on in its old directory, unobserved
	close(g.release)
	go func() { _ = old.Close() }()

	// ---- OpenWriter on the crash image: Lock, loadSnapshots (the torn newest one does not load), List, Cleanup
	if c.open() == "ok" {
		c.mu.Lock()
		k := 0
		if c.loadedAny {
			k = c.epochK[c.lastLoaded]
		}
		c.applied = k
		if k < len(c.specs) {
			c.specs = c.specs[:k]
		}
		c.mu.Unlock()
		st.Count("crashreopen:reopened")
	} else {
		st.Count("crashreopen:open-failed")
	}
	c.mu.Lock()
	c.forceImage = false
	c.mu.Unlock()
}

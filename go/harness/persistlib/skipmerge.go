package persistlib

// Two deterministic C11 scenarios about handles and the lock.
//
// skipmerge: the persister's in-memory merge of two segments is SKIPPED by the introducer because a
// third batch deleted every document in them while the merged file was being written. The merged
// file was already opened through Directory.Load (loadSegment); mergeSegmentBases must give that
// reference back. Gates: the persister is held in Directory.Stats() (pausePersisterForMergerCatchUp,
// before the grab) until batches A and B are in the root, then inside the Persist of the merged
// segment (on the persister's goroutine) until the delete-all batch D is in the root.
//
// closeerr: Close() while every closer returned by Directory.Load really closes and THEN reports an
// error. Close must still end with Unlock: OpenWriter on the same directory in the same process
// must succeed at once.

import (
	"bytes"
	"fmt"
	"runtime"
	"strconv"
	"strings"
	"sync"
	"time"

	"github.com/blugelabs/bluge/index"

	"verif/harness/hlib"
)

func goid() uint64 {
	var buf [64]byte
	b := buf[:runtime.Stack(buf[:], false)]
	b = bytes.TrimPrefix(b, []byte("goroutine "))
	if i := bytes.IndexByte(b, ' '); i > 0 {
		n, _ := strconv.ParseUint(string(b[:i]), 10, 64)
		return n
	}
	return 0
}

// abandonHandlesLocked starts a new handle balance (c.mu held): the closers of the writer left behind are not counted any more.
func (c *caseRun) abandonHandlesLocked() {
	c.hgen++
	c.loads, c.closes, c.dblClose = 0, 0, 0
}

type statsGate struct {
	armed   bool
	held    chan struct{}
	release chan struct{}
}

func (c *caseRun) statsGateWait(d *recDir) {
	c.mu.Lock()
	g := c.sgate
	if g == nil || !g.armed || c.deadLocked(d) {
		c.mu.Unlock()
		return
	}
	g.armed = false
	c.mu.Unlock()
	close(g.held)
	<-g.release
}

func (c *caseRun) waitApplied(n int, d time.Duration) bool {
	deadline := time.Now().Add(d)
	for time.Now().Before(deadline) {
		c.mu.Lock()
		a := c.applied
		c.mu.Unlock()
		if a >= n {
			return true
		}
		time.Sleep(100 * time.Microsecond)
	}
	return false
}

func (c *caseRun) skipMerge(a, b, d batchSpec, st *hlib.Stats) {
	if c.w == nil || !c.unsafe {
		return
	}
	sg := &statsGate{armed: true, held: make(chan struct{}), release: make(chan struct{})}
	c.mu.Lock()
	c.sgate = sg
	base := c.applied
	logAt := len(c.log)
	c.mu.Unlock()
	var wg sync.WaitGroup
	run := func(sp batchSpec) {
		wg.Add(1)
		go c.runBatch(sp, &wg)
	}
	release := func() {
		c.mu.Lock()
		if sg.armed {
			sg.armed = false
		} else {
			select {
			case <-sg.release:
			default:
				close(sg.release)
			}
		}
		c.sgate = nil
		c.mu.Unlock()
	}
	run(a)
	okA := c.waitApplied(base+1, 2*time.Second)
	run(b)
	okB := c.waitApplied(base+2, 2*time.Second)
	held := false
	select {
	case <-sg.held:
		held = true
	case <-time.After(2 * time.Second):
	}
	if !(okA && okB && held) {
		st.Count("skipmerge:not-set-up")
		release()
		wg.Wait()
		return
	}
	st.Count("skipmerge:two-in-memory-segments-behind-held-persister")
	// now hold the Persist of the merged segment, on the persister's goroutine (the grab tells which one that is)
	mg := &persistGate{kind: index.ItemKindSegment, armed: true, merge: true, bindGrab: true, goid: ^uint64(0),
		held: make(chan struct{}), release: make(chan struct{})}
	c.mu.Lock()
	c.gate = mg
	c.mu.Unlock()
	release()
	select {
	case <-mg.held:
		st.Count("skipmerge:merged-segment-persist-held")
		run(d)
		if c.waitApplied(base+3, 2*time.Second) {
			st.Count("skipmerge:delete-all-introduced")
		}
	case <-time.After(2 * time.Second):
		st.Count("skipmerge:merge-persist-not-reached")
	}
	c.mu.Lock()
	mg.armed = false
	c.gate = nil
	c.mu.Unlock()
	select {
	case <-mg.release:
	default:
		close(mg.release)
	}
	wg.Wait()
	c.mu.Lock()
	for _, r := range c.log[logAt:] {
		f := strings.Fields(r.op)
		if len(f) == 4 && f[0] == "imerge" && f[3] == "-" {
			st.Count("skipmerge:in-memory-merge-skipped")
		}
	}
	c.mu.Unlock()
}

func (c *caseRun) closeWithCloserErrors(st *hlib.Stats) {
	if c.w == nil {
		return
	}
	for id, r := range c.readers {
		c.mu.Lock()
		delete(c.readers, id)
		c.recordLocked(fmt.Sprintf("rclose %d", id))
		c.mu.Unlock()
		_ = r.Close()
	}
	time.Sleep(time.Duration(1+c.jit) * time.Millisecond)
	c.mu.Lock()
	c.closeErrArmed = true
	before := c.closeErrInjected
	c.mu.Unlock()
	c.closeWriter()
	c.mu.Lock()
	c.closeErrArmed = false
	n := c.closeErrInjected - before
	c.mu.Unlock()
	if n > 0 {
		st.Count("closeerr:closer-errors-during-close")
	}
	if c.open() != "ok" {
		// the same process cannot open the directory it has just closed
		c.record("lockcheck locked")
		st.Count("closeerr:reopen-failed")
	} else {
		st.Count("closeerr:reopened-at-once")
	}
}

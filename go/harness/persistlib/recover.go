// Stream `recover` (C03) — crash images of every kind, opened by the real OpenReader AND the real
// OpenWriter in child processes, and sequences crash -> recover -> continue -> crash.
//
// A *lifetime* is one run of a real index.Writer on a real FileSystemDirectory through the recording
// Directory of lib.go. Every record of a lifetime keeps the directory as it was at that instant
// (complete files + the files whose Persist had not returned, with their intended content and with
// what the file of that name held before). When a lifetime has ended
//
//   - its records are emitted (the Lean driver replays them through Bluge.Persist.step) and, for the
//     sampled records, every torn variant of the files in flight is materialised in a fresh
//     directory and opened in a child process: `image …` lines;
//   - `fork` lines of the script choose a record and a variant as a crash point: the image is
//     materialised once more and a NEW lifetime is started on it in this process (after the child
//     process has shown that opening it does not kill the process). For the driver the fork is a
//     `replay` line followed by the chain of records that led to the crash point, a `crash` line, and
//     then the records of the new lifetime. Forks nest (depth 2, 3).
package persistlib

import (
	"bytes"
	"context"
	"fmt"
	"hash/fnv"
	"io"
	"os"
	"os/exec"
	"path/filepath"
	"sort"
	"strconv"
	"strings"
	"sync"
	"time"

	"github.com/blugelabs/bluge"
	"github.com/blugelabs/bluge/index"
	"github.com/blugelabs/bluge/index/mergeplan"

	"verif/harness/hlib"
)

type pair struct{ op, res string }

type lifetime struct {
	c       *caseRun
	depth   int
	prefix  []pair // what the driver replays before this lifetime's own records
	emitted []pair // this lifetime's own lines (without image lines), in order
	posOf   []int  // record index -> number of emitted lines up to and including that record
	dead    bool   // the crash image could not be opened: no continuation
	ended   bool

	tornEpoch uint64 // two-fault scenario: the epoch whose snapshot file was torn by the crash this lifetime recovered from
	tornLen   int
	faults    *faultPlan // C14
}

// HR is the harness of the streams `recover` (C03) and `faults` (C14).
type HR struct {
	Mode  Mode
	cur   *lifetime
	ended map[int]*lifetime // the last ended lifetime per depth
	seq   int
	root  string // work directory of the case
	n     int
	tok   int
	all   []*lifetime
	st    *hlib.Stats
}

// ---------------------------------------------------------------- contents of an index (child process)

func docKey(id string) (int, int, bool) {
	if len(id) < 2 {
		return 0, 0, false
	}
	v, err := strconv.Atoi(id[1:])
	if err != nil {
		return 0, 0, false
	}
	switch id[0] {
	case 'm':
		return 0, v, true
	case 'u':
		return 1, v, true
	}
	return 0, 0, false
}

// contentOf lists the documents of a reader as "m3:3,u1:7" (id:body, markers first, numeric order).
func contentOf(r *bluge.Reader) string {
	it, err := r.Search(context.Background(), bluge.NewAllMatches(bluge.NewMatchAllQuery()))
	if err != nil {
		return "err:search"
	}
	type d struct {
		kind, num int
		s         string
	}
	var ds []d
	for {
		m, err := it.Next()
		if err != nil {
			return "err:next"
		}
		if m == nil {
			break
		}
		var id, tok string
		_ = m.VisitStoredFields(func(field string, value []byte) bool {
			switch field {
			case "_id":
				id = string(value)
			case "tok":
				tok = string(value)
			}
			return true
		})
		k, n, ok := docKey(id)
		if !ok {
			if id == "probe" {
				continue
			}
			ds = append(ds, d{2, 0, "?" + id + ":" + tok})
			continue
		}
		ds = append(ds, d{k, n, id + ":" + tok})
	}
	sort.Slice(ds, func(i, j int) bool {
		if ds[i].kind != ds[j].kind {
			return ds[i].kind < ds[j].kind
		}
		if ds[i].num != ds[j].num {
			return ds[i].num < ds[j].num
		}
		return ds[i].s < ds[j].s
	})
	if len(ds) == 0 {
		return "ok:-"
	}
	s := make([]string, len(ds))
	for i, x := range ds {
		s[i] = x.s
	}
	return "ok:" + strings.Join(s, ",")
}

func openImageReader(dir string) string {
	r, err := bluge.OpenReader(bluge.DefaultConfig(dir))
	if err != nil {
		return "err"
	}
	defer r.Close()
	return contentOf(r)
}

// openImageWriter: the real OpenWriter on the image, its content, one more batch, close.
func openImageWriter(dir string, probe bool) string {
	w, err := bluge.OpenWriter(bluge.DefaultConfig(dir))
	if err != nil {
		return "err"
	}
	r, err := w.Reader()
	if err != nil {
		_ = w.Close()
		return "err:reader"
	}
	res := contentOf(r)
	_ = r.Close()
	if !probe {
		if err := w.Close(); err != nil {
			return "err:close"
		}
		return res
	}
	b := bluge.NewBatch()
	b.Insert(bluge.NewDocument("probe").AddField(bluge.NewKeywordField("tok", "0").StoreValue()))
	p := 0
	if err := w.Batch(b); err == nil {
		if r2, err := w.Reader(); err == nil {
			if n, err := r2.Count(); err == nil && n >= 1 {
				p = 1
			}
			_ = r2.Close()
		}
	}
	if err := w.Close(); err != nil {
		p = 0
	}
	return fmt.Sprintf("%s;p=%d", res, p)
}

// ChildMain2: `child rd|wr dir…` prints one "R <result>" line per directory.
func ChildMain2(args []string) {
	if len(args) == 0 {
		return
	}
	mode := args[0]
	for _, d := range args[1:] {
		if mode == "wr" {
			fmt.Println("R " + openImageWriter(d, false))
		} else if mode == "wrp" {
			fmt.Println("R " + openImageWriter(d, true))
		} else {
			fmt.Println("R " + openImageReader(d))
		}
	}
}

type imgJob2 struct {
	recIdx int
	v      variant3
	dir    string
	probe  bool // the writer child also applies one more batch
	rd, wr string
}

// runChildren2 opens every image directory in child processes (mode rd: bluge.OpenReader, mode wr:
// bluge.OpenWriter + one batch). A child that dies is re-run on the culprit alone: "fault"; one that
// does not finish in time: "hang".
func runChildren2(jobs []*imgJob2, mode string) {
	if mode == "both" {
		// reader first (read only), then the writer; probing writers separately; three chunks at a time
		const chunk = 32
		var parts [][]*imgJob2
		for i := 0; i < len(jobs); i += chunk {
			j := i + chunk
			if j > len(jobs) {
				j = len(jobs)
			}
			parts = append(parts, jobs[i:j])
		}
		sem := make(chan struct{}, 3)
		var wg sync.WaitGroup
		for _, part := range parts {
			wg.Add(1)
			sem <- struct{}{}
			go func(part []*imgJob2) {
				defer wg.Done()
				defer func() { <-sem }()
				runChildren2(part, "rd")
				var plain, probe []*imgJob2
				for _, j := range part {
					if j.probe {
						probe = append(probe, j)
					} else {
						plain = append(plain, j)
					}
				}
				runChildren2(plain, "wr")
				runChildren2(probe, "wrp")
			}(part)
		}
		wg.Wait()
		return
	}
	exe, _ := os.Executable()
	pending := jobs
	chunk := 48
	for len(pending) > 0 {
		n := chunk
		if n > len(pending) {
			n = len(pending)
		}
		part := pending[:n]
		args := []string{"child", mode}
		for _, j := range part {
			args = append(args, j.dir)
		}
		cmd := exec.Command(exe, args...)
		var ob bytes.Buffer
		cmd.Stdout = &ob
		cmd.Stderr = io.Discard
		done := make(chan error, 1)
		_ = cmd.Start()
		go func() { done <- cmd.Wait() }()
		timedOut := false
		select {
		case <-done:
		case <-time.After(time.Duration(20+2*n) * time.Second):
			_ = cmd.Process.Kill()
			<-done
			timedOut = true
		}
		got := 0
		for _, ln := range strings.Split(strings.TrimSpace(ob.String()), "\n") {
			if !strings.HasPrefix(ln, "R ") {
				continue
			}
			if got < len(part) {
				set(part[got], mode, strings.TrimPrefix(ln, "R "))
				got++
			}
		}
		if got < len(part) {
			if n == 1 {
				if timedOut {
					set(part[0], mode, "hang")
				} else {
					set(part[0], mode, "fault")
				}
				got = 1
			} else {
				runChildren2(part[got:got+1], mode)
				got++
			}
		}
		pending = pending[got:]
	}
}

func set(j *imgJob2, mode, res string) {
	if mode == "wr" || mode == "wrp" {
		j.wr = res
	} else {
		j.rd = res
	}
}

// ---------------------------------------------------------------- torn variants

// variant3 is one crash image: what each file in flight looks like after the crash.
type variant3 struct {
	desc     string
	files    map[string][]byte // the whole directory
	complete map[string]bool   // names whose content is complete (files that were complete + in-flight files fully written)
	snap     string            // "-" no snapshot in flight | a(bsent) | t(orn) | f(ull)
	segs     []string          // "<sid>:a|t|f" for the segment files in flight
	accepted bool              // a torn snapshot variant that the (harness's) decoder accepts: TornRejected broken
	tornName string            // the in-flight snapshot left torn (two-fault bookkeeping)
	tornLen  int
}

func nameID(name string) (uint64, string) {
	ext := filepath.Ext(name)
	id, _ := strconv.ParseUint(strings.TrimSuffix(name, ext), 16, 64)
	return id, ext
}

// cutSet: the prefix lengths tried for a file of n bytes. mode 0: a small boundary set (quick tier); 1: a larger
// boundary set; 2: every length for files < 512 bytes (the larger boundary set otherwise).
func cutSet(n int, mode int, r *hlib.Rand) []int {
	set := map[int]bool{}
	all := mode >= 1
	if mode == 2 && n < 512 {
		for i := 0; i < n; i++ {
			set[i] = true
		}
	} else {
		pts := []int{0, 1, n / 2, n - 4, n - 1}
		if all {
			pts = []int{0, 1, 2, 3, 4, n / 3, n / 2, n - 9, n - 8, n - 5, n - 4, n - 3, n - 2, n - 1, 4095, 4096, 4097, 8191, 8192, 8193}
		} else if r != nil && n > 2 {
			pts = append(pts, r.Intn(n))
		}
		for _, x := range pts {
			if x >= 0 && x < n {
				set[x] = true
			}
		}
	}
	out := make([]int, 0, len(set))
	for x := range set {
		out = append(out, x)
	}
	sort.Ints(out)
	return out
}

type fileVar struct {
	kind  byte // a t f
	bytes []byte
	desc  string
}

// fileVariants: everything a file in flight can look like after a crash.
func fileVariants(full, prev []byte, hasPrev bool, mode int, light bool, r *hlib.Rand) []fileVar {
	n := len(full)
	var out []fileVar
	add := func(b []byte, desc string) {
		k := byte('t')
		if bytes.Equal(b, full) {
			k = 'f'
		}
		out = append(out, fileVar{k, b, desc})
	}
	if !hasPrev {
		out = append(out, fileVar{'a', nil, "absent"})
	} else {
		add(prev, fmt.Sprintf("previous:%d", len(prev))) // the truncation has not reached the disk
		out = append(out, fileVar{'t', []byte{}, "prefix:0"})
	}
	if light {
		add(full[:n/2], fmt.Sprintf("prefix:%d/%d", n/2, n))
		add(full, fmt.Sprintf("full:%d", n))
		return out
	}
	for _, k := range cutSet(n, mode, r) {
		if k == 0 && hasPrev {
			continue
		}
		add(full[:k], fmt.Sprintf("prefix:%d/%d", k, n))
	}
	add(make([]byte, n), fmt.Sprintf("zero:%d", n))
	add(full, fmt.Sprintf("full:%d", n))
	if hasPrev && len(prev) > 0 {
		cs := cutSet(n, mode, r)
		cs = append(cs, n)
		for _, k := range cs {
			if k < len(prev) {
				b := append(append([]byte{}, full[:k]...), prev[k:]...)
				add(b, fmt.Sprintf("stale:%d/%d+%d", k, n, len(prev)-k))
			}
		}
	}
	return out
}

// variantsOf builds the crash images of one record. Each file in flight is varied in turn while the
// others are left half written (or absent / full, alternating with the variant number).
func variantsOf(im *image, mode int, r *hlib.Rand) []variant3 {
	base := func() (map[string][]byte, map[string]bool) {
		m, c := map[string][]byte{}, map[string]bool{}
		for k, v := range im.files {
			m[k] = v
			c[k] = true
		}
		for k, v := range im.junk {
			if _, ok := m[k]; !ok {
				m[k] = v
			}
		}
		return m, c
	}
	names := make([]string, 0, len(im.inflight))
	for n := range im.inflight {
		names = append(names, n)
	}
	sort.Strings(names)
	if len(names) == 0 {
		m, c := base()
		return []variant3{{desc: "asis", files: m, complete: c, snap: "-"}}
	}
	var out []variant3
	for _, n := range names {
		_, ext := nameID(n)
		prev, hasPrev := im.prev[n]
		light := ext == ".seg" && mode == 0
		m := mode
		if ext == ".seg" && m == 2 {
			m = 1 // segment files are long: the boundary set
		}
		for vi, fv := range fileVariants(im.inflight[n], prev, hasPrev, m, light, r) {
			m, c := base()
			v := variant3{files: m, complete: c, snap: "-"}
			put := func(name string, f fileVar) {
				id, ext := nameID(name)
				switch f.kind {
				case 'a':
					delete(m, name)
				default:
					m[name] = f.bytes
				}
				delete(c, name)
				if f.kind == 'f' {
					c[name] = true
				}
				if ext == ".snp" {
					v.snap = string(f.kind)
					if f.kind == 't' {
						v.tornName, v.tornLen = name, len(f.bytes)
						// the previous file of that name, untouched, is not a torn variant: it is the old state (it can be a
						// complete snapshot only where an epoch is written again over a complete file)
						if _, ok := ParseSnapshot(f.bytes); ok && !bytes.Equal(f.bytes, im.prev[name]) {
							v.accepted = true
						}
					}
				} else {
					v.segs = append(v.segs, fmt.Sprintf("%d:%c", id, f.kind))
				}
			}
			put(n, fv)
			for _, o := range names {
				if o == n {
					continue
				}
				fo := im.inflight[o]
				op, ohas := im.prev[o]
				var ov fileVar
				switch vi % 3 {
				case 0:
					ov = fileVar{'t', fo[:len(fo)/2], "half"}
				case 1:
					if ohas {
						ov = fileVar{'t', op, "previous"}
						if bytes.Equal(op, fo) {
							ov.kind = 'f'
						}
					} else {
						ov = fileVar{'a', nil, "absent"}
					}
				default:
					ov = fileVar{'f', fo, "full"}
				}
				put(o, ov)
			}
			v.desc = n + ":" + fv.desc
			out = append(out, v)
		}
	}
	return out
}

func (v variant3) line(word string) string {
	segs := "-"
	if len(v.segs) > 0 {
		s := append([]string{}, v.segs...)
		sort.Strings(s)
		segs = strings.Join(s, ",")
	}
	acc := ""
	if v.accepted {
		acc = " accepted=1"
	}
	return fmt.Sprintf("%s %s %s %s%s", word, v.snap, segs, v.desc, acc)
}

func imageKey(files map[string][]byte, nack int) uint64 {
	names := make([]string, 0, len(files))
	for n := range files {
		names = append(names, n)
	}
	sort.Strings(names)
	h := fnv.New64a()
	fmt.Fprintf(h, "%d|", nack)
	for _, n := range names {
		fmt.Fprintf(h, "%s:%d:", n, len(files[n]))
		_, _ = h.Write(files[n])
	}
	return h.Sum64()
}

func writeImage(dir string, files map[string][]byte) {
	_ = os.RemoveAll(dir)
	_ = os.MkdirAll(dir, 0o755)
	for n, b := range files {
		_ = os.WriteFile(filepath.Join(dir, n), b, 0o644)
	}
}

// slowDir delays the Persist of segment files.
type slowDir struct {
	index.Directory
	delay time.Duration
}

func (d *slowDir) Persist(kind string, id uint64, w index.WriterTo, closeCh chan struct{}) error {
	if kind == index.ItemKindSegment {
		time.Sleep(d.delay)
	}
	return d.Directory.Persist(kind, id, w, closeCh)
}

// ---------------------------------------------------------------- lifetimes

func (h *HR) newCase(lt *lifetime, dir, work string, f []string) *caseRun {
	c := &caseRun{mode: h.Mode, tier: os.Getenv("VERIF_TIER"), dir: dir, work: work,
		n: h.n, unsafe: kvInt(f, "unsafe", 0) == 1, merge: kvInt(f, "merge", 2), jit: kvInt(f, "jit", 0),
		rng: hlib.NewRand(uint64(kvInt(f, "seed", 1))), files: map[string][]byte{}, inflight: map[string][]byte{},
		isFile: map[uint64]bool{}, epochK: map[uint64]int{}, introSem: make(chan struct{}, 1), tokC: map[int]int{},
		acked: map[int]bool{}, readers: map[int]*index.Snapshot{}, imgEvery: 8, prev: map[string][]byte{}, junk: map[string][]byte{}, lt: lt, mergeSeg: map[uint64]bool{}}
	if slow := kvInt(f, "slow", 0); slow > 0 {
		// every segment Persist takes `slow` ms longer: batches are introduced while a merge / a persist is in flight
		c.wrapDir = func(inner index.Directory) index.Directory {
			return &slowDir{Directory: inner, delay: time.Duration(slow) * time.Millisecond}
		}
	}
	nap := kvInt(f, "nap", 0)
	noMerge := c.merge < 0
	if nap > 0 || noMerge {
		c.cfgHook = func(cfg *index.Config) {
			if nap > 0 {
				cfg.PersisterNapTimeMSec = nap
				cfg.PersisterNapUnderNumFiles = 100000
			}
			if noMerge { // merge=-1: no file merges, no in-memory merges: one segment per batch stays one segment
				cfg.MergePlanOptions = mergeplan.DefaultMergePlanOptions
				cfg.MergePlanOptions.MaxSegmentSize = 1 // no segment is eligible for a merge
				cfg.MinSegmentsForInMemoryMerge = 1 << 30
			}
		}
	}
	return c
}

func (h *HR) teardownAll() {
	for _, lt := range h.all {
		c := lt.c
		for id, r := range c.readers {
			_ = r.Close()
			delete(c.readers, id)
		}
		if c.w != nil {
			_ = c.w.Close()
			c.w = nil
		}
	}
	current = nil
	h.all, h.cur, h.ended = nil, nil, map[int]*lifetime{}
	if h.root != "" {
		_ = os.RemoveAll(h.root)
	}
}

// endLifetime closes the writer of the current lifetime, checks that the lock is gone, and emits it.
func (h *HR) endLifetime(out func(string, string), st *hlib.Stats) {
	lt := h.cur
	if lt == nil {
		return
	}
	h.cur = nil
	h.ended[lt.depth] = lt
	lt.ended = true
	if lt.dead {
		return
	}
	c := lt.c
	rids := make([]int, 0, len(c.readers))
	for id := range c.readers {
		rids = append(rids, id)
	}
	sort.Ints(rids)
	for _, id := range rids {
		r := c.readers[id]
		c.mu.Lock()
		delete(c.readers, id)
		c.recordLocked(fmt.Sprintf("rclose %d", id))
		c.mu.Unlock()
		_ = r.Close()
	}
	if lt.faults != nil {
		lt.faults.clear(true)
		lt.faults.mu.Lock()
		for op := range lt.faults.mmFired {
			st.Count(map[string]string{"mm-snap": "fault:snapshot-write-after-in-memory-merge",
				"mm-mseg": "fault:merged-segment-write-in-memory-merge", "mm-load": "fault:merged-segment-load-in-memory-merge"}[op])
		}
		lt.faults.mu.Unlock()
	}
	c.closeWriter()
	re := "reopened"
	if w3, err := index.OpenWriter(index.DefaultConfig(c.dir)); err != nil {
		if strings.Contains(err.Error(), "exclusive access") {
			re = "locked"
		}
	} else {
		_ = w3.Close()
	}
	c.mu.Lock()
	var ak []int
	for a := range c.acked {
		ak = append(ak, a)
	}
	sort.Ints(ak)
	ncommit := 0
	var kinds []string
	for _, r := range c.log {
		k := strings.SplitN(r.op, " ", 2)[0]
		if k == "commit" {
			ncommit++
		}
		kinds = append(kinds, k[:1]+k[len(k)-1:])
	}
	fin := fmt.Sprintf("acked=%s handles=%d/%d/%d", ints(ak), c.loads, c.closes, c.dblClose)
	if h.Mode.Faults {
		fin += fmt.Sprintf(" asyncerrs=%d", c.asyncErrs)
	}
	c.log = append(c.log, rec{op: "final " + re, state: fin})
	c.mu.Unlock()
	current = nil
	h.emitLifetime(lt, out, st)
	st.Case(fmt.Sprintf("d%d:", lt.depth)+strings.Join(kinds, ""), ncommit > 0)
	if lt.tornEpoch != 0 {
		// two-fault bookkeeping: was the torn epoch written again, over a longer torn file?
		for _, r := range c.log {
			w := strings.Fields(r.op)
			if len(w) >= 2 && w[0] == "snapbegin" && w[1] == strconv.FormatUint(lt.tornEpoch, 10) {
				st.Count("twofault:epoch-reissued")
				if r.img != nil && len(r.img.inflight[fileName(index.ItemKindSnapshot, lt.tornEpoch)]) < lt.tornLen {
					st.Count("twofault:reissued-shorter-than-torn-file")
				}
				break
			}
		}
	}
}

// emitLifetime writes the records of an ended lifetime and opens the crash images of the sampled ones.
func (h *HR) emitLifetime(lt *lifetime, out func(string, string), st *hlib.Stats) {
	c := lt.c
	recs := c.log
	all := c.tier == "thorough"
	r := hlib.NewRand(uint64(len(recs))*7919 + uint64(h.seq))
	var jobs []*imgJob2
	imgRoot := filepath.Join(c.work, "img")
	nplain, ninfl, nfi := 0, 0, 0
	seen := map[uint64]bool{}
	nack := make([]int, len(recs))
	na := 0
	for i, rc := range recs {
		if opWord(rc.op) == "ackobs" {
			na++
		}
		nack[i] = na
	}
	for i, rc := range recs {
		if rc.img == nil {
			continue
		}
		infl := len(rc.img.inflight) > 0
		limit := 0
		if all && h.Mode.Faults {
			// thorough tier of the stream `faults`: the cases are many; every second record with files in flight gets the
			// larger boundary set, the others two variants; every second plain record
			if infl {
				nfi++
				if nfi%2 == 0 {
					limit = 2
				}
			} else {
				nplain++
				if nplain%2 != 0 {
					continue
				}
			}
		}
		if !all {
			if infl {
				// quick tier: every third record with files in flight gets its whole (boundary) variant set, the others two variants
				ninfl++
				if ninfl%5 != 1 {
					limit = 2
				}
			} else {
				nplain++
				w := strings.SplitN(rc.op, " ", 2)[0]
				switch w {
				case "ackobs", "commit", "rmsnap", "rmseg", "snapend", "segend", "msegend", "ipersist", "opened":
					if nplain%5 != 0 {
						continue
					}
				default:
					if nplain%11 != 0 {
						continue
					}
				}
			}
		}
		mode := 0
		if all {
			mode = 1
			if infl {
				ninfl++
				if ninfl%4 == 1 && !h.Mode.Faults {
					mode = 2 // every prefix length
				}
			}
		}
		vs := variantsOf(rc.img, mode, r)
		if limit > 0 && len(vs) > limit {
			a := r.Intn(len(vs))
			b := (a + 1 + r.Intn(len(vs)-1)) % len(vs)
			vs = []variant3{vs[a], vs[b]}
		}
		for vi, v := range vs {
			// the same directory content under the same set of observed acknowledgements says nothing new
			key := imageKey(v.files, nack[i])
			if seen[key] {
				st.Count("img-skipped:duplicate")
				continue
			}
			seen[key] = true
			d := filepath.Join(imgRoot, fmt.Sprintf("%d_%d", i, vi))
			writeImage(d, v.files)
			jobs = append(jobs, &imgJob2{recIdx: i, v: v, dir: d})
		}
	}
	for i, j := range jobs {
		j.probe = i%6 == 0
	}
	runChildren2(jobs, "both")
	ji := 0
	lt.posOf = make([]int, len(recs))
	emit := func(op, res string) {
		out(op, res)
		lt.emitted = append(lt.emitted, pair{op, res})
		st.Evaluations++
	}
	for i, rc := range recs {
		if rc.spec != nil {
			emit(fmt.Sprintf("batch %d %d %s %s", rc.c, rc.spec.tok, ints(rc.spec.dels), ints(rc.spec.keys)), "batch")
		}
		emit(rc.op, rc.state)
		st.Count("op:" + strings.SplitN(rc.op, " ", 2)[0])
		lt.posOf[i] = len(lt.emitted)
		for ji < len(jobs) && jobs[ji].recIdx == i {
			j := jobs[ji]
			h.emitImage(j, lt.depth, out, st)
			ji++
		}
	}
	_ = os.RemoveAll(imgRoot)
}

func (h *HR) emitImage(j *imgJob2, depth int, out func(string, string), st *hlib.Stats) {
	ln := j.v.line("image")
	if j.probe {
		ln += " probe=1"
	}
	out(ln, "rd="+j.rd+" wr="+j.wr)
	st.Evaluations++
	st.Count("op:image")
	parts := strings.Split(j.v.desc, ":")
	if len(parts) >= 2 {
		st.Count("img:" + parts[1])
	} else {
		st.Count("img:" + parts[0])
	}
	st.Count(fmt.Sprintf("img-depth:%d", depth))
	if j.rd == "fault" || strings.HasPrefix(j.wr, "fault") {
		st.Count("res:image-child-fault")
	}
}

// ---------------------------------------------------------------- fork: crash -> recover -> continue

func opWord(op string) string { return strings.SplitN(op, " ", 2)[0] }

// choose picks the crash point (record index, variant) of a fork in the parent's log.
func choose(parent *lifetime, kind string, sel, vr int, all bool) (int, variant3, bool) {
	recs := parent.c.log
	var cand []int
	firstSnap := true
	maxK := 0
	for i, rc := range recs {
		if rc.img == nil {
			continue
		}
		w := opWord(rc.op)
		ok := false
		switch kind {
		case "snap":
			ok = w == "snapbegin"
		case "seg":
			ok = w == "segbegin" || w == "msegbegin"
		case "orphan":
			ok = w == "segend" || w == "ipersist" || w == "msegend"
		case "acked":
			ok = w == "ackobs" || w == "ack" || w == "commit" || w == "rmsnap" || w == "rmseg"
		case "twofault":
			// the first snapshot of a batch that is not the first: its content is new, the batch unacknowledged
			if w == "snapbegin" {
				f := strings.Fields(rc.op)
				k := 0
				if len(f) >= 3 {
					k, _ = strconv.Atoi(f[2])
				}
				ok = !firstSnap && k > maxK
				if k > maxK {
					maxK = k
				}
				firstSnap = false
			}
		case "firstsnap-torn", "firstsnap-absent":
			if w == "snapbegin" {
				ok = firstSnap
				firstSnap = false
			}
		default:
			ok = true
		}
		if ok {
			cand = append(cand, i)
		}
	}
	if len(cand) == 0 {
		for i, rc := range recs {
			if rc.img != nil && opWord(rc.op) != "final" {
				cand = append(cand, i)
			}
		}
	}
	if len(cand) == 0 {
		return 0, variant3{}, false
	}
	p := cand[sel%len(cand)]
	if kind == "twofault" {
		p = cand[len(cand)-1]
	}
	mode := 0
	if all {
		mode = 1
	}
	vs := variantsOf(recs[p].img, mode, hlib.NewRand(uint64(sel)*31+uint64(vr)))
	var pick []variant3
	for _, v := range vs {
		switch kind {
		case "snap":
			if v.snap == "t" || v.snap == "f" {
				pick = append(pick, v)
			}
		case "twofault":
			if v.snap == "t" && strings.Contains(v.desc, ":zero:") {
				pick = append(pick, v)
			}
		case "firstsnap-torn":
			if v.snap == "t" {
				pick = append(pick, v)
			}
		case "firstsnap-absent":
			if v.snap == "a" {
				pick = append(pick, v)
			}
		default:
			pick = append(pick, v)
		}
	}
	if len(pick) == 0 {
		pick = vs
	}
	return p, pick[vr%len(pick)], true
}

func (h *HR) fork(f []string, out func(string, string), st *hlib.Stats) {
	depth := kvInt(f, "depth", 1)
	parent := h.ended[depth-1]
	if parent == nil || parent.dead || !parent.ended {
		return
	}
	kind := "any"
	for _, w := range f {
		if strings.HasPrefix(w, "kind=") {
			kind = strings.TrimPrefix(w, "kind=")
		}
	}
	all := os.Getenv("VERIF_TIER") == "thorough"
	p, v, ok := choose(parent, kind, kvInt(f, "sel", 0), kvInt(f, "var", 0), all)
	if !ok {
		return
	}
	h.seq++
	work := filepath.Join(h.root, fmt.Sprintf("L%d_%d", depth, h.seq))
	dir := filepath.Join(work, "idx")
	chk := filepath.Join(work, "chk")
	_ = os.MkdirAll(work, 0o755)
	writeImage(dir, v.files)
	writeImage(chk, v.files)
	j := &imgJob2{recIdx: p, v: v, dir: chk, probe: true}
	runChildren2([]*imgJob2{j}, "both")
	_ = os.RemoveAll(chk)

	lt := &lifetime{depth: depth}
	lt.prefix = append(append([]pair{}, parent.prefix...), parent.emitted[:parent.posOf[p]]...)
	c := h.newCase(lt, dir, work, f)
	lt.c = c
	pc := parent.c
	for name, b := range v.files {
		if v.complete[name] {
			c.files[name] = b
		} else {
			c.junk[name] = b
		}
	}
	for e, k := range pc.epochK {
		c.epochK[e] = k
	}
	for t, k := range pc.tokC {
		c.tokC[t] = k
	}
	c.specs = append([]batchSpec{}, pc.specs...)
	// acknowledgements the parent chain observed up to the crash point
	for _, pr := range lt.prefix {
		w := strings.Fields(pr.op)
		if len(w) == 2 && w[0] == "ackobs" {
			if x, err := strconv.Atoi(w[1]); err == nil {
				c.acked[x] = true
			}
		}
	}
	if v.snap == "t" && v.tornName != "" {
		lt.tornEpoch, _ = nameID(v.tornName)
		lt.tornLen = v.tornLen
	}
	out(fmt.Sprintf("replay n=%d depth=%d kind=%s", h.n, depth, kind), "replay")
	for _, pr := range lt.prefix {
		out(pr.op, pr.res)
	}
	h.emitImage(j, depth-1, out, st)
	c.mu.Lock()
	listing := c.stateLocked()
	c.mu.Unlock()
	crash := pair{v.line("crash"), listing}
	out(crash.op, crash.res)
	lt.prefix = append(lt.prefix, crash)
	st.Evaluations++
	st.Count("op:crash")
	st.Count("fork:" + kind)
	st.Count(fmt.Sprintf("fork-depth:%d", depth))
	h.all = append(h.all, lt)
	h.cur = lt
	if j.rd == "fault" || j.rd == "hang" || strings.HasPrefix(j.wr, "fault") || strings.HasPrefix(j.wr, "hang") {
		lt.dead = true // opening this image kills the process: reported by the image line above
		return
	}
	current = c
	h.openLifetime(lt)
}

// openLifetime opens the writer of a lifetime; after a crash the batch numbering restarts at the
// content of the snapshot the writer recovered.
func (h *HR) openLifetime(lt *lifetime) {
	c := lt.c
	c.mu.Lock()
	c.loadedAny = false
	c.mu.Unlock()
	c.open()
	c.mu.Lock()
	k := 0
	if c.loadedAny {
		k = c.epochK[c.lastLoaded]
	}
	c.applied = k
	if k < len(c.specs) {
		c.specs = c.specs[:k]
	}
	c.mu.Unlock()
}

// ---------------------------------------------------------------- hlib.Harness

func (h *HR) Rule() string {
	if h.Mode.Faults {
		return faultsRule
	}
	return "generated batch histories (marker documents, deletes of older markers, updates of a small key space; sequential and concurrent; safe mode and unsafe mode with persisted callbacks; merges; clean reopen) run on a real index.Writer over a real FileSystemDirectory through a recording Directory; for the sampled records (every record in the thorough tier) and every torn variant of each file in flight (absent, every prefix length for files < 512 bytes in the thorough tier and a boundary set otherwise, zero-filled, fully written but not yet returned, and — when a file of that name existed — that previous file as it was and prefix + its stale tail) the crash image is opened by the real bluge.OpenReader and the real bluge.OpenWriter (+ one more batch) in child processes; `fork` lines choose crash points (in-flight snapshot, in-flight segment, orphan segment, after an acknowledgement, the deliberate two-fault scenario) from which a new writer is opened in process on the crash image and runs more batches, to depth 2 (thorough: 3). One evaluation = one recorded protocol event with the real directory listing after it, or one crash image; a lifetime is non-trivial when its trace contains a commit and distinct by depth + event-kind sequence"
}

func (h *HR) Gen(r *hlib.Rand, tier string, scale int, emit func(string)) {
	if h.Mode.Faults {
		h.genFaults(r, tier, scale, emit)
		return
	}
	cases := 8 * scale
	if tier == "thorough" {
		cases = 8 * scale // as many cases, but: every record imaged, every prefix length, longer histories, 4 forks per case to depth 3
	}
	tok := 0
	for ci := 0; ci < cases; ci++ {
		n := 1 + ci%3
		var live []int
		mk := func(cbAlways bool) string {
			tok++
			sp := batchSpec{tok: tok, cb: cbAlways || r.Chance(30)}
			for len(live) > 0 && r.Chance(35) {
				i := r.Intn(len(live))
				sp.dels = append(sp.dels, live[i])
				live = append(live[:i], live[i+1:]...)
			}
			seen := map[int]bool{}
			for r.Chance(40) {
				k := r.Intn(4)
				if !seen[k] {
					seen[k] = true
					sp.keys = append(sp.keys, k)
				}
			}
			live = append(live, tok)
			return sp.String()
		}
		if ci%4 == 1 {
			// the deliberate two-fault scenario: torn snapshot of epoch E, recovery to E-1, epoch E written again
			emit(fmt.Sprintf("case %d n=%d unsafe=0 merge=-1 jit=0 seed=%d", ci, n, r.Intn(1<<30)))
			nb := r.Range(3, 5)
			for i := 0; i < nb; i++ {
				tok++
				emit("b " + batchSpec{tok: tok}.String()) // one marker document, its own segment
			}
			emit("end")
			emit(fmt.Sprintf("fork depth=1 kind=twofault sel=0 var=%d unsafe=1 merge=-1 jit=0 nap=60 seed=%d", r.Intn(8), r.Intn(1<<30)))
			emit("reissue")
			emit("wait")
			emit("b " + mk(true))
			emit("end")
			emit(fmt.Sprintf("fork depth=2 kind=acked sel=%d var=%d unsafe=0 merge=2 jit=1 seed=%d", r.Intn(1000), r.Intn(1000), r.Intn(1<<30)))
			emit("b " + mk(false))
			emit("end")
			continue
		}
		if ci%8 == 6 {
			// batches that update the same few keys arrive, without waiting for anything, while the persister merges the
			// in-memory segments holding those keys (slow segment writes): the snapshot written after the merge must still
			// be the root that was grabbed — a whole prefix — although the merged segment was introduced into a newer root
			emit(fmt.Sprintf("case %d n=%d unsafe=1 merge=2 jit=0 slow=6 seed=%d", ci, n, r.Intn(1<<30)))
			for round := 0; round < 3; round++ {
				for i := 0; i < 5; i++ {
					tok++
					sp := batchSpec{tok: tok, keys: []int{i % 2, 2 + (i+round)%2}}
					if i%2 == 1 && tok > 2 {
						sp.dels = []int{tok - 2}
					}
					emit("b " + sp.String())
					emit("wait") // 2 ms: the next batch arrives while the persister is still writing
				}
				tok++
				emit("b " + batchSpec{tok: tok, cb: true, keys: []int{0}}.String())
			}
			emit("end")
			emit(fmt.Sprintf("fork depth=1 kind=acked sel=%d var=%d unsafe=1 merge=2 jit=0 nap=0 slow=4 seed=%d", r.Intn(1000), r.Intn(1000), r.Intn(1<<30)))
			for i := 0; i < 4; i++ {
				tok++
				emit("b " + batchSpec{tok: tok, keys: []int{i % 2}}.String())
				emit("wait")
			}
			tok++
			emit("b " + batchSpec{tok: tok, cb: true}.String())
			emit("end")
			continue
		}
		unsafe := ci%4 == 3
		merge := []int{2, 0, 3, 2}[r.Intn(4)]
		emit(fmt.Sprintf("case %d n=%d unsafe=%d merge=%d jit=%d seed=%d", ci, n, b2i(unsafe), merge, r.Intn(4), r.Intn(1<<30)))
		ops := func(lo, hi int, unsafe bool) {
			steps := r.Range(lo, hi)
			nrd := 0
			for s := 0; s < steps; s++ {
				switch r.Weighted(45, 30, 4, 3, 5) {
				case 0:
					emit("b " + mk(unsafe))
				case 1:
					k := r.Range(2, 4)
					var ps []string
					for i := 0; i < k; i++ {
						ps = append(ps, mk(unsafe))
					}
					emit("par " + strings.Join(ps, " "))
				case 2:
					nrd++
					emit(fmt.Sprintf("ropen %d", 100*s+nrd))
				case 3:
					emit("reopen")
				case 4:
					emit("wait")
				}
			}
		}
		if tier == "thorough" {
			ops(10, 24, unsafe)
		} else {
			ops(7, 12, unsafe)
		}
		emit("end")
		if ci%4 == 2 {
			// the boundary of "a snapshot had ever been completed": a crash during the very first snapshot Persist
			emit(fmt.Sprintf("fork depth=1 kind=firstsnap-torn sel=0 var=%d unsafe=0 merge=2 jit=0 nap=0 seed=%d", r.Intn(1000), r.Intn(1<<30)))
			emit("b " + mk(false))
			emit("end")
			emit(fmt.Sprintf("fork depth=1 kind=firstsnap-absent sel=0 var=0 unsafe=0 merge=2 jit=0 nap=0 seed=%d", r.Intn(1<<30)))
			emit("b " + mk(false))
			emit("end")
		}
		kinds := []string{"snap", "orphan", "seg", "acked", "any", "snap"}
		nf := 2
		maxDepth := 2
		if tier == "thorough" {
			nf, maxDepth = 4, 3
		}
		for fi := 0; fi < nf; fi++ {
			kind := kinds[(ci+fi)%len(kinds)]
			u2 := r.Chance(40)
			emit(fmt.Sprintf("fork depth=1 kind=%s sel=%d var=%d unsafe=%d merge=%d jit=%d nap=%d seed=%d", kind, r.Intn(1000), r.Intn(1000),
				b2i(u2), []int{2, 0, 3}[r.Intn(3)], r.Intn(3), []int{0, 0, 20}[r.Intn(3)], r.Intn(1<<30)))
			ops(3, 6, u2)
			emit("end")
			if fi%2 == 0 {
				for d := 2; d <= maxDepth; d++ {
					u3 := r.Chance(40)
					emit(fmt.Sprintf("fork depth=%d kind=%s sel=%d var=%d unsafe=%d merge=%d jit=%d nap=0 seed=%d", d, kinds[(ci+fi+d)%len(kinds)],
						r.Intn(1000), r.Intn(1000), b2i(u3), []int{2, 0}[r.Intn(2)], r.Intn(3), r.Intn(1<<30)))
					ops(2, 4, u3)
					emit("end")
				}
			}
		}
	}
}

func (h *HR) Exec(line string, out func(string, string), st *hlib.Stats, work string) {
	installTrace()
	h.st = st
	f := strings.Fields(line)
	if len(f) == 0 {
		return
	}
	switch f[0] {
	case "case":
		h.teardownAll()
		h.seq++
		h.root = filepath.Join(work, "run", fmt.Sprintf("%s_%d", h.Mode.Name, h.seq))
		_ = os.RemoveAll(h.root)
		h.n = kvInt(f, "n", 1)
		w0 := filepath.Join(h.root, "L0")
		_ = os.MkdirAll(filepath.Join(w0, "idx"), 0o755)
		lt := &lifetime{depth: 0}
		lt.c = h.newCase(lt, filepath.Join(w0, "idx"), w0, f)
		if h.Mode.Faults {
			lt.faults = parseFaultPlan(f)
			lt.faults.install(lt.c)
		}
		h.all = append(h.all, lt)
		h.cur = lt
		current = lt.c
		out(fmt.Sprintf("case %s n=%d", f[1], h.n), "case")
		h.openLifetime(lt)
		return
	case "fork":
		if h.cur != nil {
			h.endLifetime(out, st)
		}
		h.fork(f, out, st)
		return
	case "end":
		h.endLifetime(out, st)
		return
	}
	lt := h.cur
	if lt == nil || lt.dead {
		return
	}
	c := lt.c
	switch f[0] {
	case "b", "par":
		var wg sync.WaitGroup
		for _, s := range f[1:] {
			wg.Add(1)
			sp := parseSpec(s)
			if f[0] == "par" || h.Mode.Faults {
				go c.runBatch(sp, &wg)
			} else {
				c.runBatch(sp, &wg)
			}
		}
		if !waitTimeout(&wg, 60*time.Second) {
			// a Batch call that does not return: an observation, and the end of this lifetime
			c.mu.Lock()
			c.log = append(c.log, rec{op: "hang batch", state: "hang"})
			c.mu.Unlock()
			lt.dead = true
			h.emitLifetime(lt, out, st)
		}
	case "reissue":
		// two-fault scenario: introduce exactly (torn epoch - recovered epoch) batches while the persister naps, none of
		// which adds a segment, so that the next snapshot is written under the torn epoch and is shorter than the torn file
		if lt.tornEpoch == 0 || c.w == nil || !c.loadedAny || lt.tornEpoch <= c.lastLoaded {
			return
		}
		cnt := int(lt.tornEpoch - c.lastLoaded)
		c.mu.Lock()
		var liveToks []int
		for t := range c.expectAfter(c.applied) {
			liveToks = append(liveToks, t)
		}
		c.mu.Unlock()
		sort.Ints(liveToks)
		var wg sync.WaitGroup
		for i := 0; i < cnt; i++ {
			sp := batchSpec{tok: 0, cb: true}
			if i < len(liveToks) {
				sp.dels = []int{liveToks[i]}
			} else {
				sp.dels = []int{900000 + i}
			}
			wg.Add(1)
			go c.runBatch(sp, &wg)
		}
		wg.Wait()
	case "ropen":
		if c.w != nil {
			id, _ := strconv.Atoi(f[1])
			r, err := c.w.Reader()
			if err == nil && r != nil {
				c.mu.Lock()
				c.readers[id] = r
				var fs []uint64
				for _, s := range snapIDs(r) {
					if _, ok := c.files[fileName(index.ItemKindSegment, s)]; ok {
						fs = append(fs, s)
					}
				}
				c.recordLocked(fmt.Sprintf("ropen %d %d %s", id, c.epochK[r.VerifEpoch()], ids(fs)))
				c.mu.Unlock()
			}
		}
	case "wait":
		time.Sleep(time.Duration(2+c.jit*3) * time.Millisecond)
	case "reopen":
		for id, r := range c.readers {
			c.mu.Lock()
			delete(c.readers, id)
			c.recordLocked(fmt.Sprintf("rclose %d", id))
			c.mu.Unlock()
			_ = r.Close()
		}
		c.closeWriter()
		h.openLifetime(lt)
	default:
		if h.Mode.Faults {
			h.execFaultOp(lt, f)
		}
	}
}

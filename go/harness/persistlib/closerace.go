package persistlib

// The `closerace` scenario family (C02): safe mode, 2–4 submitters, Close() while one batch is
// inside the persister and further batches are already introduced into the root but not yet
// grabbed (their channels still queued in Writer.rootPersisted).
//
// A gate holds the persister INSIDE a segment / snapshot Persist of its own job; the other batches
// are introduced meanwhile; Close() is called concurrently and the gate is opened. Every Batch
// call gets a bounded wait: returned nil (`ackobs c`), returned an error (`nackobs c`), or still
// blocked (`blocked tok` — NOT an acknowledgement; the unchanged code leaves such callers
// blocked for ever). Every record of the scenario keeps its crash image (C02), so the directory
// after the close is opened by the real OpenReader in a child process: a batch that returned nil
// must be there (`bad:acked-batch-lost`), and the driver rejects the `ackobs` itself
// (`bad:ack-without-durable-snapshot`). Afterwards the directory is reopened and the case goes on.

import (
	"fmt"
	"sync"
	"time"

	"verif/harness/hlib"
)

// persistGate holds the persister inside one Persist of its own job.
type persistGate struct {
	kind     string // index.ItemKindSegment or index.ItemKindSnapshot
	armed    bool
	merge    bool          // hold a merge's segment Persist (default: a Persist of the persister's own job)
	goid     uint64        // if non-zero: only on this goroutine
	bindGrab bool          // goid is set by the next grab (the persister's goroutine)
	zeroAck  bool          // hold only a Persist of a job whose grab took no waiting acknowledgement (no caller blocked)
	held     chan struct{} // closed when the persister has arrived
	release  chan struct{} // closed to let it go on
}

// gateWait is called by the recording Directory after the `…begin` record, before the real Persist.
func (c *caseRun) gateWait(kind string, isMerge bool) {
	c.mu.Lock()
	g := c.gate
	if g == nil || !g.armed || isMerge != g.merge || kind != g.kind || (g.zeroAck && c.lastGrabX != 0) || (g.goid != 0 && g.goid != goid()) {
		c.mu.Unlock()
		return
	}
	g.armed = false
	c.mu.Unlock()
	close(g.held)
	<-g.release
}

func (c *caseRun) closeRace(gateKind string, specs []batchSpec, st *hlib.Stats) {
	if c.w == nil || c.unsafe || len(specs) < 2 {
		return
	}
	for id, r := range c.readers {
		c.mu.Lock()
		delete(c.readers, id)
		c.recordLocked(fmt.Sprintf("rclose %d", id))
		c.mu.Unlock()
		_ = r.Close()
	}
	g := &persistGate{kind: gateKind, armed: true, held: make(chan struct{}), release: make(chan struct{})}
	c.mu.Lock()
	c.gate = g
	c.forceImage = true
	base := c.applied
	c.mu.Unlock()
	done := make([]chan struct{}, len(specs))
	launch := func(i int) {
		var wg sync.WaitGroup
		wg.Add(1)
		ch := make(chan struct{})
		done[i] = ch
		go func() {
			c.runBatch(specs[i], &wg)
			close(ch)
		}()
	}
	launch(0)
	select {
	case <-g.held:
		st.Count("closerace:held")
	case <-time.After(2 * time.Second):
		st.Count("closerace:gate-not-reached")
	}
	for i := 1; i < len(specs); i++ {
		launch(i)
	}
	// wait until the other batches are in the root (introduced), queued behind the held persister
	deadline := time.Now().Add(2 * time.Second)
	for time.Now().Before(deadline) {
		c.mu.Lock()
		n := c.applied
		c.mu.Unlock()
		if n >= base+len(specs) {
			st.Count("closerace:queued-behind-persister")
			break
		}
		time.Sleep(200 * time.Microsecond)
	}
	closed := make(chan struct{})
	go func() {
		c.closeWriter()
		close(closed)
	}()
	time.Sleep(2 * time.Millisecond) // Close() has closed closeCh and waits for the loops
	close(g.release)
	select {
	case <-closed:
	case <-time.After(10 * time.Second):
		st.Count("closerace:close-hung")
		c.record("closehung")
	}
	for i, ch := range done {
		select {
		case <-ch:
		case <-time.After(150 * time.Millisecond):
			// did not return: NOT acknowledged (the caller is abandoned; on the unchanged tree it blocks for ever)
			st.Count("closerace:blocked")
			c.mu.Lock()
			c.abandonHandlesLocked() // the caller left blocked pins a root of the closed writer: those handles are out of the balance
			c.mu.Unlock()
			c.record(fmt.Sprintf("blocked %d", specs[i].tok))
		}
	}
	c.mu.Lock()
	c.gate = nil
	c.mu.Unlock()
	// reopen: what was introduced but not persisted is gone; the batch numbering continues from what was recovered
	if c.open() == "ok" {
		c.mu.Lock()
		k := 0
		if c.loadedAny {
			k = c.epochK[c.lastLoaded]
		}
		c.applied = k
		if k < len(c.specs) {
			c.specs = c.specs[:k]
		}
		c.mu.Unlock()
	}
	c.mu.Lock()
	c.forceImage = false
	c.mu.Unlock()
}

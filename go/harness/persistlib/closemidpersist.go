package persistlib

// The `closemidpersist` scenario (C11): Writer.Close() arrives while the persister is between writing a
// segment of its job and handing the persist introduction to the introducer, and a reader taken
// from the writer on that SAME root (with file-backed segments) stays open across the Close.
//
// The existing persist gate parks the persister inside the segment Persist of a fresh batch; a
// reader is taken (Writer.Reader(): the root the persister grabbed); Close() is started, the gate
// released: persistSnapshot returns ErrClosed, the loops stop, close() drops the root and unlocks.
// AT THAT INSTANT, with the reader still open, every file-backed segment of the reader's snapshot
// must still be open (its closer not yet invoked, reference count >= 1): `readerheld …` →
// `bad:handle-released-under-open-reader`. Then the reader is queried (only if its handles are
// open: an unmapped segment would kill the process), closed, and the balance must be exact:
// every closer invoked exactly once (`readerclosed …`).

import (
	"fmt"
	"sync"
	"time"

	"github.com/blugelabs/bluge/index"

	"verif/harness/hlib"
)

func (c *caseRun) closeMidPersist(sp batchSpec, st *hlib.Stats) {
	if c.w == nil {
		return
	}
	for id, r := range c.readers {
		c.mu.Lock()
		delete(c.readers, id)
		c.recordLocked(fmt.Sprintf("rclose %d", id))
		c.mu.Unlock()
		_ = r.Close()
	}
	w := c.w
	g := &persistGate{kind: index.ItemKindSegment, armed: true, held: make(chan struct{}), release: make(chan struct{})}
	c.mu.Lock()
	c.gate = g
	c.mu.Unlock()
	var wg sync.WaitGroup
	wg.Add(1)
	bdone := make(chan struct{})
	go func() {
		c.runBatch(sp, &wg)
		close(bdone)
	}()
	letGo := func() {
		c.mu.Lock()
		if g.armed {
			g.armed = false
		} else {
			select {
			case <-g.release:
			default:
				close(g.release)
			}
		}
		c.gate = nil
		c.mu.Unlock()
	}
	select {
	case <-g.held:
		st.Count("closemidpersist:persister-parked-in-segment-persist")
	case <-time.After(2 * time.Second):
		st.Count("closemidpersist:gate-not-reached")
		letGo()
		<-bdone
		return
	}
	// the reader: the root the persister grabbed
	const rid = 9001
	r, err := w.Reader()
	if err != nil || r == nil {
		letGo()
		<-bdone
		return
	}
	need := 0
	for _, x := range r.VerifSegmentRefs() {
		if x >= 0 {
			need++
		}
	}
	c.mu.Lock()
	c.readers[rid] = r
	var fs []uint64
	for _, s := range snapIDs(r) {
		if _, ok := c.files[fileName(index.ItemKindSegment, s)]; ok {
			fs = append(fs, s)
		}
	}
	c.recordLocked(fmt.Sprintf("ropen %d %d %s", rid, c.epochK[r.VerifEpoch()], ids(fs)))
	c.mu.Unlock()
	if need > 0 {
		st.Count("closemidpersist:reader-with-file-segments")
	}
	closed := make(chan struct{})
	go func() {
		c.closeWriter()
		close(closed)
	}()
	time.Sleep(2 * time.Millisecond)
	letGo()
	select {
	case <-closed:
	case <-time.After(10 * time.Second):
		c.record("closehung")
	}
	select { // the batch fails with "index closed"; a persisted-callback that is never invoked only delays runBatch's own return
	case <-bdone:
	case <-time.After(300 * time.Millisecond):
	}
	// the writer is closed, the reader is not: its file-backed segments must still be open
	minref := int64(1 << 30)
	for _, x := range r.VerifSegmentRefs() {
		if x >= 0 && x < minref {
			minref = x
		}
	}
	if need == 0 {
		minref = 1
	}
	c.mu.Lock()
	open := c.loads - c.closes
	c.recordLocked(fmt.Sprintf("readerheld %d open=%d need=%d minref=%d", rid, open, need, minref))
	c.mu.Unlock()
	q := "skipped"
	if open >= need && minref >= 1 {
		q = hlib.Catch(func() string {
			if _, err := r.Count(); err != nil {
				return "err"
			}
			return "ok"
		})
	}
	c.record(fmt.Sprintf("readerquery %d %s", rid, q))
	c.mu.Lock()
	delete(c.readers, rid)
	c.recordLocked(fmt.Sprintf("rclose %d", rid))
	c.mu.Unlock()
	_ = r.Close()
	c.mu.Lock()
	c.recordLocked(fmt.Sprintf("readerclosed %d open=%d dbl=%d", rid, c.loads-c.closes, c.dblClose))
	c.mu.Unlock()
	st.Count("closemidpersist:done")
	// reopen: the batch that was inside the persister is gone; the numbering continues from what was recovered
	if c.open() == "ok" {
		c.mu.Lock()
		k := 0
		if c.loadedAny {
			k = c.epochK[c.lastLoaded]
		}
		c.applied = k
		if k < len(c.specs) {
			c.specs = c.specs[:k]
		}
		c.mu.Unlock()
	}
}

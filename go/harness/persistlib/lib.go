// Package persistlib is the shared correspondence harness of C02 (durability) and C11 (deletion
// policy, handles, lock): the stream `dirtrace`.
//
// A generated batch history is run against a REAL index.Writer on a REAL FileSystemDirectory
// (a fresh directory under -work per case) that is wrapped by a recording Directory and a
// recording DeletionPolicy; the verif trace hook (index.SetVerifTrace) adds the root swaps, the
// persister's grab and the return of persistSnapshot. Everything lands in ONE sequence (one
// mutex), each entry together with the directory as it really is at that instant (ReadDir +
// parse of every snapshot file). The entries are the model op lines the Lean driver replays
// through `Bluge.Persist.step`.
package persistlib

import (
	"bytes"
	"context"
	"encoding/binary"
	"fmt"
	"hash/crc32"
	"io"
	"os"
	"os/exec"
	"path/filepath"
	"runtime"
	"sort"
	"strconv"
	"strings"
	"sync"
	"time"

	"github.com/blugelabs/bluge"
	"github.com/blugelabs/bluge/index"
	"github.com/blugelabs/bluge/index/mergeplan"
	segment "github.com/blugelabs/bluge_segment_api"

	"verif/harness/hlib"
)

// Mode selects what a harness (c02 / c11) adds to the common stream.
type Mode struct {
	Name    string
	Images  bool // materialise crash images and open them in a child process (C02)
	Readers int  // weight of reader open/close and second-writer operations (C11 uses more)
	Recover bool // C03/C14 (recover.go): every record keeps its crash image, nothing is flushed before the end of a lifetime
	Faults  bool // C14 (faults.go): AsyncError calls are recorded, a fault-injecting Directory sits under the recording one
}

// ---------------------------------------------------------------- snapshot file format (index/snapshot.go)

// ParseSnapshot decodes a .snp file: (segment ids, ok). ok=false for anything torn.
func ParseSnapshot(b []byte) ([]uint64, bool) {
	if len(b) < 4 {
		return nil, false
	}
	body, crc := b[:len(b)-4], binary.BigEndian.Uint32(b[len(b)-4:])
	if crc32.ChecksumIEEE(body) != crc {
		return nil, false
	}
	p := 0
	uv := func() (uint64, bool) {
		v, n := binary.Uvarint(body[p:])
		if n <= 0 {
			return 0, false
		}
		p += n
		return v, true
	}
	ver, ok := uv()
	if !ok || ver != 1 {
		return nil, false
	}
	n, ok := uv()
	if !ok || n > 1<<20 {
		return nil, false
	}
	ids := make([]uint64, 0, n)
	for i := uint64(0); i < n; i++ {
		l, ok := uv()
		if !ok || p+int(l)+4 > len(body) {
			return nil, false
		}
		p += int(l) + 4
		id, ok := uv()
		if !ok {
			return nil, false
		}
		dl, ok := uv()
		if !ok || p+int(dl) > len(body) {
			return nil, false
		}
		p += int(dl)
		ids = append(ids, id)
	}
	if p != len(body) {
		return nil, false
	}
	return ids, true
}

func fileName(kind string, id uint64) string { return fmt.Sprintf("%012x", id) + kind }

func ids(xs []uint64) string {
	if len(xs) == 0 {
		return "-"
	}
	s := make([]string, len(xs))
	for i, x := range xs {
		s[i] = strconv.FormatUint(x, 10)
	}
	return strings.Join(s, ",")
}

func ints(xs []int) string {
	if len(xs) == 0 {
		return "-"
	}
	s := make([]string, len(xs))
	for i, x := range xs {
		s[i] = strconv.Itoa(x)
	}
	return strings.Join(s, ",")
}

// ---------------------------------------------------------------- one recorded entry

type image struct {
	files    map[string][]byte // complete files at this instant
	inflight map[string][]byte // files whose Persist has not returned (full intended content)
	prev     map[string][]byte // Recover: what the file of an in-flight name held when its Persist began (absent: no entry)
	junk     map[string][]byte // Recover: torn files left in the directory by an earlier crash
}

type rec struct {
	op    string
	state string
	img   *image
	spec  *batchSpec // Recover: the batch an `intro` record introduced
	c     int        // … and its index
}

type batchSpec struct {
	tok  int
	cb   bool
	dels []int // markers (tokens) deleted by this batch
	keys []int // keyed documents updated by this batch
}

type caseRun struct {
	mode   Mode
	tier   string
	dir    string
	work   string
	n      int
	unsafe bool
	merge  int
	jit    int
	rng    *hlib.Rand
	rngMu  sync.Mutex

	mu      sync.Mutex // orders the record; held across Remove and across every directory listing
	log     []rec
	flushed int

	w          *index.Writer
	opening    bool
	closing    bool
	files      map[string][]byte
	inflight   map[string][]byte
	obsCommits []uint64 // Commit calls seen while OpenWriter runs

	rootSegs   []uint64
	isFile     map[uint64]bool
	epochK     map[uint64]int
	applied    int
	grabSegs   []uint64
	jobDirFail bool // a Persist of the persister's own job failed since the last grab

	introSem chan struct{}
	curSpec  *batchSpec
	curIntro chan int
	tokC     map[int]int
	specs    []batchSpec // by c-1
	acked    map[int]bool

	readers  map[int]*index.Snapshot
	loads    int
	closes   int
	dblClose int
	imgSeq   int
	imgEvery int

	// Recover / Faults (recover.go, faults.go)
	prev           map[string][]byte // previous content of the in-flight names
	junk           map[string][]byte // torn leftovers of an earlier crash that are still in the directory
	lastLoaded     uint64            // epoch of the last snapshot loadSnapshots made the root
	loadedAny      bool
	wrapDir        func(index.Directory) index.Directory // fault injector between the recording Directory and the file system
	cfgHook        func(*index.Config)
	asyncErrs      int
	lt             *lifetime
	mergeSeg       map[uint64]bool // segment ids whose Persist is a merge's (for the fault injector's categories)
	jobErrInjected bool            // Faults: an operation of the persister's current job failed by injection (its error is not ErrClosed)

	// closerace (closerace.go)
	gate             *persistGate         // holds the persister inside one Persist of its own job
	forceImage       bool                 // every record keeps its crash image while set
	live             []interface{}        // crashreopen (crashreopen.go): the recording Directory/Policy objects of the open writer
	dead             map[interface{}]bool // … and those (and the writers) abandoned by a simulated crash: they record nothing any more
	gen              int                  // incremented by a simulated crash
	lastGrabX        uint64               // acknowledgements taken by the persister's latest grab
	csGate           *closeStartGate      // closetwice scenario
	relNotObs        int                  // acknowledgements released by the persister whose observation (Batch return / callback) is not recorded yet
	hgen             int                  // handle generation: bumped when a writer is abandoned (simulated crash, callers left blocked)
	closeErrArmed    bool                 // closeerr scenario: Load closers close, then report an error
	closeErrInjected int
	sgate            *statsGate // skipmerge scenario: holds the persister in Directory.Stats()
	persisterGoid    uint64     // goroutine of the latest grab
	nblocked         int        // Batch calls that did not return within their bound (their goroutines pin a root: handles cannot balance)
}

var current *caseRun
var traceOnce sync.Once

func installTrace() {
	traceOnce.Do(func() {
		index.SetVerifTrace(func(w *index.Writer, kind string, snap *index.Snapshot, x uint64) {
			c := current
			if c == nil {
				return
			}
			c.traceFrom(w, kind, snap, x)
		})
	})
}

func (c *caseRun) jitter() {
	if c.jit == 0 {
		return
	}
	c.rngMu.Lock()
	k := c.rng.Intn(100)
	d := c.rng.Intn(c.jit*300 + 1)
	c.rngMu.Unlock()
	switch {
	case k < 40:
	case k < 70:
		runtime.Gosched()
	default:
		time.Sleep(time.Duration(d) * time.Microsecond)
	}
}

// stateLocked renders the directory as it is NOW (c.mu held).
func (c *caseRun) stateLocked() string {
	ents, _ := os.ReadDir(c.dir)
	var snaps, segs []string
	type kv struct {
		id uint64
		s  string
	}
	var sn, sg []kv
	for _, e := range ents {
		name := e.Name()
		ext := filepath.Ext(name)
		if ext != ".snp" && ext != ".seg" {
			continue
		}
		if _, fl := c.inflight[name]; fl {
			continue
		}
		id, err := strconv.ParseUint(strings.TrimSuffix(name, ext), 16, 64)
		if err != nil {
			continue
		}
		if ext == ".snp" {
			b, _ := os.ReadFile(filepath.Join(c.dir, name))
			if sids, ok := ParseSnapshot(b); ok {
				sn = append(sn, kv{id, fmt.Sprintf("%d:c:%s", id, ids(sids))})
			} else {
				sn = append(sn, kv{id, fmt.Sprintf("%d:t", id)})
			}
		} else {
			want, known := c.files[name]
			fi, err := e.Info()
			if known && err == nil && fi.Size() == int64(len(want)) {
				sg = append(sg, kv{id, fmt.Sprintf("%d:c", id)})
			} else {
				sg = append(sg, kv{id, fmt.Sprintf("%d:t", id)})
			}
		}
	}
	for name := range c.inflight {
		ext := filepath.Ext(name)
		id, _ := strconv.ParseUint(strings.TrimSuffix(name, ext), 16, 64)
		if ext == ".snp" {
			sn = append(sn, kv{id, fmt.Sprintf("%d:t", id)})
		} else {
			sg = append(sg, kv{id, fmt.Sprintf("%d:t", id)})
		}
	}
	sort.Slice(sn, func(i, j int) bool { return sn[i].id < sn[j].id })
	sort.Slice(sg, func(i, j int) bool { return sg[i].id < sg[j].id })
	for _, x := range sn {
		snaps = append(snaps, x.s)
	}
	for _, x := range sg {
		segs = append(segs, x.s)
	}
	return "S[" + strings.Join(snaps, " ") + "] G[" + strings.Join(segs, " ") + "]"
}

func (c *caseRun) wantImage(op string) bool {
	if !c.mode.Images {
		return false
	}
	if c.mode.Recover || c.forceImage {
		return true
	}
	if c.tier == "thorough" {
		return true
	}
	c.imgSeq++
	switch strings.SplitN(op, " ", 2)[0] {
	case "snapbegin", "ackobs", "rmsnap", "rmseg", "snapend", "commit":
		return c.imgSeq%3 == 0
	}
	return c.imgSeq%c.imgEvery == 0
}

// recordLocked appends an entry (c.mu held).
func (c *caseRun) recordLocked(op string) {
	r := rec{op: op, state: c.stateLocked()}
	if c.wantImage(op) {
		im := &image{files: map[string][]byte{}, inflight: map[string][]byte{}}
		for k, v := range c.files {
			im.files[k] = v
		}
		for k, v := range c.inflight {
			im.inflight[k] = v
		}
		if c.mode.Recover {
			im.junk = map[string][]byte{}
			for k, v := range c.junk {
				im.junk[k] = v
			}
			im.prev = map[string][]byte{}
			for k := range c.inflight {
				if v, ok := c.prev[k]; ok {
					im.prev[k] = v
				}
			}
		}
		r.img = im
	}
	c.log = append(c.log, r)
}

func (c *caseRun) record(op string) {
	c.mu.Lock()
	c.recordLocked(op)
	c.mu.Unlock()
}

// ---------------------------------------------------------------- trace hook (called under rootLock for root/grab)

func snapIDs(s *index.Snapshot) []uint64 {
	ss := s.Segments()
	out := make([]uint64, len(ss))
	for i, x := range ss {
		out[i] = x.ID()
	}
	return out
}

func diff(a, b []uint64) []uint64 { // a \ b, order of a
	m := map[uint64]bool{}
	for _, x := range b {
		m[x] = true
	}
	var out []uint64
	for _, x := range a {
		if !m[x] {
			out = append(out, x)
		}
	}
	return out
}

func (c *caseRun) trace(kind string, snap *index.Snapshot, x uint64) {
	c.mu.Lock()
	defer c.mu.Unlock()
	c.traceLocked(kind, snap, x)
}

func (c *caseRun) traceLocked(kind string, snap *index.Snapshot, x uint64) {
	switch kind {
	case "root":
		if snap == nil {
			return
		}
		e := snap.VerifEpoch()
		segs := snapIDs(snap)
		gone := diff(c.rootSegs, segs)
		added := diff(segs, c.rootSegs)
		creator := snap.VerifCreator()
		switch creator {
		case "introduceSegment":
			c.applied++
			c.epochK[e] = c.applied
			sp := c.curSpec
			tok, cb := -1, false
			if sp != nil {
				tok, cb = sp.tok, sp.cb
				c.tokC[tok] = c.applied
				c.specs = append(c.specs, *sp)
			} else {
				c.specs = append(c.specs, batchSpec{tok: -1})
			}
			c.rootSegs = segs
			safe := 0
			if !c.unsafe {
				safe = 1
			}
			cbi := 0
			if cb {
				cbi = 1
			}
			c.recordLocked(fmt.Sprintf("intro %d %s %s %d %d", e, ids(added), ids(gone), safe, cbi))
			if c.mode.Recover {
				last := &c.log[len(c.log)-1]
				spc := c.specs[len(c.specs)-1]
				last.spec, last.c = &spc, c.applied
			}
			if c.curIntro != nil {
				ch := c.curIntro
				c.curIntro, c.curSpec = nil, nil
				ch <- c.applied
			}
		case "introduceMerge":
			c.epochK[e] = c.applied
			c.rootSegs = segs
			for _, a := range added {
				c.isFile[a] = true
			}
			c.recordLocked(fmt.Sprintf("imerge %d %s %s", e, ids(gone), ids(added)))
		case "introducePersist":
			c.epochK[e] = c.applied
			c.rootSegs = segs
			c.recordLocked(fmt.Sprintf("ipersist %d", e))
		case "loadSnapshot":
			c.lastLoaded, c.loadedAny = e, true
			c.rootSegs = segs
			for _, a := range segs {
				c.isFile[a] = true
			}
		default:
			c.rootSegs = segs
			c.recordLocked(fmt.Sprintf("root-unknown %d %s", e, creator))
		}
	case "grab":
		c.grabSegs = snapIDs(snap)
		c.lastGrabX = x
		c.persisterGoid = goid()
		if c.gate != nil && c.gate.bindGrab {
			c.gate.goid = c.persisterGoid // the gate holds a Persist on the persister's goroutine only
		}
		c.jobDirFail = false
		c.jobErrInjected = false
		c.recordLocked(fmt.Sprintf("grab %d %d", snap.VerifEpoch(), x))
	case "persisted":
		if x == 0 {
			c.recordLocked(fmt.Sprintf("ack %d", snap.VerifEpoch()))
			c.relNotObs += int(c.lastGrabX) // released by the persister, not yet observed by the callers
		} else {
			cl := 0
			if c.closing && !c.jobErrInjected {
				cl = 1
			}
			if !c.jobDirFail {
				// persistSnapshot failed outside a directory write of its own (closeCh, Load, merge)
				c.recordLocked("fault persister")
			}
			c.recordLocked(fmt.Sprintf("pfail %d", cl))
		}
	}
}

// ---------------------------------------------------------------- recording Directory

type recDir struct {
	inner index.Directory // the real FileSystemDirectory (C14: under a fault injector)
	c     *caseRun
}

type bytesWriterTo []byte

func (b bytesWriterTo) WriteTo(w io.Writer, _ chan struct{}) (int64, error) {
	n, err := w.Write(b)
	return int64(n), err
}

type countCloser struct {
	c     *caseRun
	inner io.Closer
	done  bool
	hgen  int // handle generation (skipmerge.go): closers of an abandoned writer are not counted
}

func (cc *countCloser) Close() error {
	cc.c.mu.Lock()
	if cc.hgen == cc.c.hgen {
		if cc.done {
			cc.c.dblClose++
		} else {
			cc.done = true
			cc.c.closes++
		}
	}
	inject := cc.c.closeErrArmed
	if inject {
		cc.c.closeErrInjected++
	}
	cc.c.mu.Unlock()
	var err error
	if cc.inner != nil {
		err = cc.inner.Close()
	}
	if inject && err == nil {
		// the handle really is closed; the error is reported afterwards (closeerr scenario)
		err = fmt.Errorf("verif: injected closer error")
	}
	return err
}

func (d *recDir) Setup(ro bool) error                { return d.inner.Setup(ro) }
func (d *recDir) List(kind string) ([]uint64, error) { return d.inner.List(kind) }
func (d *recDir) Stats() (uint64, uint64) {
	d.c.statsGateWait(d)
	return d.inner.Stats()
}
func (d *recDir) Sync() error { return d.inner.Sync() }
func (d *recDir) Load(kind string, id uint64) (*segment.Data, io.Closer, error) {
	if d.c.isDead(d) {
		return d.inner.Load(kind, id)
	}
	d.c.jitter()
	data, cl, err := d.inner.Load(kind, id)
	if err != nil {
		return data, cl, err
	}
	d.c.mu.Lock()
	d.c.loads++
	d.c.mu.Unlock()
	return data, &countCloser{c: d.c, inner: cl, hgen: d.c.hgen}, nil
}

func (d *recDir) Lock() error {
	err := d.inner.Lock()
	if err == nil {
		d.c.mu.Lock()
		d.c.opening = true
		d.c.obsCommits = nil
		d.c.recordLocked("open")
		d.c.mu.Unlock()
	}
	return err
}

func (d *recDir) Unlock() error { return d.inner.Unlock() }

func b2i(b bool) int {
	if b {
		return 1
	}
	return 0
}

func (d *recDir) Persist(kind string, id uint64, w index.WriterTo, closeCh chan struct{}) error {
	c := d.c
	if c.isDead(d) {
		return d.inner.Persist(kind, id, w, closeCh)
	}
	var buf bytes.Buffer
	_, werr := w.WriteTo(&buf, closeCh)
	content := buf.Bytes()
	name := fileName(kind, id)
	_, isMerge := w.(interface{ DocumentNumbers() [][]uint64 })
	c.mu.Lock()
	if c.deadLocked(d) {
		c.mu.Unlock()
		if werr != nil {
			return werr
		}
		return d.inner.Persist(kind, id, bytesWriterTo(content), closeCh)
	}
	if c.mode.Recover {
		if old, err := os.ReadFile(filepath.Join(c.dir, name)); err == nil {
			c.prev[name] = old
		} else {
			delete(c.prev, name)
		}
		delete(c.junk, name)
	}
	if kind == index.ItemKindSnapshot {
		var segs []uint64
		if s, ok := w.(*index.Snapshot); ok {
			segs = snapIDs(s)
			if s.VerifCreator() == "persistSnapshotMaybeMerge" {
				nw := diff(segs, c.grabSegs)
				c.recordLocked("equiv " + ids(nw))
			}
		}
		c.inflight[name] = content
		c.recordLocked(fmt.Sprintf("snapbegin %d %d %s", id, c.epochK[id], ids(segs)))
	} else {
		c.inflight[name] = content
		if isMerge && c.mergeSeg != nil {
			c.mergeSeg[id] = true
		}
		if isMerge {
			c.recordLocked(fmt.Sprintf("msegbegin %d", id))
		} else {
			c.recordLocked(fmt.Sprintf("segbegin %d", id))
		}
	}
	c.mu.Unlock()
	c.jitter()
	c.gateWait(kind, isMerge)
	if c.isDead(d) { // the "process" died while this Persist was in flight
		if werr != nil {
			return werr
		}
		return d.inner.Persist(kind, id, bytesWriterTo(content), closeCh)
	}
	err := werr
	if err == nil {
		err = d.inner.Persist(kind, id, bytesWriterTo(content), closeCh)
	}
	exact := false
	var onDisk []byte
	if err == nil {
		onDisk, _ = os.ReadFile(filepath.Join(c.dir, name))
		exact = bytes.Equal(onDisk, content)
	}
	c.jitter()
	c.mu.Lock()
	if c.deadLocked(d) { // died while the file was in flight: nothing of this writer is recorded any more
		c.mu.Unlock()
		return err
	}
	delete(c.inflight, name)
	if err == nil {
		c.files[name] = onDisk
	} else {
		delete(c.files, name)
	}
	if err != nil && !isMerge {
		c.jobDirFail = true
	}
	switch {
	case kind == index.ItemKindSnapshot:
		c.recordLocked(fmt.Sprintf("snapend %d %d %d", id, b2i(err == nil), b2i(exact)))
	case isMerge:
		c.recordLocked(fmt.Sprintf("msegend %d %d %d", id, b2i(err == nil), b2i(exact)))
	default:
		c.recordLocked(fmt.Sprintf("segend %d %d %d", id, b2i(err == nil), b2i(exact)))
	}
	c.mu.Unlock()
	return err
}

func (d *recDir) Remove(kind string, id uint64) error {
	c := d.c
	if c.isDead(d) {
		return d.inner.Remove(kind, id)
	}
	c.jitter()
	c.mu.Lock()
	defer c.mu.Unlock()
	if c.deadLocked(d) {
		return d.inner.Remove(kind, id)
	}
	err := d.inner.Remove(kind, id)
	name := fileName(kind, id)
	if err == nil {
		delete(c.files, name)
		delete(c.junk, name)
	}
	held := 0
	if kind == index.ItemKindSegment {
		for _, r := range c.readers {
			for _, sid := range snapIDs(r) {
				if sid == id {
					held = 1
				}
			}
		}
		c.recordLocked(fmt.Sprintf("rmseg %d %d held=%d", id, b2i(err == nil), held))
	} else {
		c.recordLocked(fmt.Sprintf("rmsnap %d %d", id, b2i(err == nil)))
	}
	return err
}

// ---------------------------------------------------------------- recording DeletionPolicy

type recPolicy struct {
	inner index.DeletionPolicy
	c     *caseRun
}

func (p *recPolicy) Commit(s *index.Snapshot) {
	c := p.c
	if c.isDead(p) {
		p.inner.Commit(s)
		return
	}
	c.mu.Lock()
	if c.deadLocked(p) {
		c.mu.Unlock()
		p.inner.Commit(s)
		return
	}
	if c.opening {
		c.obsCommits = append(c.obsCommits, s.VerifEpoch())
	} else {
		c.recordLocked(fmt.Sprintf("commit %d %s", s.VerifEpoch(), ids(snapIDs(s))))
	}
	c.mu.Unlock()
	p.inner.Commit(s)
}

func (p *recPolicy) Cleanup(d index.Directory) error { return p.inner.Cleanup(d) }

// ---------------------------------------------------------------- running a case

func (c *caseRun) config() index.Config {
	cfg := bluge.DefaultConfig(c.dir).VerifIndexConfig()
	cfg.DirectoryFunc = func() index.Directory {
		var inner index.Directory = index.NewFileSystemDirectory(c.dir)
		if c.wrapDir != nil {
			inner = c.wrapDir(inner)
		}
		rd := &recDir{inner: inner, c: c}
		c.addLive(rd)
		return rd
	}
	n := c.n
	cfg.DeletionPolicyFunc = func() index.DeletionPolicy {
		rp := &recPolicy{inner: index.NewKeepNLatestDeletionPolicy(n), c: c}
		c.addLive(rp)
		return rp
	}
	cfg.UnsafeBatch = c.unsafe
	if c.merge > 0 {
		cfg.MergePlanOptions = mergeplan.Options{
			MaxSegmentsPerTier:   c.merge,
			MaxSegmentSize:       1 << 30,
			TierGrowth:           2.0,
			SegmentsPerMergeTask: 2 + c.merge%2,
			FloorSegmentSize:     1,
			ReclaimDeletesWeight: 2.0,
		}
	}
	cfg.AsyncError = func(err error) {}
	if c.mode.Faults {
		cfg.AsyncError = func(err error) {
			c.mu.Lock()
			c.asyncErrs++
			kind := "persister"
			if strings.Contains(err.Error(), "merging err") {
				kind = "merger"
			}
			c.recordLocked("asyncerr " + kind)
			c.mu.Unlock()
		}
	}
	cfg.EventCallback = c.eventHook // closetwice.go: parks the first Close at EventKindCloseStart when armed
	if c.cfgHook != nil {
		c.cfgHook(&cfg)
	}
	return cfg
}

func (c *caseRun) open() string {
	w, err := index.OpenWriter(c.config())
	c.mu.Lock()
	c.opening = false
	obs := c.obsCommits
	c.mu.Unlock()
	if err != nil {
		c.record("openfail")
		return "err"
	}
	c.w = w
	c.record("opened " + ids(obs))
	return "ok"
}

func (c *caseRun) closeWriter() {
	if c.w == nil {
		return
	}
	c.mu.Lock()
	c.closing = true
	c.mu.Unlock()
	err := c.w.Close()
	c.w = nil
	c.mu.Lock()
	c.closing = false
	c.rootSegs = nil
	c.recordLocked(fmt.Sprintf("close %d", b2i(err == nil)))
	c.mu.Unlock()
}

func marker(tok int) string { return "m" + strconv.Itoa(tok) }
func keyed(k int) string    { return "u" + strconv.Itoa(k) }

func (c *caseRun) runBatch(sp batchSpec, wg *sync.WaitGroup) {
	defer wg.Done()
	if c.w == nil {
		return
	}
	b := index.NewBatch()
	if sp.tok > 0 { // tok 0: a batch without its own marker document (deletes / updates only)
		d := bluge.NewDocument(marker(sp.tok)).AddField(bluge.NewKeywordField("tok", strconv.Itoa(sp.tok)).StoreValue())
		b.Insert(d)
	}
	for _, t := range sp.dels {
		b.Delete(bluge.Identifier(marker(t)))
	}
	for _, k := range sp.keys {
		id := keyed(k)
		b.Update(bluge.Identifier(id), bluge.NewDocument(id).AddField(bluge.NewKeywordField("tok", strconv.Itoa(sp.tok)).StoreValue()))
	}
	ccReady := make(chan struct{})
	var myC int // valid after ccReady is closed; -1 = never introduced
	cbDone := make(chan struct{})
	if sp.cb {
		b.SetPersistedCallback(func(err error) {
			<-ccReady
			c.mu.Lock()
			if err == nil {
				c.acked[myC] = true
				c.recordLocked(fmt.Sprintf("ackobs %d", myC))
				c.relNotObs--
			} else {
				c.recordLocked(fmt.Sprintf("nackobs %d", myC))
			}
			c.mu.Unlock()
			close(cbDone)
		})
	}
	// one batch at a time between "submitted" and "root swapped": this gives the batch its index c
	c.introSem <- struct{}{}
	spc := sp
	intro := make(chan int, 1)
	c.mu.Lock()
	c.curSpec, c.curIntro = &spc, intro
	c.mu.Unlock()
	go func() {
		myC = <-intro
		<-c.introSem
		close(ccReady)
	}()
	err := c.w.Batch(b)
	c.mu.Lock()
	if c.curIntro == intro { // the batch failed before its introduction: free the slot
		c.curIntro, c.curSpec = nil, nil
		intro <- -1
	}
	c.mu.Unlock()
	<-ccReady
	if myC < 0 {
		return
	}
	if !c.unsafe {
		c.mu.Lock()
		if err == nil {
			c.acked[myC] = true
			c.recordLocked(fmt.Sprintf("ackobs %d", myC))
			c.relNotObs--
		} else {
			c.recordLocked(fmt.Sprintf("nackobs %d", myC))
		}
		c.mu.Unlock()
	}
	if sp.cb {
		select {
		case <-cbDone:
		case <-time.After(3 * time.Second):
		}
	}
}

func parseSpec(s string) batchSpec {
	// tok/cb/dels/keys   with "-" for empty lists
	p := strings.Split(s, "/")
	sp := batchSpec{}
	sp.tok, _ = strconv.Atoi(p[0])
	if len(p) > 1 {
		sp.cb = p[1] == "1"
	}
	lst := func(x string) []int {
		if x == "-" || x == "" {
			return nil
		}
		var out []int
		for _, y := range strings.Split(x, ",") {
			v, _ := strconv.Atoi(y)
			out = append(out, v)
		}
		return out
	}
	if len(p) > 2 {
		sp.dels = lst(p[2])
	}
	if len(p) > 3 {
		sp.keys = lst(p[3])
	}
	return sp
}

func (sp batchSpec) String() string {
	return fmt.Sprintf("%d/%d/%s/%s", sp.tok, b2i(sp.cb), ints(sp.dels), ints(sp.keys))
}

// expected set of marker tokens after the first k batches (in introduction order)
func (c *caseRun) expectAfter(k int) map[int]bool {
	m := map[int]bool{}
	for i := 0; i < k && i < len(c.specs); i++ {
		sp := c.specs[i]
		if sp.tok > 0 {
			m[sp.tok] = true
		}
		for _, d := range sp.dels {
			delete(m, d)
		}
	}
	return m
}

// ---------------------------------------------------------------- crash images

type variant struct {
	name  string
	files map[string][]byte
}

func cuts(n int) []int {
	set := map[int]bool{}
	pts := []int{0, 1, 2, n / 2, n - 5, n - 4, n - 3, n - 1}
	if os.Getenv("VERIF_TIER") != "thorough" {
		pts = []int{0, 1, n / 2, n - 5, n - 4, n - 1}
	}
	for _, x := range pts {
		if x >= 0 && x < n {
			set[x] = true
		}
	}
	var out []int
	for x := range set {
		out = append(out, x)
	}
	sort.Ints(out)
	return out
}

func (c *caseRun) variants(im *image) []variant {
	base := func() map[string][]byte {
		m := map[string][]byte{}
		for k, v := range im.files {
			m[k] = v
		}
		return m
	}
	if len(im.inflight) == 0 {
		return []variant{{"asis", base()}}
	}
	var out []variant
	out = append(out, variant{"absent", base()})
	names := make([]string, 0, len(im.inflight))
	for n := range im.inflight {
		names = append(names, n)
	}
	sort.Strings(names)
	for _, n := range names {
		full := im.inflight[n]
		cs := cuts(len(full))
		if filepath.Ext(n) == ".seg" && c.tier != "thorough" {
			cs = []int{len(full) / 2}
		}
		for _, k := range cs {
			m := base()
			// the other in-flight files as half-written prefixes
			for _, o := range names {
				if o != n {
					m[o] = im.inflight[o][:len(im.inflight[o])/2]
				}
			}
			m[n] = full[:k]
			out = append(out, variant{fmt.Sprintf("prefix:%s:%d/%d", n, k, len(full)), m})
		}
		m := base()
		m[n] = make([]byte, len(full))
		out = append(out, variant{fmt.Sprintf("zero:%s:%d", n, len(full)), m})
	}
	return out
}

type imgJob struct {
	recIdx int
	name   string
	dir    string
	result string
}

// runChildren opens every image directory with the real bluge.OpenReader in child processes.
func runChildren(jobs []*imgJob) {
	exe, _ := os.Executable()
	pending := jobs
	chunk := 64
	for len(pending) > 0 {
		n := chunk
		if n > len(pending) {
			n = len(pending)
		}
		part := pending[:n]
		args := []string{"child"}
		for _, j := range part {
			args = append(args, j.dir)
		}
		cmd := exec.Command(exe, args...)
		var ob bytes.Buffer
		cmd.Stdout = &ob
		cmd.Stderr = io.Discard
		done := make(chan error, 1)
		_ = cmd.Start()
		go func() { done <- cmd.Wait() }()
		select {
		case <-done:
		case <-time.After(60 * time.Second):
			_ = cmd.Process.Kill()
			<-done
		}
		lines := strings.Split(strings.TrimSpace(ob.String()), "\n")
		got := 0
		for _, ln := range lines {
			if !strings.HasPrefix(ln, "R ") {
				continue
			}
			if got < len(part) {
				part[got].result = strings.TrimPrefix(ln, "R ")
				got++
			}
		}
		if got < len(part) {
			// the child died on image `got`
			if n == 1 {
				part[0].result = "fault"
				got = 1
			} else {
				// re-run the culprit alone, then continue after it
				runChildren(part[got : got+1])
				got++
			}
		}
		pending = pending[got:]
	}
}

// ChildMain: `child dir…` prints "R ok tok,tok,…" | "R err" per directory.
func ChildMain(dirs []string) {
	for _, d := range dirs {
		fmt.Println("R " + openImage(d))
	}
}

func openImage(dir string) string {
	r, err := bluge.OpenReader(bluge.DefaultConfig(dir))
	if err != nil {
		return "err"
	}
	defer r.Close()
	it, err := r.Search(context.Background(), bluge.NewAllMatches(bluge.NewMatchAllQuery()))
	if err != nil {
		return "err:search"
	}
	var toks []int
	for {
		m, err := it.Next()
		if err != nil {
			return "err:next"
		}
		if m == nil {
			break
		}
		_ = m.VisitStoredFields(func(field string, value []byte) bool {
			if field == "_id" && len(value) > 1 && value[0] == 'm' {
				t, _ := strconv.Atoi(string(value[1:]))
				toks = append(toks, t)
			}
			return true
		})
	}
	sort.Ints(toks)
	return "ok " + ints(toks)
}

// recOf turns a child's answer into "rec=<k>" using the batch history of the case.
func (c *caseRun) recOf(result string) string {
	switch {
	case result == "fault":
		return "rec=fault"
	case strings.HasPrefix(result, "err"):
		return "rec=none"
	case result == "":
		return "rec=fault"
	}
	lst := strings.TrimPrefix(result, "ok ")
	found := map[int]bool{}
	if lst != "-" {
		for _, x := range strings.Split(lst, ",") {
			v, _ := strconv.Atoi(x)
			found[v] = true
		}
	}
	c.mu.Lock()
	defer c.mu.Unlock()
	for k := len(c.specs); k >= 0; k-- {
		exp := c.expectAfter(k)
		if len(exp) != len(found) {
			continue
		}
		same := true
		for t := range exp {
			if !found[t] {
				same = false
				break
			}
		}
		if same {
			return "rec=" + strconv.Itoa(k)
		}
	}
	return "rec=!" + lst
}

// flush emits every entry recorded so far; crash images of the sampled entries are opened first.
func (c *caseRun) flush(out func(string, string), st *hlib.Stats) {
	c.mu.Lock()
	recs := append([]rec(nil), c.log[c.flushed:]...)
	base := c.flushed
	c.flushed = len(c.log)
	c.mu.Unlock()
	var jobs []*imgJob
	if c.mode.Images {
		for i, r := range recs {
			if r.img == nil {
				continue
			}
			for vi, v := range c.variants(r.img) {
				d := filepath.Join(c.work, "img", fmt.Sprintf("%d_%d", base+i, vi))
				_ = os.RemoveAll(d)
				_ = os.MkdirAll(d, 0o755)
				for n, b := range v.files {
					_ = os.WriteFile(filepath.Join(d, n), b, 0o644)
				}
				jobs = append(jobs, &imgJob{recIdx: i, name: v.name, dir: d})
			}
		}
		runChildren(jobs)
	}
	ji := 0
	for i, r := range recs {
		out(r.op, r.state)
		st.Evaluations++
		w := strings.SplitN(r.op, " ", 2)[0]
		st.Count("op:" + w)
		for ji < len(jobs) && jobs[ji].recIdx == i {
			j := jobs[ji]
			res := c.recOf(j.result)
			out("image "+j.name, res)
			st.Evaluations++
			st.Count("op:image")
			st.Count("img:" + strings.SplitN(j.name, ":", 2)[0])
			if strings.HasPrefix(res, "rec=fault") {
				st.Count("res:image-child-fault")
			}
			_ = os.RemoveAll(j.dir)
			ji++
		}
	}
}

// ---------------------------------------------------------------- hlib.Harness

type H struct {
	Mode Mode
	cur  *caseRun
	seq  int
}

func (h *H) Rule() string {
	return "generated batch histories (each batch inserts its marker document, deletes older markers, updates a small key space; sequential and concurrent submission; safe mode, and unsafe mode with persisted callbacks) run against a real index.Writer on a real FileSystemDirectory wrapped by a recording Directory/DeletionPolicy; retention N in {1,2,3}; small merge-plan options so that file merges and in-memory merges happen; readers opened and closed along the way; second writers against a live one; close and reopen. One evaluation = one recorded protocol event (with the real directory listing after it) or one crash image opened by the real OpenReader in a child process; a case is non-trivial when its trace contains a commit and distinct by its event-kind sequence"
}

func (h *H) Gen(r *hlib.Rand, tier string, scale int, emit func(string)) {
	cases := 12 * scale
	if !h.Mode.Images {
		cases = 30 * scale
	}
	if tier == "thorough" {
		if h.Mode.Images {
			cases *= 5 // every recorded entry gets its crash images in this tier
		} else {
			cases *= 12
		}
	}
	tok := 0
	for ci := 0; ci < cases; ci++ {
		n := 1 + ci%3
		unsafe := ci%4 == 3
		merge := []int{2, 0, 3, 2}[r.Intn(4)]
		if ci%5 == 0 {
			merge = 2
		}
		jit := r.Intn(4)
		emit(fmt.Sprintf("case %d n=%d unsafe=%d merge=%d jit=%d seed=%d", ci, n, b2i(unsafe), merge, jit, r.Intn(1<<30)))
		var live []int
		mk := func() string {
			tok++
			sp := batchSpec{tok: tok, cb: unsafe || r.Chance(30)}
			for len(live) > 0 && r.Chance(35) {
				i := r.Intn(len(live))
				sp.dels = append(sp.dels, live[i])
				live = append(live[:i], live[i+1:]...)
			}
			for r.Chance(40) {
				sp.keys = append(sp.keys, r.Intn(4))
			}
			live = append(live, tok)
			return sp.String()
		}
		steps := r.Range(8, 16)
		if tier == "thorough" {
			steps = r.Range(10, 30)
		}
		var ops []string
		for s := 0; s < steps; s++ {
			switch r.Weighted(40, 25, 6+h.Mode.Readers, 3+h.Mode.Readers/2, 2, 4) {
			case 0:
				ops = append(ops, "b "+mk())
			case 1:
				k := r.Range(2, 4)
				var ps []string
				for i := 0; i < k; i++ {
					ps = append(ps, mk())
				}
				ops = append(ops, "par "+strings.Join(ps, " "))
			case 2:
				ops = append(ops, "ropen")
			case 3:
				ops = append(ops, "second")
			case 4:
				ops = append(ops, "reopen")
			case 5:
				ops = append(ops, "wait")
			}
		}
		// structure: every case family is reached whatever the dice say
		ins := func(op string, lo int) {
			at := lo + r.Intn(len(ops)-lo+1)
			ops = append(ops[:at], append([]string{op}, ops[at:]...)...)
		}
		if ci%2 == 0 {
			ins("reopen", len(ops)/2) // reopen over existing snapshots, then more batches
			ops = append(ops, "b "+mk(), "par "+mk()+" "+mk())
		}
		if ci%3 == 1 || h.Mode.Readers > 0 {
			ins("ropen", 1)
			ins("second", 1)
		}
		{
			// crash while a snapshot Persist is in flight (the newest snapshot file torn), reopen on the crash image
			v := []string{"cut:0", "cut:1", "cut:half", "cut:crc", "cut:last", "zero"}[r.Intn(6)]
			ins("crashreopen "+v+" "+mk(), 3)
			ops = append(ops, "b "+mk())
		}
		if unsafe {
			// the persister's in-memory merge of two batches is skipped: a third batch deleted every document in them
			tok++
			a := batchSpec{tok: tok, cb: true}
			tok++
			b := batchSpec{tok: tok, cb: true}
			tok++
			d := batchSpec{tok: tok, cb: true, dels: []int{a.tok, b.tok}}
			live = append(live, d.tok)
			ins("skipmerge "+a.String()+" "+b.String()+" "+d.String(), 2)
		}
		if ci%3 == 0 {
			ins("closemidpersist "+mk(), 4)
			ops = append(ops, "b "+mk())
		}
		if ci%3 == 2 {
			ins("closetwice", 3)
			ops = append(ops, "b "+mk())
		}
		if ci%2 == 1 {
			ins("closeerr", 3)
			ops = append(ops, "b "+mk())
		}
		if !unsafe {
			// Close() while one batch is inside the persister and 1–3 more are queued behind it
			k := r.Range(2, 4)
			cr := "closerace " + []string{"seg", "seg", "snp"}[r.Intn(3)]
			for i := 0; i < k; i++ {
				cr += " " + mk()
			}
			ins(cr, 2)
			ops = append(ops, "b "+mk())
		}
		// readers: each open reader is closed later with probability 2/3, the rest at the end of the case
		nrd := 0
		var openRd []int
		for _, op := range ops {
			switch op {
			case "ropen":
				nrd++
				openRd = append(openRd, nrd)
				emit(fmt.Sprintf("ropen %d", nrd))
			case "reopen":
				openRd = nil
				emit(op)
			default:
				if strings.HasPrefix(op, "closerace ") || strings.HasPrefix(op, "crashreopen ") || op == "closeerr" || op == "closetwice" || strings.HasPrefix(op, "closemidpersist ") {
					openRd = nil
				}
				emit(op)
			}
			if len(openRd) > 0 && r.Chance(25) {
				i := r.Intn(len(openRd))
				emit(fmt.Sprintf("rclose %d", openRd[i]))
				openRd = append(openRd[:i], openRd[i+1:]...)
			}
		}
		emit("end")
	}
}

func kvInt(fields []string, key string, def int) int {
	for _, f := range fields {
		if strings.HasPrefix(f, key+"=") {
			v, err := strconv.Atoi(strings.TrimPrefix(f, key+"="))
			if err == nil {
				return v
			}
		}
	}
	return def
}

func (h *H) teardown() {
	c := h.cur
	if c == nil {
		return
	}
	for id, r := range c.readers {
		_ = r.Close()
		delete(c.readers, id)
	}
	if c.w != nil {
		_ = c.w.Close()
		c.w = nil
	}
	current = nil
	_ = os.RemoveAll(c.work)
	h.cur = nil
}

func (h *H) Exec(line string, out func(string, string), st *hlib.Stats, work string) {
	installTrace()
	f := strings.Fields(line)
	if len(f) == 0 {
		return
	}
	if f[0] == "case" {
		h.teardown()
		h.seq++
		cw := filepath.Join(work, "run", fmt.Sprintf("%s_%d", h.Mode.Name, h.seq))
		_ = os.RemoveAll(cw)
		_ = os.MkdirAll(filepath.Join(cw, "idx"), 0o755)
		c := &caseRun{mode: h.Mode, tier: os.Getenv("VERIF_TIER"), dir: filepath.Join(cw, "idx"), work: cw,
			n: kvInt(f, "n", 1), unsafe: kvInt(f, "unsafe", 0) == 1, merge: kvInt(f, "merge", 2), jit: kvInt(f, "jit", 0),
			rng: hlib.NewRand(uint64(kvInt(f, "seed", 1))), files: map[string][]byte{}, inflight: map[string][]byte{},
			isFile: map[uint64]bool{}, epochK: map[uint64]int{}, introSem: make(chan struct{}, 1), tokC: map[int]int{}, prev: map[string][]byte{}, junk: map[string][]byte{},
			acked: map[int]bool{}, readers: map[int]*index.Snapshot{}, imgEvery: 8}
		h.cur = c
		current = c
		out(fmt.Sprintf("case %s n=%d", f[1], c.n), "case")
		c.open()
		c.flush(out, st)
		return
	}
	c := h.cur
	if c == nil {
		return
	}
	switch f[0] {
	case "b", "par":
		var wg sync.WaitGroup
		for _, s := range f[1:] {
			wg.Add(1)
			sp := parseSpec(s)
			if f[0] == "par" {
				go c.runBatch(sp, &wg)
			} else {
				c.runBatch(sp, &wg)
			}
		}
		wg.Wait()
	case "ropen":
		if c.w != nil {
			id, _ := strconv.Atoi(f[1])
			r, err := c.w.Reader()
			if err == nil && r != nil {
				c.mu.Lock()
				c.readers[id] = r
				var fs []uint64
				for _, s := range snapIDs(r) {
					if _, ok := c.files[fileName(index.ItemKindSegment, s)]; ok {
						fs = append(fs, s)
					}
				}
				c.recordLocked(fmt.Sprintf("ropen %d %d %s", id, c.epochK[r.VerifEpoch()], ids(fs)))
				c.mu.Unlock()
			}
		}
	case "rclose":
		id, _ := strconv.Atoi(f[1])
		c.mu.Lock()
		r := c.readers[id]
		delete(c.readers, id)
		if r != nil {
			c.recordLocked(fmt.Sprintf("rclose %d", id))
		}
		c.mu.Unlock()
		if r != nil {
			_ = r.Close()
		}
	case "wait":
		time.Sleep(time.Duration(2+c.jit*3) * time.Millisecond)
	case "second":
		c.mu.Lock()
		before := c.stateLocked()
		c.mu.Unlock()
		w2, err := index.OpenWriter(index.DefaultConfig(c.dir))
		res := "refused"
		if err == nil {
			res = "opened"
			_ = w2.Close()
		}
		c.mu.Lock()
		after := c.stateLocked()
		_ = before
		_ = after
		c.recordLocked("second " + res)
		c.mu.Unlock()
	case "skipmerge":
		// skipmerge specA specB specD : the persister's in-memory merge of A+B is skipped because D deleted everything in them
		if len(f) > 3 {
			st.Count("op:skipmerge")
			c.skipMerge(parseSpec(f[1]), parseSpec(f[2]), parseSpec(f[3]), st)
		}
	case "closemidpersist":
		// Close() while the persister is between its segment Persist and the persist introduction, a reader of that root open
		if len(f) > 1 {
			st.Count("op:closemidpersist")
			c.closeMidPersist(parseSpec(f[1]), st)
		}
	case "closetwice":
		// two goroutines close the same writer, the first parked inside close()
		st.Count("op:closetwice")
		c.closeTwice(st)
	case "closeerr":
		// close the writer while every Load closer reports an error after closing; the directory must open again at once
		st.Count("op:closeerr")
		c.closeWithCloserErrors(st)
	case "crashreopen":
		// crashreopen <variant> spec : crash with the NEWEST snapshot file torn, reopen a writer on the crash image
		if len(f) > 2 {
			st.Count("op:crashreopen")
			c.crashReopen(f[1], parseSpec(f[2]), st)
		}
	case "closerace":
		// closerace seg|snp spec spec [spec…]
		kind := index.ItemKindSegment
		if len(f) > 1 && f[1] == "snp" {
			kind = index.ItemKindSnapshot
		}
		var sps []batchSpec
		for _, s := range f[2:] {
			sps = append(sps, parseSpec(s))
		}
		st.Count("op:closerace")
		c.closeRace(kind, sps, st)
	case "reopen":
		for id, r := range c.readers {
			c.mu.Lock()
			delete(c.readers, id)
			c.recordLocked(fmt.Sprintf("rclose %d", id))
			c.mu.Unlock()
			_ = r.Close()
		}
		c.closeWriter()
		c.open()
	case "end":
		ids := make([]int, 0, len(c.readers))
		for id := range c.readers {
			ids = append(ids, id)
		}
		sort.Ints(ids)
		for _, id := range ids {
			r := c.readers[id]
			c.mu.Lock()
			delete(c.readers, id)
			c.recordLocked(fmt.Sprintf("rclose %d", id))
			c.mu.Unlock()
			_ = r.Close()
		}
		c.closeWriter()
		// lock released: the directory can be reopened at once
		w3, err := index.OpenWriter(index.DefaultConfig(c.dir))
		re := "reopened"
		if err != nil {
			re = "locked"
		} else {
			_ = w3.Close()
		}
		c.mu.Lock()
		var ak []int
		for a := range c.acked {
			ak = append(ak, a)
		}
		sort.Ints(ak)
		ncommit := 0
		var kinds []string
		for _, r := range c.log {
			k := strings.SplitN(r.op, " ", 2)[0]
			if k == "commit" {
				ncommit++
			}
			kinds = append(kinds, k[:1]+k[len(k)-1:])
		}
		fin := fmt.Sprintf("acked=%s handles=%d/%d/%d", ints(ak), c.loads, c.closes, c.dblClose)
		if c.nblocked > 0 {
			fin += fmt.Sprintf(" blocked=%d", c.nblocked)
		}
		c.log = append(c.log, rec{op: "final " + re, state: fin})
		c.mu.Unlock()
		c.flush(out, st)
		st.Case(strings.Join(kinds, ""), ncommit > 0)
		h.teardown()
		return
	}
	c.flush(out, st)
}
